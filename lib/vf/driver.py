"""Verdict rule of DESIGN.md section 1.1, shared by every property."""
import importlib
import json
import os
import sys
import time
import traceback

from vf import core
from vf.core import Rng


def load_plugin(pid):
    return importlib.import_module("props." + pid.lower())


class Run:
    def __init__(self, pid, tier, seed):
        self.pid, self.tier, self.seed = pid, tier, seed
        self.P = load_plugin(pid)
        self.log = []
        self.t0 = time.time()
        # runs against a scratch worktree (VERIF_REPO) keep their files apart from runs against /repo
        self.alt = os.path.realpath(core.REPO) != "/repo"
        self.wd = os.path.join(core.BUILD, pid + ("_alt_%s" % os.environ.get("VERIF_ALT_TAG", str(os.getpid())) if self.alt else ""))
        os.makedirs(self.wd, exist_ok=True)
        self.checker_cmds = []
        self.binp = None
        self.harness_err = ""
        self.eval_err = ""

    # ---------------------------------------------------------------- proof side
    def proofs(self):
        P = self.P
        t0 = time.time()
        ok, failing, text = core.build_coq(self.log)
        self.log.append("coq make %.1fs" % (time.time() - t0))
        self.coq_ok, self.coq_failing, self.coq_text = ok, failing, text
        self.checker_cmds.append("cd /verif/coq && coq_makefile -f _CoqProject theories/*.v -o Makefile && make -k -j16")
        self.forbidden = core.scan_forbidden()
        ass = core.print_assumptions(self.pid, P.PROPS_MODULE, P.THEOREMS, self.wd)
        self.checker_cmds.append("coqc assump_%s.v  (Print Assumptions of each theorem below)" % self.pid)
        self.assumptions = ass
        self.discharged = []
        self.undischarged = []
        for t in P.THEOREMS:
            ax = ass.get(t)
            if ax is None:
                self.undischarged.append((t, "not available (does not compile or is missing)"))
            elif any(a not in core.AXIOM_WHITELIST for a in ax):
                self.undischarged.append((t, "depends on non-whitelisted axioms: %s" % [a for a in ax if a not in core.AXIOM_WHITELIST]))
            else:
                self.discharged.append(t)
        self.model_ok = all(core.vo_exists(m) for m in P.MODULES)
        self.proof_ok = (not self.undischarged) and (not self.forbidden)
        if self.tier == "thorough" and getattr(P, "COQCHK", True):
            self.coqchk = run_coqchk(P.PROPS_MODULE.split()[0], self.log)
            if self.coqchk.get("ok") is False:
                self.proof_ok = False
                self.undischarged.append(("coqchk", self.coqchk.get("tail", "")))
        else:
            self.coqchk = None

    # ---------------------------------------------------------------- implementation side
    def build(self):
        self.binp, self.harness_err = core.build_harness(self.pid, self.log, self.wd)

    def execute(self, cases):
        """Run real code + model/spec evaluation. Returns list of dict(case, obs, row) or None."""
        P = self.P
        gocases = [P.go_case(c) if hasattr(P, "go_case") else c for c in cases]
        env = dict(os.environ)
        env.update(getattr(P, "HARNESS_ENV", {}))
        t0 = time.time()
        obs = core.run_harness(self.binp, gocases, env=env, chunk=getattr(P, "HARNESS_CHUNK", None),
                               timeout=getattr(P, "HARNESS_TIMEOUT", 1500))
        t1 = time.time()
        terms = [P.coq_case(c, o) for c, o in zip(cases, obs)]
        rows, cmds, err = core.eval_in_coq(self.pid, P.MODULES, P.EVAL, terms, self.wd,
                                           shard=getattr(P, "COQ_SHARD", 300))
        self.log.append("executed %d cases: harness %.1fs, coq evaluation %.1fs" % (len(cases), t1 - t0, time.time() - t1))
        for c in cmds[:2]:
            if c not in self.checker_cmds:
                self.checker_cmds.append(c)
        if rows is None:
            self.eval_err = err
            return None
        return [dict(case=c, obs=o, row=r) for c, o, r in zip(cases, obs, rows)]

    def failed_clauses(self, row):
        names = self.P.CLAUSES
        return [names[i] if i < len(names) else "clause%d" % i for i, v in enumerate(row) if not v]


def run_coqchk(module, log):
    h = core.coq_hash()
    cache = os.path.join(core.BUILD, "coqchk_%s_%s.json" % (module, h[:16]))
    if os.path.exists(cache):
        return json.load(open(cache))
    t0 = time.time()
    with core.Lock(".coqlock"):
        rc, out = core.sh(["timeout", "3000", "coqchk", "-silent", "-o", "-Q", "theories", "KG", "KG." + module],
                          cwd=core.COQ, timeout=3100)
    text = out.decode(errors="replace")
    res = {"ok": rc == 0, "rc": rc, "wall_s": round(time.time() - t0, 1), "tail": text[-4000:],
           "cmd": "coqchk -silent -o -Q theories KG KG." + module}
    json.dump(res, open(cache, "w"))
    log.append("coqchk %s rc=%d" % (module, rc))
    return res


def split_known(run, results):
    """Partition spec-violating cases into (known, unknown)."""
    known_entries = [k for k in core.load_known() if k.get("property") == run.pid and k.get("status", "open") == "open"]
    known, unknown = [], []
    for r in results:
        failed = [c for c in run.failed_clauses(r["row"]) if c != "agree"]
        if not failed:
            continue
        hit = None
        for k in known_entries:
            try:
                if run.P.known_match(k, r["case"], r["obs"], failed):
                    hit = k
                    break
            except Exception:
                pass
        (known if hit else unknown).append((r, failed, hit))
    return known, unknown


def shrink(run, item, budget=60):
    """Greedy shrink of a violating case using the plugin's shrink candidates."""
    P = run.P
    if not hasattr(P, "shrink"):
        return item
    r, failed, _ = item
    cur = r
    steps = 0
    improved = True
    while improved and steps < budget:
        improved = False
        cands = list(P.shrink(cur["case"]))[:40]
        if not cands:
            break
        steps += len(cands)
        try:
            res = run.execute(cands)
        except Exception:
            break
        if not res:
            break
        _, unknown = split_known(run, res)
        if unknown:
            cur = unknown[0][0]
            failed = unknown[0][1]
            improved = True
    return (cur, failed, None)


def write_replay(run, kind, items, note=""):
    os.makedirs(os.path.join(core.BUILD, "replays"), exist_ok=True)
    path = os.path.join(core.BUILD, "replays", "%s_%s_seed%d_%d.json" % (run.pid, kind, run.seed, int(time.time())))
    doc = {"property": run.pid, "seed": run.seed, "tier": run.tier, "kind": kind, "note": note, "cases": []}
    for it in items:
        if isinstance(it, tuple):
            r, failed, _ = it
            doc["cases"].append({"case": r["case"], "obs": r["obs"], "failed_clauses": failed})
        else:
            doc["cases"].append(it)
    json.dump(doc, open(path, "w"), indent=1, default=str)
    return path


def evidence(run, results, known, unknown, disagreements, verdict, extra=None):
    P = run.P
    results = results or []
    keys = set()
    dist = {}
    for r in results:
        try:
            k = P.nontrivial_key(r["case"], r["obs"])
        except Exception:
            k = None
        if k is not None:
            keys.add(k)
        if hasattr(P, "stats"):
            try:
                for lab in P.stats(r["case"], r["obs"]):
                    dist[lab] = dist.get(lab, 0) + 1
            except Exception:
                pass
    samples = []
    for r in results[:1] + results[len(results) // 2: len(results) // 2 + 1] + results[-1:]:
        samples.append({"case": r["case"], "observed": r["obs"],
                        "clauses": dict(zip(P.CLAUSES, r["row"]))})
    tb = list(getattr(P, "TRUSTED_BASE", []))
    for t in P.THEOREMS:
        ax = run.assumptions.get(t) if hasattr(run, "assumptions") else None
        tb.append("Print Assumptions %s: %s" % (t, "not available" if ax is None else
                                                ("Closed under the global context" if not ax else ", ".join(ax))))
    cov = {
        "obligations": len(P.THEOREMS),
        "discharged": len(getattr(run, "discharged", [])),
        "checker_cmd": " ; ".join(run.checker_cmds),
        "trusted_base": tb,
        "theorems": P.THEOREMS,
        "undischarged": [list(x) for x in getattr(run, "undischarged", [])],
        "forbidden_constructs_found": getattr(run, "forbidden", []),
        "evaluations": len(results),
        "distinct_nontrivial": len(keys),
        "rule": P.RULE,
        "samples": samples or [{"note": "no case was executed in this run"}],
        "traces_validated_against_impl": sum(1 for r in results if r["row"] and r["row"][0]),
        "disagreements_model_vs_impl": len(disagreements),
        "input_distribution": dist,
        "known_findings_hit": sorted({k[2]["id"] for k in known}) if known else [],
        "verdict": verdict,
        "log": run.log,
    }
    if run.coqchk:
        cov["coqchk"] = run.coqchk
    if extra:
        cov.update(extra)
    doc = {
        "property_id": run.pid,
        "tier": run.tier,
        "seed": run.seed,
        "level": "proof",
        "coverage": cov,
        "assumptions": list(getattr(P, "ASSUMPTIONS", [])),
        "wall_s": round(time.time() - run.t0, 2),
        "violations": len(unknown),
    }
    evdir = os.path.join(core.BUILD, "alt_evidence") if run.alt else os.path.join(core.VERIF, "evidence")
    os.makedirs(evdir, exist_ok=True)
    json.dump(doc, open(os.path.join(evdir, run.pid + ".json"), "w"), indent=1, default=str)


def gen_cases(P, seed, tier, scale=1):
    rng = Rng(seed)
    cases = list(P.corpus()) if hasattr(P, "corpus") else []
    cases += P.generate(rng, tier, scale)
    return cases


def check(pid, tier, seed):
    run = Run(pid, tier, seed)
    P = run.P
    run.proofs()
    run.build()
    results, known, unknown, disagreements = [], [], [], []
    broken = []  # reasons why the property is "no longer shown to hold"
    if not run.proof_ok:
        for t, why in run.undischarged:
            broken.append("theorem %s: %s" % (t, why))
        for f in run.forbidden:
            broken.append("forbidden construct: %s" % f)
    if run.binp is None:
        broken.append("correspondence harness does not build against /repo: " + run.harness_err[-1500:])
    if not run.model_ok:
        broken.append("model modules do not compile: %s" % run.coq_failing)
    can_run = run.binp is not None and run.model_ok
    if can_run:
        try:
            cases = gen_cases(P, seed, tier)
            results = run.execute(cases)
            if results is None:
                broken.append("case evaluation failed: " + run.eval_err[:1500] + " ... " + run.eval_err[-1500:])
                results = []
        except Exception as e:
            broken.append("harness run failed: %s" % e)
            run.log.append(traceback.format_exc()[-1500:])
            results = []
        known, unknown = split_known(run, results)
        disagreements = [r for r in results if not r["row"][0]]
        if disagreements:
            d = disagreements[0]
            broken.append("correspondence: model and implementation disagree on %d case(s), first: %s" %
                          (len(disagreements), json.dumps(d["case"])[:600]))
        # intensified search when something is broken but no failing input yet
        if broken and not unknown and results is not None and can_run:
            try:
                extra = []
                if hasattr(P, "neighbours"):
                    rng = Rng(seed + 7919)
                    for d in disagreements[:20]:
                        extra += list(P.neighbours(d["case"], rng))[:30]
                for k in range(1, 4):
                    extra += P.generate(Rng(seed + 1000 * k), tier, 3)
                res2 = run.execute(extra) or []
                results += res2
                k2, u2 = split_known(run, res2)
                known += k2
                unknown += u2
                run.log.append("intensified search: %d extra cases, %d violating" % (len(extra), len(u2)))
            except Exception as e:
                run.log.append("intensified search failed: %s" % e)
    seen = set()
    for r, failed, k in known:
        if k["id"] not in seen:
            seen.add(k["id"])
            print("KNOWN-FINDING: property=%s %s" % (pid, k.get("what", k["id"])))
    rc = 0
    if unknown:
        item = shrink(run, unknown[0])
        path = write_replay(run, "failing-input", [item] + unknown[:5],
                            note="first entry is the shrunk failing case; clauses that failed are listed per case")
        print("failed clauses: %s" % item[1])
        print("VIOLATION property=%s replay=%s" % (pid, path))
        verdict = "violation"
        rc = 1
    elif broken:
        path = write_replay(run, "broken-obligation", [{"broken": b} for b in broken] +
                            [{"case": d["case"], "obs": d["obs"], "failed_clauses": ["agree"]} for d in disagreements[:5]],
                            note="no failing input found; these obligations / correspondence cases no longer check")
        for b in broken[:6]:
            print("BROKEN: " + b[:800])
        print("VIOLATION property=%s replay=%s no-failing-input-found" % (pid, path))
        verdict = "broken-no-failing-input"
        rc = 1
    else:
        verdict = "holds"
    evidence(run, results, known, unknown, disagreements, verdict)
    print("%s %s tier=%s seed=%d cases=%d theorems=%d/%d wall=%.1fs" %
          (pid, verdict, tier, seed, len(results or []), len(run.discharged), len(P.THEOREMS), time.time() - run.t0))
    return rc


def replay(pid, path):
    run = Run(pid, "quick", 0)
    doc = json.load(open(path))
    cases = [c["case"] for c in doc.get("cases", []) if "case" in c]
    run.proofs()
    run.build()
    if doc.get("kind") == "broken-obligation" and not cases:
        for c in doc.get("cases", []):
            print("recorded: %s" % json.dumps(c)[:500])
        print("replay: obligations discharged now: %d/%d; harness builds: %s" %
              (len(run.discharged), len(run.P.THEOREMS), run.binp is not None))
        return 0 if (run.proof_ok and run.binp) else 1
    if run.binp is None or not run.model_ok:
        print("replay impossible: harness or model does not build\n" + run.harness_err[-1500:])
        return 1
    results = run.execute(cases) or []
    rc = 0
    for r in results:
        failed = run.failed_clauses(r["row"])
        print(json.dumps({"case": r["case"], "observed": r["obs"], "failed_clauses": failed})[:4000])
        if failed:
            rc = 1
    print("replay: %d case(s), %s" % (len(results), "FAILS" if rc else "passes"))
    return rc


def main(argv):
    import argparse
    ap = argparse.ArgumentParser()
    ap.add_argument("pid")
    ap.add_argument("--tier", default=os.environ.get("VERIF_TIER", "quick"))
    ap.add_argument("--replay")
    a = ap.parse_args(argv)
    seed = int(os.environ.get("VERIF_SEED", "1") or 1)
    pid = a.pid.upper()
    if a.replay:
        return replay(pid, a.replay)
    tier = a.tier if a.tier in ("quick", "thorough") else "quick"
    return check(pid, tier, seed)
