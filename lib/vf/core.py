"""Core of the /verif check driver.

One run of `bin/check Cnn`:
  1. build the Coq development (make, full .vo), collect Print Assumptions of the
     property's theorems, scan for forbidden constructs;
  2. build the property's Go harness from /repo's working tree (go build -overlay);
  3. generate cases (corpus first, then seeded streams), run the real code on them;
  4. write cases_k.v files carrying the inputs and the real observations, and let
     coqc evaluate, per case, `eval : case -> list bool` = [agree; spec clauses...];
  5. verdict + evidence + replay file (DESIGN.md section 1.1).
"""
import fcntl
import hashlib
import json
import os
import re
import subprocess
import sys
import time
from concurrent.futures import ThreadPoolExecutor

VERIF = os.path.dirname(os.path.dirname(os.path.dirname(os.path.abspath(__file__))))
REPO = os.environ.get("VERIF_REPO", "/repo")
BUILD = os.path.join(VERIF, "build")
COQ = os.path.join(VERIF, "coq")
GOENV = dict(os.environ, GOFLAGS="-mod=mod", GOPROXY="off", GOSUMDB="off", GOTOOLCHAIN="local",
             CGO_ENABLED="0")

AXIOM_WHITELIST = {
    # standard-library axioms (named in DESIGN.md section 7); nothing declared by this development
    "Classical_Prop.classic",
    "FunctionalExtensionality.functional_extensionality_dep",
    "ClassicalDedekindReals.sig_forall_dec",
    "ClassicalDedekindReals.sig_not_dec",
    "Eqdep.Eq_rect_eq.eq_rect_eq",
    "ProofIrrelevance.proof_irrelevance",
    "JMeq.JMeq_eq",
}

FORBIDDEN = re.compile(
    r"\b(Admitted|admit|Axiom|Axioms|Parameter|Parameters|Conjecture|Admit Obligations|bypass_check|"
    r"Unset Guard Checking|Unset Positivity Checking|Unset Universe Checking|type-in-type|impredicative-set)\b")


# ----------------------------------------------------------------------------- PRNG
class Rng:
    """splitmix64: every random choice of a run derives from VERIF_SEED."""

    def __init__(self, seed):
        self.s = (seed * 0x9E3779B97F4A7C15 + 0x1234567) & 0xFFFFFFFFFFFFFFFF

    def next(self):
        self.s = (self.s + 0x9E3779B97F4A7C15) & 0xFFFFFFFFFFFFFFFF
        z = self.s
        z = ((z ^ (z >> 30)) * 0xBF58476D1CE4E5B9) & 0xFFFFFFFFFFFFFFFF
        z = ((z ^ (z >> 27)) * 0x94D049BB133111EB) & 0xFFFFFFFFFFFFFFFF
        return z ^ (z >> 31)

    def below(self, n):
        return self.next() % n if n > 0 else 0

    def randint(self, a, b):
        return a + self.below(b - a + 1)

    def choice(self, seq):
        return seq[self.below(len(seq))]

    def chance(self, num, den):
        return self.below(den) < num

    def sample(self, seq, k):
        seq = list(seq)
        out = []
        for _ in range(min(k, len(seq))):
            out.append(seq.pop(self.below(len(seq))))
        return out

    def shuffle(self, seq):
        seq = list(seq)
        for i in range(len(seq) - 1, 0, -1):
            j = self.below(i + 1)
            seq[i], seq[j] = seq[j], seq[i]
        return seq

    def fork(self):
        return Rng(self.next())


# ----------------------------------------------------------------------------- Coq term printing
def to_bytes(x):
    if isinstance(x, bytes):
        return x
    if isinstance(x, str):
        return x.encode("utf-8")
    return bytes(x)  # list of ints


def B(x):
    """JSON form of a byte string for the Go side."""
    return list(to_bytes(x))


def cstr(x):
    b = to_bytes(x)
    if all(32 <= c < 127 and c != 34 for c in b):
        return '"' + b.decode("ascii") + '"'
    return "(bs [" + "; ".join(str(c) for c in b) + "]%N)"


def cZ(n):
    return "(%d)" % n if n < 0 else "%d" % n


def cbool(b):
    return "true" if b else "false"


def clist(items):
    return "[" + "; ".join(items) + "]"


def copt(x, f=lambda v: v):
    return "None" if x is None else "(Some %s)" % f(x)


def cpair(a, b):
    return "(%s, %s)" % (a, b)


# ----------------------------------------------------------------------------- locking / subprocess
class Lock:
    def __init__(self, name=".lock"):
        os.makedirs(BUILD, exist_ok=True)
        self.path = os.path.join(BUILD, name)

    def __enter__(self):
        self.f = open(self.path, "w")
        fcntl.flock(self.f, fcntl.LOCK_EX)
        return self

    def __exit__(self, *a):
        fcntl.flock(self.f, fcntl.LOCK_UN)
        self.f.close()


def sh(cmd, cwd=None, env=None, timeout=1800, inp=None):
    p = subprocess.run(cmd, cwd=cwd, env=env, input=inp, stdout=subprocess.PIPE, stderr=subprocess.STDOUT,
                       timeout=timeout)
    return p.returncode, p.stdout


# ----------------------------------------------------------------------------- Coq build
def coq_sources(all_files=False):
    """All .v files of the development; with VERIF_COQ_ONLY=C05,C14 (used while several
    properties are being developed at once) only Prelude.v and the files of those properties."""
    d = os.path.join(COQ, "theories")
    files = sorted(f for f in os.listdir(d) if f.endswith(".v"))
    only = os.environ.get("VERIF_COQ_ONLY", "")
    if only and not all_files:
        keep = set(x.strip().upper() for x in only.split(",") if x.strip())
        files = [f for f in files if f == "Prelude.v" or f.split("_")[0].upper() in keep
                 or f[:-2].upper() in keep]
    return files


def coq_hash():
    h = hashlib.sha256()
    for f in coq_sources() + ["../_CoqProject"]:
        with open(os.path.join(COQ, "theories", f), "rb") as fh:
            h.update(f.encode() + b"\0" + fh.read())
    return h.hexdigest()


def build_coq(log):
    """Full .vo build of the development (incremental via make). Returns (ok, failing_files, output)."""
    with Lock(".coqlock"):
        srcs = ["theories/" + f for f in coq_sources()]
        rc, out = sh(["coq_makefile", "-f", "_CoqProject"] + srcs + ["-o", "Makefile"], cwd=COQ, timeout=120)
        if rc != 0:
            return False, ["coq_makefile"], out.decode(errors="replace")
        rc, out = sh(["timeout", "3000", "make", "-k", "-j16"], cwd=COQ, timeout=3100)
        text = out.decode(errors="replace")
        failing = re.findall(r"\[Makefile:\d+: (theories/\S+)\.vo\] Error", text)
        log.append("coq make rc=%d failing=%s" % (rc, failing))
        return rc == 0, failing, text


def scan_forbidden():
    bad = []
    d = os.path.join(COQ, "theories")
    for f in coq_sources():
        src = open(os.path.join(d, f)).read()
        src = re.sub(r"\(\*.*?\*\)", "", src, flags=re.S)
        for m in FORBIDDEN.finditer(src):
            bad.append("%s: %s" % (f, m.group(0)))
    return bad


def vo_exists(mod):
    return os.path.exists(os.path.join(COQ, "theories", mod + ".vo"))


def print_assumptions(pid, module, theorems, workdir):
    """Run coqc on a tiny file printing the assumptions of each theorem.
    Returns dict name -> list of axioms (or None if the theorem is not available)."""
    res = {t: None for t in theorems}
    # `module` may name several modules separated by blanks (a property citing a theorem of another one)
    if not all(vo_exists(m) for m in module.split()):
        return res
    src = "From KG Require Import %s.\n" % module
    for t in theorems:
        src += 'Goal True. idtac "@@BEGIN %s". exact I. Qed.\nPrint Assumptions %s.\n' % (t, t)
    path = os.path.join(workdir, "assump_%s.v" % pid)
    open(path, "w").write(src)
    rc, out = sh(["timeout", "300", "coqc", "-Q", os.path.join(COQ, "theories"), "KG", path], cwd=workdir)
    text = out.decode(errors="replace")
    if rc != 0:
        # find which theorems are missing: evaluate one at a time
        for t in theorems:
            one = "From KG Require Import %s.\nPrint Assumptions %s.\n" % (module, t)
            p1 = os.path.join(workdir, "assump_one.v")
            open(p1, "w").write(one)
            rc1, o1 = sh(["timeout", "300", "coqc", "-Q", os.path.join(COQ, "theories"), "KG", p1], cwd=workdir)
            if rc1 == 0:
                res[t] = parse_axioms(o1.decode(errors="replace"))
        return res
    parts = text.split("@@BEGIN ")
    for part in parts[1:]:
        name, _, rest = part.partition("\n")
        res[name.strip()] = parse_axioms(rest)
    return res


def parse_axioms(text):
    if "Closed under the global context" in text:
        return []
    axioms = []
    seen = False
    for line in text.splitlines():
        if line.startswith("Axioms:"):
            seen = True
            continue
        if seen:
            m = re.match(r"^([A-Za-z_][\w.']*)\s*:", line)
            if m:
                axioms.append(m.group(1))
            elif re.match(r"^([A-Za-z_][\w.']*)\s*$", line):
                axioms.append(line.strip())
    return axioms if seen else ["<unparsed>"]


# ----------------------------------------------------------------------------- Go harness build / run
def build_harness(pid, log, wd=None):
    """go build -overlay of harness/<pid> inside the kubegateway module. Returns (binpath|None, output)."""
    d = os.path.join(VERIF, "harness", pid.lower())
    ov = json.load(open(os.path.join(d, "overlay.json")))
    wd = wd or os.path.join(BUILD, pid)
    os.makedirs(wd, exist_ok=True)
    repl = {}
    for k, v in ov.items():
        if k.startswith("@instrument:"):
            continue
        repl[os.path.join(REPO, k)] = os.path.join(VERIF, v)
    # generated instrumentation (instrument.py), if the property asks for it
    instr = [k for k in ov if k.startswith("@instrument:")]
    if instr:
        from vf import instrument
        for k in instr:
            repl.update(instrument.generate(k[len("@instrument:"):], ov[k], wd, REPO))
    ovpath = os.path.join(wd, "overlay.json")
    json.dump({"Replace": repl}, open(ovpath, "w"), indent=1)
    binp = os.path.join(wd, "harness.bin")
    pkg = "./cmd/verif-%s" % pid.lower()
    t0 = time.time()
    rc, out = sh(["go", "build", "-tags", "verif", "-overlay", ovpath, "-o", binp, pkg], cwd=REPO, env=GOENV,
                 timeout=1500)
    log.append("go build %s rc=%d %.1fs" % (pkg, rc, time.time() - t0))
    if rc != 0:
        return None, out.decode(errors="replace")
    return binp, ""


def run_harness(binp, cases, timeout=900, env=None, chunk=None):
    """Feed cases to the harness; returns list of observations (same length)."""
    if not cases:
        return []
    chunks = [cases] if not chunk else [cases[i:i + chunk] for i in range(0, len(cases), chunk)]

    def one(cs):
        p = subprocess.run([binp], input=json.dumps({"cases": cs}).encode(), stdout=subprocess.PIPE,
                           stderr=subprocess.PIPE, timeout=timeout, env=env)
        if p.returncode != 0:
            raise RuntimeError("harness exit %d: %s" % (p.returncode, p.stderr.decode(errors="replace")[-2000:]))
        return json.loads(p.stdout)["obs"]

    if len(chunks) == 1:
        return one(chunks[0])
    with ThreadPoolExecutor(max_workers=8) as ex:
        outs = list(ex.map(one, chunks))
    return [o for part in outs for o in part]


# ----------------------------------------------------------------------------- evaluating cases in Coq
def eval_in_coq(pid, requires, evalfn, terms, workdir, shard=400, tag="cases"):
    """terms: list of Coq terms of the property's case type. Returns list of list-of-bool (or None on failure)
    plus the checker command lines."""
    os.makedirs(workdir, exist_ok=True)
    shards = [terms[i:i + shard] for i in range(0, len(terms), shard)]
    cmds = []

    def one(k):
        path = os.path.join(workdir, "%s_%d.v" % (tag, k))
        with open(path, "w") as f:
            f.write("From KG Require Import %s.\nOpen Scope Z_scope.\nOpen Scope string_scope.\n" % " ".join(requires))
            for i, t in enumerate(shards[k]):
                f.write("Definition c%d := %s.\n" % (i, t))
            f.write("Definition R := Eval vm_compute in map %s [%s].\nPrint R.\n" %
                    (evalfn, "; ".join("c%d" % i for i in range(len(shards[k])))))
        cmd = ["timeout", "1200", "coqc", "-Q", os.path.join(COQ, "theories"), "KG", path]
        rc, out = sh(cmd, cwd=workdir, timeout=1300)
        return rc, out.decode(errors="replace"), " ".join(cmd)

    with ThreadPoolExecutor(max_workers=12) as ex:
        results = list(ex.map(one, range(len(shards))))
    out = []
    for k, (rc, text, cmd) in enumerate(results):
        cmds.append(cmd)
        rows = parse_bool_rows(text) if rc == 0 else None
        if rows is None or len(rows) != len(shards[k]):
            # one retry: a shard killed or cut short by memory / CPU pressure is not a verdict
            rc, text, cmd = one(k)
            rows = parse_bool_rows(text) if rc == 0 else None
        if rc != 0:
            return None, cmds, "coqc failed on shard %d (rc=%d):\n%s\n...\n%s" % (k, rc, text[:1500], text[-2500:])
        if rows is None or len(rows) != len(shards[k]):
            return None, cmds, "cannot parse coqc output of shard %d:\n%s\n...\n%s" % (k, text[:1500], text[-2500:])
        out.extend(rows)
    return out, cmds, ""


def parse_bool_rows(text):
    m = re.search(r"R\s*=\s*(\[.*\])\s*:\s*list", text, flags=re.S)
    if not m:
        return None
    body = re.sub(r"\s+", "", m.group(1))
    body = body.replace("true", "1").replace("false", "0").replace(";", ",")
    try:
        rows = json.loads(body)
    except Exception:
        return None
    return [[bool(x) for x in r] for r in rows]


# ----------------------------------------------------------------------------- known findings
def load_known():
    p = os.path.join(VERIF, "KNOWN_FINDINGS.json")
    if not os.path.exists(p):
        return []
    return json.load(open(p)).get("findings", [])
