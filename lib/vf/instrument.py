"""Generated schedule-point instrumentation (DESIGN.md section 2.1, item 3).

Called by lib/vf/core.py:build_harness for overlay.json keys of the form

    "@instrument:<kind>[#tag]": <spec>          (spec: one dict or a list of dicts)

and returns {absolute path of the file to replace: generated file}.  The generated file is
derived from the CURRENT contents of the original on every build (textual rewriting), so any
edit / mutation of the original survives instrumentation.

kind "yield" — spec fields:
  file    "repo:<path inside the kubegateway tree>"  or  "mod:<module>@<version>/<path>" (module cache)
  funcs   list of regexes; only top-level funcs whose header line matches one are rewritten
          (default: every func)
  atomics (default true) every `atomic.X(args)` becomes `vX_<tag>("<Func>:X(args)", args)`: a same-package
          wrapper that first calls VerifYield(label) and then performs the real atomic operation
  locks   (default false) `E.Lock()/Unlock()/RLock()/RUnlock()` become virtual-mutex wrappers
          `vLock_<tag>("<Func>:E.Lock", &E)`: Lock = { yield; TryLock } repeated until it succeeds (a failed
          attempt is a stutter step), Unlock = { yield; Unlock } — the Go runtime never blocks behind
          the cooperative scheduler's back
  syncmaps list of regexes for receiver expressions that are sync.Map VALUES (e.g. "s\\.cluster\\.loadbalancer"):
          `E.Load(..)/Store/LoadOrStore/LoadAndDelete/Delete(..)` become `vMapLoad_<tag>("<Func>:E.Load", &E, ..)`:
          yield, then the (atomic) map operation — so check-then-act sequences on the map can be interleaved
  plain   list of {"context": regex, "expr": text, "type": go type}: inside a match of `context` the plain
          (racy) read `expr` becomes `vPlain_<tag>_<type>("<Func>:expr", &expr)` (yield, then the plain read)
  hook    (default true) define `var VerifYield func(label string)` in this file (set false for the
          second file of the same package)
  append  Go source appended verbatim (accessors for the harness; files ADDED to a module-cache package
          are ignored by -overlay, so they have to live in the replaced file)

The harness assigns `<pkg>.VerifYield = sched.Yield` (harness/common/sched.go).  With VerifYield == nil
every wrapper is the plain operation.
Label format: "<FuncName>:<Op>(<argument text>)", whitespace-normalised — independent of line numbers.
"""
import json
import os
import re
import subprocess

_MODCACHE = None


def modcache():
    global _MODCACHE
    if _MODCACHE is None:
        env = dict(os.environ, GOFLAGS="-mod=mod", GOPROXY="off", GOSUMDB="off", GOTOOLCHAIN="local")
        _MODCACHE = subprocess.run(["go", "env", "GOMODCACHE"], stdout=subprocess.PIPE, env=env,
                                   check=True).stdout.decode().strip()
    return _MODCACHE


def resolve(path, repo):
    if path.startswith("repo:"):
        return os.path.join(repo, path[5:])
    if path.startswith("mod:"):
        return os.path.join(modcache(), path[4:])
    return path


_ATOMIC_TYPES = {"Int32": "int32", "Int64": "int64", "Uint32": "uint32", "Uint64": "uint64", "Uintptr": "uintptr"}


def atomic_wrapper(name, tag):
    """Go source of the wrapper for sync/atomic function `name` (None if not supported)."""
    m = re.match(r"^(Load|Store|Add|Swap|CompareAndSwap)(Int32|Int64|Uint32|Uint64|Uintptr)$", name)
    if not m:
        return None
    op, ty = m.group(1), _ATOMIC_TYPES[m.group(2)]
    fn = "v%s_%s" % (name, tag)
    y = "\tif VerifYield != nil {\n\t\tVerifYield(label)\n\t}\n"
    if op == "Load":
        return "func %s(label string, p *%s) %s {\n%s\treturn atomic.%s(p)\n}\n" % (fn, ty, ty, y, name)
    if op == "Store":
        return "func %s(label string, p *%s, v %s) {\n%s\tatomic.%s(p, v)\n}\n" % (fn, ty, ty, y, name)
    if op in ("Add", "Swap"):
        return "func %s(label string, p *%s, v %s) %s {\n%s\treturn atomic.%s(p, v)\n}\n" % (fn, ty, ty, ty, y, name)
    return "func %s(label string, p *%s, o, n %s) bool {\n%s\treturn atomic.%s(p, o, n)\n}\n" % (fn, ty, ty, y, name)


def go_quote(s):
    return json.dumps(s)


def norm(s):
    return re.sub(r"\s+", " ", s).strip()


def split_funcs(src):
    """Split a Go file into chunks: ('text', s) and ('func', header_line, s).  A top-level func starts at a
    line beginning with 'func ' and ends at the first following line that is exactly '}'."""
    out = []
    lines = src.split("\n")
    i = 0
    buf = []
    while i < len(lines):
        ln = lines[i]
        if ln.startswith("func "):
            if buf:
                out.append(("text", "\n".join(buf) + "\n"))
                buf = []
            j = i
            if ln.rstrip().endswith("}") and ln.count("{") == ln.count("}") and "{" in ln:
                body = [ln]
            else:
                body = []
                while j < len(lines):
                    body.append(lines[j])
                    if lines[j] == "}":
                        break
                    j += 1
            out.append(("func", ln, "\n".join(body) + "\n"))
            i = j + 1
        else:
            buf.append(ln)
            i += 1
    if buf:
        out.append(("text", "\n".join(buf)))
    return out


def func_name(header):
    m = re.match(r"^func\s*(\([^)]*\))?\s*([A-Za-z_]\w*)", header)
    return m.group(2) if m else "?"


def match_paren(s, i):
    """s[i] == '(' -> index of the matching ')', skipping string/rune literals."""
    depth = 0
    j = i
    while j < len(s):
        c = s[j]
        if c in "\"`'":
            q = c
            j += 1
            while j < len(s) and s[j] != q:
                if s[j] == "\\" and q != "`":
                    j += 1
                j += 1
        elif c == "(":
            depth += 1
        elif c == ")":
            depth -= 1
            if depth == 0:
                return j
        j += 1
    raise ValueError("unbalanced parenthesis")


def rewrite_func(body, fname, tag, spec, used):
    # plain racy reads first (their replacement text contains no atomic./Lock patterns)
    for pl in spec.get("plain", []):
        ty = pl["type"]

        def sub_ctx(m, pl=pl, ty=ty):
            used["plain"].add(ty)
            call = "vPlain_%s_%s(%s, &%s)" % (tag, ty, go_quote("%s:%s" % (fname, pl["expr"])), pl["expr"])
            return m.group(0).replace(pl["expr"], call, 1)
        body = re.sub(pl["context"], sub_ctx, body)
    if spec.get("atomics", True):
        out = []
        i = 0
        for m in re.finditer(r"\batomic\.([A-Z]\w*)\(", body):
            if m.start() < i:
                continue
            name = m.group(1)
            if atomic_wrapper(name, tag) is None:
                continue
            close = match_paren(body, m.end() - 1)
            args = body[m.end():close]
            used["atomic"].add(name)
            out.append(body[i:m.start()])
            out.append("v%s_%s(%s, %s)" % (name, tag, go_quote("%s:%s(%s)" % (fname, name, norm(args))), args))
            i = close + 1
        out.append(body[i:])
        body = "".join(out)
    for rx in spec.get("syncmaps", []):
        def sub_map(m):
            expr, op = m.group(1), m.group(2)
            used["map"].add(op)
            return "vMap%s_%s(%s, &%s, " % (op, tag, go_quote("%s:%s.%s" % (fname, expr, op)), expr)
        body = re.sub(r"(%s)\.(LoadOrStore|LoadAndDelete|Load|Store|Delete)\(" % rx, sub_map, body)
    if spec.get("locks", False):
        def sub_lock(m):
            expr, op = m.group(1), m.group(2)
            used["lock"].add(op)
            return "v%s_%s(%s, &%s)" % (op, tag, go_quote("%s:%s.%s" % (fname, expr, op)), expr)
        body = re.sub(r"\b([A-Za-z_][\w.]*)\.(Lock|Unlock|RLock|RUnlock)\(\)", sub_lock, body)
    return body


_LOCK_SRC = {
    "Lock": "func vLock_%(t)s(label string, m interface {\n\tLock()\n\tTryLock() bool\n}) {\n\tif VerifYield == nil {\n\t\tm.Lock()\n\t\treturn\n\t}\n"
            "\tfor {\n\t\tVerifYield(label)\n\t\tif m.TryLock() {\n\t\t\treturn\n\t\t}\n\t}\n}\n",
    "RLock": "func vRLock_%(t)s(label string, m interface {\n\tRLock()\n\tTryRLock() bool\n}) {\n\tif VerifYield == nil {\n\t\tm.RLock()\n\t\treturn\n\t}\n"
             "\tfor {\n\t\tVerifYield(label)\n\t\tif m.TryRLock() {\n\t\t\treturn\n\t\t}\n\t}\n}\n",
    "Unlock": "func vUnlock_%(t)s(label string, m interface{ Unlock() }) {\n\tif VerifYield != nil {\n\t\tVerifYield(label)\n\t}\n\tm.Unlock()\n}\n",
    "RUnlock": "func vRUnlock_%(t)s(label string, m interface{ RUnlock() }) {\n\tif VerifYield != nil {\n\t\tVerifYield(label)\n\t}\n\tm.RUnlock()\n}\n",
}


_Y = "\tif VerifYield != nil {\n\t\tVerifYield(label)\n\t}\n"
_MAP_SRC = {
    "Load": "func vMapLoad_%(t)s(label string, m *sync.Map, k interface{}) (interface{}, bool) {\n" + _Y + "\treturn m.Load(k)\n}\n",
    "Store": "func vMapStore_%(t)s(label string, m *sync.Map, k, v interface{}) {\n" + _Y + "\tm.Store(k, v)\n}\n",
    "LoadOrStore": "func vMapLoadOrStore_%(t)s(label string, m *sync.Map, k, v interface{}) (interface{}, bool) {\n" + _Y +
                   "\treturn m.LoadOrStore(k, v)\n}\n",
    "LoadAndDelete": "func vMapLoadAndDelete_%(t)s(label string, m *sync.Map, k interface{}) (interface{}, bool) {\n" + _Y +
                     "\treturn m.LoadAndDelete(k)\n}\n",
    "Delete": "func vMapDelete_%(t)s(label string, m *sync.Map, k interface{}) {\n" + _Y + "\tm.Delete(k)\n}\n",
}


def instrument_source(src, spec, tag):
    used = {"atomic": set(), "plain": set(), "lock": set(), "map": set()}
    pats = [re.compile(p) for p in spec.get("funcs", [])]
    out = []
    for ch in split_funcs(src):
        if ch[0] == "text":
            out.append(ch[1])
            continue
        _, header, body = ch
        if pats and not any(p.search(header) for p in pats):
            out.append(body)
            continue
        out.append(rewrite_func(body, func_name(header), tag, spec, used))
    gen = ["\n// ---- generated by /verif/lib/vf/instrument.py (schedule points); not part of the original file ----\n"]
    if spec.get("hook", True):
        gen.append("// VerifYield, when set, is called before every instrumented shared access.\n"
                   "var VerifYield func(label string)\n")
    for name in sorted(used["atomic"]):
        gen.append(atomic_wrapper(name, tag))
    for ty in sorted(used["plain"]):
        gen.append("func vPlain_%s_%s(label string, p *%s) %s {\n\tif VerifYield != nil {\n\t\tVerifYield(label)\n\t}\n\treturn *p\n}\n"
                   % (tag, ty, ty, ty))
    for op in sorted(used["lock"]):
        gen.append(_LOCK_SRC[op] % {"t": tag})
    for op in sorted(used["map"]):
        gen.append(_MAP_SRC[op] % {"t": tag})
    if spec.get("append"):
        gen.append(spec["append"] if isinstance(spec["append"], str) else "\n".join(spec["append"]))
        gen.append("\n")
    return "".join(out) + "\n" + "\n".join(gen), used


def generate(kind, spec, workdir, repo):
    base = kind.split("#")[0]
    if base != "yield":
        raise ValueError("instrument: unknown kind %r" % kind)
    specs = spec if isinstance(spec, list) else [spec]
    outdir = os.path.join(workdir, "instr")
    os.makedirs(outdir, exist_ok=True)
    repl = {}
    for sp in specs:
        path = resolve(sp["file"], repo)
        tag = re.sub(r"\W", "_", os.path.splitext(os.path.basename(path))[0])
        # self-test hook: VERIF_INSTRUMENT_OVERRIDE="<original path>=<file to read instead>" instruments a
        # (mutated) copy in place of a module-cache file, which cannot be edited in a scratch worktree
        srcpath = path
        ov = os.environ.get("VERIF_INSTRUMENT_OVERRIDE", "")
        if ov and ov.split("=", 1)[0] == path:
            srcpath = ov.split("=", 1)[1]
        src = open(srcpath).read()
        gen, used = instrument_source(src, sp, tag)
        need = sp.get("require", [])
        for r in need:   # the instrumentation must have found the accesses the model talks about
            if not any(r in used[k] for k in used):
                raise ValueError("instrument: %s: expected access %s not found (file changed shape?)" % (path, r))
        out = os.path.join(outdir, tag + "_" + re.sub(r"\W", "_", kind) + ".go")
        open(out, "w").write(gen)
        repl[path] = out
    return repl


if __name__ == "__main__":
    import sys
    sp = json.loads(sys.argv[2])
    src = open(resolve(sp["file"], "/repo")).read()
    print(instrument_source(src, sp, sys.argv[1])[0])
