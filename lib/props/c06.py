"""C06 — local token bucket: admissions <= burst + qps*T, never stricter than configured."""
import os
import re

from vf import core
from vf.core import cZ, cbool, clist, cpair

PID = "C06"
MODULES = ["Prelude", "C06_Model", "C06_Spec", "C06_Check"]
PROPS_MODULE = "C06_Properties"
THEOREMS = ["C06_upper", "C06_upper_closed", "C06_upper_concurrent", "C06_spec_conc", "C06_upper_skew",
            "C06_stale_clock_refuted", "C06_upper_closed_strict_refuted",
            "C06_lower_tokens", "C06_lower", "C06_fresh", "C06_rejects_rest", "C06_resize",
            "C06_sync_by_name", "C06_sync_windows", "C06_type_change_installs_bucket", "C06_other_type_not_bucket",
            "C06_request_kind_irrelevant",
            "C06_spec_closed", "C06_spec_open", "C06_spec_lower", "C06_closed_ok_iff", "C06_open_all_iff"]
EVAL = "C06_Check.eval"
CLAUSES = ["agree", "closed", "open", "lower", "status", "lookup"]
RULE = ("virtual-clock traces: distinct (qps, burst, op list) in which at least one request is admitted and at least "
        "one is rejected (429) and the clock readings have at least two different gaps; dispatcher traces: the same "
        "through the real dispatcher with requests of every kind (incl. long-running ones); multi-schema cases (dispatcher or bare upstreamLimiter): the same, and at "
        "least one re-sync of the spec that leaves the schema under test unchanged; real-time cases are never counted")
TRUSTED_BASE = [
    "Coq 8.16.1 kernel + vm_compute (case files); no native_compute, no extraction",
    "hand-written model C06_Model.v (exact integer arithmetic in 1e-9-token units) tied to /repo by the differential "
    "run of this check: real flowcontrol.NewFlowControl -> client-go tokenBucketRateLimiter -> x/time/rate, clock "
    "replaced through an overlay copy of client-go util/flowcontrol/throttle.go generated at check time",
    "modelled not verified: float64 arithmetic of x/time/rate (decisions are compared except inside a band of "
    "1e-6 token + 4*qps*1ns around the threshold; those are counted in input_distribution as 'band:*'), sync.Mutex "
    "of rate.Limiter (serialisation), the unsynchronised pointer swap in resizeableTokenBucket.Resize",
]
ASSUMPTIONS = [
    "time is read at the clock's 1 ns quantum: closed windows [t_i,t_j] get burst + qps*(t_j - t_i + 1ns); half-open "
    "windows (t_i,t_j] get burst + qps*(t_j - t_i) exactly; 'admitted immediately' allows the last owed request to "
    "need a clock reading 1 ns later (a 1e-9-token truncation deficit of the pinned x/time/rate)",
    "qps is an integer with 1 <= qps <= 2^24 (float32(qps) exact) and <= 1e9 for the half-open bound; burst >= 0 "
    "(>= 1 for the half-open bound); burst*1e9 + qps <= MaxInt64",
    "concurrent callers: resizeableTokenBucket holds its mutex around clock reading + decision (commit 9271cce), so "
    "in order of decision the readings never step back and each lies between the call's invocation and completion "
    "(checked on every scripted-caller case); C06_upper_concurrent then covers every schedule.  C06_upper_skew is "
    "the theorem about the code without that mutex (extra term qps * sum of backward clock steps)",
]

# client-go's TryAccept reads the clock before rate.Limiter's lock is taken; a caller overtaken in between applies
# a stale reading, the limiter's time steps back and the interval is credited twice (C06_upper_skew: extra
# qps*sum(backward steps); C06_stale_clock_refuted; witnessed on the real code with real goroutines, 39 admitted
# against a bound of 36).  Repaired by commit 9271cce (resizeableTokenBucket reads the clock under its own mutex);
# model and spec follow the repaired behaviour: an excess over burst + qps*T under concurrency is a VIOLATION.
SKEW_IS_DEFECT = True

NS = 10 ** 9
BASE = 1_700_000_000 * NS
ZERO_TIME = -62135596800 * NS
MAX_DUR = 2 ** 63 - 1
MIN_DUR = -2 ** 63

MODCACHE = os.environ.get("GOMODCACHE", "/root/go/pkg/mod")
THROTTLE = os.path.join(MODCACHE, "k8s.io/client-go@v0.18.10/util/flowcontrol/throttle.go")

HOOK_OLD = "func (realClock) Now() time.Time {\n\treturn time.Now()\n}"
HOOK_NEW = ("// VerifNow is the virtual clock of the verification harness (overlay build only).\n"
            "var VerifNow func() time.Time\n\n"
            "func (realClock) Now() time.Time {\n\tif f := VerifNow; f != nil {\n\t\treturn f()\n\t}\n"
            "\treturn time.Now()\n}")


def prepare():
    """Generate the instrumented copy of client-go's throttle.go from the CURRENT module-cache file.
    Runs at import time (the driver imports the plugin before it builds the harness)."""
    out = os.path.join(core.BUILD, "C06", "throttle_instrumented.go")
    os.makedirs(os.path.dirname(out), exist_ok=True)
    try:
        src = open(THROTTLE).read()
    except OSError:
        src = ""
    if HOOK_OLD in src:
        gen = src.replace(HOOK_OLD, HOOK_NEW, 1)
    else:
        # the build then fails on the missing VerifNow symbol and the check reports the broken correspondence
        gen = src
    old = open(out).read() if os.path.exists(out) else None
    if old != gen:
        with open(out, "w") as f:
            f.write(gen)
    return out


prepare()


# ----------------------------------------------------------------------------- python replica of the model
# (used only for the evidence statistics and for building boundary cases, never for the verdict)
def quot(a, b):
    q = abs(a) // abs(b)
    return q if (a >= 0) == (b >= 0) else -q


def advance(q, b, s, now):
    tok, last = s
    last0 = now if now < last else last
    maxel = quot(b * NS - tok, q)
    el0 = max(MIN_DUR, min(MAX_DUR, now - last0))
    el = maxel if el0 > maxel else el0
    t = tok + el * q
    if t > b * NS:
        t = b * NS
    return last0, t


def allow_n(q, b, s, now, n):
    last0, t = advance(q, b, s, now)
    t2 = t - n * NS
    wait = quot(-t2, q) if t2 < 0 else 0
    if n <= b and wait <= 0:
        return (t2, now), True, t2
    return (s[0], last0), False, t2


def replay(case, res):
    """Follow the observed decisions like C06_Check.follow; returns (in_band_disagreements, near_ties, far)."""
    q, b = case["q"], case["b"]
    s = (0, ZERO_TIME)
    band = near = far = 0
    for op, o in zip(case["ops"], res):
        if op["op"] == "resize":
            if (op["q"], op["b"]) != (q, b):
                q, b = op["q"], op["b"]
                s = (0, ZERO_TIME)
            continue
        last0, t = advance(q, b, s, op["t"])
        s2, ok, t2 = allow_n(q, b, s, op["t"], 1)
        tol = 1000 + 4 * q
        if abs(t2 + q) <= tol:
            near += 1
        if ok == o:
            s = s2
        elif abs(t2 + q) <= tol and b >= 1:
            band += 1
            s = (t2, op["t"]) if o else (s[0], last0)
        else:
            far += 1
            s = s2
    return band, near, far


# ----------------------------------------------------------------------------- cases
QS = [1, 2, 3, 5, 7, 10, 13, 50, 97, 100, 1000, 1009, 10007, 100000, 781250, 1000000]
BS = [1, 2, 3, 5, 7, 10, 41, 100, 101, 1000, 20011]


def sch(name, typ, q=0, b=0, max=0):
    return {"name": name, "typ": typ, "q": q, "b": b, "max": max}


def tries(ts):
    return [{"op": "try", "t": BASE + t} for t in ts]


def corpus():
    cs = []
    # the 1e-9-token witness: two admissions in a closed window of 333333333 ns under (3, 1)
    cs.append({"kind": "trace", "q": 3, "b": 1, "pat": "witness", "ops": tries([0, 333333333, 666666666, 666666667])})
    # documented behaviour: fresh bucket admits burst back-to-back, then refuses
    for q, b in [(1, 1), (10, 5), (100, 100), (5, 41), (781250, 3), (7, 3), (1000, 1), (16777216, 10)]:
        cs.append({"kind": "trace", "q": q, "b": b, "pat": "fresh", "ops": tries([0] * min(b + 3, 120))})
        cs.append({"kind": "trace", "q": q, "b": b, "pat": "fresh-then-1ns",
                   "ops": tries([0] * min(b, 120) + [1, 1, 2])})
    # idle exactly k/q seconds after draining
    for q, b in [(10, 5), (3, 2), (7, 3), (97, 10)]:
        drain = [0] * (b + 1)
        for k in (1, 2, b, b + 1):
            gap = k * NS // q
            for d in (-1, 0, 1):
                ts = drain + [gap + d] * (k + 1) + [gap + d + 1]
                cs.append({"kind": "trace", "q": q, "b": b, "pat": "idle-exact", "ops": tries(ts)})
    # resize: no-op keeps the bucket, a change gives a new full one
    cs.append({"kind": "trace", "q": 10, "b": 2, "pat": "resize", "ops":
               tries([0, 0, 0]) + [{"op": "resize", "q": 10, "b": 2}] + tries([1, 2]) +
               [{"op": "resize", "q": 10, "b": 3}] + tries([3, 3, 3, 3]) +
               [{"op": "resize", "q": 1, "b": 3}] + tries([4, 4, 4, 4, NS + 4, NS + 4])})
    # clock readings stepping back (callers read the clock before taking the lock)
    cs.append({"kind": "trace", "q": 10, "b": 1, "pat": "skew", "ops":
               tries([0, 100000000, 50000000, 150000000, 100000000, 200000000, 150000000, 250000000])})
    # the stale-clock witness on REAL goroutines: callers 2, 4, 6 read the clock, are overtaken, and apply
    # their stale readings afterwards (decision order of the readings: 0,100,50,150,100,200,150,250 ms)
    ms = 1000000
    cs.append({"kind": "conc", "q": 10, "b": 1, "pat": "stale-witness", "evs": conc_script([
        ("read", 0, 0), ("go", 0, 0),
        ("read", 2, 50 * ms), ("read", 1, 100 * ms), ("go", 1, 100 * ms), ("go", 2, 100 * ms),
        ("read", 4, 100 * ms), ("read", 3, 150 * ms), ("go", 3, 150 * ms), ("go", 4, 150 * ms),
        ("read", 6, 150 * ms), ("read", 5, 200 * ms), ("go", 5, 200 * ms), ("go", 6, 200 * ms),
        ("read", 7, 250 * ms), ("go", 7, 250 * ms)])})
    # several schemas in one cluster; only siblings change / are added / removed while "tb" is passed unchanged:
    # "tb" is NOT reconfigured, its windows run across the re-syncs and its limiter stays the token bucket
    sib = [sch("mi1", "mi", max=5), sch("tb2", "tb", q=100, b=50), sch("ex", "ex")]
    for kind in ("disp", "ulim"):
        tb = sch("tb", "tb", q=1, b=3)
        cs.append({"kind": kind, "q": 1, "b": 3, "pat": "sibling-sync", "spec": [tb] + sib, "ops":
                   tries([0, 0, 0, 0]) +
                   [{"op": "sync", "spec": [tb, sch("mi1", "mi", max=6)] + sib[1:]}] + tries([1, 1, 1, 2]) +     # sibling changed
                   [{"op": "sync", "spec": [sch("new", "mi", max=1), tb, sch("mi1", "mi", max=6)] + sib[1:]}] + tries([3, 3]) +  # added
                   [{"op": "sync", "spec": [sch("new", "mi", max=1), tb]}] + tries([4, 4, NS + 4, NS + 4]) +      # removed
                   [{"op": "sync", "spec": [sch("new", "mi", max=1), tb]}] + tries([NS + 5]) +                     # identical
                   [{"op": "sync", "spec": [sch("new", "mi", max=1), sch("tb", "tb", q=1, b=2)]}] + tries([NS + 6] * 3) +  # tb itself
                   [{"op": "sync", "spec": [sch("tb", "tb", q=1, b=2)]}] + tries([NS + 7, 3 * NS, 3 * NS])})
    # the schema of the SAME NAME changes type in place: whatever limiter it had, a change to tokenBucket installs
    # a new full bucket (sequential short requests; in "ulim" also overlapping ones held in flight after idling)
    tbn = lambda q, b: sch("tb", "tb", q=q, b=b)
    for kind in ("disp", "ulim"):
        hold = (lambda ops: [dict(o, hold=True) for o in ops]) if kind == "ulim" else (lambda ops: ops)
        for first in (sch("tb", "mi", max=2), sch("tb", "ex")):
            cs.append({"kind": kind, "q": 1, "b": 4, "pat": "type-change", "spec": [first, sch("mi1", "mi", max=5)], "ops":
                       tries([0, 0, 0]) + [{"op": "sync", "spec": [tbn(1, 4), sch("mi1", "mi", max=5)]}] +
                       tries([1] * 7) + hold(tries([10 * NS] * 6)) + tries([10 * NS + 1, 11 * NS, 11 * NS])})
        cs.append({"kind": kind, "q": 2, "b": 5, "pat": "type-change", "spec": [tbn(2, 5)], "ops":
                   tries([0] * 7) + [{"op": "sync", "spec": [sch("tb", "mi", max=3)]}] + tries([1, 1, 2]) +
                   [{"op": "sync", "spec": [tbn(2, 5)]}] + hold(tries([3] * 7)) + tries([NS, NS, NS]) +
                   [{"op": "sync", "spec": []}] + tries([NS + 1] * 3) +
                   [{"op": "sync", "spec": [sch("tb", "ex")]}] + tries([NS + 2] * 2) +
                   [{"op": "sync", "spec": [tbn(2, 5)]}] + tries([NS + 3] * 7)})
    # every kind of request takes a token, also what the server calls long running (watch, log, exec, proxy)
    for kinds in (["list"] + ["watch"] * 8, ["log"] * 6 + ["get"] * 3, ["exec", "proxy", "watch", "log"] * 3,
                  ["get", "list", "create", "update", "delete", "watch", "log", "exec", "proxy"] * 2):
        ops = tries([0] * len(kinds) + [NS, NS, 3 * NS])
        for o, k in zip(ops, kinds + ["watch", "log", "exec"]):
            o["rk"] = k
        cs.append({"kind": "disp", "q": 1, "b": 3, "pat": "request-kinds", "spec": [sch("tb", "tb", q=1, b=3)], "ops": ops})
    cs.append({"kind": "disp", "q": 10, "b": 3, "pat": "disp", "spec": [sch("tb", "tb", q=10, b=3)],
               "ops": tries([0, 0, 0, 0, 100000000, 100000001, 300000000, 300000000, 300000000])})
    cs.append({"kind": "rt", "q": 5, "b": 20, "calls": 60})
    cs.append({"kind": "rtconc", "q": 50, "b": 30, "g": 8, "dur_ms": 120})
    return cs


def conc_script(evs):
    return [{"ev": e, "id": k, "t": BASE + t} for e, k, t in evs]


def gen_conc(rng):
    """Scripted schedule of overlapping callers: start a caller (it reads the clock and is parked) or let a
    parked one go on; the virtual time never goes back."""
    q = rng.choice([1, 5, 10, 100, 1000])
    b = rng.choice([1, 2, 3, 5])
    tick = NS // q
    n = rng.randint(4, 10)
    t, nxt, parked, evs = 0, 0, [], []
    while nxt < n or parked:
        t += rng.choice([0, 0, tick // 2, tick, tick + 1, 2 * tick, rng.randint(0, 3 * tick)])
        if nxt < n and (not parked or (len(parked) < 3 and rng.chance(1, 2))):
            evs.append(("read", nxt, t))
            parked.append(nxt)
            nxt += 1
        else:
            k = parked.pop(rng.below(len(parked)))
            evs.append(("go", k, t))
    return {"kind": "conc", "q": q, "b": b, "pat": "conc", "evs": conc_script(evs)}


def gen_times(rng, q, b, n):
    """Arrival pattern of n calls: concatenated phases."""
    ts, t = [], rng.choice([0, 0, rng.randint(0, 5 * NS)])
    tick = max(1, NS // q)
    labels = []
    while len(ts) < n:
        k = rng.below(100)
        m = min(n - len(ts), rng.randint(1, 25))
        if k < 22:                      # burst at one clock reading
            labels.append("burst")
            ts += [t] * m
        elif k < 34:                    # pause, short or long, then a burst
            labels.append("pause")
            t += rng.choice([tick, b * tick, (b + 1) * tick, rng.randint(1, 3 * NS), rng.randint(1, 200) * NS,
                             b * NS // q, b * NS // q + 1, rng.randint(1, 1000)])
            ts += [t] * m
        elif k < 50:                    # steady at a multiple of the rate, exact ticks
            labels.append("steady")
            num, den = rng.choice([(1, 2), (1, 1), (2, 1), (3, 1), (1, 3)])
            for _ in range(m):
                t += max(0, tick * den // num)
                ts.append(t)
        elif k < 62:                    # ramp: gaps shrinking or growing
            labels.append("ramp")
            g = rng.randint(1, 4 * tick)
            up = rng.chance(1, 2)
            for _ in range(m):
                t += g
                ts.append(t)
                g = g * 3 // 2 + 1 if up else g * 2 // 3
        elif k < 76:                    # jittered around the tick (off-by-one ns ties)
            labels.append("tie")
            for _ in range(m):
                t += tick + rng.choice([-1, 0, 0, 1, 1]) if tick > 1 else rng.randint(0, 2)
                ts.append(t)
        elif k < 88:                    # random gaps
            labels.append("random")
            for _ in range(m):
                t += rng.randint(0, 3 * tick)
                ts.append(t)
        else:                           # many callers: readings taken before the lock, applied out of order
            labels.append("skew")
            for _ in range(m):
                t += rng.randint(0, 2 * tick)
                ts.append(max(0, t - rng.choice([0, 0, rng.randint(1, 2000), rng.randint(1, tick + 1)])))
    return ts[:n], labels


def gen_trace(rng, maxn):
    k = rng.below(10)
    q = rng.choice(QS) if k < 8 else rng.randint(1, 2000)
    b = rng.choice(BS) if k < 8 else rng.randint(1, 300)
    n = rng.randint(5, maxn)
    ts, labels = gen_times(rng, q, b, n)
    ops = tries(ts)
    if rng.chance(1, 4):                # reconfigurations in the middle of the run
        for _ in range(rng.randint(1, 3)):
            i = rng.below(len(ops) + 1)
            if rng.chance(1, 3):
                ops.insert(i, {"op": "resize", "q": q, "b": b, "noop": True})  # replaced below by the value in force
            else:
                ops.insert(i, {"op": "resize", "q": rng.choice(QS[:12]), "b": rng.choice(BS[:9])})
        cq, cb = q, b
        for o in ops:                   # make the no-op resizes really no-ops
            if o["op"] == "resize":
                if o.pop("noop", False):
                    o["q"], o["b"] = cq, cb
                cq, cb = o["q"], o["b"]
        labels.append("resize")
    return {"kind": "trace", "q": q, "b": b, "pat": "+".join(sorted(set(labels))), "ops": ops}


SIBS = [("mi1", "mi"), ("mi2", "mi"), ("tb2", "tb"), ("ex", "ex"), ("a", "mi"), ("z", "tb")]


def gen_sibling(rng, name, typ):
    if typ == "mi":
        return sch(name, "mi", max=rng.choice([1, 5, 10]))
    if typ == "tb":
        return sch(name, "tb", q=rng.choice([1, 10, 100]), b=rng.choice([1, 5, 50]))
    return sch(name, "ex")


def gen_multi(rng, kind):
    """One cluster / limiter with the token bucket "tb" and 1-3 siblings; requests for "tb" interleaved with
    re-syncs of the whole spec: sibling changed / added / removed, identical, order changed, "tb" itself changed."""
    q = rng.choice([1, 2, 5, 10, 100, 1000])
    b = rng.choice([1, 2, 3, 5, 10])
    sibs = [gen_sibling(rng, n, t) for n, t in rng.sample(SIBS, rng.randint(1, 3))]
    spec = list(sibs)
    first = sch("tb", "tb", q=q, b=b)
    if rng.chance(1, 5):                                # the name starts as another type and becomes a bucket later
        first = sch("tb", rng.choice(["mi", "ex"]), q=q, b=b, max=rng.choice([1, 3, 10]))
    spec.insert(rng.below(len(spec) + 1), first)
    case = {"kind": kind, "q": q, "b": b, "pat": "multi", "spec": spec, "ops": []}
    n = rng.randint(6, 30)
    ts, _ = gen_times(rng, q, b, n)
    cur, labels, i = spec, set(), 0
    while i < len(ts):
        m = rng.randint(1, 6)
        case["ops"] += tries(ts[i:i + m])
        i += m
        if rng.chance(2, 3):
            new = [dict(x) for x in cur]
            k = rng.below(100)
            others = [x for x in new if x["name"] != "tb"]
            if k < 30 and others:                       # a sibling changed
                x = rng.choice(others)
                x.update(gen_sibling(rng, x["name"], x["typ"]), max=x["max"] + 1, q=x["q"] + 1)
                labels.add("sibling-changed")
            elif k < 50:                                # a sibling added
                free = [(nm, t) for nm, t in SIBS if nm not in {x["name"] for x in new}]
                if free:
                    new.insert(rng.below(len(new) + 1), gen_sibling(rng, *rng.choice(free)))
                    labels.add("sibling-added")
            elif k < 68 and others:                     # a sibling removed
                new.remove(rng.choice(others))
                labels.add("sibling-removed")
            elif k < 78:                                # identical re-sync
                labels.add("identical")
            elif k < 86:                                # same schemas, other order
                new = rng.shuffle(new)
                labels.add("reordered")
            elif k < 92:                                # the bucket under test is reconfigured
                for x in new:
                    if x["name"] == "tb" and x["typ"] == "tb":
                        x["q"], x["b"] = rng.choice([1, 5, 10, 100]), rng.choice([1, 2, 5])
                labels.add("tb-changed")
            else:                                       # the schema under test changes TYPE in place
                for x in new:
                    if x["name"] == "tb":
                        if x["typ"] == "tb":
                            x.update(typ=rng.choice(["mi", "ex"]), max=rng.choice([1, 3, 10]))
                        else:
                            x.update(typ="tb", q=q, b=b)
                labels.add("tb-type-changed")
            case["ops"].append({"op": "sync", "spec": new})
            cur = new
    if kind == "ulim" and rng.chance(1, 2):             # overlapping requests: held in flight while "tb" is a bucket
        typ = next(x["typ"] for x in spec if x["name"] == "tb")
        for o in case["ops"]:
            if o["op"] == "sync":
                typ = next((x["typ"] for x in o["spec"] if x["name"] == "tb"), None)
            elif typ == "tb" and rng.chance(2, 3):
                o["hold"] = True
        labels.add("overlapping")
    if kind == "disp":                                  # request-level: a mix of kinds, half of them long running
        mode = rng.below(3)
        for o in case["ops"]:
            if o["op"] == "try":
                o["rk"] = (rng.choice(KINDS) if mode == 0 else rng.choice(LONG) if mode == 1
                           else rng.choice(LONG + ("list", "get")))
        labels.add("kinds")
    case["pat"] = "+".join(sorted(labels)) or "no-sync"
    return case


def generate(rng, tier, scale=1):
    nt, nd, nu = (300, 16, 60) if tier == "quick" else (4000, 120, 800)
    nt, nd, nu = nt * scale, nd * scale, nu * scale
    cs = [gen_trace(rng, 120) for _ in range(nt)]
    for k in range(nd + nu):
        cs.append(gen_multi(rng, "disp" if k < nd else "ulim"))
    for _ in range((6 if tier == "quick" else 40) * scale):
        cs.append(gen_conc(rng))
    return cs


def go_case(case):
    return {k: v for k, v in case.items() if k != "pat"}


# ----------------------------------------------------------------------------- Coq terms
def coq_op(o):
    if o["op"] == "try":
        return "(OTry %s)" % cZ(o["t"])
    return "(OResize %s %s)" % (cZ(o["q"]), cZ(o["b"]))


RK = {"get": "KGet", "list": "KList", "create": "KCreate", "update": "KUpdate", "delete": "KDelete",
      "watch": "KWatch", "log": "KLog", "exec": "KExec", "proxy": "KProxy"}
KINDS = list(RK)
LONG = ("watch", "log", "exec", "proxy")


def coq_spec(spec):
    out = []
    for x in spec:
        sc = ("(STb %s %s)" % (cZ(x["q"]), cZ(x["b"])) if x["typ"] == "tb"
              else "(SOther %s)" % cZ(x["max"] if x["typ"] == "mi" else -1))
        out.append("(%s, %s)" % (core.cstr(x["name"].encode()), sc))
    return clist(out)


def coq_case(case, obs):
    if not isinstance(obs, dict) or "panic" in obs:
        return "CBad"
    k = case["kind"]
    if k == "trace":
        res = obs.get("res", [])
        if len(res) != len(case["ops"]):
            return "CBad"
        return "(CTrace %s %s %s)" % (cZ(case["q"]), cZ(case["b"]),
                                      clist([cpair(coq_op(o), cbool(r)) for o, r in zip(case["ops"], res)]))
    if k in ("disp", "ulim"):
        st = obs.get("steps", [])
        if len(st) != len(case["ops"]):
            return "CBad"
        tr = []
        for o, x in zip(case["ops"], st):
            op = ("(DTry %s %s %s %s)" % (RK[o.get("rk", "list")], cZ(o["t"]), cbool(x["reached"]), cZ(x["status"]))
                  if o["op"] == "try"
                  else "(DSync %s)" % coq_spec(o["spec"]))
            tr.append("(%s, Build_lk %s %s %s)" % (op, cbool(x["lk"]["tb"]), cZ(x["lk"]["q"]), cZ(x["lk"]["b"])))
        return "(CDisp %s %s)" % (coq_spec(case["spec"]), clist(tr))
    if k == "conc":
        calls = obs.get("calls", [])
        if len(calls) != sum(1 for e in case["evs"] if e["ev"] == "read"):
            return "CBad"
        return "(CConc %s %s %s)" % (cZ(case["q"]), cZ(case["b"]), clist(
            ["(%s, %s, %s, %s)" % (cZ(x["inv"]), cZ(x["read"]), cZ(x["resp"]), cbool(x["ok"])) for x in calls]))
    if k == "rt":
        return "(CRt %s %s %s %s %s)" % (cZ(case["q"]), cZ(case["b"]), cZ(case["calls"]), cZ(obs["admitted"]),
                                         cZ(obs["elapsed_ns"]))
    if k == "rtconc":
        return "(CRtConc %s %s %s %s %s %s)" % (cZ(case["q"]), cZ(case["b"]), cZ(obs["admitted"]),
                                               cZ(obs["elapsed_ns"]), cbool(obs["many_calls"]), cbool(SKEW_IS_DEFECT))
    return "CBad"


def decisions(case, obs):
    if case["kind"] == "trace":
        return obs.get("res", [])
    if case["kind"] in ("disp", "ulim"):
        return [s["reached"] for s in obs.get("steps", [])]
    return []


def nontrivial_key(case, obs):
    if case["kind"] == "conc" and "panic" not in obs:
        calls = obs.get("calls", [])
        if any(x["resp"] > x["inv"] for x in calls) and any(x["ok"] for x in calls) and not all(x["ok"] for x in calls):
            return ("conc", case["q"], case["b"], repr(case["evs"]))
        return None
    if case["kind"] not in ("trace", "disp", "ulim") or "panic" in obs:
        return None
    res = decisions(case, obs)
    d = [r for o, r in zip(case["ops"], res) if o["op"] == "try"]
    ts = [o["t"] for o in case["ops"] if o["op"] == "try"]
    gaps = {b - a for a, b in zip(ts, ts[1:])}
    if any(d) and not all(d) and len(gaps) >= 2:
        return (case["kind"], case["q"], case["b"], repr(case["ops"]))
    return None


def qclass(q):
    return "q=1" if q == 1 else "q<=10" if q <= 10 else "q<=1000" if q <= 1000 else "q<=1e5" if q <= 100000 else "q>1e5"


def stats(case, obs):
    k = case["kind"]
    if k == "rtconc" and "panic" not in obs:
        over = obs["admitted"] * NS > case["b"] * NS + case["q"] * (obs["elapsed_ns"] + 1)
        return ["kind:rtconc", "rtconc:over-bound-by-skew" if over else "rtconc:within-bound"]
    if k == "conc" and "panic" not in obs:
        calls = obs.get("calls", [])
        rd = [x["read"] for x in calls]
        labs = ["kind:conc", "conc:readings-step-back" if any(b < a for a, b in zip(rd, rd[1:])) else
                "conc:readings-monotone"]
        labs += ["conc:overlapping-call"] * sum(1 for x in calls if x["resp"] > x["inv"])
        labs += ["conc:clock-read-after-waiting-for-lock"] * sum(1 for x in calls if x["read"] > x["inv"])
        return labs
    if k in ("disp", "ulim") and "panic" not in obs:
        res = decisions(case, obs)
        labs = ["kind:" + k] + ["pat:" + p for p in case.get("pat", "").split("+")]
        labs += ["schemas=%d" % len(case["spec"])]
        labs += ["decision:admit" if r else "decision:429" for o, r in zip(case["ops"], res) if o["op"] == "try"]
        if k == "disp":
            for o, x in zip(case["ops"], obs.get("steps", [])):
                if o["op"] == "try":
                    labs.append("req:%s:%s" % (o.get("rk", "list"), "admit" if x["reached"] else "429"))
                    if x.get("longrunning"):
                        labs.append("req:long-running")
        labs += ["lookup:token-bucket" if x["lk"]["tb"] else "lookup:OTHER-LIMITER" for x in obs.get("steps", [])]
        return labs
    if k not in ("trace", "disp") or "panic" in obs:
        return ["kind:" + k]
    res = decisions(case, obs)
    labs = ["kind:" + k, qclass(case["q"]), "b=1" if case["b"] == 1 else "b<=10" if case["b"] <= 10 else "b>10",
            "len<=%d" % (50 * ((len(case["ops"]) + 49) // 50))]
    for p in case.get("pat", "").split("+"):
        labs.append("pat:" + p)
    band, near, far = replay(case, res)
    labs += ["band:skipped-decision"] * band + ["band:near-threshold-decision"] * near + ["band:far-disagreement"] * far
    adm = sum(1 for o, r in zip(case["ops"], res) if o["op"] == "try" and r)
    rej = sum(1 for o, r in zip(case["ops"], res) if o["op"] == "try" and not r)
    labs += ["decision:admit"] * adm + ["decision:429"] * rej
    return labs


def shrink(case):
    if case["kind"] not in ("trace", "disp", "ulim"):
        return
    ops = case["ops"]
    n = len(ops)
    if n > 8:
        yield dict(case, ops=ops[:n // 2])
        yield dict(case, ops=ops[n // 2:])
    for i in range(n):
        yield dict(case, ops=ops[:i] + ops[i + 1:])


def neighbours(case, rng):
    if case["kind"] not in ("trace",):
        return
    ops = case["ops"]
    for i in range(len(ops)):
        yield dict(case, ops=ops[:i] + ops[i + 1:])
        if ops[i]["op"] == "try":
            for d in (-1, 1):
                yield dict(case, ops=ops[:i] + [dict(ops[i], t=ops[i]["t"] + d)] + ops[i + 1:])
    for d in (-1, 1):
        if case["q"] + d >= 1:
            yield dict(case, q=case["q"] + d)
        if case["b"] + d >= 1:
            yield dict(case, b=case["b"] + d)


def known_match(entry, case, obs, failed):
    return False


COQ_SHARD = 33
LEVEL_TEXT = ("full proof on an exact-arithmetic model: Coq theorems over every (qps, burst), every sequence of clock "
              "readings (monotone or stepping back), every window of a run and every schedule of overlapping "
              "callers, about a Gallina model of "
              "x/time/rate's AllowN as used by resizeableTokenBucket (integer ns, tokens in 1e-9 units, both ns "
              "truncations); the model is compared with the real bucket under a virtual clock on generated arrival "
              "patterns, on scripted schedules of real goroutines and through the real dispatcher on every run, and the "
              "executable spec (all O(n^2) windows, owed admissions after idle periods, 429 for the rest) is "
              "evaluated on the real decisions")
LEVEL_NOTE = ("trusted: Coq kernel + vm_compute, the hand-written model (tied by differential run only), Go harness and "
              "the generated overlay copy of client-go throttle.go; modelled not verified: float64 rounding inside "
              "x/time/rate (bounded by the comparison band and counted), mutex serialisation (clock reading + decision are "
              "one critical section: validated by the scripted-caller and real-time concurrent cases, not proved); the "
              "strict closed-window bound burst + qps*(t_j - t_i) is refuted by 1e-9 token "
              "(C06_upper_closed_strict_refuted) and holds with the clock's 1 ns quantum; no axioms")
TECHNIQUE = "Coq proof (potential-function invariant over all call sequences) + differential model/implementation run"
