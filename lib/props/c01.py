"""C01 — routing: first matching dispatch policy, with the documented rule semantics."""
from vf.core import B, cstr, cbool, clist, to_bytes

PID = "C01"
MODULES = ["Prelude", "C01_Model", "C01_Spec", "C01_Check"]
PROPS_MODULE = "C01_Properties"
THEOREMS = ["C01_route_is_first_match", "C01_rule_semantics", "C01_first_match_least", "C01_first_match_none",
            "C01_no_match_rejected", "C01_forward_iff_first", "C01_chosen_policy", "C01_model_meets_spec",
            "C01_star_wins", "C01_positives_silence_negatives", "C01_url_ignores_inverted",
            "C01_inverted_is_complement", "C01_empty_fields", "C01_subresource_wildcard",
            "C01_inverted_subresource_wildcard", "C01_glob_meaning", "C01_user_glob", "C01_url_glob",
            "C01_overlapping_sync_old_or_new", "C01_overlapping_sync_snapshot"]
EVAL = "C01_Check.eval"
COQ_SHARD = 200
CLAUSES = ["agree", "first_match", "reject_iff_none", "chosen_policy", "age_independent", "atomic_list"]
RULE = ("distinct (policy list, request) pairs in which some rule has at least two non-default fields (non-empty and "
        "not ['*']) and which have at least two rules in total or whose single rule matched (so the outcome is not "
        "decided by one rule's verb alone); overlap cases: distinct (request, old list, new list, k) in which the Sync "
        "did fire inside the match and the answers during and after the match differ (old and new decision differ)")
TRUSTED_BASE = [
    "Coq 8.16.1 kernel + vm_compute (case files); no native_compute, no extraction",
    "hand-written model C01_Model.v tied to /repo by the differential run of this check (Go harness harness/c01: "
    "clusters.MatchPolicies and ClusterInfo.MatchAttributes on real ClusterInfo objects, one add-only export; overlap "
    "cases: the real ClusterInfo.Sync(new list) is run from inside the k-th attribute getter call of a MatchAttributes)",
    "modelled not verified: Go strings.HasPrefix/HasSuffix/TrimRight (Prelude functions), atomic.Value holding the "
    "policy list, authorizer.AttributesRecord getters; the dispatcher's error branch is read, not executed",
]
ASSUMPTIONS = [
    "overlap cases pin the interleaving in one goroutine (Sync runs inside an attribute getter, i.e. after the list was "
    "loaded); memory-model effects of truly parallel Sync/MatchAttributes beyond atomic.Value's load/store are not modelled",
    "request attributes carry a non-nil user (the dispatcher refuses requests without user info before routing)",
    "an inverted entry is read entry-wise: '-x' excludes what the entry 'x' matches by equality/'*/sub'/glob; "
    "'-*' and '--x' are not given the meaning of '*' / '-x' (the documentation does not define them)",
    "the dispatcher reaches an endpoint only through the picker returned by MatchAttributes (dispatcher.go:84-88 read)",
]

# ----------------------------------------------------------------------------- vocabulary
V_VERBS = [b"get", b"list", b"watch", b"*", b"-get", b"-list", b""]
Q_VERBS = [b"get", b"list", b"watch", b"delete", b""]
V_GROUPS = [b"", b"apps", b"*", b"-apps", b"batch", b"-"]
Q_GROUPS = [b"", b"apps", b"batch"]
V_RES = [b"pods", b"pods/status", b"*/status", b"-pods", b"-deployments", b"deployments/*", b"deployments", b"*",
         b"-*/status", b"-pods/status", b"*/scale", b"services"]
Q_RES = [(b"pods", b""), (b"pods", b"status"), (b"deployments", b""), (b"deployments", b"status"),
         (b"deployments", b"scale"), (b"services", b""), (b"nodes", b"status")]
V_NAMES = [b"nginx", b"-nginx", b"*", b"web", b"-web"]
Q_NAMES = [b"", b"nginx", b"web"]
SA1 = b"system:serviceaccount:kube-system:default"
SA2 = b"system:serviceaccount:ns1:sa1"
V_USERS = [b"alice", b"-alice", b"system:*", b"-system:*", b"u*", b"-u*", b"*", SA1, b"u", b"-bob",
           b"system:serviceaccount:*", b"-" + SA2]
Q_USERS = [b"alice", b"bob", b"u", b"u1", b"system:admin", SA1, SA2, SA1 + b":extra", SA2 + b":"]
V_SAS = [(b"kube-system", b"default"), (b"ns1", b"sa1"), (b"", b"x"), (b"ns1", b""), (b"ns1", b"default")]
V_UGROUPS = [b"g1", b"-g1", b"system:masters", b"-system:masters", b"*", b"-g2", b"g2"]
Q_UGROUPS = [b"g1", b"g2", b"system:masters", b"system:authenticated"]
V_URLS = [b"/healthz", b"/healthz/*", b"/api*", b"*", b"-/healthz", b"/", b"/readyz*", b"-/api*"]
Q_PATHS = [b"/healthz", b"/healthz/etcd", b"/api", b"/apis/apps", b"/readyz", b"", b"/"]
SERVERS = ["https://10.0.0.1:6443", "https://10.0.0.2:6443", "https://10.0.0.3:6443", "https://10.0.0.4:6443"]
FLOWS = [b"", b"fc-a", b"fc-b", b"fc-c", b"system-default"]

FIELDS = ["verbs", "groups", "resources", "names", "users", "ugroups", "urls"]


def L(xs):
    return [B(x) for x in xs]


def mk_rule(verbs=(), groups=(), resources=(), names=(), users=(), sas=(), ugroups=(), urls=()):
    return {"verbs": L(verbs), "groups": L(groups), "resources": L(resources), "names": L(names), "users": L(users),
            "sas": [{"ns": B(n), "name": B(m)} for n, m in sas], "ugroups": L(ugroups), "urls": L(urls)}


def mk_policy(rules, flow=b"", subset=()):
    return {"rules": rules, "flow": B(flow), "subset": L(subset)}


def mk_attrs(verb=b"get", group=b"", resource=b"pods", sub=b"", name=b"", path=b"", user=b"alice",
             groups=(b"system:authenticated",), isres=True):
    return {"verb": B(verb), "group": B(group), "resource": B(resource), "sub": B(sub), "name": B(name),
            "path": B(path), "user": B(user), "groups": L(groups), "isres": isres}


def mk_case(attrs, policies, servers=None, tag="corpus"):
    return {"attrs": attrs, "policies": policies, "servers": servers or SERVERS[:2], "tag": tag}


# ----------------------------------------------------------------------------- corpus
def corpus():
    cs = []
    allr = dict(verbs=[b"*"], groups=[b"*"])
    # docs/en/design.md "Matching All": all operations on pods
    pods = [mk_policy([mk_rule(resources=[b"pods"], **allr)])]
    for v, g, r, s in [(b"delete", b"", b"pods", b""), (b"get", b"apps", b"deployments", b""), (b"get", b"", b"pods", b"status")]:
        cs.append(mk_case(mk_attrs(verb=v, group=g, resource=r, sub=s), pods))
    # docs: nonResourceURLs ["/healthz", "/healthz/*"], verbs get/post
    hz = [mk_policy([mk_rule(verbs=[b"get", b"post"], urls=[b"/healthz", b"/healthz/*"])])]
    for v, p in [(b"get", b"/healthz"), (b"post", b"/healthz/etcd"), (b"get", b"/healthzz"), (b"delete", b"/healthz"),
                 (b"get", b"/healthz/")]:
        cs.append(mk_case(mk_attrs(verb=v, path=p, isres=False, resource=b""), hz))
    # docs "Anti-selection": non-pods and non-deployments (witness of the repaired defect 4173446)
    inv = [mk_policy([mk_rule(resources=[b"-pods", b"-deployments"], **allr)])]
    for r in (b"pods", b"deployments", b"services"):
        cs.append(mk_case(mk_attrs(resource=r), inv))
    # docs "example of an error": ["-pods", "deployments"] == deployments only
    mixed = [mk_policy([mk_rule(resources=[b"-pods", b"deployments"], **allr)])]
    for r in (b"pods", b"deployments", b"services"):
        cs.append(mk_case(mk_attrs(resource=r), mixed))
    # the other two old witnesses: userGroups ['-g1'] vs user in g1; users ['-u*'] vs u
    anyres = dict(verbs=[b"*"], groups=[b"*"], resources=[b"*"])
    g1 = [mk_policy([mk_rule(ugroups=[b"-g1"], **anyres)])]
    cs.append(mk_case(mk_attrs(groups=[b"g1", b"g2"]), g1))
    cs.append(mk_case(mk_attrs(groups=[b"g2"]), g1))
    cs.append(mk_case(mk_attrs(groups=[]), g1))
    cs.append(mk_case(mk_attrs(groups=[b"g1"]), [mk_policy([mk_rule(ugroups=[b"-g1", b"-g2"], **anyres)])]))
    cs.append(mk_case(mk_attrs(groups=[b"g3", b"g2"]), [mk_policy([mk_rule(ugroups=[b"-g1", b"-g2"], **anyres)])]))
    ug = [mk_policy([mk_rule(users=[b"-u*"], **anyres)])]
    for u in (b"u", b"u1", b"v", b""):
        cs.append(mk_case(mk_attrs(user=u), ug))
    cs.append(mk_case(mk_attrs(user=b"system:admin"), [mk_policy([mk_rule(users=[b"-system:*", b"-alice"], **anyres)])]))
    cs.append(mk_case(mk_attrs(user=b"bob"), [mk_policy([mk_rule(users=[b"-system:*", b"-alice"], **anyres)])]))
    # */sub and its inversion
    for res in ([b"*/status"], [b"-*/status"], [b"-*/status", b"-pods"], [b"deployments/*"], [b"pods/status"]):
        for r, s in ((b"pods", b"status"), (b"nodes", b"status"), (b"pods", b""), (b"deployments", b"scale")):
            cs.append(mk_case(mk_attrs(resource=r, sub=s), [mk_policy([mk_rule(resources=res, **allr)])]))
    # users / serviceAccounts table
    sa = [(b"kube-system", b"default")]
    for users, sas in (([], []), ([], sa), ([b"alice"], sa), ([b"-alice"], sa), ([b"*"], sa), ([], [(b"", b"default"), (b"kube-system", b"")])):
        # near-miss service-account usernames: extra segment, trailing separator, missing name (seeded C01-g)
        for u in (b"alice", SA1, b"bob", SA1 + b":extra", SA1 + b":", b"system:serviceaccount:kube-system",
                  b"system:serviceaccount:kube-system:", b"serviceaccount:kube-system:default"):
            cs.append(mk_case(mk_attrs(user=u), [mk_policy([mk_rule(users=users, sas=sas, **anyres)])]))
    # order: two matching policies, first wins; later policy used when the first does not match; none
    p_pods = mk_policy([mk_rule(verbs=[b"get"], groups=[b"*"], resources=[b"pods", b"*/status"])], b"fc-a", [SERVERS[0]])
    p_all = mk_policy([mk_rule(verbs=[b"-delete"], groups=[b"*"], resources=[b"*"], urls=[b"*"])])
    for ps in ([p_pods, p_all], [p_all, p_pods]):
        for a in (mk_attrs(), mk_attrs(verb=b"list", resource=b"nodes"), mk_attrs(verb=b"delete", resource=b"nodes"),
                  mk_attrs(group=b"apps", resource=b"deployments", sub=b"status"),
                  mk_attrs(verb=b"get", path=b"/version", isres=False)):
            cs.append(mk_case(a, ps, SERVERS[:3]))
    # empty policy list, policy without rules, rule with nothing
    cs.append(mk_case(mk_attrs(), []))
    cs.append(mk_case(mk_attrs(), [mk_policy([]), mk_policy([mk_rule()]), mk_policy([mk_rule(**anyres)], b"fc-b")]))
    # required fields empty / resource names
    cs.append(mk_case(mk_attrs(), [mk_policy([mk_rule(groups=[b"*"], resources=[b"*"])])]))
    cs.append(mk_case(mk_attrs(name=b"nginx"), [mk_policy([mk_rule(names=[b"-nginx"], **anyres)]), mk_policy([mk_rule(names=[b"nginx"], **anyres)], b"fc-c")]))
    # star after other entries; '-*'; '-' alone; '' entry
    cs.append(mk_case(mk_attrs(verb=b"delete"), [mk_policy([mk_rule(verbs=[b"-delete", b"get", b"*"], groups=[b"*"], resources=[b"*"])])]))
    cs.append(mk_case(mk_attrs(verb=b"get"), [mk_policy([mk_rule(verbs=[b"-*"], groups=[b"*"], resources=[b"*"])])]))
    cs.append(mk_case(mk_attrs(user=b"bob"), [mk_policy([mk_rule(users=[b"-*"], **anyres)])]))
    cs.append(mk_case(mk_attrs(group=b""), [mk_policy([mk_rule(verbs=[b"*"], groups=[b"-"], resources=[b"*"])])]))
    cs.append(mk_case(mk_attrs(group=b"apps"), [mk_policy([mk_rule(verbs=[b"*"], groups=[b"-"], resources=[b"*"])])]))
    cs.append(mk_case(mk_attrs(group=b""), [mk_policy([mk_rule(verbs=[b"*"], groups=[b""], resources=[b"*"])])]))
    # a match overlapping a Sync (seeded/C01-f): old [get->reads, *->rest], new [delete->deletes], request get pods
    rr = lambda v: mk_rule(verbs=[v], groups=[b"*"], resources=[b"*"])
    o_l = [mk_policy([rr(b"get")], b"reads"), mk_policy([rr(b"*")], b"rest")]
    n_l = [mk_policy([rr(b"delete")], b"deletes")]
    for k in (0, 1, 2, 3, 9, 40):
        cs.append(mk_overlap(mk_attrs(name=b"p0"), o_l, n_l, k))
        cs.append(mk_overlap(mk_attrs(verb=b"list"), o_l, n_l, k))
    # same length edited in place; same names reordered; growing; to empty
    n_same = [mk_policy([rr(b"delete")], b"deletes"), mk_policy([rr(b"get")], b"late-reads", [SERVERS[1]])]
    for k in (1, 2, 8):
        cs.append(mk_overlap(mk_attrs(), o_l, n_same, k))
        cs.append(mk_overlap(mk_attrs(verb=b"list"), o_l, [o_l[1], o_l[0]], k))
        cs.append(mk_overlap(mk_attrs(verb=b"list"), o_l, n_l + o_l, k))
        cs.append(mk_overlap(mk_attrs(), o_l, [], k))
        cs.append(mk_overlap(mk_attrs(), [], o_l, k))
    return cs


# ----------------------------------------------------------------------------- structured stream
def pick_list(rng, vocab, tailored, optional):
    """One field of a rule: empty / star / sampled entries / an entry that fits the request."""
    k = rng.below(100)
    if optional and k < 45:
        return []
    if k < 8:
        return []
    if k < 28:
        return [b"*"]
    if k < 50 and tailored is not None:
        extra = rng.sample(vocab, rng.below(2))
        return rng.shuffle([tailored] + extra)
    return rng.sample(vocab, rng.randint(1, 3))


def gen_attrs(rng):
    res, sub = rng.choice(Q_RES)
    groups = rng.sample(Q_UGROUPS, rng.below(4))
    isres = rng.below(100) < 72
    return mk_attrs(verb=rng.choice(Q_VERBS), group=rng.choice(Q_GROUPS), resource=res if isres else b"",
                    sub=sub if isres else b"", name=rng.choice(Q_NAMES) if isres else b"",
                    path=rng.choice(Q_PATHS) if not isres or rng.below(6) == 0 else b"",
                    user=rng.choice(Q_USERS), groups=groups, isres=isres)


def gen_rule(rng, a):
    av = lambda k: bytes(a[k])
    comb = av("resource") + (b"/" + av("sub") if av("sub") else b"")
    tailored_res = rng.choice([comb, b"*/" + av("sub")]) if av("sub") else comb
    ug = [bytes(g) for g in a["groups"]]
    sas = []
    if rng.below(100) < 22:
        sas = rng.sample(V_SAS, rng.randint(1, 2))
    return mk_rule(
        verbs=pick_list(rng, V_VERBS, av("verb"), False),
        groups=pick_list(rng, V_GROUPS, av("group"), False),
        resources=pick_list(rng, V_RES, tailored_res, False),
        names=pick_list(rng, V_NAMES, av("name"), True),
        users=pick_list(rng, V_USERS, av("user"), True),
        sas=sas,
        ugroups=pick_list(rng, V_UGROUPS, rng.choice(ug) if ug else None, True),
        urls=pick_list(rng, V_URLS, av("path"), rng.below(3) == 0))


def gen_structured(rng):
    a = gen_attrs(rng)
    servers = rng.sample(SERVERS, rng.randint(1, 3))
    ps = []
    for _ in range(rng.randint(1, 4)):
        rules = [gen_rule(rng, a) for _ in range(rng.randint(1, 3))]
        subset = []
        if rng.below(3) == 0:
            subset = rng.sample(SERVERS + ["https://10.0.0.9:6443"], rng.randint(1, 2))
        ps.append(mk_policy(rules, rng.choice(FLOWS), [s.encode() for s in subset]))
    return mk_case(a, ps, servers, "structured")


# ----------------------------------------------------------------------------- malformed / boundary stream
ODD = [b"", b"-", b"--", b"-*", b"**", b"a*b", b"*a", b"*/", b"-*/", b"/*", b"--get", b"-" + b"\xff\xfe", b"\xff\xfe",
       "pödś".encode(), b"*/*", b" ", b"get ", b"GET", b"-\x00", b"\x00", b"u**", b"-u**", b"*u*"]


def odd_list(rng, vocab):
    k = rng.below(10)
    if k == 0:
        return []
    if k == 1:
        x = rng.choice(vocab + ODD)
        return [x] * rng.randint(2, 4)                       # duplicates
    if k == 2:
        xs = rng.sample(vocab + ODD, rng.randint(1, 3))
        xs.insert(rng.below(len(xs) + 1), b"*")              # '*' at any position
        return xs
    if k == 3:
        return [rng.choice([b"-", b"", b"-*", b"--"])]
    if k == 4:
        return [bytes(rng.below(256) for _ in range(rng.randint(1, 6))) for _ in range(rng.randint(1, 3))]
    return [rng.choice(vocab + ODD) for _ in range(rng.randint(1, 5))]


def gen_malformed(rng):
    a = gen_attrs(rng)
    k = rng.below(8)
    if k == 0:
        a["verb"] = B(rng.choice(ODD))
    elif k == 1:
        a["user"] = B(rng.choice(ODD + [b"*", b"-alice", b"u*"]))
    elif k == 2:
        a["resource"], a["sub"] = B(rng.choice([b"*", b"", b"-pods", b"*/x"])), B(rng.choice([b"", b"status", b"*", b"x/y"]))
    elif k == 3:
        a["groups"] = L(rng.sample(ODD + Q_UGROUPS, rng.below(4)) * rng.randint(1, 2))
    elif k == 4:
        a["path"] = B(rng.choice(ODD + [b"/healthz/*", b"/api*"]))
    elif k == 5:
        a["group"], a["name"] = B(rng.choice(ODD)), B(rng.choice(ODD))
    ps = []
    for _ in range(rng.randint(0, 3)):
        rules = []
        for _ in range(rng.randint(0, 3)):
            sas = [(rng.choice([b"", b"ns1", b"kube-system", b"\xff"]), rng.choice([b"", b"default", b"sa1"]))
                   for _ in range(rng.below(3))]
            rules.append(mk_rule(odd_list(rng, V_VERBS), odd_list(rng, V_GROUPS), odd_list(rng, V_RES),
                                 odd_list(rng, V_NAMES), odd_list(rng, V_USERS), sas, odd_list(rng, V_UGROUPS),
                                 odd_list(rng, V_URLS)))
        ps.append(mk_policy(rules, rng.choice(FLOWS + [b"\xc3\xa9"]), []))
    c = mk_case(a, ps, rng.sample(SERVERS, rng.randint(1, 2)), "malformed")
    if rng.below(4) == 0:                                     # nil instead of empty slices
        for p in c["policies"]:
            for r in p["rules"]:
                for f in FIELDS:
                    if not r[f]:
                        r[f] = None
    return c


# ----------------------------------------------------------------------------- match overlapping a Sync
def mk_overlap(attrs, old, new, k, servers=None, tag="corpus", shape="hand"):
    return {"kind": "overlap", "attrs": attrs, "policies": old, "new": new, "k": k,
            "servers": servers or SERVERS[:2], "tag": tag, "shape": shape}


def gen_policy(rng, a, flow):
    rules = [gen_rule(rng, a) for _ in range(rng.randint(1, 2))]
    if rng.below(3) == 0:                               # a rule that certainly matches a
        rules[rng.below(len(rules))] = mk_rule(verbs=[bytes(a["verb"]), b"-zz"] if rng.below(2) else [b"*"], groups=[b"*"],
                                               resources=[b"*"], urls=[b"*"])
    subset = [s.encode() for s in rng.sample(SERVERS, 1)] if rng.below(4) == 0 else []
    return mk_policy(rules, flow, subset)


def gen_overlap(rng):
    a = gen_attrs(rng)
    servers = rng.sample(SERVERS, rng.randint(1, 3))
    naming = rng.below(100)
    n_old = rng.randint(1, 4)
    oname = (lambda i: b"o%d" % i) if naming < 75 else (lambda i: rng.choice(FLOWS))
    nname = (lambda i: b"n%d" % i) if naming < 75 else (lambda i: rng.choice(FLOWS))
    old = [gen_policy(rng, a, oname(i)) for i in range(n_old)]
    sh = rng.below(100)
    if sh < 40:                                         # same length, edited in place
        shape = "same-length"
        new = []
        for i, p in enumerate(old):
            e = rng.below(4)
            if e == 0:
                new.append(dict(p, flow=B(nname(i))))                          # same rules under another schema
            elif e == 1:
                new.append(mk_policy(p["rules"][::-1][:1] + [gen_rule(rng, a)], bytes(p["flow"]), []))   # same name, other rules
            else:
                new.append(gen_policy(rng, a, nname(i)))
    elif sh < 60:                                       # the same policies (names and rules) reordered
        shape = "reordered"
        new = rng.shuffle(old)
        if new == old and len(old) > 1:
            new = old[1:] + old[:1]
    elif sh < 82:                                       # shrinking
        shape = "shrinking"
        keep = rng.randint(0, n_old - 1)
        new = [gen_policy(rng, a, nname(i)) if rng.below(2) else old[(i + 1) % n_old] for i in range(keep)]
    else:                                               # growing
        shape = "growing"
        new = [gen_policy(rng, a, nname(i)) for i in range(n_old + rng.randint(1, 2))]
        if rng.below(2):
            new[rng.below(len(new))] = old[0]
    kk = rng.below(100)
    k = 0 if kk < 8 else 1 if kk < 32 else rng.randint(2, 6) if kk < 75 else rng.randint(7, 40)
    return mk_overlap(a, old, new, k, servers, "overlap", shape)


def generate(rng, tier, scale=1):
    ns, nm, no = (1200, 240, 300) if tier == "quick" else (17000, 3000, 4000)
    ns, nm, no = ns * scale, nm * scale, no * scale
    return ([gen_structured(rng) for _ in range(ns)] + [gen_malformed(rng) for _ in range(nm)]
            + [gen_overlap(rng) for _ in range(no)])


# ----------------------------------------------------------------------------- Coq printing
def load_vocab():
    """Named string constants of C01_Check.v (the single source of the table): bytes -> identifier."""
    import os
    import re
    path = os.path.join(os.path.dirname(os.path.dirname(os.path.dirname(os.path.abspath(__file__)))),
                        "coq", "theories", "C01_Check.v")
    tab = {}
    try:
        for m in re.finditer(r'^Definition (w\d+) : string := "([^"]*)"\.$', open(path).read(), flags=re.M):
            tab[m.group(2).encode()] = m.group(1)
    except OSError:
        pass
    return tab


VOCAB = load_vocab()


def cs(x):
    """Coq term of a byte string: a named constant of C01_Check.v when there is one (small case files)."""
    b = to_bytes(x)
    return VOCAB.get(b) or cstr(b)


def cl(xs):
    return clist([cs(x) for x in (xs or [])])


def coq_rule(r):
    sas = clist(["(mkSA %s %s)" % (cs(s["ns"]), cs(s["name"])) for s in (r.get("sas") or [])])
    return "(mkRule %s %s %s %s %s %s %s %s)" % (cl(r["verbs"]), cl(r["groups"]), cl(r["resources"]), cl(r["names"]),
                                                 cl(r["users"]), sas, cl(r["ugroups"]), cl(r["urls"]))


def coq_policy(p):
    return "(mkPolicy %s %s %s)" % (clist([coq_rule(r) for r in (p.get("rules") or [])]), cs(p["flow"]), cl(p["subset"]))


def coq_attrs(a):
    return "(mkAttrs %s %s %s %s %s %s %s %s %s)" % (cs(a["verb"]), cs(a["group"]), cs(a["resource"]), cs(a["sub"]),
                                                    cs(a["name"]), cs(a["path"]), cs(a["user"]), cl(a["groups"]),
                                                    cbool(a["isres"]))


def coq_ma(m):
    if m.get("err") == "other":
        return '(mkMA false false "" [])'
    return "(mkMA %s %s %s %s)" % (cbool(m["nomatch"]), cbool(m["picker"]), cs(m["flow"] or []), cl(m["ups"]))


def coq_case(case, obs):
    if case.get("kind") == "overlap":
        if not isinstance(obs, dict) or "panic" in obs or "during" not in obs:
            return "CBroken"
        return "(COverlap %s %s %s %s %d%%nat (mkOv %s %s %s))" % (
            coq_attrs(case["attrs"]), clist([coq_policy(p) for p in case["policies"]]),
            clist([coq_policy(p) for p in case["new"]]), clist([cs(s) for s in case["servers"]]), max(0, case["k"]),
            cbool(obs["fired"]), coq_ma(obs["during"]), coq_ma(obs["after"]))
    if not isinstance(obs, dict) or "panic" in obs or "fresh" not in obs:
        return "CBroken"
    idx = obs["idx"]
    cidx = "None" if idx == -1 else "(Some %d%%nat)" % (idx if idx >= 0 else 1000)
    return "(CRoute %s %s %s (mkObs %s %s %s))" % (
        coq_attrs(case["attrs"]), clist([coq_policy(p) for p in case["policies"]]),
        clist([cs(s) for s in case["servers"]]), cidx, coq_ma(obs["fresh"]), coq_ma(obs["aged"]))


# ----------------------------------------------------------------------------- evidence helpers
def _rules(case):
    return [r for p in case["policies"] for r in (p.get("rules") or [])]


def _nondefault(r):
    n = 0
    for f in FIELDS:
        v = r.get(f) or []
        if v and [bytes(x) for x in v] != [b"*"]:
            n += 1
    if r.get("sas"):
        n += 1
    return n


def _freeze(x):
    if isinstance(x, dict):
        return tuple(sorted((k, _freeze(v)) for k, v in x.items() if k != "tag"))
    if isinstance(x, list):
        return tuple(_freeze(v) for v in x)
    return x


def nontrivial_key(case, obs):
    if case.get("kind") == "overlap":
        if isinstance(obs, dict) and obs.get("fired") and case["k"] >= 1 and obs.get("during") != obs.get("after"):
            return ("ov", _freeze(case["attrs"]), _freeze(case["policies"]), _freeze(case["new"]), case["k"])
        return None
    if not isinstance(obs, dict) or "idx" not in obs:
        return None
    rules = _rules(case)
    if not any(_nondefault(r) >= 2 for r in rules):
        return None
    if len(rules) >= 2 or (len(rules) == 1 and obs["idx"] >= 0):
        return (_freeze(case["attrs"]), _freeze(case["policies"]))
    return None


def stats(case, obs):
    labs = ["stream:%s" % case.get("tag", "?"), "policies:%d" % len(case["policies"]),
            "rules:%d" % min(len(_rules(case)), 9), "request:%s" % ("resource" if case["attrs"]["isres"] else "non-resource")]
    if case.get("kind") == "overlap" and isinstance(obs, dict) and "during" in obs:
        k = case["k"]
        labs += ["overlap:shape=%s" % case.get("shape"), "overlap:new-policies:%d" % len(case["new"]),
                 "overlap:k=%s" % (k if k <= 1 else "2-6" if k <= 6 else "7+"),
                 "overlap:%s" % ("sync-fired" if obs["fired"] else "sync-not-reached"),
                 "overlap:during-vs-after:%s" % ("same" if obs["during"] == obs["after"] else "differ"),
                 "overlap:during:%s" % ("reject" if obs["during"]["nomatch"] else "forward")]
    elif isinstance(obs, dict) and "idx" in obs:
        labs.append("outcome:%s" % ("reject" if obs["idx"] < 0 else "policy%d" % obs["idx"]))
    else:
        labs.append("outcome:panic")
    ents = [bytes(x) for r in _rules(case) for f in FIELDS for x in (r.get(f) or [])]
    if any(e.startswith(b"-") for e in ents):
        labs.append("has:inverted")
    if any(e == b"*" for e in ents):
        labs.append("has:star")
    if any(e.endswith(b"*") and e != b"*" for e in ents):
        labs.append("has:glob")
    if any(e.startswith(b"*/") or e.startswith(b"-*/") for e in ents):
        labs.append("has:*/sub")
    if any(r.get("sas") for r in _rules(case)):
        labs.append("has:serviceaccounts")
    return labs


def _variants(case):
    if case.get("kind") == "overlap" and not case.get("_inner"):
        if case["k"] > 1:
            yield dict(case, k=1)
            yield dict(case, k=case["k"] - 1)
        for v in _variants(dict(case, _inner=True)):
            v.pop("_inner", None)
            yield v
        flipped = dict(case, policies=case["new"], new=case["policies"], _inner=True)
        for v in _variants(flipped):
            yield dict(case, new=v["policies"])
        return
    ps = case["policies"]
    for i in range(len(ps)):
        yield dict(case, policies=ps[:i] + ps[i + 1:])
    for i, p in enumerate(ps):
        rs = p.get("rules") or []
        for j in range(len(rs)):
            yield dict(case, policies=ps[:i] + [dict(p, rules=rs[:j] + rs[j + 1:])] + ps[i + 1:])
    for i, p in enumerate(ps):
        rs = p.get("rules") or []
        for j, r in enumerate(rs):
            for f in FIELDS + ["sas"]:
                v = r.get(f) or []
                for k in range(len(v)):
                    r2 = dict(r, **{f: v[:k] + v[k + 1:]})
                    yield dict(case, policies=ps[:i] + [dict(p, rules=rs[:j] + [r2] + rs[j + 1:])] + ps[i + 1:])


def shrink(case):
    return _variants(case)


def neighbours(case, rng):
    for v in _variants(case):
        yield v
    for _ in range(10):
        yield dict(case, attrs=gen_attrs(rng))


def known_match(entry, case, obs, failed):
    return False


LEVEL_TEXT = ("full proof: Coq theorems over every request attribute tuple and every list of dispatch policies/rules "
              "(any mix of positive, inverted, wildcard, empty and glob entries, any order): the Gallina model of "
              "filterRules/simpleMatches/the seven field matchers/RuleMatches/MatchPolicies/MatchAttributes chooses exactly "
              "the least-index policy having a rule that matches under the documented semantics, rejects iff there is "
              "none, plus one theorem per documented clause, and a match overlapping a Sync of the policy list answers "
              "with the decision under the old or under the new list at every interruption point of the model's "
              "evaluation order (heap model: Sync allocates, never overwrites a stored array); the model is compared with the real clusters.MatchPolicies "
              "and ClusterInfo.MatchAttributes (fresh and aged ClusterInfo) on generated cases on every run and the "
              "executable spec is evaluated on the real observations")
LEVEL_NOTE = ("trusted: Coq kernel + vm_compute, the hand-written model (tied by differential run only), Go harness and "
              "one add-only export; modelled not verified: Go string functions, atomic.Value, the dispatcher's "
              "error branch (read); no axioms (all theorems closed under the global context)")
TECHNIQUE = "Coq proof (model = declarative spec for all inputs, structural induction) + differential model/implementation correspondence"
