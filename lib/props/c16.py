"""C16 — admission validation is total, and what it accepts the data plane can apply."""
import copy
import json
import re
from vf.core import cZ, cbool, clist, copt, cpair, cstr

PID = "C16"
MODULES = ["Prelude", "C16_Model", "C16_Spec", "C16_Check"]
PROPS_MODULE = "C16_Properties"
THEOREMS = ["C16_total", "C16_sound", "C16_rejects", "C16_rejects_unparseable_url", "C16_rejects_mixed_schemes",
            "C16_rejects_unusable_pem", "C16_rejects_unknown_reference", "C16_rejects_bad_flowcontrol",
            "C16_model_meets_spec", "C16_sound_refuted_without_insecure_ca_check",
            "C16_sound_usable", "C16_featuregate_annotation_sound", "C16_featuregate_annotation_rejected",
            "C16_sound_update", "C16_sound_remote", "C16_remote_refuted_without_stale_remote_fix",
            "C16_remote_refuted_without_stale_status_fix", "C16_remote_refuted_without_no_limiter_fix"]
EVAL = "C16_Check.eval_x"
CLAUSES = ["agree", "total", "sound", "rejects", "sound_update", "sound_remote"]
COQ_SHARD = 300
RULE = ("distinct objects, or pairs (object 1, object 2 applied on top of it), by canonical JSON of the generated "
        "description, in which every object has at least one server and one dispatch policy, i.e. whose verdict is not "
        "decided by the two top-level 'required' checks alone")
TRUSTED_BASE = [
    "Coq 8.16.1 kernel + vm_compute (case files); no native_compute, no extraction",
    "hand-written model C16_Model.v tied to /repo by the differential run of this check (harness/c16: real "
    "ValidateUpstreamCluster, real admission plugin, real CreateClusterInfo, real controller sync handler, real limiter handler)",
    "oracle inputs computed by the Go side with the real library functions and passed to the model: url.Parse, "
    "tls.X509KeyPair, certutil.ParseCertsPEM, featuregate.Set, ValidateObjectMeta (name), kubernetes.NewForConfig(host); "
    "two laws relating them (C16_Model.oracle_laws) are hypotheses of C16_sound and are checked on every case",
    "modelled not verified: client-go TLSConfigFor / rest.TransportFor, golib maxinflight, x/time/rate, sync.Map, goset",
]
ASSUMPTIONS = [
    "updates: object 2 is applied on a ClusterInfo / controller / limiter that applied object 1 of the same name; "
    "the rest config built from object 1 is kept by the code (clientConfig changes do not reach existing or new "
    "endpoints) - that is a functional matter outside this property and is mirrored by the model",
    "remote rate limiter: rounds are played step by step in one process against the real limiter object (gateway A on "
    "every version after the limiter's handler saw it, replica B on the last version); the limiter and the gateway see "
    "the same version during a round; SetLimit / acquire traffic between rounds is not played",
    "'passes validation' = the admission plugin's Validate (ValidateUpstreamCluster + feature-gate annotation), with no "
    "other cluster registered (server-name conflicts with other clusters are outside this property)",
    "gateway apply = CreateClusterInfo / controller sync of a fresh cluster with the local rate limiter, the update of "
    "an existing one, and the reconcile steps of the remote rate limiter",
    "limiter apply = UpstreamConditionHandler as shard leader with the local store",
    "for objects with mixed schemes the real validation picks the scheme from a Go map (schemes.PopAny): the model "
    "accepts either choice for the error LIST; emptiness of the list does not depend on it",
]

I32MAX, I32MIN = 2 ** 31 - 1, -2 ** 31
NAMES_OK = ["c1", "prod.example.com", "a-b.c"]
NAMES_BAD = ["", "UPPER", "a_b", "x" * 300, "-a"]
GATES_OK = [None, None, None, "", "DenyAllRequests=true", "Tracing=true,GlobalRateLimiter=false"]
GATES_BAD = ["Nope=true", "DenyAllRequests=maybe", "garbage"]
# a grammar of raw annotation values: white space, separators, empties, unknown gates, bad booleans, duplicates
# (ASCII only).  Which of them parse is decided by the real featuregate.Set (oracle) and by the model's parser.
GATE_KEYS = ["Tracing", "DenyAllRequests", "GlobalRateLimiter", "CloseConnectionWhenIdle", "AllAlpha", "Nope", "tracing", ""]
GATE_VALS = ["true", "false", "1", "0", "T", "f", "True", "FALSE", "yes", "maybe", "", "tRue"]
GATE_WS = ["", "", "", " ", "\n", "\t", "  ", "\r\n"]
GATE_FIXED = [" ", "\n", "\t", ",", ",,", " , ", "Tracing=true\n", " Tracing=true", "Tracing=true ,", "Tracing=true, ",
              "Tracing=true,", "Tracing=true,,DenyAllRequests=false", "Tracing = true", "Tracing= true", "Tracing =true",
              "DenyAllRequests=false,\n", "Tracing=true,Tracing=false", "Tracing=true,Tracing=maybe", "Tracing",
              "Tracing=", "=true", "Tracing=true=false", "Tracing==true", "AllAlpha=true", "AllBeta=false,Tracing=1",
              "Tracing=true;DenyAllRequests=true", "Tracing:true", "\nTracing=true,\nDenyAllRequests=false\n"]


def gen_gate(rng):
    k = rng.below(10)
    if k < 3:
        return rng.choice(GATE_FIXED)
    pieces = []
    for _ in range(rng.randint(1, 3)):
        if rng.chance(1, 8):
            pieces.append(rng.choice(["", " ", "\n"]))
            continue
        key = rng.choice(GATE_KEYS[:5]) if rng.chance(4, 5) else rng.choice(GATE_KEYS)
        val = rng.choice(GATE_VALS[:8]) if rng.chance(4, 5) else rng.choice(GATE_VALS)
        eq = "=" if rng.chance(9, 10) else rng.choice(["", " ", ":"])
        pieces.append(rng.choice(GATE_WS) + key + rng.choice(GATE_WS[:5]) + eq + rng.choice(GATE_WS[:5]) + val + rng.choice(GATE_WS))
    return ",".join(pieces)
EP_HTTPS = ["https://127.0.0.1:6443", "https://127.0.0.2:6443", "https://127.0.0.3:6443/prefix"]
EP_HTTP = ["http://127.0.0.1:8080", "http://127.0.0.2:8080"]
EP_ODD = ["https://%zz", "http://", "https://", "ftp://x", "https://a b", "HTTPS://127.0.0.1:1", "127.0.0.1:6443", "",
          "https://127.0.0.1:6443?x=1#f", "https://u:p@127.0.0.1:6443", "https://[::1]:6443", "https://[::1",
          "https://127.0.0.1:99999", "https://127.0.0.1:abc", "http:///path", "https:///", " https://127.0.0.1:1",
          "https://127.0.0.1:6443\n", "https://127.0.0.1:6443/%zz", "http://%41:1", "https://127.0.0.1:6443/a b"]
# NEAR-MISS references: strings a human would call "the same endpoint / schema" but that are different strings.
# The data plane resolves references by exact string, so validation must compare exactly as well.
def near_eps(ep):
    sch, rest = ep.split("://", 1)
    out = [ep + "/", ep + "//", " " + ep, ep + " ", sch.upper() + "://" + rest, ep.replace("//127", "///127")]
    if ep.endswith("/"):
        out.append(ep[:-1])
    if "localhost" in ep:
        out.append(ep.replace("localhost", "LOCALHOST"))
    if rest.endswith(":443"):
        out.append(ep[:-4])
    if ":" not in rest:
        out.append(ep + (":443" if sch == "https" else ":80"))
    return [x for x in out if x != ep]


EP_NEAR_BASES = ["https://localhost:6443", "https://127.0.0.1:443", "https://127.0.0.4", "http://127.0.0.1:80",
                 "https://127.0.0.1:6443/"]


def near_name(n):
    return [n.upper(), n + " ", " " + n, n.capitalize()]


# MIXED bundles (good + damaged block, damaged + good, good + non-certificate block, good + garbage, two good):
# a lenient loader and the strict parsers of the data plane disagree on some of them
CA_MIXED = ["caGoodBad", "caBadGood", "caGoodKey", "caGoodGarbage", "caGarbageGood", "caGoodTrunc"]
CERT_MIXED = ["certAChain", "certAGoodBad", "certBadGood", "certAGarbage", "certKeyA"]
KEY_MIXED = ["keyAGarbage", "keyBadGood", "certKeyA"]
KEYS = ["none", "empty", "keyA", "keyB", "keyBad", "garbage"] + KEY_MIXED
CERTS = ["none", "empty", "certA", "certB", "certBad", "trunc", "garbage"] + CERT_MIXED
CAS = ["none", "empty", "ca", "ca2", "cakey", "caBad", "garbage", "certA"] + CA_MIXED
NUMS = [0, 1, 5, 10, 100, -1, I32MAX, I32MIN]
STRATS = ["", "local", "globalAllocate", "globalCount", "bogus", "LOCAL"]
SNAMES = ["s1", "s2", "s3", ""]
LOGM = ["", "on", "off", "loud"]
STRAT_CODE = {"": 0, "local": 1, "globalAllocate": 2, "globalCount": 3, "bogus": 4, "LOCAL": 5}


def srv(ep, disabled=None):
    return {"ep": ep, "disabled": disabled}


def schema(name="s1", strategy="local", exempt=False, mri=None, tb=None, gmri=None, gtb=None):
    return {"name": name, "strategy": strategy, "exempt": exempt, "mri": mri, "tb": tb, "gmri": gmri, "gtb": gtb}


def policy(subset=(), sch="", rules=1, strategy="RoundRobin", logmode=""):
    return {"strategy": strategy, "subset": list(subset), "schema": sch, "rules": rules, "logmode": logmode}


def base():
    return {"stream": "corpus", "name": "c1", "gate": None,
            "servers": [srv(EP_HTTPS[0]), srv(EP_HTTPS[1])],
            "cc": {"insecure": False, "token": "set", "key": "none", "cert": "none", "ca": "ca", "qps": 0, "burst": 0,
                   "div": 0, "sni": ""},
            "ss": {"key": "none", "cert": "none", "ca": "none", "names": []},
            "schemas": [schema("s1", "local", mri=10)],
            "logging": "", "policies": [policy([], "s1")]}


def mut(**kw):
    b = base()
    for k, v in kw.items():
        cur = b
        ks = k.split("__")
        for x in ks[:-1]:
            cur = cur[int(x)] if x.isdigit() else cur[x]
        cur[int(ks[-1]) if ks[-1].isdigit() else ks[-1]] = v
    return b


def corpus():
    cs = [base()]
    # defects found / fixed earlier, kept as witnesses
    cs.append(mut(schemas__0__mri=None, schemas__0__gmri=-1))          # 69c7b17: nil dereference in validation
    cs.append(mut(servers__0__ep="https://%zz"))                       # 69c7b17 / 9f6d012: accepted, controller crashed
    cs.append(mut(schemas__0__mri=None, schemas__0__tb=[-5, 10]))      # 69c7b17: negative qps accepted
    cs.append(mut(cc__insecure=True))                                  # insecure + caData: accepted, TLSConfigFor refuses
    cs.append(mut(cc__insecure=True, cc__ca="none"))
    cs.append(mut(cc__insecure=True, servers=[srv(EP_HTTP[0])], cc__token="none"))   # http: TLS settings unused
    # secure serving with one of key / cert (5f80136: data plane treats it as no certificate)
    cs.append(mut(ss__key="keyA"))
    cs.append(mut(ss__cert="certA"))
    cs.append(mut(ss__key="keyA", ss__cert="certA", ss__ca="ca"))
    cs.append(mut(ss__key="keyA", ss__cert="certB"))
    cs.append(mut(ss__ca="garbage"))
    cs.append(mut(ss__ca="cakey"))
    cs.append(mut(ss__ca="empty", ss__key="empty"))
    for ca in CAS:
        cs.append(mut(cc__ca=ca))
        cs.append(mut(ss__ca=ca))                                       # seed C16-d: lenient pool loader in validation only
    for ce in CERT_MIXED + ["certA"]:
        for ke in KEY_MIXED + ["keyA"]:
            cs.append(mut(ss__key=ke, ss__cert=ce))
            cs.append(mut(cc__key=ke, cc__cert=ce, cc__token="none"))
    cs.append(mut(cc__key="keyA", cc__cert="certA", cc__token="none"))
    cs.append(mut(cc__key="keyA", cc__cert="certB"))
    cs.append(mut(cc__key="keyA"))
    cs.append(mut(cc__cert="certA", cc__token="none"))
    cs.append(mut(cc__token="empty"))
    cs.append(mut(cc__token="none"))
    for g in GATES_OK[3:] + GATES_BAD + GATE_FIXED:
        cs.append(mut(gate=g))
    for g in [" ", "Tracing=true, ", "Tracing=true\n", " Tracing=true"]:       # combined with other sections
        cs.append(mut(gate=g, ss__key="keyA", schemas=[schema("s1", "globalCount", mri=5, gmri=9)]))
        cs.append(mut(gate=g, servers__0__ep="https://%zz"))
        cs.append(mut(gate=g, schemas__0__mri=-1))
    for ep in EP_ODD:
        cs.append(mut(servers__0__ep=ep))
        cs.append(mut(servers__1__ep=ep))
    cs.append(mut(servers__0__ep=EP_HTTP[0]))                           # mixed schemes
    cs.append(mut(servers=[srv(EP_HTTP[0]), srv(EP_HTTP[1], True)], cc__ca="none", cc__token="none"))
    cs.append(mut(servers=[]))
    cs.append(mut(servers=[srv(EP_HTTPS[0]), srv(EP_HTTPS[0])]))
    # flow-control shapes
    shapes = [dict(mri=0), dict(mri=-1), dict(mri=I32MAX), dict(mri=None, gmri=5), dict(mri=None, gtb=[5, 5]),
              dict(mri=5, gmri=20), dict(mri=5, gmri=4), dict(mri=5, gmri=-1), dict(mri=None, tb=[5, 10]),
              dict(mri=None, tb=[5, 4]), dict(mri=None, tb=[0, 0]), dict(mri=None, tb=[5, -1]),
              dict(mri=None, tb=[I32MAX, I32MAX]), dict(mri=None, tb=[5, 10], gtb=[50, 100]),
              dict(mri=None, tb=[5, 10], gtb=[4, 100]), dict(mri=None, tb=[5, 10], gtb=[50, 9]),
              dict(mri=None, tb=[5, 10], gtb=[0, 100]), dict(mri=None, tb=[5, 10], gtb=[-1, -1]),
              dict(mri=None, exempt=True), dict(mri=None, exempt=True, gmri=4), dict(mri=5, exempt=True),
              dict(mri=5, tb=[5, 10]), dict(mri=None), dict(mri=5, gtb=[5, 5]), dict(mri=None, tb=[5, 10], gmri=7),
              dict(mri=5, tb=[5, 10], gmri=7, gtb=[9, 10], exempt=True)]
    for sh in shapes:
        cs.append(mut(schemas=[schema("s1", "globalCount", **sh)]))
    cs.append(mut(schemas=[schema("", "", mri=None)], policies__0__schema=""))                 # the all-zero schema
    cs.append(mut(schemas=[schema("s1", "local", mri=5), schema("s1", "local", mri=None, gmri=3)]))  # duplicate name
    cs.append(mut(schemas=[schema("s1", "local", mri=5), schema("s1", "local", mri=5)]))
    cs.append(mut(schemas=[schema("s1", "local", mri=5), schema("s1", "local", mri=None, tb=[1, 1])]))
    cs.append(mut(schemas=[schema("s1", "bogus", mri=5)]))
    cs.append(mut(schemas=[], policies__0__schema=""))
    cs.append(mut(schemas=[], policies__0__schema="s1"))
    for nm in NAMES_BAD:
        cs.append(mut(name=nm))
    cs.append(mut(cc__qps=-1))
    cs.append(mut(cc__qps=5, cc__burst=4))
    cs.append(mut(cc__qps=5, cc__burst=10, cc__div=100))
    cs.append(mut(cc__qps=I32MAX, cc__burst=I32MAX, cc__div=I32MIN))
    cs.append(mut(ss__names=["C1", "c1", "x y", ""]))
    cs.append(mut(policies__0__subset=["https://nope"]))
    # near-miss references (seed C16-c: a trailing slash was tolerated by validation only)
    for ep in [EP_HTTPS[0], "https://localhost:6443", "https://127.0.0.1:443", "https://127.0.0.4"]:
        for nm in near_eps(ep):
            cs.append(mut(servers=[srv(ep), srv(EP_HTTPS[1])], policies__0__subset=[nm]))        # subset is the variant
            cs.append(mut(servers=[srv(nm), srv(EP_HTTPS[1])], policies__0__subset=[ep]))        # server is the variant
    cs.append(mut(servers=[srv("http://127.0.0.1:18080")], cc__ca="none", cc__token="none",
                  policies__0__subset=["http://127.0.0.1:18080/"]))
    cs.append(mut(servers=[srv(EP_HTTPS[0] + "/"), srv(EP_HTTPS[0])], policies__0__subset=[EP_HTTPS[0] + "/"]))   # both exist
    for nm in near_name("s1"):
        cs.append(mut(policies__0__schema=nm))
        cs.append(mut(schemas__0__name=nm))
    cs.append(mut(schemas=[schema("s1", "local", mri=10), schema("S1", "local", mri=5)], policies__0__schema="S1"))
    cs.append(mut(policies__0__subset=[EP_HTTPS[1], EP_HTTPS[1]]))
    cs.append(mut(policies__0__schema="zz"))
    cs.append(mut(policies__0__rules=0))
    cs.append(mut(policies__0__strategy="Random"))
    cs.append(mut(policies__0__logmode="ON"))
    cs.append(mut(policies=[]))
    cs.append(mut(logging="loud"))
    cs += corpus_pairs()
    return cs


def pair(a, b, stream="corpus-pair"):
    a = copy.deepcopy(a)
    b = copy.deepcopy(b)
    b.pop("v2", None)
    a["v2"] = b
    a["stream"] = stream
    return a


def corpus_pairs():
    S = schema
    mri_a = mut(schemas=[S("s1", "globalAllocate", mri=10, gmri=100)])
    tb_a = mut(schemas=[S("s1", "globalAllocate", tb=[5, 10], gtb=[50, 100])])
    mri_c = mut(schemas=[S("s1", "globalCount", mri=10, gmri=100)])
    tb_c = mut(schemas=[S("s1", "globalCount", tb=[5, 10], gtb=[50, 100])])
    http = mut(servers=[srv(EP_HTTP[0])], cc__ca="none", cc__token="none")
    ps = [
        # the three defects of the remote path (found by this check, see build/fixes/C16_*.diff)
        pair(mut(schemas=[S("s1", "globalCount", mri=10)]), mri_a),          # wrapper without limiter asked for its type
        pair(mut(schemas=[S("s1", "globalCount", tb=[5, 10])]), tb_a),
        pair(mri_a, tb_a),                                                   # stale remote limiter / stale status
        pair(tb_a, mri_a),
        # other transitions of a global schema
        pair(mri_c, tb_c), pair(tb_c, mri_c), pair(mri_c, mri_a), pair(mri_a, mri_c),
        pair(mri_c, mut(schemas=[S("s1", "globalCount", mri=10)])),
        pair(mri_a, mut(schemas=[S("s1", "globalAllocate", mri=10)])),
        pair(mri_a, mut(schemas=[S("s1", "globalAllocate", mri=0, gmri=0)])),
        pair(mri_a, mut(schemas=[S("s1", "local", tb=[5, 10])])),
        pair(mri_a, mut(schemas=[S("s1", "", mri=10, gmri=100)])),
        pair(mri_a, mut(schemas=[], policies__0__schema="")),
        pair(mut(schemas=[], policies__0__schema=""), mri_a),
        pair(mri_a, mut(schemas=[S("s2", "globalAllocate", mri=10, gmri=100)], policies__0__schema="s2")),
        pair(mri_a, mut(schemas=[S("s1", "globalAllocate", mri=10, gmri=100), S("s2", "globalCount", tb=[1, 1], gtb=[9, 9])])),
        pair(mut(schemas=[S("s1", "local", exempt=True)]), mri_a),
        # invalid second versions: what validation protects the data plane from
        pair(base(), mut(schemas=[S("s1", "local", gmri=5)])),               # only a global member: panic
        pair(mri_a, mut(schemas=[S("s1", "globalAllocate", mri=10, gtb=[5, 5])])),   # global member of the other kind
        pair(mri_a, mut(schemas=[S("s1", "globalAllocate", exempt=True, gmri=5)])),
        pair(base(), mut(ss__ca="garbage")), pair(base(), mut(ss__key="keyA", ss__cert="certB")),
        pair(mut(gate="DenyAllRequests=true"), mut(gate="Nope=true")),
        pair(base(), mut(servers__1__ep="https://%zz")),
        # no-change and section updates of valid objects
        pair(base(), base()), pair(http, base()), pair(base(), http),
        pair(base(), mut(servers=[srv(EP_HTTPS[0]), srv(EP_HTTPS[1], True), srv(EP_HTTPS[2])])),
        pair(base(), mut(servers=[srv(EP_HTTPS[2])], policies__0__subset=[EP_HTTPS[2]])),
        pair(base(), mut(ss__key="keyA", ss__cert="certA", ss__ca="ca")),
        pair(mut(ss__key="keyA", ss__cert="certA", ss__ca="ca"), base()),
        pair(mut(ss__key="keyA", ss__cert="certA"), mut(ss__key="keyA")),
        pair(mut(ss__key="keyA"), mut(ss__key="keyA", ss__cert="certA")),
        pair(mut(ss__key="keyA", ss__cert="certA"), mut(ss__key="keyB", ss__cert="certB")),
        pair(mut(ss__ca="ca"), mut(ss__ca="ca2")),
        pair(mut(gate="DenyAllRequests=true"), base()), pair(base(), mut(gate="Tracing=true,GlobalRateLimiter=false")),
        pair(mut(ss__names=["a", "c1"]), mut(ss__names=["C1", "b"])),
        pair(base(), mut(cc__key="keyA", cc__cert="certA", cc__token="none")),
        pair(mut(name="UPPER"), mut(name="UPPER", schemas=[S("s1", "globalAllocate", mri=10, gmri=100)])),
    ]
    return ps


# ----------------------------------------------------------------------------- generators
def good_schema(rng, name):
    k = rng.below(5)
    st = rng.choice(["", "local", "globalAllocate", "globalCount"])
    a, b = rng.choice([1, 5, 10]), rng.choice([10, 100, I32MAX])
    if k == 0:
        return schema(name, st, exempt=True)
    if k == 1:
        return schema(name, st, mri=rng.choice([0, 5, 100]))
    if k == 2:
        return schema(name, st, mri=a, gmri=b)
    if k == 3:
        return schema(name, st, tb=[a, b])
    return schema(name, st, tb=[a, 10], gtb=[b, b])


def well_formed(rng):
    https = rng.chance(3, 4)
    eps = rng.sample((EP_HTTPS + EP_NEAR_BASES[:3] + EP_NEAR_BASES[4:]) if https else (EP_HTTP + [EP_NEAR_BASES[3]]), rng.randint(1, 3))
    o = base()
    o["name"] = rng.choice(NAMES_OK)
    o["gate"] = rng.choice(GATES_OK) if rng.chance(2, 3) else gen_gate(rng)
    o["servers"] = [srv(e, rng.choice([None, None, False, True])) for e in eps]
    cc = o["cc"]
    if https:
        cc["insecure"] = rng.chance(1, 3)
        cc["ca"] = "none" if cc["insecure"] else rng.choice(["ca", "ca2", "certA"])
        if rng.chance(1, 2):
            cc["token"], cc["key"], cc["cert"] = "set", "none", "none"
        else:
            cc["token"] = rng.choice(["none", "set"])
            cc["key"], cc["cert"] = rng.choice([("keyA", "certA"), ("keyB", "certB")])
    else:
        cc["ca"], cc["token"] = rng.choice(["none", "ca"]), rng.choice(["none", "set"])
    q = rng.choice([0, 0, 5, 100])
    cc["qps"], cc["burst"], cc["div"] = q, (0 if q == 0 else q * rng.choice([1, 2])), rng.choice([0, 1, 100])
    k = rng.below(6)
    ss = o["ss"]
    if k == 1:
        ss["key"], ss["cert"] = "keyA", "certA"
    elif k == 2:
        ss["key"], ss["cert"], ss["ca"] = "keyB", "certB", "ca"
    elif k == 3:
        ss["key"] = "keyA"          # only one of the pair: accepted, "no certificate"
    elif k == 4:
        ss["cert"], ss["ca"] = "certA", rng.choice(["ca2", "caGoodKey", "caGoodGarbage", "caGarbageGood"])
    ss["names"] = rng.sample(["alias.example.com", "C1.Example", "c2"], rng.below(3))
    names = rng.sample(["s1", "s2", "s3"], rng.below(4))
    o["schemas"] = [good_schema(rng, n) for n in names]
    o["logging"] = rng.choice(["", "on", "off"])
    o["policies"] = [policy(rng.sample(eps, rng.below(len(eps) + 1)), rng.choice(names + [""]), rng.randint(1, 2),
                            "RoundRobin", rng.choice(["", "on", "off"])) for _ in range(rng.randint(1, 2))]
    return o


def rand_schema(rng):
    def m():
        return rng.choice(NUMS) if rng.chance(1, 2) else None

    def t():
        return [rng.choice(NUMS), rng.choice(NUMS)] if rng.chance(1, 2) else None
    return schema(rng.choice(SNAMES), rng.choice(STRATS), rng.chance(1, 4), m(), t(), m(), t())


MUTATORS = ["name", "gate", "gate", "ep", "addep", "delep", "insecure", "token", "cckey", "cccert", "ccca", "ccnum", "sskey",
            "sscert", "ssca", "schema", "addschema", "delschema", "schemafield", "logging", "polsubset", "polschema",
            "polrules", "polstrategy", "pollog", "delpol", "nearsubset", "nearsubset", "nearserver", "nearschema",
            "nearschemaname", "subsetok"]


def mutate(rng, o):
    k = rng.choice(MUTATORS)
    cc, ss = o["cc"], o["ss"]
    if k == "name":
        o["name"] = rng.choice(NAMES_OK + NAMES_BAD)
    elif k == "gate":
        o["gate"] = rng.choice(GATES_OK + GATES_BAD) if rng.chance(1, 3) else gen_gate(rng)
    elif k == "ep" and o["servers"]:
        rng.choice(o["servers"])["ep"] = rng.choice(EP_ODD + EP_HTTPS + EP_HTTP)
    elif k == "addep":
        o["servers"].append(srv(rng.choice(EP_ODD + EP_HTTPS + EP_HTTP)))
    elif k == "delep" and o["servers"]:
        o["servers"].pop(rng.below(len(o["servers"])))
    elif k == "insecure":
        cc["insecure"] = not cc["insecure"]
    elif k == "token":
        cc["token"] = rng.choice(["none", "empty", "set"])
    elif k == "cckey":
        cc["key"] = rng.choice(KEYS)
    elif k == "cccert":
        cc["cert"] = rng.choice(CERTS)
    elif k == "ccca":
        cc["ca"] = rng.choice(CAS)
    elif k == "ccnum":
        cc[rng.choice(["qps", "burst", "div"])] = rng.choice(NUMS)
    elif k == "sskey":
        ss["key"] = rng.choice(KEYS)
    elif k == "sscert":
        ss["cert"] = rng.choice(CERTS)
    elif k == "ssca":
        ss["ca"] = rng.choice(CAS)
    elif k == "schema" and o["schemas"]:
        o["schemas"][rng.below(len(o["schemas"]))] = rand_schema(rng)
    elif k == "addschema":
        o["schemas"].append(rand_schema(rng))
    elif k == "delschema" and o["schemas"]:
        o["schemas"].pop(rng.below(len(o["schemas"])))
    elif k == "schemafield" and o["schemas"]:
        s = rng.choice(o["schemas"])
        f = rng.choice(["name", "strategy", "exempt", "mri", "tb", "gmri", "gtb"])
        if f == "name":
            s[f] = rng.choice(SNAMES)
        elif f == "strategy":
            s[f] = rng.choice(STRATS)
        elif f == "exempt":
            s[f] = not s[f]
        elif f in ("mri", "gmri"):
            s[f] = rng.choice(NUMS + [None])
        else:
            s[f] = rng.choice([None, [rng.choice(NUMS), rng.choice(NUMS)]])
    elif k == "logging":
        o["logging"] = rng.choice(LOGM)
    elif k == "nearsubset" and o["policies"] and o["servers"]:
        # a subset entry that differs from a server only by a near-miss
        e = rng.choice(o["servers"])["ep"]
        if "://" in e:
            p = rng.choice(o["policies"])
            nm = rng.choice(near_eps(e))
            p["subset"] = [nm] if rng.chance(1, 2) else p["subset"] + [nm]
    elif k == "nearserver" and o["servers"]:
        # the server is the variant, the subsets keep the plain string
        sv = rng.choice(o["servers"])
        if "://" in sv["ep"]:
            old = sv["ep"]
            sv["ep"] = rng.choice(near_eps(old))
            if o["policies"] and rng.chance(1, 2):
                rng.choice(o["policies"])["subset"] = [old]
    elif k == "subsetok" and o["policies"] and o["servers"]:
        rng.choice(o["policies"])["subset"] = rng.sample([x["ep"] for x in o["servers"]], rng.randint(1, len(o["servers"])))
    elif k == "nearschema" and o["policies"] and o["schemas"]:
        n = rng.choice(o["schemas"])["name"]
        if n:
            rng.choice(o["policies"])["schema"] = rng.choice(near_name(n))
    elif k == "nearschemaname" and o["schemas"]:
        sc = rng.choice(o["schemas"])
        if sc["name"]:
            sc["name"] = rng.choice(near_name(sc["name"]))
    elif o["policies"]:
        p = rng.choice(o["policies"])
        if k == "polsubset":
            p["subset"] = rng.sample([s["ep"] for s in o["servers"]] + ["https://nope", ""], rng.randint(0, 3))
        elif k == "polschema":
            p["schema"] = rng.choice(SNAMES + ["zz"])
        elif k == "polrules":
            p["rules"] = rng.choice([0, 1, 3])
        elif k == "polstrategy":
            p["strategy"] = rng.choice(["RoundRobin", "", "Random"])
        elif k == "pollog":
            p["logmode"] = rng.choice(LOGM + ["ON"])
        elif k == "delpol":
            o["policies"].pop(rng.below(len(o["policies"])))
    return o


def malformed(rng):
    eps = [srv(rng.choice(EP_ODD + EP_HTTPS + EP_HTTP), rng.choice([None, True, False])) for _ in range(rng.below(4))]
    o = {"stream": "malformed", "name": rng.choice(NAMES_OK + NAMES_BAD), "gate": rng.choice(GATES_OK + GATES_BAD) if rng.chance(1, 2) else gen_gate(rng),
         "servers": eps,
         "cc": {"insecure": rng.chance(1, 2), "token": rng.choice(["none", "empty", "set"]), "key": rng.choice(KEYS),
                "cert": rng.choice(CERTS), "ca": rng.choice(CAS), "qps": rng.choice(NUMS), "burst": rng.choice(NUMS),
                "div": rng.choice(NUMS), "sni": rng.choice(["", "sni.example.com"])},
         "ss": {"key": rng.choice(KEYS), "cert": rng.choice(CERTS), "ca": rng.choice(CAS),
                "names": rng.sample(["", "C1", "x y", "c2"], rng.below(3))},
         "schemas": [rand_schema(rng) for _ in range(rng.below(4))],
         "logging": rng.choice(LOGM),
         "policies": [policy(rng.sample([s["ep"] for s in eps] + ["https://nope", ""], rng.below(3)),
                             rng.choice(SNAMES + ["zz"]), rng.choice([0, 1, 2]), rng.choice(["RoundRobin", "", "Random"]),
                             rng.choice(LOGM)) for _ in range(rng.below(3))]}
    return o


def gen_pair(rng):
    v1 = well_formed(rng)
    if rng.chance(1, 6):
        mutate(rng, v1)
    k = rng.below(10)
    if k < 6:
        v2 = copy.deepcopy(v1)
        n = rng.randint(1, 3)
        for _ in range(n):
            mutate(rng, v2)
        st = "pair-mutated-%d" % n
    elif k < 8:
        v2 = well_formed(rng)
        st = "pair-independent"
    elif k < 9:
        # flow-control transitions on a shared schema name, mostly valid ones
        v2 = copy.deepcopy(v1)
        nm = rng.choice(["s1", "s2"])
        v1["schemas"] = [good_schema(rng, nm)] + [x for x in v1["schemas"] if x["name"] != nm]
        v2["schemas"] = [good_schema(rng, nm)] + [x for x in v2["schemas"] if x["name"] != nm]
        st = "pair-flowcontrol"
    else:
        v2 = malformed(rng)
        st = "pair-malformed"
    v2["name"] = v1["name"]
    return pair(v1, v2, st)


def generate(rng, tier, scale=1):
    nw, nm, nx, npair = (250, 550, 300, 400) if tier == "quick" else (2500, 7000, 3500, 5000)
    nw, nm, nx, npair = nw * scale, nm * scale, nx * scale, npair * scale
    cs = []
    for _ in range(nw):
        o = well_formed(rng)
        o["stream"] = "well-formed"
        cs.append(o)
    for _ in range(nm):
        o = well_formed(rng)
        n = rng.randint(1, 3)
        for _ in range(n):
            mutate(rng, o)
        o["stream"] = "mutated-%d" % n
        cs.append(o)
    for _ in range(nx):
        cs.append(malformed(rng))
    for _ in range(npair):
        cs.append(gen_pair(rng))
    return cs


def go_case(c):
    d = {k: v for k, v in c.items() if k != "stream"}
    if d.get("v2"):
        d["v2"] = go_case(d["v2"])
    return d


# ----------------------------------------------------------------------------- classification of field errors
def classify(errs):
    out = []
    for e in errs:
        t, f, d = e["type"], e["field"], e["detail"]
        idx = [int(x) for x in re.findall(r"\[(\d+)\]", f)]
        g = re.sub(r"\[\d+\]", "[]", f)
        req, inv, forb, dup = "Required" in t, "Invalid" in t, "Forbidden" in t, "Duplicate" in t
        c = None
        if g.startswith("metadata"):
            if not out or out[-1] != "EMeta":
                out.append("EMeta")
            continue
        if g == "spec.servers.servers":
            c = "EServersRequired" if req else "EMixedSchemes"
        elif g == "spec.servers.servers[]":
            c = ("(EEpScheme %d)" if d.startswith("endpoint must supply") else "(EEpURL %d)") % idx[0]
        elif g == "spec.clientConfig.qps":
            c = "ECcQps"
        elif g == "spec.clientConfig.burst":
            c = "ECcBurst" if d.startswith("burst must be bigger than or equal") else "ECcBurstLtQps"
        elif g == "spec.clientConfig.qpsDivisor":
            c = "ECcDiv"
        elif g == "spec.clientConfig.caData":
            c = "ECcCAReq" if req else "ECcInsecureCA"
        elif g == "spec.clientConfig":
            c = "ECcAuthReq"
        elif g == "spec.clientConfig.keyData":
            c = "ECcKeyReq" if req else "ECcKeyInvalid"
        elif g == "spec.clientConfig.certData":
            c = "ECcCertReq" if req else "ECcCertInvalid"
        elif g == "spec.clientConfig.bearerToken":
            c = "ECcTokenReq"
        elif g == "spec.ClientConfig.CAData":
            c = "ECcCAInvalid"
        elif g == "spec.secureServing.certData":
            c = "ESsCertInvalid"
        elif g == "spec.secureServing.keyData":
            c = "ESsKeyInvalid"
        elif g == "spec.secureServing.clientCAData":
            c = "ESsCAInvalid"
        elif g.startswith("spec.flowControl.flowControlSchemas[]"):
            r = g[len("spec.flowControl.flowControlSchemas[]"):]
            i = idx[0]
            tab = {".name": "ESchemaNameReq" if req else "ESchemaDup", ".strategy": "ESchemaStrategy",
                   ".maxRequestsInflight": "EFcMriForbidden" if forb else "EFcMriReq",
                   ".maxRequestsInflight.max": "EFcMriNeg",
                   ".globalMaxRequestsInflight.max": "EFcGmriNeg" if d.endswith("equal to 0") else "EFcGmriLtMri",
                   ".tokenBucket": "EFcTbForbidden" if forb else "EFcTbReq",
                   ".tokenBucket.qps": "EFcTbQps", ".tokenBucket.burst": "EFcTbBurst",
                   ".globalTokenBucket.qps": "EFcGtbQps" if d == "must bigger than 0" else "EFcGtbQpsLt",
                   ".globalTokenBucket.burst": "EFcGtbBurstLt", "": "EFcNone"}
            c = "(%s %d)" % (tab[r], i)
        elif g == "spec.logging.mode":
            c = "ELogging"
        elif g == "spec.dispatchPolicies" and req:
            c = "EPoliciesReq"
        elif g.startswith("spec.dispatchPolicies[]"):
            r = g[len("spec.dispatchPolicies[]"):]
            j = idx[0]
            if r == ".upstreamSubset[]":
                c = "(EPolSubset %d %d)" % (j, idx[1])
            else:
                c = "(%s %d)" % ({".strategy": "EPolStrategy", ".flowControlSchemaName": "EPolSchema",
                                  ".rules": "EPolRules", ".mode": "EPolLogMode"}[r], j)
        if c is None:
            c = "EGate" if "feature-gates" in f else "EMeta"   # unknown class: shows up as a disagreement
        out.append(c)
    return out


# ----------------------------------------------------------------------------- Coq printing
ARES = {"ok": "Ok", "err": "Err", "panic": "Panic"}


def has(m):
    return m not in ("none", "empty", "")


def facts_term(case, of, ids=None, names=None):
    ids = {} if ids is None else ids
    names = {"": 0} if names is None else names

    def eid(s):
        return ids.setdefault(s, len(ids) + 1)

    def nid(s):
        return names.setdefault(s, len(names))
    eps = []
    for s, e in zip(case["servers"], of["eps"]):
        eps.append("(Build_endpoint %d %s %s %s %s %s)" %
                   (eid(s["ep"]), {"none": "PNone", "http": "PHttp", "https": "PHttps"}[e["prefix"]], cbool(e["parses"]),
                    cbool(e["scheme_https"]), cbool(e["host"]), cbool(e["client_ok"])))
    cc, ss = case["cc"], case["ss"]
    ccs = ("(Build_clientcfg %s %s %s %s %s %s %s "
           "%s %s %s)" %
           (cbool(cc["insecure"]), cbool(cc["token"] == "set"), cbool(has(cc["key"])), cbool(has(cc["cert"])), cbool(has(cc["ca"])),
            cbool(of["cc_pair_ok"]), cbool(of["cc_ca_ok"]), cZ(cc["qps"]), cZ(cc["burst"]), cZ(cc["div"])))
    sss = ("(Build_serving %s %s %s %s %s)" %
           (cbool(has(ss["key"])), cbool(has(ss["cert"])), cbool(has(ss["ca"])), cbool(of["ss_pair_ok"]), cbool(of["ss_ca_ok"])))

    def pr(t):
        return copt(t, lambda v: cpair(cZ(v[0]), cZ(v[1])))
    schs = ["(Build_schema %d %d %s %s %s %s %s)" %
            (nid(s["name"]), STRAT_CODE.get(s["strategy"], 9), cbool(s["exempt"]), copt(s["mri"], cZ), pr(s["tb"]),
             copt(s["gmri"], cZ), pr(s["gtb"])) for s in case["schemas"]]
    pols = ["(Build_policy %s %s %d %s %s)" %
            (cbool(p["strategy"] == "RoundRobin"), clist([str(eid(u)) for u in p["subset"]]), nid(p["schema"]),
             cbool(p["rules"] > 0), cbool(p["logmode"] in ("", "on", "off"))) for p in case["policies"]]
    return ("(Build_facts %s %s %s %s %s %s "
            "%s %s)" %
            (cbool(of["name_ok"]), {"absent": "GAbsent", "ok": "GOk", "bad": "GBad"}[of["gate"]], clist(eps), ccs, sss,
             clist(schs), cbool(case["logging"] in ("", "on", "off")), clist(pols)))


DUMMY_FACTS = ("(Build_facts true GAbsent [] (Build_clientcfg false false false false false false false 0 0 0) "
               "(Build_serving false false false false false) [] true [])")


RRES = {"ok": "ROk", "err": "RErr", "panic": "RPanic", "skip": "RSkip"}
DUMMY_CASE = "(Build_case %s (Build_obs (VErrs []) Err false Panic Panic Panic None) None)" % DUMMY_FACTS


def single_term(case, obs, ids, names):
    v = "VPanic" if obs["validate"] != "ok" else "(VErrs %s)" % clist(classify(obs["errs"]))
    pols = "None"
    if obs.get("pols") is not None:
        pols = "(Some %s)" % clist(["(%s, %d, %s)" % (cbool(x["matched"]), x["known"], cbool(x["fc_default"]))
                                    for x in obs["pols"]])
    return ("(Build_case %s (Build_obs %s %s %s %s %s "
            "%s %s) %s)" % (facts_term(case, obs["facts"], ids, names), v, ARES[obs["admit"]], cbool(obs["admit_gate_err"]),
                            ARES[obs["create"]], ARES[obs["ctrl"]], ARES[obs["lim"]], pols, copt(case["gate"], cstr)))


def pem_same(a, b):
    return (not has(a) and not has(b)) or a == b


def coq_case(case, obs):
    if "panic" in obs or "facts" not in obs or "rem" not in obs:
        # the harness itself failed on this object (not the code under test): visible as a correspondence break
        return "(Build_xcase %s None true [])" % DUMMY_CASE
    ids, names = {}, {"": 0}
    c1 = single_term(case, obs, ids, names)
    x2 = "None"
    if case.get("v2"):
        v2, o2, u = case["v2"], obs["v2"], obs["upd"]
        d = "(Build_delta %s %s %s)" % (cbool(pem_same(case["ss"]["key"], v2["ss"]["key"])),
                                        cbool(pem_same(case["ss"]["cert"], v2["ss"]["cert"])),
                                        cbool(pem_same(case["ss"]["ca"], v2["ss"]["ca"])))
        info = "None" if u["info"] == "nocreate" else "(Some %s)" % ARES[u["info"]]
        x2 = "(Some (%s, %s, (Build_upd_obs %s %s %s)))" % (single_term(v2, o2, ids, names), d, info,
                                                           ARES[u["ctrl"]], ARES[u["lim"]])
    rs = clist(["(Build_round_res %s %s %s %s)" % (RRES[r["sync"]], RRES[r["count"]], RRES[r["alloc"]], RRES[r["load"]])
                for r in obs["rem"]])
    return "(Build_xcase %s %s %s %s)" % (c1, x2, cbool(obs["facts"]["name_lower"]), rs)


def nontrivial_key(case, obs):
    if case["servers"] and case["policies"] and (not case.get("v2") or (case["v2"]["servers"] and case["v2"]["policies"])):
        return json.dumps(go_case(case), sort_keys=True)
    return None


def stats(case, obs):
    if "facts" not in obs:
        return ["harness-failure"]
    labs = ["stream:" + case.get("stream", "?"), "validate:" + ("panic" if obs["validate"] != "ok" else
                                                                  ("accepted" if not obs["errs"] else "errors")),
            "admit:" + obs["admit"], "create:" + obs["create"], "ctrl:" + obs["ctrl"], "lim:" + obs["lim"],
            "admit/create:%s/%s" % (obs["admit"], obs["create"])]
    for c in set(re.sub(r"[() 0-9]", "", x) for x in classify(obs["errs"])):
        labs.append("class:" + c)
    if obs.get("pols") is not None:
        for x in obs["pols"]:
            labs.append("policy:%s/known=%s/%s" % ("matched" if x["matched"] else "unmatched", min(x["known"], 2),
                                                   "default-fc" if x["fc_default"] else "own-fc"))
    if case.get("gate"):
        labs.append("gate:%s admit=%s create=%s" % (obs["facts"]["gate"], obs["admit"], obs["create"]))
        if case["gate"] != case["gate"].strip():
            labs.append("gate:surrounding-whitespace:%s" % obs["facts"]["gate"])
    for i, r in enumerate(obs.get("rem", [])):
        labs.append("remote-round%d:%s/%s/%s/%s" % (i, r["sync"], r["count"], r["alloc"], r["load"]))
    if case.get("v2") and obs.get("upd"):
        u = obs["upd"]
        labs.append("pair admit:%s->%s update info/ctrl/lim:%s/%s/%s" % (obs["admit"], obs["v2"]["admit"], u["info"], u["ctrl"], u["lim"]))
    return labs


def shrink(case):
    if case.get("v2"):
        v2 = case["v2"]
        yield {k: v for k, v in case.items() if k != "v2"}              # is object 1 alone enough?
        yield dict(copy.deepcopy(v2), stream=case.get("stream", "?"))   # or object 2 alone?
        for c in shrink1({k: v for k, v in case.items() if k != "v2"}):
            c["v2"] = copy.deepcopy(v2)
            yield c
        for c in shrink1(v2):
            yield dict(copy.deepcopy({k: v for k, v in case.items() if k != "v2"}), v2=c)
        return
    for c in shrink1(case):
        yield c


def shrink1(case):
    b = base()
    for k in ("servers", "schemas", "policies"):
        for i in range(len(case[k])):
            c = copy.deepcopy(case)
            c[k].pop(i)
            yield c
    for k in ("name", "gate", "logging"):
        if case[k] != b[k]:
            yield dict(copy.deepcopy(case), **{k: b[k]})
    for sec in ("cc", "ss"):
        for k, v in b[sec].items():
            if case[sec][k] != v:
                c = copy.deepcopy(case)
                c[sec][k] = v
                yield c
    for i, s in enumerate(case["schemas"]):
        for k in ("mri", "tb", "gmri", "gtb"):
            if s[k] is not None:
                c = copy.deepcopy(case)
                c["schemas"][i][k] = None
                yield c
    for i, p in enumerate(case["policies"]):
        if p["subset"]:
            c = copy.deepcopy(case)
            c["policies"][i]["subset"] = []
            yield c


def neighbours(case, rng):
    for c in shrink(case):
        yield c
    for _ in range(20):
        c = copy.deepcopy(case)
        mutate(rng, c["v2"] if c.get("v2") and rng.chance(1, 2) else c)
        yield c


def known_match(entry, case, obs, failed):
    return False


LEVEL_TEXT = ("full proof over abstracted object facts: Coq theorems over every UpstreamCluster object (any endpoints, "
              "key/cert/CA data, flow-control members, policies, names, feature-gate annotation) about a Gallina model of "
              "validation.go + the admission plugin's Validate and of the consumers (CreateClusterInfo/Sync, controller "
              "sync, NewFlowControl, limiter handler): validation never panics, admitted objects are applied without "
              "error or panic, and each class of breaking object named by the property is rejected; library-dependent "
              "facts are oracle inputs computed by the real functions; model and real code are compared on ~1500 "
              "generated objects per run")
LEVEL_NOTE = ("trusted: Coq kernel + vm_compute, the hand-written model (tied by differential run only), Go harness and "
              "exports, the oracle laws (checked per case); modelled not verified: net/url, crypto/tls, client-go "
              "transport/rest, featuregate, metadata validation, the quota arithmetic of the limiter (C07); not covered: "
              "acquire/SetLimit traffic, version skew between gateway and limiter, API-backed limiter store; no axioms")
TECHNIQUE = "Coq proof (case analysis + induction over schema/endpoint/policy lists) + differential model/implementation correspondence"
