"""C15 — removal: deleted clusters / removed endpoints get no traffic, in-flight requests are cut,
probing stops, everything else is unaffected."""
from vf.core import cZ, cbool, clist
from props import c03 as _c03   # the ticker seam (regenerated endpoint.go) is shared with C03

PID = "C15"
MODULES = ["Prelude", "C15_Model", "C15_Spec", "C15_Check"]
PROPS_MODULE = "C15_Properties"
THEOREMS = ["C15_delete_cluster", "C15_remove_endpoint", "C15_done_is_forever", "C15_removed_never_picked_again",
            "C15_cut_needs_done_context", "C15_probe_context_parent", "C15_rejected_object_is_inert",
            "C15_stale_request_forwarded_before_fix"]
EVAL = "C15_Check.eval"
CLAUSES = ["agree", "not_routed", "inflight_cut", "prompt", "probing_stops", "others_unaffected"]
RULE = ("distinct (pre-history, scenario) pairs with a removal (cluster deleted or endpoint(s) removed) in which at least one request was in "
        "flight on the removed cluster/endpoint (resolved-before-pick, connecting or streaming) and at least one request or "
        "endpoint of another cluster / sibling endpoint was there to be left alone")
TRUSTED_BASE = [
    "Coq 8.16.1 kernel + vm_compute (case files); no native_compute, no extraction",
    "hand-written model C15_Model.v (manager name map, cluster/endpoint objects, context tree by cancel flags, request life "
    "phases) tied to /repo by the differential run of this check: real controller sync handler (create / sync / delete path), "
    "real manager, real proxy handler chain over real connections, real GatewayHealthCheck, stub upstreams that hold or "
    "stream their answers (harness/c15, harness/common/chainrig_c03.go, overlay exports)",
    "instrumentation: the ticker seam of C03 (time.NewTicker -> verifNewTicker in a regenerated endpoint.go) so that the "
    "harness can fire health-check ticks after the removal; a blocking stub authenticator holds requests between the "
    "WithUpstreamInfo filter (host resolved) and the dispatcher (policy matched, endpoint picked)",
    "modelled not verified: that a done context aborts a Go HTTP round trip and how fast (runtime + net/http + the dispatcher's "
    "and CancelableTransport's watcher goroutines): the model has an explicit 'cancellation delivered' step; the run measures "
    "client-side and upstream-side latency against a 10 s bound (a request that is not cut stays open for 20 s at least, so the bound only separates cut from hang on a loaded machine; typical latencies are a few ms, see the cut-latency histogram)",
]
ASSUMPTIONS = [
    "spec changes and deletions reach the gateway through the controller's sync handler, one at a time",
    "a request resolved to a cluster before its deletion and dispatched after it is forwarded with an already-cancelled context "
    "(Pop does not look at contexts): it is cut at once, but its first bytes may still reach the upstream — recorded as a "
    "measurement (stats label before-pick-victim-reached-upstream), not claimed impossible",
    "latency bound 10 s is a generous measurement bound, not a proved property",
]

HARNESS_CHUNK = 12
HARNESS_TIMEOUT = 600
COQ_SHARD = 30


def cl(i, eps, aliases=0, pre=()):
    """pre: server lists synced before the scenario proper, one list per sync with a state per endpoint
    (0 not listed, 1 enabled, 2 disabled:true); after them every endpoint is listed enabled."""
    return {"name": "c%d.example.com" % i, "aliases": ["c%d-alias%d.example.com" % (i, j) for j in range(aliases)],
            "eps": eps, "pre": [list(p) for p in pre]}


def rq(c, ep, phase="plain", via=0):
    return {"cl": c, "ep": ep, "phase": phase, "via": via}


def corpus():
    cs = []
    # delete one of two clusters: victims in the three phases, bystanders in the three phases, alias stops resolving
    cs.append({"clusters": [cl(0, 2, 1), cl(1, 1)],
               "reqs": [rq(0, 0, "before"), rq(0, 0, "connecting"), rq(0, 1, "streaming"), rq(0, -1, "before", 1),
                        rq(1, 0, "before"), rq(1, 0, "connecting"), rq(1, 0, "streaming")],
               "action": {"kind": "delete", "cl": 0, "eps": []},
               "after": [rq(0, 0), rq(0, 1, via=1), rq(0, -1), rq(1, 0), rq(1, -1)]})
    # remove one endpoint of three: victims on it, siblings untouched, catch-all goes to a sibling
    cs.append({"clusters": [cl(0, 3)],
               "reqs": [rq(0, 0, "before"), rq(0, 0, "connecting"), rq(0, 0, "streaming"),
                        rq(0, 1, "before"), rq(0, 1, "connecting"), rq(0, 1, "streaming"), rq(0, -1, "before")],
               "action": {"kind": "remove", "cl": 0, "eps": [0]},
               "after": [rq(0, 0), rq(0, 1), rq(0, 2), rq(0, -1)]})
    # remove every endpoint of a cluster (the cluster itself stays), other cluster untouched
    cs.append({"clusters": [cl(0, 2), cl(1, 2, 1)],
               "reqs": [rq(0, 0, "streaming"), rq(0, 1, "connecting"), rq(0, -1, "before"), rq(1, 1, "streaming", 1),
                        rq(1, -1, "connecting")],
               "action": {"kind": "remove", "cl": 0, "eps": [0, 1]},
               "after": [rq(0, -1), rq(0, 0), rq(1, -1), rq(1, 0, via=1)]})
    # delete the only cluster
    cs.append({"clusters": [cl(0, 1, 2)],
               "reqs": [rq(0, 0, "streaming", 2), rq(0, -1, "connecting"), rq(0, 0, "before", 1)],
               "action": {"kind": "delete", "cl": 0, "eps": []},
               "after": [rq(0, 0), rq(0, 0, via=1), rq(0, 0, via=2)]})
    # the probe loop of the victim was (re)started on the update path of addOrUpdateEndpoint:
    # (a) enabled -> disabled -> enabled again, then removed; sibling untouched
    cs.append({"clusters": [cl(0, 2, 0, pre=[(1, 1), (2, 1)])],
               "reqs": [rq(0, 0, "streaming"), rq(0, 1, "streaming"), rq(0, 0, "before")],
               "action": {"kind": "remove", "cl": 0, "eps": [0]},
               "after": [rq(0, 0), rq(0, 1)]})
    # (b) first added with disabled:true, enabled by a later sync, then removed
    cs.append({"clusters": [cl(0, 2, 1, pre=[(2, 1)]), cl(1, 1, 0, pre=[(2,)])],
               "reqs": [rq(0, 0, "connecting"), rq(0, 1, "connecting", 1), rq(1, 0, "streaming")],
               "action": {"kind": "remove", "cl": 0, "eps": [0]},
               "after": [rq(0, 0), rq(0, -1), rq(1, 0)]})
    # (c) several syncs: added late, toggled twice, removed and re-added (a new object), then the cluster is deleted
    cs.append({"clusters": [cl(0, 3, 0, pre=[(1, 0, 2), (2, 1, 1), (1, 1, 0), (1, 2, 1), (0, 1, 1)]), cl(1, 2, 0, pre=[(2, 2), (1, 2)])],
               "reqs": [rq(0, 0, "streaming"), rq(0, 2, "connecting"), rq(1, 1, "streaming"), rq(0, 1, "before")],
               "action": {"kind": "delete", "cl": 0, "eps": []},
               "after": [rq(0, 0), rq(1, 1), rq(1, 0)]})
    # drain, then remove: a stream runs on endpoint 0, endpoint 0 is marked disabled (the stream goes on), then it
    # is taken out of the server list while still disabled: it must leave the map, its context is done, the stream is cut
    cs.append({"clusters": [cl(0, 2)],
               "reqs": [rq(0, 0, "streaming"), rq(0, 0, "connecting"), rq(0, 1, "streaming"), rq(0, -1, "before")],
               "action": {"kind": "remove", "cl": 0, "eps": [0], "drain": [0], "unhealthy": []},
               "after": [rq(0, 0), rq(0, 1), rq(0, -1)]})
    # removed while disabled AND unhealthy; a sibling is drained but stays (its stream completes, no new traffic, no probes)
    cs.append({"clusters": [cl(0, 3, 1), cl(1, 1)],
               "reqs": [rq(0, 0, "streaming"), rq(0, 1, "streaming", 1), rq(0, 2, "connecting"), rq(1, 0, "streaming")],
               "action": {"kind": "remove", "cl": 0, "eps": [0], "drain": [0, 1], "unhealthy": [0]},
               "after": [rq(0, 0), rq(0, 1), rq(0, 2), rq(0, -1), rq(1, 0)]})
    # disabled -> removed -> re-added (and unlisted while disabled twice) in the history before the scenario; then the
    # whole cluster is deleted with one endpoint drained
    cs.append({"clusters": [cl(0, 2, 0, pre=[(1, 1), (2, 1), (0, 1), (1, 2), (1, 0)])],
               "reqs": [rq(0, 0, "streaming"), rq(0, 1, "connecting")],
               "action": {"kind": "delete", "cl": 0, "eps": [], "drain": [1], "unhealthy": [1]},
               "after": [rq(0, 0), rq(0, -1)]})
    # one update removes an endpoint AND lists a server whose URL cannot be turned into a client (the sync handler
    # fails on it): the removal must have happened all the same (first / last position; with a drain; all removed)
    cs.append({"clusters": [cl(0, 3), cl(1, 1)],
               "reqs": [rq(0, 0, "streaming"), rq(0, 0, "connecting"), rq(0, 1, "streaming"), rq(0, 0, "before"), rq(1, 0, "streaming")],
               "action": {"kind": "remove", "cl": 0, "eps": [0], "bad": "last"},
               "after": [rq(0, 0), rq(0, 1), rq(0, -1), rq(1, 0)]})
    cs.append({"clusters": [cl(0, 2, 1)],
               "reqs": [rq(0, 1, "streaming", 1), rq(0, 1, "connecting"), rq(0, 0, "streaming"), rq(0, -1, "before")],
               "action": {"kind": "remove", "cl": 0, "eps": [1], "bad": "first", "drain": [1], "unhealthy": []},
               "after": [rq(0, 1), rq(0, 0), rq(0, -1)]})
    cs.append({"clusters": [cl(0, 2), cl(1, 2)],
               "reqs": [rq(0, 0, "streaming"), rq(0, 1, "connecting"), rq(1, 1, "connecting")],
               "action": {"kind": "remove", "cl": 0, "eps": [0, 1], "bad": "first"},
               "after": [rq(0, -1), rq(1, -1)]})
    # objects that are never admitted because of a server-name collision, created and then deleted while the
    # owner of the name has requests in flight: (a) the object's NAME is an extra server name of cluster 0
    cs.append({"clusters": [cl(0, 2, 1), cl(1, 1)], "ghosts": [{"name": "c0-alias0.example.com", "aliases": []}],
               "reqs": [rq(0, 0, "streaming"), rq(0, 1, "connecting", 1), rq(0, 0, "before", 1), rq(1, 0, "streaming")],
               "action": {"kind": "ghost", "cl": 0, "eps": []},
               "after": [rq(0, 0), rq(0, 1, via=1), rq(1, 0)]})
    # (b) the object claims another cluster's NAME as an extra server name
    cs.append({"clusters": [cl(0, 2), cl(1, 1, 1)], "ghosts": [{"name": "x.example.com", "aliases": ["c0.example.com"]}],
               "reqs": [rq(0, 0, "streaming"), rq(0, 1, "connecting"), rq(1, 0, "streaming", 1)],
               "action": {"kind": "ghost", "cl": 0, "eps": []},
               "after": [rq(0, 0), rq(0, -1), rq(1, 0)]})
    # (c) the same extra server name is claimed by two objects (the second is rejected); (a) again with upper case
    cs.append({"clusters": [cl(0, 1, 2), cl(1, 2)],
               "ghosts": [{"name": "y.example.com", "aliases": ["c0-alias1.example.com"]}, {"name": "C0-ALIAS0.example.com", "aliases": []}],
               "reqs": [rq(0, 0, "streaming", 2), rq(0, 0, "connecting", 1), rq(1, 1, "before")],
               "action": {"kind": "ghost", "cl": 1, "eps": []},
               "after": [rq(0, 0, via=1), rq(0, 0, via=2), rq(1, 0)]})
    # control: no removal, everything completes
    cs.append({"clusters": [cl(0, 2), cl(1, 1)],
               "reqs": [rq(0, 0, "before"), rq(0, 1, "connecting"), rq(1, 0, "streaming")],
               "action": {"kind": "none", "cl": 0, "eps": []},
               "after": [rq(0, -1), rq(1, 0)]})
    return cs


def gen_scen(rng):
    ncl = rng.choice([1, 2, 2, 3])
    clusters = []
    for i in range(ncl):
        n = rng.choice([1, 2, 2, 3, 3])
        pre = []
        if rng.chance(2, 3):      # a history before the scenario: toggles, late adds, disabled-first, re-adds
            for _ in range(rng.choice([1, 1, 2, 2, 3, 4])):
                pre.append([rng.choice([1, 1, 2, 2, 0]) for _ in range(n)])
        clusters.append(cl(i, n, rng.choice([0, 0, 1, 2]), pre))
    k = rng.below(24)
    tcl = rng.below(ncl)
    ghosts = []
    if k >= 20 or rng.chance(1, 5):     # colliding objects that must be rejected
        for _ in range(rng.choice([1, 1, 2])):
            own = rng.below(ncl)
            names = [clusters[own]["name"]] + clusters[own]["aliases"]
            shape = rng.below(3)
            if shape == 0 and clusters[own]["aliases"]:      # its name is an extra server name of a cluster
                nm = rng.choice(clusters[own]["aliases"])
                ghosts.append({"name": nm.upper() if rng.chance(1, 4) else nm, "aliases": []})
            elif shape == 1:                                  # claims a cluster's name as extra server name
                ghosts.append({"name": "g%d.example.com" % len(ghosts), "aliases": [clusters[own]["name"]]})
            else:                                             # claims a name some cluster already serves
                ghosts.append({"name": "g%d.example.com" % len(ghosts), "aliases": [rng.choice(names), "g%d-extra.example.com" % len(ghosts)]})
    if k >= 20:
        action = {"kind": "ghost", "cl": rng.below(len(ghosts)), "eps": []}
        teps = []
    elif k < 9:
        action = {"kind": "delete", "cl": tcl, "eps": []}
        teps = list(range(clusters[tcl]["eps"]))
    elif k < 18:
        n = clusters[tcl]["eps"]
        teps = sorted(rng.sample(list(range(n)), rng.choice([1, 1, 1, 2, n])))
        action = {"kind": "remove", "cl": tcl, "eps": teps}
    else:
        action = {"kind": "none", "cl": 0, "eps": []}
        teps = []

    if action["kind"] in ("remove", "delete") and rng.chance(1, 2):
        n = clusters[tcl]["eps"]
        pool = teps if rng.chance(2, 3) else list(range(n))       # mostly drain what is about to go
        action["drain"] = sorted(rng.sample(pool, rng.randint(1, len(pool))))
        action["unhealthy"] = sorted(e for e in teps if e in action["drain"] and rng.chance(1, 3))

    if action["kind"] == "remove" and rng.chance(1, 4):
        action["bad"] = rng.choice(["first", "last"])

    def one(phases):
        if rng.chance(3, 5):          # aim at what is going to be removed
            c = tcl
            ep = rng.choice(teps) if teps and rng.chance(4, 5) else -1
        else:
            c = rng.below(ncl)
            ep = rng.choice([-1] + list(range(clusters[c]["eps"])))
        return rq(c, ep, rng.choice(phases), rng.below(len(clusters[c]["aliases"]) + 1))

    reqs = [one(["before", "connecting", "streaming"]) for _ in range(rng.randint(3, 8))]
    after = [one(["plain"]) for _ in range(rng.randint(2, 5))]
    return {"clusters": clusters, "ghosts": ghosts, "reqs": reqs, "action": action, "after": after}


def generate(rng, tier, scale=1):
    n = 55 if tier == "quick" else 700
    return [gen_scen(rng) for _ in range(n * scale)]


PH = {"before": "QBefore", "connecting": "QConnecting", "streaming": "QStreaming", "plain": "QPlain"}
UE = {"": "UNone", "ctx": "UCtx", "complete": "UComplete"}


def coq_req(r):
    return "(mkSreq %d %s %s %d)" % (r["cl"], cZ(r["ep"]), PH[r.get("phase", "plain")], r.get("via", 0))


def coq_robs(o):
    return "(mkRobs %s %s %s %s %s %s %s %s %s %s)" % (
        cbool(o["reached"]), cZ(o["code"]), cbool(o["complete"]), cbool(o["hang"]), cZ(o["stub"]), cbool(o["up_seen"]),
        cZ(o["up_stub"]), UE[o["up_ended"]], cZ(o["end_ms"]), cZ(o["up_ms"]))


def coq_case(case, obs):
    try:
        if "panic" in obs:
            return "CBroken"
        ids = {}

        def nid(name):
            return ids.setdefault(name.lower(), len(ids))
        cls = clist(["(mkScl %d %s %d %s)" % (nid(c["name"]), clist([cZ(nid(a)) for a in c["aliases"]]), c["eps"],
                                              clist([clist([cZ(x) for x in (list(p) + [1] * c["eps"])[:c["eps"]]])
                                                     for p in c.get("pre", [])]))
                     for i, c in enumerate(case["clusters"])])
        a = case["action"]
        ghosts = clist(["(%d, %s)" % (nid(gh["name"]), clist([cZ(nid(x)) for x in gh["aliases"]])) for gh in case.get("ghosts", [])])
        dr = clist([cZ(e) for e in a.get("drain", [])])
        unh = clist([cZ(e) for e in a.get("unhealthy", [])])
        act = {"delete": "(ADelete %d %s)" % (a["cl"], dr), "none": "ANone", "ghost": "(AGhost %d)" % a["cl"],
               "remove": "(ARemove %d %s %s)" % (a["cl"], clist([cZ(e) for e in a["eps"]]), dr)}[a["kind"]]
        ro = [dict(o) for o in obs["reqs"]]
        for o in ro:       # requests sent before the removal: "reached" is part of the observation
            pass
        ao = [dict(o, reached=True) for o in obs["after"]]
        co = clist(["(mkClobs %s %s %s %s)" % (clist([cbool(b) for b in c["resolves"]]), cbool(c["ctxdone"]),
                                               clist(["(mkEobs %s %s %s)" % (cbool(e["inmap"]), cbool(e["ctxdone"]), cZ(e["hits_delta"]))
                                                      for e in c["eps"]]),
                                               clist([clist(["(%s, %s)" % (cbool(x[0]), cbool(x[1])) for x in row]) for row in c["pre"]]))
                    for c in obs["clusters"]])
        bad = {"first": 1, "last": 2}.get(a.get("bad", ""), 0)
        return "(CScen %s %s %s %d %s %s %s %s %s %s)" % (
            cls, ghosts, unh, bad, clist([coq_req(r) for r in case["reqs"]]), act, clist([coq_req(dict(r, phase="plain")) for r in case["after"]]),
            clist([coq_robs(o) for o in ro]), clist([coq_robs(o) for o in ao]), co)
    except (KeyError, ValueError, TypeError, IndexError):
        return "CBroken"


def _victim(case, r):
    a = case["action"]
    if a["kind"] == "delete":
        return r["cl"] == a["cl"]
    if a["kind"] == "remove":
        return r["cl"] == a["cl"] and r["ep"] in a["eps"]
    return False


def nontrivial_key(case, obs):
    if case["action"]["kind"] == "none" or "reqs" not in obs:
        return None
    if case["action"]["kind"] == "ghost":      # non-trivial when the owner of the collided name has requests in flight
        return repr((case["clusters"], case["ghosts"], case["reqs"], case["action"])) if case["reqs"] else None
    vict = [r for r in case["reqs"] if _victim(case, r)]
    others = [r for r in case["reqs"] if not _victim(case, r)]
    if vict and (others or len(case["clusters"]) > 1 or case["clusters"][case["action"]["cl"]]["eps"] > len(case["action"]["eps"])):
        return repr((case["clusters"], case["reqs"], case["action"], case["after"]))
    return None


def stats(case, obs):
    labs = ["action:" + case["action"]["kind"], "clusters:%d" % len(case["clusters"])]
    a = case["action"]
    if a["kind"] == "ghost":
        gh = case["ghosts"][a["cl"]]
        labs.append("ghost:" + ("name-is-server-name" if not gh["aliases"] else "claims-taken-server-name"))
    if a.get("bad"):
        labs.append("removal-with-unusable-server:" + a["bad"])
    if a.get("drain"):
        rem = a["eps"] if a["kind"] == "remove" else list(range(case["clusters"][a["cl"]]["eps"]))
        for e in a["drain"]:
            labs.append("drained:" + ("then-removed" if e in rem else "stays-listed") + ("+unhealthy" if e in a.get("unhealthy", []) else ""))
    if a["kind"] in ("delete", "remove"):
        pre = case["clusters"][a["cl"]].get("pre", [])
        vict = a["eps"] if a["kind"] == "remove" else list(range(case["clusters"][a["cl"]]["eps"]))
        for e in vict:
            hist = [(list(p) + [1] * 8)[e] for p in pre] + [1]
            # the probe loop running at removal time was started on the update path iff the endpoint was
            # listed disabled right before it was last enabled
            k = len(hist) - 1
            while k > 0 and hist[k - 1] == 1:
                k -= 1
            labs.append("victim-probe-loop:" + ("update-path" if k > 0 and hist[k - 1] == 2 else "new-endpoint-path"))
    for r, o in zip(case["reqs"], obs.get("reqs", [])):
        v = _victim(case, r)
        cls = "complete" if o["complete"] else ("503" if o["code"] == 503 and not o["up_seen"] else "cut")
        labs.append("%s:%s->%s" % ("victim" if v else "bystander", r["phase"], cls))
        if v and cls == "cut":
            ms = max(o["end_ms"], o["up_ms"])
            labs.append("cut-latency:%s" % ("<=10ms" if ms <= 10 else "<=100ms" if ms <= 100 else "<=2000ms" if ms <= 2000 else ">2000ms"))
        if v and r["phase"] == "before" and case["action"]["kind"] == "delete" and o["up_seen"]:
            labs.append("before-pick-victim-reached-upstream")
    for r, o in zip(case["after"], obs.get("after", [])):
        labs.append("after:%s->%d" % ("removed" if _victim(case, r) else "other", o["code"]))
    return labs


def shrink(case):
    for i in range(len(case["reqs"])):
        yield dict(case, reqs=case["reqs"][:i] + case["reqs"][i + 1:])
    for i in range(len(case["after"])):
        yield dict(case, after=case["after"][:i] + case["after"][i + 1:])


def neighbours(case, rng):
    yield from shrink(case)


def known_match(entry, case, obs, failed):
    return False


LEVEL_TEXT = ("partial proof: Coq theorems over every reachable state (every history of upserts, deletions, probes, requests in "
              "any phase of their life) about a Gallina model of the manager's name map, cluster and endpoint objects and the "
              "context tree (cluster ctx -> endpoint ctx -> probe ctx; request ctx joined with the client ctx): after the deletion "
              "of a cluster none of its names resolves (503), every endpoint, probe and in-flight request context of it is done and "
              "stays done, a request that had resolved it earlier can only be forwarded with a dead context, nothing of another "
              "cluster changes; after the removal of an endpoint it is never picked again, its contexts and its requests' contexts "
              "are done, siblings are untouched — for removal at each phase (before pick / connecting / streaming). The model is "
              "compared with the real controller + manager + proxy handler chain on generated removal scenarios on every run and "
              "the executable spec is evaluated on the real observations. Modelled, not verified: that a done context aborts a Go "
              "HTTP round trip, and how promptly (runtime, net/http, watcher goroutines) — measured against a 10 s bound (typically a few ms)")
LEVEL_NOTE = ("trusted: Coq kernel + vm_compute, the hand-written model (tied by differential run only), Go harness, overlay exports, "
              "ticker seam; modelled not verified: delivery and promptness of cancellation (Go runtime + net/http), goroutine "
              "timing; 'promptly' is a measurement (client- and upstream-side latency <= 10 s, typically a few ms); no axioms")
TECHNIQUE = ("Coq proof (context tree as cancel flags, invariants and frame lemmas over op histories) + differential "
             "model/implementation correspondence on removal scenarios with requests held in each life phase + latency measurement")
