"""C08 — global count: the server never grants beyond the global limit; accounting is exact."""
import os

from vf import core
from vf.core import B, cstr, cZ, cbool, clist, cpair

PID = "C08"
MODULES = ["Prelude", "C06_Model", "C06_Spec", "C06_Check", "C08_Model", "C08_Spec", "C08_Check"]
PROPS_MODULE = "C08_Properties"
THEOREMS = ["C08_total_exact", "C08_bound", "C08_bound_history", "C08_decrease_applied", "C08_stale_id_refused",
            "C08_id_recorded", "C08_spec_history", "C08_grant_range", "C08_negative_refused", "C08_tokens_rate",
            "C08_tokens_rate_concurrent", "C08_wrap_refuted"]
EVAL = "C08_Check.eval"
CLAUSES = ["agree", "total", "bound", "decrease", "stale", "range", "negative", "rate"]
RULE = ("max-in-flight histories (direct object or through DoAcquire): distinct op lists with at least two instances, "
        "at least one refused increase (rollback) or report at/over the limit, and at least one of: removal, limit "
        "change, stale request id; token-bucket histories: distinct op lists with at least one grant smaller than "
        "asked (halving) or refusal and one full grant; stress and scripted-caller cases: distinct scripts")
TRUSTED_BASE = [
    "Coq 8.16.1 kernel + vm_compute (case files); no native_compute, no extraction",
    "hand-written model C08_Model.v (+ C06_Model.v for the rate limiter) tied to /repo by the differential run of this "
    "check: real flowcontrol.NewGlobalFlowControl objects, real rateLimiter.DoAcquire with the local store",
    "modelled not verified: sync.RWMutex / sync.Mutex (each SetState / TryAcquireN is one critical section), "
    "sync/atomic, float64 arithmetic of x/time/rate (comparison band as in C06), the DebugInfo() string format",
]
ASSUMPTIONS = [
    "every SetState is one critical section under the object's write lock and reads max exactly once at its decision "
    "point; Resize is one atomic store: any interleaving of SetState/Resize calls equals a sequential history of these "
    "atomic operations, and the theorems quantify over ALL such sequences (validated, not proved, by the concurrent "
    "stress cases: count = total and count <= limit at quiescence)",
    "limits and reported counts below 2^30 (no int32 wrap-around; C08_wrap_refuted shows what happens beyond)",
    "token bucket: clock read under the object's lock (commit 38ee676), 1 ns clock quantum as in C06",
    "request ids are forgotten when an instance is removed (a re-registered instance starts a new id sequence)",
]

NS = 10 ** 9
BASE = 1_700_000_000 * NS
TBFILE = "pkg/ratelimiter/store/flowcontrol/tokenbucket.go"
HOOK = ("\n// VerifNow is the virtual clock of the verification harness (overlay build only).\n"
        "var VerifNow func() time.Time\n\n"
        "func verifNow() time.Time {\n\tif f := VerifNow; f != nil {\n\t\treturn f()\n\t}\n\treturn time.Now()\n}\n")


def prepare():
    """Instrumented copy of the CURRENT tokenbucket.go: time.Now() -> verifNow() (hook appended to the file)."""
    out = os.path.join(core.BUILD, "C08", "tokenbucket_instrumented.go")
    os.makedirs(os.path.dirname(out), exist_ok=True)
    try:
        src = open(os.path.join(core.REPO, TBFILE)).read()
    except OSError:
        src = ""
    gen = src.replace("time.Now()", "verifNow()") + HOOK if "time.Now()" in src else src
    old = open(out).read() if os.path.exists(out) else None
    if old != gen:
        with open(out, "w") as f:
            f.write(gen)
    return out


prepare()

INSTS = [b"gw1", b"gw2", b"gw3", b"gw4"]
I32 = 2 ** 31 - 1


def sset(i, rid, cur):
    return {"op": "set", "i": B(i), "rid": rid, "cur": cur}


def corpus():
    cs = []
    # limit 100 -> 50 with 60 + 30 recorded, then 55 (a decrease, refused by the old code), then an increase
    cs.append({"kind": "mif", "max": 100, "pat": "lowered-limit", "ops": [
        sset(b"gw1", 1, 60), sset(b"gw2", 1, 30), {"op": "resize", "n": 50}, sset(b"gw1", 2, 55),
        sset(b"gw1", 3, 70), sset(b"gw2", 2, 31), sset(b"gw2", 3, 0), sset(b"gw1", 4, 50), sset(b"gw1", 5, 51)]})
    # removals: twice in a row, of an unknown instance, and a report after the removal
    cs.append({"kind": "mif", "max": 20, "pat": "removal", "ops": [
        sset(b"gw1", 1, 10), sset(b"gw2", 1, 5), sset(b"gw1", -1, -1), sset(b"gw1", -1, -1), sset(b"gw3", -1, -1),
        sset(b"gw1", 1, 15), sset(b"gw2", -1, -1), sset(b"gw2", -1, -7)]})
    # request ids: equal, older, newer, zero (no check), negative, after removal
    cs.append({"kind": "mif", "max": 20, "pat": "ids", "ops": [
        sset(b"gw1", 5, 3), sset(b"gw1", 5, 4), sset(b"gw1", 4, 4), sset(b"gw1", 6, 4), sset(b"gw1", 0, 5),
        sset(b"gw1", -3, 6), sset(b"gw1", 6, 7), sset(b"gw2", 9, 30), sset(b"gw2", 9, 1), sset(b"gw2", 10, 1),
        sset(b"gw1", -1, -1), sset(b"gw1", 1, 2)]})
    # exactly at the limit, one over, back to zero
    cs.append({"kind": "mif", "max": 10, "pat": "at-limit", "ops": [
        sset(b"gw1", 0, 10), sset(b"gw2", 0, 1), sset(b"gw1", 0, 0), sset(b"gw2", 0, 10), sset(b"gw2", 0, 11),
        sset(b"gw1", 0, 0), {"op": "resize", "n": 10}, {"op": "resize", "n": 0}, sset(b"gw2", 0, 9), sset(b"gw3", 0, 0)]})
    # int32 wrap-around: outside the stated range, compared with the model only
    cs.append({"kind": "mif", "max": I32, "pat": "wrap", "ops": [
        sset(b"gw1", 0, I32), {"op": "resize", "n": 0}, sset(b"gw2", 0, I32), sset(b"gw3", 0, 5)]})
    # racing removals / reports (the old code subtracted twice, or kept the delta of a removed instance)
    cs.append({"kind": "stress", "max": 50, "pat": "racing-removals", "threads": [
        [sset(b"gw1", 0, 10), sset(b"gw1", -1, -1)] * 60, [sset(b"gw1", -1, -1)] * 120,
        [sset(b"gw1", 0, 7), sset(b"gw2", 0, 3)] * 60, [sset(b"gw1", -1, -1), sset(b"gw2", 0, 4)] * 60]})
    # DoAcquire: negative asks, halving on the token bucket, stale id through the API
    cs.append({"kind": "acq", "max": 10, "q": 10, "b": 8, "pat": "acquire", "ops": [
        {"op": "acqm", "i": B(b"gw1"), "rid": 1, "n": 6}, {"op": "acqm", "i": B(b"gw2"), "rid": 1, "n": 6},
        {"op": "acqm", "i": B(b"gw2"), "rid": 1, "n": 2}, {"op": "acqm", "i": B(b"gw1"), "rid": 2, "n": -1},
        {"op": "acqt", "i": B(b"gw1"), "t": BASE, "n": 20}, {"op": "acqt", "i": B(b"gw1"), "t": BASE, "n": 20},
        {"op": "acqt", "i": B(b"gw2"), "t": BASE, "n": -5}, {"op": "acqt", "i": B(b"gw2"), "t": BASE, "n": 0},
        {"op": "acqt", "i": B(b"gw2"), "t": BASE + NS // 2, "n": 8}, {"op": "resizem", "n": 5},
        {"op": "acqm", "i": B(b"gw1"), "rid": 3, "n": 5}, {"op": "remove", "i": B(b"gw1")},
        {"op": "acqm", "i": B(b"gw2"), "rid": 2, "n": 5}, {"op": "resizet", "q": 10, "b": 8},
        {"op": "acqt", "i": B(b"gw2"), "t": BASE + NS // 2, "n": 4}, {"op": "resizet", "q": 1, "b": 2},
        {"op": "acqt", "i": B(b"gw2"), "t": BASE + NS // 2, "n": 4}]})
    # the stale-clock schedule of C06 on the server bucket (callers overtaken between clock reading and decision)
    ms = 1000000
    cs.append({"kind": "tbconc", "q": 10, "b": 1, "pat": "stale-witness", "evs": script([
        ("read", 0, 0, 1), ("go", 0, 0, 1),
        ("read", 2, 50 * ms, 1), ("read", 1, 100 * ms, 1), ("go", 1, 100 * ms, 1), ("go", 2, 100 * ms, 1),
        ("read", 4, 100 * ms, 1), ("read", 3, 150 * ms, 1), ("go", 3, 150 * ms, 1), ("go", 4, 150 * ms, 1),
        ("read", 6, 150 * ms, 1), ("read", 5, 200 * ms, 1), ("go", 5, 200 * ms, 1), ("go", 6, 200 * ms, 1),
        ("read", 7, 250 * ms, 1), ("go", 7, 250 * ms, 1)])})
    return cs


def script(evs):
    return [{"ev": e, "id": k, "t": BASE + t, "n": n} for e, k, t, n in evs]


def gen_mif_ops(rng, mx, n, boundary=False):
    ops, ids = [], {}
    vals = [0, 1, 2, 3, 5, max(0, mx // 2), max(0, mx - 1), mx, mx + 1, 2 * mx + 1]
    if boundary:
        vals += [2 ** 30 - 1, 2 ** 30, I32, I32 - 1]
    for _ in range(n):
        k = rng.below(100)
        i = rng.choice(INSTS[:rng.choice([2, 3, 4])])
        if k < 9:
            ops.append(sset(i, rng.choice([-1, 0, 7]), rng.choice([-1, -1, -5])))
            ids.pop(i, None)
        elif k < 17:
            ops.append({"op": "resize", "n": rng.choice([0, 1, 5, 10, 50, 100, mx, max(0, mx // 2)] +
                                                         ([2 ** 30, I32] if boundary else []))})
        else:
            last = ids.get(i, 0)
            r = rng.below(10)
            rid = last + 1 if r < 6 else (last if r < 7 else (max(0, last - 1) if r < 8 else (0 if r < 9 else last + 5)))
            if rid > last:
                ids[i] = rid
            cur = min(I32, rng.choice(vals) if rng.chance(3, 4) else rng.randint(0, 2 * mx + 2))
            ops.append(sset(i, rid, cur))
    return ops


def gen_acq_case(rng):
    q, b = rng.choice([(1, 1), (10, 8), (100, 40), (7, 3), (1000, 100)])
    mx = rng.choice([1, 5, 10, 50])
    t, ids, ops = 0, {}, []
    cq, cb = q, b
    for _ in range(rng.randint(8, 40)):
        tick = NS // cq
        k = rng.below(100)
        i = rng.choice(INSTS[:3])
        if k < 40:
            last = ids.get(i, 0)
            rid = last + 1 if rng.chance(4, 5) else rng.choice([last, max(0, last - 1), 0])
            if rid > last:
                ids[i] = rid
            ops.append({"op": "acqm", "i": B(i), "rid": rid, "n": rng.choice([-1, 0, 1, 2, mx // 2, mx, mx + 1, 3])})
        elif k < 80:
            t += rng.choice([0, 0, tick, tick // 2, 3 * tick, rng.randint(0, 2 * NS), tick + 1])
            ops.append({"op": "acqt", "i": B(i), "t": BASE + t,
                        "n": rng.choice([-2, 0, 1, 2, cb // 2, cb, cb + 1, 2 * cb, 8 * cb, 9 * cb + 1,
                                         rng.randint(0, 3 * cb)])})
        elif k < 87:
            ops.append({"op": "remove", "i": B(i)})
            ids.pop(i, None)
        elif k < 94:
            ops.append({"op": "resizem", "n": rng.choice([0, 1, 5, 10, mx])})
        else:
            cq, cb = rng.choice([(cq, cb), (10, 8), (3, 2), (100, 40)])
            ops.append({"op": "resizet", "q": cq, "b": cb})
    return {"kind": "acq", "max": mx, "q": q, "b": b, "pat": "acquire", "ops": ops}


def gen_stress(rng):
    mx = rng.choice([5, 20, 50])
    threads = []
    for _ in range(rng.randint(3, 8)):
        ops = []
        for _ in range(rng.randint(50, 200)):
            i = rng.choice(INSTS[:rng.choice([1, 2, 4])])
            if rng.chance(1, 5):
                ops.append(sset(i, -1, -1))
            else:
                ops.append(sset(i, 0, rng.choice([0, 1, 2, 3, mx // 2, mx, mx + 1])))
        threads.append(ops)
    return {"kind": "stress", "max": mx, "pat": "stress", "threads": threads}


def gen_tbconc(rng):
    q, b = rng.choice([(1, 2), (10, 4), (100, 10), (5, 1)])
    tick = NS // q
    n = rng.randint(4, 9)
    t, nxt, parked, evs = 0, 0, [], []
    while nxt < n or parked:
        t += rng.choice([0, 0, tick // 2, tick, tick + 1, 2 * tick, rng.randint(0, 3 * tick)])
        if nxt < n and (not parked or (len(parked) < 3 and rng.chance(1, 2))):
            evs.append(("read", nxt, t, rng.choice([1, 1, 2, b, b + 1, 0])))
            parked.append(nxt)
            nxt += 1
        else:
            k = parked.pop(rng.below(len(parked)))
            evs.append(("go", k, t, 0))
    return {"kind": "tbconc", "q": q, "b": b, "pat": "tbconc", "evs": script(evs)}


def generate(rng, tier, scale=1):
    nm, na, ns, nc = (600, 150, 6, 4) if tier == "quick" else (8000, 2000, 60, 30)
    nm, na, ns, nc = nm * scale, na * scale, ns * scale, nc * scale
    cs = []
    for k in range(nm):
        boundary = k % 12 == 11            # separate boundary stream: values at / beyond 2^30, int32 extremes
        mx = rng.choice([0, 1, 5, 10, 50, 100]) if not boundary else rng.choice([2 ** 30 - 1, 2 ** 30, I32, 10])
        cs.append({"kind": "mif", "max": mx, "pat": "boundary" if boundary else "history",
                   "ops": gen_mif_ops(rng, mx, rng.randint(4, 40), boundary)})
    for _ in range(na):
        cs.append(gen_acq_case(rng))
    for _ in range(ns):
        cs.append(gen_stress(rng))
    for _ in range(nc):
        cs.append(gen_tbconc(rng))
    return cs


def go_case(case):
    return {k: v for k, v in case.items() if k != "pat"}


# ----------------------------------------------------------------------------- Coq terms
def coq_dbg(res, d):
    return ("(Build_gobs %s %s %s %s %s)" %
            (res, cZ(d["count"]), cZ(d["total"]), cZ(d["max"]),
             clist([cpair(cstr(x["i"]), cZ(x["c"])) for x in d["insts"]])))


def coq_sres(s):
    return "(Build_sres %s %s %s)" % (cbool(s["accept"]), cZ(s["latest"]), cbool(s["err"]))


def coq_ares(s):
    return "(Build_ares %s %s %s)" % (cbool(s["accept"]), cZ(s["latest"]), cbool(s["err"]))


def coq_case(case, obs):
    if not isinstance(obs, dict) or "panic" in obs:
        return "CBad"
    k = case["kind"]
    if k == "mif":
        st = obs.get("steps", [])
        if len(st) != len(case["ops"]):
            return "CBad"
        tr = []
        for o, s in zip(case["ops"], st):
            op = ("(GSet %s %s %s)" % (cstr(o["i"]), cZ(o["rid"]), cZ(o["cur"])) if o["op"] == "set"
                  else "(GResize %s)" % cZ(o["n"]))
            tr.append(cpair(op, coq_dbg(coq_sres(s), s["dbg"])))
        return "(CMif %s %s)" % (cZ(case["max"]), clist(tr))
    if k == "stress":
        d = obs["dbg"]
        rep = {}
        for th in case["threads"]:
            for o in th:
                if o["cur"] >= 0:
                    rep.setdefault(bytes(o["i"]), set()).add(o["cur"])
        reported = clist([cpair(cstr(i), clist([cZ(v) for v in sorted(vs)])) for i, vs in sorted(rep.items())])
        return "(CStress %s %s %s %s %s)" % (cZ(case["max"]), reported, cZ(d["count"]), cZ(d["total"]),
                                             clist([cpair(cstr(x["i"]), cZ(x["c"])) for x in d["insts"]]))
    if k == "acq":
        st = obs.get("steps", [])
        if len(st) != len(case["ops"]):
            return "CBad"
        tr = []
        for o, s in zip(case["ops"], st):
            if o["op"] == "acqm":
                op = "(AAcqM %s %s %s)" % (cstr(o["i"]), cZ(o["rid"]), cZ(o["n"]))
            elif o["op"] == "acqt":
                op = "(AAcqT %s %s %s)" % (cZ(o["t"]), cstr(o["i"]), cZ(o["n"]))
            elif o["op"] == "remove":
                op = "(ARemove %s)" % cstr(o["i"])
            elif o["op"] == "resizem":
                op = "(AResizeM %s)" % cZ(o["n"])
            else:
                op = "(AResizeT %s %s)" % (cZ(o["q"]), cZ(o["b"]))
            tr.append(cpair(op, "(Build_aobs %s %s)" % (coq_ares(s), coq_dbg("(Build_sres false 0 false)", s["dbg"]))))
        return "(CAcq %s %s %s %s)" % (cZ(case["max"]), cZ(case["q"]), cZ(case["b"]), clist(tr))
    if k == "tbconc":
        calls = obs.get("calls", [])
        if len(calls) != sum(1 for e in case["evs"] if e["ev"] == "read"):
            return "CBad"
        return "(CTbConc %s %s %s)" % (cZ(case["q"]), cZ(case["b"]), clist(
            ["(%s, %s, %s, %s, %s)" % (cZ(x["inv"]), cZ(x["read"]), cZ(x["resp"]), cZ(x["n"]), cbool(x["ok"]))
             for x in calls]))
    return "CBad"


def nontrivial_key(case, obs):
    if "panic" in obs:
        return None
    k = case["kind"]
    if k == "mif":
        ops, st = case["ops"], obs.get("steps", [])
        insts = {bytes(o["i"]) for o in ops if o["op"] == "set"}
        refused = any(o["op"] == "set" and o["cur"] >= 0 and not s["err"] and not s["accept"] for o, s in zip(ops, st))
        other = any(o["op"] == "resize" or (o["op"] == "set" and o["cur"] < 0) for o in ops) or any(s["err"] for s in st)
        return ("mif", case["max"], repr(ops)) if len(insts) >= 2 and refused and other else None
    if k == "acq":
        ops, st = case["ops"], obs.get("steps", [])
        part = any(o["op"] == "acqt" and o["n"] > 0 and s["latest"] < o["n"] for o, s in zip(ops, st))
        full = any(o["op"] == "acqt" and o["n"] > 0 and s["accept"] and s["latest"] == o["n"] for o, s in zip(ops, st))
        return ("acq", repr(ops)) if part and full else None
    if k == "stress":
        return ("stress", repr(case["threads"]))
    if k == "tbconc":
        return ("tbconc", repr(case["evs"]))
    return None


def stats(case, obs):
    k = case["kind"]
    labs = ["kind:" + k, "pat:" + case.get("pat", "")]
    if "panic" in obs:
        return labs + ["panic"]
    if k == "mif":
        for o, s in zip(case["ops"], obs.get("steps", [])):
            if o["op"] == "resize":
                labs.append("mif:resize")
            elif o["cur"] < 0:
                labs.append("mif:removal")
            elif s["err"]:
                labs.append("mif:stale-id")
            elif s["accept"]:
                labs.append("mif:accepted")
            elif s["latest"] == o["cur"]:
                labs.append("mif:recorded-at-limit")
            else:
                labs.append("mif:increase-rolled-back")
    elif k == "acq":
        for o, s in zip(case["ops"], obs.get("steps", [])):
            if o["op"] == "acqt":
                labs.append("tb:negative" if o["n"] < 0 else "tb:full" if s["accept"] and s["latest"] == o["n"]
                            else "tb:halved" if s["accept"] else "tb:refused")
            elif o["op"] == "acqm":
                labs.append("acqm:negative" if o["n"] < 0 else "acqm:err" if s["err"] else
                            "acqm:accept" if s["accept"] else "acqm:limit")
            else:
                labs.append("acq:" + o["op"])
    elif k == "stress":
        labs.append("stress:threads=%d" % len(case["threads"]))
    return labs


def shrink(case):
    if case["kind"] in ("mif", "acq"):
        ops = case["ops"]
        n = len(ops)
        if n > 6:
            yield dict(case, ops=ops[:n // 2])
        for i in range(n):
            yield dict(case, ops=ops[:i] + ops[i + 1:])


def neighbours(case, rng):
    if case["kind"] in ("mif", "acq"):
        ops = case["ops"]
        for i in range(len(ops)):
            yield dict(case, ops=ops[:i] + ops[i + 1:])
            yield dict(case, ops=ops[:i] + [ops[i]] + ops[i:])
        for d in (-1, 1):
            if case["max"] + d >= 0:
                yield dict(case, max=case["max"] + d)


def known_match(entry, case, obs, failed):
    return False


COQ_SHARD = 100
LEVEL_TEXT = ("full proof for the sequential accounting: Coq theorems over every sequence of reports, removals, request "
              "ids and limit changes (each SetState is one critical section under the object's write lock and Resize one "
              "atomic store, so every interleaving of concurrent calls is such a sequence): exact total, bound, "
              "decreases applied, stale ids refused; token bucket: grant range, negative asks refused, rate bound over "
              "all acquire sequences and all schedules of concurrent callers (via the C06 limiter model); the model is "
              "compared with real GlobalFlowControl objects and a real rateLimiter.DoAcquire on generated histories on "
              "every run and the executable spec is evaluated on the real observations")
LEVEL_NOTE = ("trusted: Coq kernel + vm_compute, the hand-written models (tied by differential run only), Go harness, the "
              "generated overlay copy of tokenbucket.go; modelled not verified: the lock-atomicity of SetState / "
              "TryAcquireN (validated by concurrent stress and scripted-caller cases at quiescence, not proved), "
              "sync/atomic, float64 rounding in x/time/rate; theorems assume limits and counts < 2^30 "
              "(C08_wrap_refuted: int32 wrap-around beyond); no axioms")
TECHNIQUE = "Coq proof (invariants over all operation sequences) + differential model/implementation run"
