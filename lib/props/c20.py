"""C20 — control-plane objects: spec/status separation and generation conventions."""
import copy
from vf.core import cZ, cbool, clist, copt, cpair

PID = "C20"
MODULES = ["Prelude", "C20_Model", "C20_Spec", "C20_Check"]
PROPS_MODULE = "C20_Properties"
THEOREMS = ["C20_status_update_keeps_spec_labels", "C20_main_update_keeps_status", "C20_create",
            "C20_generation_iff", "C20_model_meets_spec", "C20_generation_refuted_for_representation_equality",
            "C20_stored_generation_iff_stored_change", "C20_stored_status_update", "C20_stored_create"]
EVAL = "C20_Check.eval"
CLAUSES = ["agree", "status_keeps_spec_labels_gen", "main_keeps_status", "create", "generation"]
RULE = ("distinct (kind, op, stored, submitted, direct|decoded) cases where op is update/status and the two objects "
        "differ in at least one of {labels, annotations, finalizers, spec, status, generation} (nil vs empty counts as a "
        "representation difference), or op is create with a non-empty submitted status or a submitted generation != 1; "
        "the no-change pairs are counted separately under stats 'diff:none'")
TRUSTED_BASE = [
    "Coq 8.16.1 kernel + vm_compute (case files); no native_compute, no extraction",
    "hand-written model C20_Model.v tied to /repo by the differential run of this check (harness/c20: the strategies are "
    "taken out of the storage map built by the real proxyrest.NewRESTStorageProviderOrDie / registry.NewResourceREST; "
    "only the etcd storage is stubbed)",
    "modelled not verified: k8s.io/apiserver rest.BeforeCreate/BeforeUpdate (generation reset, metadata validation: only "
    "generation >= 0 / not decremented is modelled), reflect / apiequality.Semantic.DeepEqual on the API structs, the JSON codec",
]
ASSUMPTIONS = [
    "every clause is judged on the STORED object before vs the object the whole rest.BeforeCreate/BeforeUpdate step "
    "(PrepareFor*, validation, Canonicalize) leaves to be stored; the stored object of an update case is injected "
    "directly (not only produced by a create); annotation keys include well-known ones",
    "leaf cases: the difference between stored and submitted spec ranges over every real leaf field of "
    "UpstreamClusterSpec / RateLimitSpec (enumerated reflectively by the harness); 'the spec changed' is decided by the "
    "harness on the wire form (JSON of the Spec member) independently of the code under test and handed to the abstract "
    "model as payload 0 vs 1",
    "kind 'ucx' = the strategies registered for UpstreamCluster (main + status endpoint) applied to a "
    "RateLimitCondition-typed object, because UpstreamClusterStatus is an empty struct and the status clauses could "
    "not be exercised on the real type otherwise (the strategies are reflect-generic)",
    "spec/status payloads are abstracted to one scalar and one slice member each, metadata to labels, annotations, "
    "finalizers and generation; UpstreamClusterStatus has no members, so on the real type only the empty status exists",
    "a nil and an empty slice/map are the same value for 'changed' (identical wire form; the JSON decoder really produces "
    "both, see the 'raw' cases); with the strict reading (nil != empty is a change) the unrepaired code would pass",
    "generation clause is stated for stored generations 0 <= g < 2^63-1 (at MaxInt64 the bumped update is rejected by "
    "metadata validation, which the model and the corpus include)",
    "requests that rest.BeforeUpdate rejects store nothing and satisfy every clause",
]

MAXI = 2 ** 63 - 1
# [key, value]; value 0 is rendered as the empty string (marker annotations such as "paused": "")
KV = [None, [], [[1, 1]], [[1, 2]], [[1, 1], [2, 1]], [[1, 0]], [[2, 0]], [[1, 1], [2, 0]], [[1, 1], [3, 0]], [[1, 0], [2, 1]]]
# keys 7, 8, 9 are WELL-KNOWN annotation keys (harness: kubectl.kubernetes.io/last-applied-configuration,
# deployment.kubernetes.io/revision, proxy.kubegateway.io/feature-gates); the others are verif.io/k<n>
KV += [[[7, 1]], [[7, 2]], [[1, 1], [7, 1]], [[7, 1], [8, 1]], [[8, 1]], [[8, 2]], [[9, 1]], [[1, 1], [9, 1]],
       [[7, 1], [8, 1], [9, 1]], [[2, 0], [7, 1]]]
WELL_KNOWN = [7, 8, 9]
FIN = [None, [], [1], [1, 2]]
SC = [None, [], [1], [1, 2], [2, 1]]
STC = [None, [], [3], [3, 4]]
GENS = [0, 1, 5, 5, 41]


def desc(gen=5, labels=None, ann=None, fin=None, s=1, c=None, stc=None):
    return {"gen": gen, "labels": labels, "ann": ann, "fin": fin, "spec": {"s": s, "c": c}, "status": {"s": 0, "c": stc}}


def case(kind, op, old, new, raw=False):
    return {"kind": kind, "op": op, "raw": raw, "old": old, "new": new}


def corpus():
    cs = []
    base = desc(5, [[1, 1]], [[2, 2]], [1], 1, [1, 2])
    for kind in ("uc", "ucx", "rlc"):
        for raw in (False, True):
            # the no-change pair: the tree before 1d76359 answered 6
            cs.append(case(kind, "update", base, copy.deepcopy(base), raw))
            # nil-vs-empty pairs (same wire form): annotations, spec member, both directions
            cs.append(case(kind, "update", desc(5), desc(5, ann=[]), raw))
            cs.append(case(kind, "update", desc(5, ann=[]), desc(5), raw))
            cs.append(case(kind, "update", desc(5), desc(5, c=[]), raw))
            cs.append(case(kind, "update", desc(5, c=[]), desc(5), raw))
            cs.append(case(kind, "update", desc(5), desc(5, labels=[], fin=[]), raw))
            # empty-valued (marker) keys: replaced by another one, added, removed, value emptied
            cs.append(case(kind, "update", desc(5, ann=[[1, 0]]), desc(5, ann=[[2, 0]]), raw))
            cs.append(case(kind, "update", desc(5, ann=[[1, 1], [2, 0]]), desc(5, ann=[[1, 1], [3, 0]]), raw))
            cs.append(case(kind, "update", desc(5, ann=[[1, 1]]), desc(5, ann=[[1, 0]]), raw))
            cs.append(case(kind, "update", desc(5, ann=[]), desc(5, ann=[[1, 0]]), raw))
            cs.append(case(kind, "update", desc(5, labels=[[1, 0]]), desc(5, labels=[[2, 0]]), raw))
            # each member alone
            cs.append(case(kind, "update", base, dict(copy.deepcopy(base), labels=[[1, 2]]), raw))
            cs.append(case(kind, "update", base, dict(copy.deepcopy(base), ann=[[2, 3]]), raw))
            cs.append(case(kind, "update", base, dict(copy.deepcopy(base), fin=[1, 2]), raw))
            cs.append(case(kind, "update", base, dict(copy.deepcopy(base), spec={"s": 2, "c": [1, 2]}), raw))
            cs.append(case(kind, "update", base, dict(copy.deepcopy(base), spec={"s": 1, "c": [2, 1]}), raw))
            cs.append(case(kind, "update", base, dict(copy.deepcopy(base), gen=99), raw))
            cs.append(case(kind, "create", base, dict(copy.deepcopy(base), gen=99), raw))
            cs.append(case(kind, "create", base, desc(0), raw))
            # everything differs, through the status endpoint (rlc: not served)
            allnew = desc(77, [[1, 2]], [[2, 3]], [1, 2], 2, [2])
            cs.append(case(kind, "status", base, allnew, raw))
            cs.append(case(kind, "update", base, allnew, raw))
    for kind in ("rlc", "ucx"):   # kinds whose Go type has a non-empty status
        cs.append(case(kind, "update", desc(5, stc=[3]), desc(5, stc=[3, 4])))
        cs.append(case(kind, "update", desc(5, stc=[3]), desc(5, s=2, stc=None)))
        cs.append(case(kind, "update", desc(5, stc=None), desc(5, stc=[])))
        cs.append(case(kind, "create", desc(5), desc(9, stc=[3, 4])))
        cs.append(case(kind, "create", desc(5), desc(9, stc=[])))
        cs.append(case(kind, "status", desc(5, stc=[3]), desc(6, [[1, 1]], [[1, 1]], [1], 2, [2], [3, 4])))
    # generation boundaries
    for kind in ("uc", "rlc"):
        cs.append(case(kind, "update", desc(MAXI), desc(1, s=2)))          # bump would wrap: rejected
        cs.append(case(kind, "update", desc(MAXI), desc(1)))               # unchanged: accepted, stays
        cs.append(case(kind, "update", desc(MAXI - 1), desc(1, s=2)))      # reaches MaxInt64
        cs.append(case(kind, "update", desc(0), desc(7, ann=[[1, 1]])))
        cs.append(case(kind, "update", desc(-1), desc(7, s=3)))            # -1 -> 0 accepted
        cs.append(case(kind, "update", desc(-5), desc(7)))                 # negative stays: rejected
        cs.append(case(kind, "create", desc(), desc(-5)))
    cs.append(case("uc", "status", desc(-5), desc(7)))
    cs.append(case("uc", "status", desc(MAXI), desc(7, s=2, labels=[[1, 1]])))
    cs += stored_corpus()
    cs += leaf_corpus()
    return cs


def stored_corpus():
    """Stored object before vs stored object after, with well-known annotation keys: re-apply of an identical manifest,
    label-only / status-only updates of an object stored with such an annotation (the stored object is injected
    directly), first appearance and removal of the annotation (seed C20-f: Canonicalize dropped the last-applied key
    after the generation decision had been taken on the submitted annotations)."""
    cs = []
    for kind in ("uc", "ucx", "rlc"):
        for raw in (False, True):
            for key in WELL_KNOWN + [1]:
                for others in ([], [[2, 1]]):
                    ann = sorted(others + [[key, 1]])
                    stc = [3] if kind != "uc" else None
                    with_a = desc(1, [[1, 1]], ann, None, 1, [1], stc)
                    without = desc(1, [[1, 1]], others or None, None, 1, [1], stc)
                    manifest = dict(copy.deepcopy(with_a), gen=0)
                    cs.append(case(kind, "create", without, manifest, raw))                       # first apply
                    cs.append(case(kind, "update", with_a, manifest, raw))                        # re-apply, stored as on /repo
                    cs.append(case(kind, "update", without, manifest, raw))                       # re-apply onto a store that lacks it
                    cs.append(case(kind, "update", with_a, dict(copy.deepcopy(manifest), labels=[[1, 2]]), raw))   # label only
                    cs.append(case(kind, "update", with_a, dict(copy.deepcopy(manifest), fin=[1]), raw))
                    cs.append(case(kind, "update", with_a, dict(copy.deepcopy(without), gen=0), raw))              # annotation removed
                    cs.append(case(kind, "update", with_a, dict(copy.deepcopy(manifest), ann=sorted(others + [[key, 2]])), raw))
                    cs.append(case(kind, "status", with_a, dict(copy.deepcopy(manifest), status={"s": 0, "c": [4] if kind != "uc" else None}), raw))
                    cs.append(case(kind, "status", with_a, dict(copy.deepcopy(without), labels=[[1, 2]]), raw))
    return cs


def rand_desc(rng, kind):
    return desc(rng.choice(GENS), rng.choice(KV), rng.choice(KV), rng.choice(FIN), rng.below(3), rng.choice(SC),
                rng.choice(STC) if kind != "uc" else None)


FIELDS = ["gen", "labels", "ann", "fin", "spec", "status"]


def gen_pair(rng):
    kind = rng.choice(["uc", "uc", "ucx", "ucx", "rlc"])
    old = rand_desc(rng, kind)
    fresh = rand_desc(rng, kind)
    new = copy.deepcopy(old)
    k = rng.below(10)
    nmut = 0 if k < 1 else (1 if k < 5 else (2 if k < 8 else rng.randint(3, 6)))
    for f in rng.sample(FIELDS, nmut):
        new[f] = copy.deepcopy(fresh[f])
    r = rng.below(20)
    if r < 3:
        op = "create"
    elif r < 12:
        op = "update"
    else:
        op = "status" if (kind != "rlc" or rng.chance(1, 4)) else "update"
    return case(kind, op, old, new, rng.chance(1, 4))


# ----------------------------------------------------------------------------- real leaf fields of the Spec types
# The harness enumerates the leaves of UpstreamClusterSpec / RateLimitSpec reflectively; a case names a leaf by
# index (mod the number of leaves) and a value by index (mod the number of variants of the leaf's type:
# strings "" / documented default / others, ints 0 1 2 -1, bools, nil / empty / one / two elements, nil / zero /
# non-zero pointer). Whether the specs differ is reported by the harness from their wire form.
LEAF_SPAN = 96          # more than the number of leaves of the largest Spec type (indices wrap)
LEAF_VARIANT_PAIRS = [(0, 1), (1, 0), (1, 2), (2, 0), (0, 0), (3, 4)]


def leaf_case(kind, populate, old_edits, new_edits, ann_old=None, ann_new=None, gen=5):
    o = desc(gen, [[1, 1]], ann_old, None, 1, [1])
    n = desc(gen, [[1, 1]], ann_new, None, 1, [1])
    c = case(kind, "update", o, n, False)
    c["leaf"] = {"populate": populate, "old": old_edits, "new": new_edits}
    return c


def leaf_corpus():
    cs = []
    for kind in ("uc", "rlc"):
        span = LEAF_SPAN if kind == "uc" else 16
        for i in range(span):
            for k, (a, b) in enumerate(LEAF_VARIANT_PAIRS):
                cs.append(leaf_case(kind, (i + k) % 2 == 0, [[i, a]], [[i, b]]))
    return cs


def gen_leaf(rng):
    kind = "uc" if rng.chance(3, 4) else "rlc"
    n = rng.choice([1, 1, 2, 3, 5])
    leaves = [rng.below(LEAF_SPAN) for _ in range(n)]
    common = [[rng.below(LEAF_SPAN), rng.below(5)] for _ in range(rng.below(4))]   # same edits on both sides
    old = common + [[i, rng.below(5)] for i in leaves]
    new = common + [[i, rng.below(5)] for i in leaves if rng.chance(3, 4)]
    ann = rng.choice(KV)
    return leaf_case(kind, rng.chance(1, 2), old, new, ann, ann if rng.chance(3, 4) else rng.choice(KV), rng.choice(GENS))


def gen_stored(rng):
    """object stored with well-known annotations; the submitted object is the identical manifest or differs in labels /
    finalizers / status only, or in exactly the well-known annotation"""
    kind = rng.choice(["uc", "uc", "ucx", "rlc"])
    old = rand_desc(rng, kind)
    old["ann"] = sorted((old["ann"] or []) and [p for p in old["ann"] if p[0] not in WELL_KNOWN] or []) + \
        [[k, rng.choice([1, 2])] for k in rng.sample(WELL_KNOWN, rng.randint(1, 2))]
    old["ann"] = sorted(old["ann"])
    new = copy.deepcopy(old)
    new["gen"] = rng.choice([0, old["gen"], 77])
    k = rng.below(6)
    if k == 1:
        new["labels"] = rng.choice(KV)
    elif k == 2:
        new["fin"] = rng.choice(FIN)
    elif k == 3 and kind != "uc":
        new["status"] = {"s": 0, "c": rng.choice(STC)}
    elif k == 4:
        new["ann"] = [p for p in new["ann"] if p[0] not in WELL_KNOWN] or None
    elif k == 5:
        new["ann"] = sorted([p if p[0] not in WELL_KNOWN else [p[0], 3 - p[1]] for p in new["ann"]])
    op = rng.choice(["update", "update", "update", "status" if kind != "rlc" else "update", "create"])
    return case(kind, op, old, new, rng.chance(1, 4))


def generate(rng, tier, scale=1):
    n, nb = (520, 40) if tier == "quick" else (8000, 400)
    n, nb = n * scale, nb * scale
    cs = [gen_pair(rng) for _ in range(n)]
    cs += [gen_stored(rng) for _ in range((150 if tier == "quick" else 3000) * scale)]
    cs += [gen_leaf(rng) for _ in range((200 if tier == "quick" else 6000) * scale)]
    edge = [MAXI, MAXI - 1, -1, -2 ** 63, 0, 2 ** 31, 2 ** 32]
    for _ in range(nb):   # boundary stream: generations at the int64 edges
        c = gen_pair(rng)
        c["old"]["gen"] = rng.choice(edge)
        if rng.chance(1, 2):
            c["new"]["gen"] = rng.choice(edge)
        cs.append(c)
    return cs


# ----------------------------------------------------------------------------- Coq printing
def ccoll(x, f):
    return "CNil" if x is None else "(CList %s)" % clist([f(v) for v in x])


def cobj(d):
    return ("(Build_obj %s %s %s %s (Build_payload %s %s) "
            "(Build_payload %s %s))" %
            (cZ(d["gen"]), ccoll(d["labels"], lambda p: cpair(cZ(p[0]), cZ(p[1]))),
             ccoll(d["ann"], lambda p: cpair(cZ(p[0]), cZ(p[1]))), ccoll(d["fin"], cZ),
             cZ(d["spec"]["s"]), ccoll(d["spec"]["c"], cZ), cZ(d["status"]["s"]), ccoll(d["status"]["c"], cZ)))


KIND = {"uc": "KUpstreamCluster", "ucx": "KUpstreamCluster", "rlc": "KRateLimitCondition"}
OP = {"create": "OpCreate", "update": "OpUpdate", "status": "OpStatus"}
SUB = {"uc": True, "ucx": True, "rlc": False}


def _abstract_leaf(case, obs):
    """Leaf cases are handed to the (unchanged) abstract model: the spec payload of the stored object is 0, the one of
    the submitted object is 1 iff the harness found the two wire forms different; the payload of the object to be
    stored is the submitted one iff its wire form is the submitted spec's (anything else: 2 = disagreement)."""
    case = copy.deepcopy(case)
    obs = copy.deepcopy(obs)
    differs = bool(obs.get("spec_differs"))
    case["old"]["spec"] = {"s": 0, "c": None}
    case["new"]["spec"] = {"s": 1 if differs else 0, "c": None}
    if obs.get("res") == "ok":
        obs["obj"]["spec"] = copy.deepcopy(case["new"]["spec"]) if obs.get("spec_kept") else {"s": 2, "c": None}
        obs["old"]["spec"] = copy.deepcopy(case["old"]["spec"]) if obs.get("old_kept") else {"s": 2, "c": None}
    return case, obs


def coq_case(case, obs):
    if case.get("leaf") and "panic" not in obs:
        case, obs = _abstract_leaf(case, obs)
    head = "(Build_case %s %s %s %s " % (KIND[case["kind"]], OP[case["op"]],
                                                                  cobj(case["old"]), cobj(case["new"]))
    if "panic" in obs or obs.get("res") not in ("ok", "err", "noendpoint"):
        # a panic of the strategies: no clause of this property speaks about it -> visible as a correspondence break
        return head + "Rejected None %s)" % cbool(not SUB[case["kind"]])
    if obs["res"] == "ok":
        out = "(Stored %s)" % cobj(obs["obj"])
    else:
        out = "Rejected" if obs["res"] == "err" else "NoEndpoint"
    old = "(Some %s)" % cobj(obs["old"]) if obs.get("old") else "None"
    return head + "%s %s %s)" % (out, old, cbool(obs["sub"]))


def _diff(case):
    return [f for f in FIELDS if case["old"][f] != case["new"][f]]


def nontrivial_key(case, obs):
    if case.get("leaf"):
        return repr((case["kind"], "leaf", case["leaf"], case["old"]["ann"], case["new"]["ann"]))
    if case["op"] == "create":
        if case["new"]["status"]["c"] or case["new"]["gen"] != 1:
            return repr((case["kind"], "create", case["new"], case["raw"]))
        return None
    if _diff(case):
        return repr((case["kind"], case["op"], case["old"], case["new"], case["raw"]))
    return None


def stats(case, obs):
    if case.get("leaf"):
        labs = ["leaf:%s edits=%d/%d" % (case["kind"], len(case["leaf"]["old"]), len(case["leaf"]["new"])),
                "leaf:spec_differs=%s" % obs.get("spec_differs"), "leaf:%s" % obs.get("res", "panic")]
        if obs.get("res") == "ok":
            g = obs["obj"]["gen"] - case["old"]["gen"]
            labs.append("leaf:differs=%s gen%+d" % (obs.get("spec_differs"), g))
        if len(case["leaf"]["old"]) == 1 and len(case["leaf"]["new"]) == 1 and obs.get("paths"):
            labs.append("leafpath:" + obs["paths"][0].split("=")[0])
        return labs
    labs = ["%s:%s->%s" % (case["kind"], case["op"], obs.get("res", "panic")), "decoded" if case["raw"] else "direct"]
    if case["op"] != "create":
        d = _diff(case)
        labs.append("diff:" + ("+".join(d) if d else "none"))
        same_sem = lambda a, b: (a or []) == (b or [])
        o, n = case["old"], case["new"]
        if d and all(same_sem(o[f], n[f]) if f in ("labels", "ann", "fin") else
                     (f in ("spec", "status") and o[f]["s"] == n[f]["s"] and same_sem(o[f]["c"], n[f]["c"]))
                     for f in d):
            labs.append("diff:nil-vs-empty-only")
        if obs.get("res") == "ok" and case["op"] == "update":
            labs.append("gen:%s" % ("same" if obs["obj"]["gen"] == o["gen"] else
                                    "+1" if obs["obj"]["gen"] == o["gen"] + 1 else "other"))
    return labs


def shrink(case):
    if case.get("leaf"):
        lf = case["leaf"]
        for side in ("old", "new"):
            for i in range(len(lf[side])):
                c = copy.deepcopy(case)
                c["leaf"][side].pop(i)
                yield c
        if lf["populate"]:
            c = copy.deepcopy(case)
            c["leaf"]["populate"] = False
            yield c
        if case["old"]["ann"] != case["new"]["ann"]:
            c = copy.deepcopy(case)
            c["new"]["ann"] = copy.deepcopy(c["old"]["ann"])
            yield c
        return
    if case["op"] == "create":
        return
    for f in FIELDS:
        if case["old"][f] != case["new"][f]:
            c = copy.deepcopy(case)
            c["new"][f] = copy.deepcopy(case["old"][f])
            yield c
    for f in ("labels", "ann", "fin"):
        if case["old"][f]:
            c = copy.deepcopy(case)
            same = c["new"][f] == c["old"][f]
            c["old"][f] = None
            if same:
                c["new"][f] = None
            yield c
    if case["raw"]:
        yield dict(copy.deepcopy(case), raw=False)


def neighbours(case, rng):
    for c in shrink(case):
        yield c
    for f in ("labels", "ann", "fin"):
        for v in (None, []):
            c = copy.deepcopy(case)
            c["new"][f] = v
            yield c
    for v in (None, []):
        c = copy.deepcopy(case)
        c["new"]["spec"]["c"] = v
        yield c
    for op in ("create", "update", "status"):
        yield dict(copy.deepcopy(case), op=op)


def known_match(entry, case, obs, failed):
    return False


LEVEL_TEXT = ("full proof: Coq theorems over every kind registered by the control plane, every stored/submitted pair "
              "(arbitrary labels, annotations, finalizers, spec, status, generation, nil or empty collections) about a "
              "Gallina model of rest.BeforeCreate/BeforeUpdate wrapped around DefaultRESTStrategy / "
              "DefaultStatusRESTStrategy; the model is compared on every run with the strategies taken out of the "
              "storage map built by the real registration code, and the executable spec is evaluated on the real objects")
LEVEL_NOTE = ("trusted: Coq kernel + vm_compute, the hand-written model (tied by differential run only), Go harness; "
              "modelled not verified: k8s.io/apiserver BeforeCreate/BeforeUpdate, (Semantic.)DeepEqual on API structs, "
              "JSON codec; payloads abstracted to a scalar + a slice member; no axioms (closed under the global context)")
TECHNIQUE = "Coq proof (case analysis over the strategy model) + differential model/implementation correspondence"
