"""Shared history generator of C10 / C11 (the two properties use one Go rig, harness/c10/rig.go).

A history is a list of API-level ops
    {"op":"apply","force":bool,"obj":{...}}   create/update through the real admission plugin
    {"op":"delete","name":B}                   delete; the controller receives the last stored object
    {"op":"retry","k":i}                       the object delivered by op i is delivered again
over a small universe of cluster names, aliases, endpoints, schemas, certs, so that collisions,
moves, case changes, removals and restorations are frequent.  All randomness comes from `rng`.
"""
from vf.core import B

CLUSTERS = [b"a", b"b", b"c", b"a.b"]
ALIASES = [b"x", b"y", b"z", b"X", b"Y", b"x.y", b"A", b"b", b"c", b"Z.example.com", b"x:443", b"x.y.z"]
SCHEMAS = [b"s1", b"s2", b"s3"]
VERBSETS = [["*"], ["get"], ["get", "list"], ["create", "delete"], ["list"], ["watch"]]
NEP = 4


def hosts_for(names):
    """probe hosts: every name, its upper-case form, with ports"""
    hs = []
    for j, n in enumerate(names):
        vs = (n, n.upper() + b":6443") if j >= 2 else (n, n.upper(), n + b":443", n.upper() + b":6443")
        for v in vs:
            if v not in hs:
                hs.append(v)
    for v in (b"nosuch", b"[x]:443", b"x.", b"X:1:2"):
        if v not in hs:
            hs.append(v)
    return hs


def xprobes_for(names, rng=None, limit=12):
    """cross probes (Host header, SNI of the TLS connection the request arrives on): same name, another
    cluster's name / alias, unknown, empty, upper-case"""
    names = [n for n in names if n]
    out = []
    for j, h in enumerate(names[:4]):
        others = [n for n in names if n.lower() != h.lower()]
        snis = [h, h.upper(), b"", b"nosuch"] + others[:3]
        for sni in snis:
            out.append((h + (b":6443" if j % 2 else b""), sni))
    out.append((b"nosuch", names[0]))
    out.append((b"NOSUCH:443", names[-1].upper()))
    if rng is not None and len(out) > limit:
        keep = out[-2:]
        out = rng.sample(out[:-2], limit - 2) + keep
    return out[:max(limit, 2)] if rng is None else out


def gen_schema(rng, name):
    k = rng.below(3)
    s = {"name": B(name), "kind": k, "a": 0, "b": 0, "strat": rng.choice([0, 0, 1, 2, 3]), "global": 0}
    if k == 1:
        s["a"] = rng.choice([0, 1, 5, 100])
    elif k == 2:
        s["a"] = rng.choice([1, 5, 50])
        s["b"] = s["a"] + rng.choice([0, 1, 10])
    if k and s["strat"] >= 2 and rng.chance(1, 2):
        s["global"] = rng.choice([1, 10])
    return s


SECTION_FIELDS = {"gates": ("ann", "gates"), "fc": ("fc",), "sn": ("sn",), "tls": ("cert", "key", "ca"),
                  "eps": ("eps",), "pol": ("pol",), "log": ("log",)}
EMPTY = {"ann": 0, "gates": [], "fc": [], "sn": [], "cert": 0, "key": 0, "ca": 0, "log": 0}


def _copy(v):
    if isinstance(v, list):
        return [_copy(x) for x in v]
    if isinstance(v, dict):
        return {k: _copy(x) for k, x in v.items()}
    return v


def pol_valid(o):
    names = [bytes(s["name"]) for s in o["fc"]]
    present = [e["e"] for e in o["eps"]]
    return bool(o["pol"]) and all((not p["fc"] or bytes(p["fc"]) in names) and all(e in present for e in p["subset"])
                                  for p in o["pol"])


def tweak_schema(rng, s):
    """change ONE thing of a schema in place: only the burst (raised / lowered), only the rate, both, the slots,
    the strategy, or the type"""
    k = rng.below(10)
    if s["kind"] == 2:
        if k < 4:
            s["b"] = max(s["a"], s["b"] + rng.choice([-20, -3, -1, 1, 5, 40]))      # burst only
        elif k < 6:
            s["a"] = max(1, min(s["b"], s["a"] + rng.choice([-4, -1, 1, 3])))        # rate only (burst >= rate)
        elif k < 8:
            s["a"] = rng.choice([1, 5, 50])
            s["b"] = s["a"] + rng.choice([0, 1, 10])
        elif k < 9:
            s["strat"] = rng.choice([0, 1, 2, 3])
        else:
            s["kind"], s["a"], s["b"], s["global"] = 1, rng.choice([0, 1, 5, 100]), 0, 0
    elif s["kind"] == 1:
        if k < 6:
            s["a"] = max(0, s["a"] + rng.choice([-50, -1, 1, 7, 95]))
        elif k < 8:
            s["strat"] = rng.choice([0, 1, 2, 3])
        else:
            s["kind"], s["a"], s["global"] = 2, rng.choice([1, 5, 50]), 0
            s["b"] = s["a"] + rng.choice([0, 1, 10])
    else:
        s["kind"], s["a"], s["b"], s["global"] = rng.choice([(1, 5, 0, 0), (2, 5, 10, 0)])
    if s["kind"] == 0 or s["strat"] < 2:
        s["global"] = 0


def gen_obj(rng, name, aliases, prev=None, valid_only=True, history=()):
    """a fresh random object, or a mutation of `prev` (one to three sections change).

    A section that changes is, with probability ~1/3, RESTORED verbatim from an earlier version of the same
    cluster (`history`, which also holds versions from before a removal or a delete of the cluster), with
    probability ~1/5 REMOVED (nil / empty), otherwise drawn at random: value -> removed -> the identical
    earlier value is therefore a frequent shape for every section, so that any "unchanged since I last
    looked" shortcut in a section syncer that is not invalidated by the intermediate change shows up."""
    if prev is not None and rng.chance(3, 4):
        o = _copy(prev)
        sections = rng.sample(["gates", "fc", "sn", "tls", "eps", "pol", "log"], rng.choice([1, 1, 2, 3]))
    else:
        o = {"name": B(name), "ann": 0, "gates": [], "fc": [], "sn": [], "cert": 0, "key": 0, "ca": 0, "eps": [],
             "pol": [], "log": 0, "client": 0}
        sections = ["gates", "fc", "sn", "tls", "eps", "pol", "log"]
    o["client"] = 0
    how = {}
    for sec in sections:
        k = rng.below(100)
        fields = SECTION_FIELDS[sec]
        if history and k < 35:
            # prefer an earlier version whose section differs from the current one
            diff = [h for h in history if any(h[f] != o[f] for f in fields)]
            src = rng.choice(diff or list(history))
            if sec == "tls" and rng.chance(1, 3):
                f = rng.choice(fields)               # one of key / cert / CA only
                o[f] = _copy(src[f])
            elif sec == "fc" and src["fc"] and rng.chance(1, 3):
                one = _copy(rng.choice(src["fc"]))   # one schema only
                o["fc"] = [x for x in o["fc"] if x["name"] != one["name"]] + [one]
            else:
                for f in fields:
                    o[f] = _copy(src[f])
            how[sec] = "restore"
        elif k < 55 and sec not in ("eps", "pol"):
            for f in fields:
                o[f] = _copy(EMPTY[f])
            if sec == "gates":
                o["ann"] = rng.below(4)              # nil map / empty map / other key / empty value
            how[sec] = "remove"
        else:
            how[sec] = "random"
    if how.get("gates") == "random":
        o["ann"] = rng.below(4)
        o["gates"] = [[rng.below(4), rng.below(2)] for _ in range(rng.choice([0, 1, 1, 2, 3]))]
    if how.get("fc") == "random":
        if o["fc"] and rng.chance(1, 2):
            tweak_schema(rng, rng.choice(o["fc"]))       # one limit of one schema changes, the rest stays
        else:
            names = rng.sample(SCHEMAS, rng.choice([0, 1, 1, 2, 3]))
            o["fc"] = [gen_schema(rng, n) for n in names]
    if how.get("sn") == "random":
        o["sn"] = [B(a) for a in rng.sample(aliases, rng.choice([0, 1, 1, 2, 3]))]
        if o["sn"] and rng.chance(1, 8):
            o["sn"].append(rng.choice(o["sn"]))  # duplicate alias
        if rng.chance(1, 10):
            o["sn"].append(B(name))  # own name as alias
    if how.get("tls") == "random":
        k = rng.below(10)
        if k < 2:
            o["cert"] = o["key"] = 0
        elif k < 7:
            o["cert"] = o["key"] = rng.randint(1, 3)
        elif k < 8:
            o["cert"], o["key"] = rng.randint(1, 3), 0      # key removed / never given
        elif k < 9:
            o["cert"], o["key"] = 0, rng.randint(1, 3)
        else:
            o["cert"] = o["key"] = rng.randint(1, 3)
        o["ca"] = rng.choice([0, 1, 2, 3])
    if how.get("eps") == "random" or not o["eps"]:
        eps = rng.sample(range(NEP), rng.randint(1, 3))
        o["eps"] = [{"e": e, "dis": rng.choice([0, 0, 1, 2])} for e in eps]
        if rng.chance(1, 10):
            o["eps"].append({"e": eps[0], "dis": rng.choice([0, 2])})  # duplicate endpoint
    present = [e["e"] for e in o["eps"]]
    if how.get("pol") == "random" or not pol_valid(o):
        pol = []
        for _ in range(rng.randint(1, 3)):
            fcn = b""
            if o["fc"] and rng.chance(2, 3):
                fcn = bytes(rng.choice(o["fc"])["name"])
            sub = rng.sample(present, rng.choice([0, 0, 1, 2])) if present else []
            pol.append({"verbs": rng.choice(VERBSETS), "fc": B(fcn), "subset": sorted(set(sub)), "log": rng.below(3)})
        o["pol"] = pol
    if how.get("log") == "random":
        o["log"] = rng.below(3)
    if not valid_only:
        k = rng.below(6)
        if k == 0:
            o["eps"] = [{"e": -1, "dis": 0}]            # endpoint the data plane cannot create
        elif k == 1:
            o["gates"] = o["gates"] + [[4, 1]]          # unknown gate
        elif k == 2:
            o["cert"], o["key"] = 1, 2                  # key does not match certificate
        elif k == 3:
            o["ca"] = -1                                # unparsable client CA
        elif k == 4:
            o["client"] = 1                             # insecure + CA: passes validation, client-go refuses it
        else:
            o["pol"] = o["pol"] + [{"verbs": ["get"], "fc": B(b"nosuch"), "subset": [], "log": 0}]
    return o


def gen_history(rng, n_ops=None, p_force=0, p_invalid=0, p_retry=0, p_gap=0):
    ncl = rng.randint(2, 4)
    clusters = rng.sample(CLUSTERS, ncl)
    aliases = rng.sample(ALIASES[:8], rng.randint(2, 5))
    if rng.chance(1, 3):
        aliases.append(rng.choice(clusters))      # an alias colliding with a cluster name
    if rng.chance(1, 6):
        aliases.append(rng.choice(ALIASES[8:]))
    n = n_ops or rng.randint(5, 25)
    ops = []
    last = {}
    versions = {}   # every version ever generated per cluster, also across deletes
    for i in range(n):
        k = rng.below(100)
        if k < 12 and last:
            nm = rng.choice(sorted(last))
            ops.append({"op": "delete", "name": B(nm), "tomb": rng.chance(1, 3)})
            last.pop(nm, None)
        elif k < 12 + p_retry and ops:
            # mostly legal re-deliveries: an object the client library refuses (its creation is requeued),
            # or the current version of some cluster (resync); sometimes any earlier event
            cands = [j for j, q in enumerate(ops) if q["op"] == "apply" and
                     (q["obj"]["client"] == 1 or q["force"] or last.get(bytes(q["obj"]["name"])) is q["obj"])]
            if cands and rng.chance(4, 5):
                ops.append({"op": "retry", "k": rng.choice(cands)})
            else:
                ops.append({"op": "retry", "k": rng.below(len(ops))})
        else:
            nm = rng.choice(clusters)
            invalid = rng.below(100) < p_invalid
            o = gen_obj(rng, nm, aliases, last.get(nm), valid_only=not invalid, history=versions.get(nm, ()))
            if not invalid:
                versions.setdefault(nm, []).append(o)
            gap = rng.below(100) < p_gap
            if gap:
                o["client"] = 1   # insecure + CA: refused by validation and by client-go; only reaches the controller forced
            force = invalid or gap or rng.below(100) < p_force
            ops.append({"op": "apply", "force": force, "obj": o})
            last[nm] = o   # (if admission refuses it the next mutation still starts from it: fine)
    names = list(clusters)
    for a in aliases:
        if a not in names:
            names.append(a)
    return {"hosts": [B(h) for h in hosts_for(names)], "xp": [[B(h), B(x)] for h, x in xprobes_for(names, rng)],
            "mid": True, "via": rng.below(2),
            "ops": ops, "clusters": [B(c) for c in clusters],
            "schemas": [B(s) for s in SCHEMAS] + [B(b""), B(b"nosuch")],
            "fresh": [rng.below(4) for _ in range(3)], "views": True}


def gen_conflict_history(rng):
    """Admission race: a version of cluster a that claims a name held by cluster b reaches the store, the controller
    rejects it (server-name conflict) and asks for a requeue; usually a newer version of a is synced meanwhile, the
    reason for the rejection disappears (b deleted / gives the name up), and the queue re-delivers the STALE
    version (legal: it was requeued).  Random ordinary ops are sprinkled in between; all objects are field-valid."""
    clusters = rng.sample(CLUSTERS, rng.randint(2, 3))
    a, b = clusters[0], clusters[1]
    aliases = rng.sample(ALIASES[:6], rng.randint(3, 4))
    x = aliases[0]
    free = aliases[1:]
    ops, last, versions = [], {}, {}

    def put(nm, o, force=False):
        ops.append({"op": "apply", "force": force, "obj": o})
        last[nm] = o
        versions.setdefault(nm, []).append(o)
        return len(ops) - 1

    def filler(n):
        for _ in range(n):
            k = rng.below(10)
            others = [c for c in clusters if c not in (a, b)]
            if k < 4 and others:
                nm = others[0]
                put(nm, gen_obj(rng, nm, free[1:] or free, last.get(nm), history=versions.get(nm, ())))
            elif k < 7 and last:
                nm = rng.choice(sorted(last))                       # resync of a current version
                idx = max(j for j, q in enumerate(ops) if q["op"] == "apply" and q["obj"] is last[nm])
                ops.append({"op": "retry", "k": idx})
            elif a in last and rng.chance(1, 2):
                o = gen_obj(rng, a, free, last[a], history=versions.get(a, ()))
                o["sn"] = [y for y in o["sn"] if bytes(y).lower() != x.lower()]
                put(a, o)

    ob = gen_obj(rng, b, free)
    ob["sn"] = [B(x)] + [y for y in ob["sn"] if bytes(y).lower() != x.lower()][:1]
    put(b, ob)
    if rng.chance(2, 3):
        o = gen_obj(rng, a, free)
        o["sn"] = [y for y in o["sn"] if bytes(y).lower() != x.lower()]
        put(a, o)
    filler(rng.below(2))
    stale = gen_obj(rng, a, free, last.get(a), history=versions.get(a, ()))
    stale["sn"] = [B(x.upper() if rng.chance(1, 4) else x)] + [y for y in stale["sn"] if bytes(y).lower() != x.lower()]
    k_stale = put(a, stale, force=True)                             # rejected by the controller: requeue
    filler(rng.below(2))
    if rng.chance(4, 5):                                            # a newer version overtakes the requeue
        newer = gen_obj(rng, a, free, stale, history=versions.get(a, ()))
        newer["sn"] = [y for y in newer["sn"] if bytes(y).lower() != x.lower()]
        if rng.chance(1, 2) and free:
            newer["sn"] = newer["sn"] + [B(rng.choice(free))]
        put(a, newer)
    filler(rng.below(2))
    k = rng.below(10)
    if k < 5:                                                       # the reason for the rejection disappears
        ops.append({"op": "delete", "name": B(b), "tomb": rng.chance(1, 3)})
        last.pop(b, None)
    elif k < 9:
        o = gen_obj(rng, b, free, last[b], history=versions.get(b, ()))
        o["sn"] = [y for y in o["sn"] if bytes(y).lower() != x.lower()]
        put(b, o)
    filler(rng.below(2))
    ops.append({"op": "retry", "k": k_stale})                       # the queue re-delivers the stale version
    filler(rng.below(3))
    if rng.chance(1, 2):
        ops.append({"op": "retry", "k": k_stale})
    names = list(clusters) + [al for al in aliases if al not in clusters]
    return {"hosts": [B(h) for h in hosts_for(names)], "xp": [[B(h), B(s)] for h, s in xprobes_for(names, rng)],
            "mid": True, "via": rng.below(2),
            "ops": ops, "clusters": [B(c) for c in clusters],
            "schemas": [B(s) for s in SCHEMAS] + [B(b""), B(b"nosuch")],
            "fresh": [rng.below(4) for _ in range(3)], "views": True}
