"""C17 — admission normalisation of rules does not change what they match."""
from vf.core import B, cbool, clist
from props import c01
from props.c01 import mk_rule, mk_attrs, L, cl, cs, coq_rule, coq_attrs, FIELDS

PID = "C17"
MODULES = ["Prelude", "C01_Model", "C01_Check", "C17_Model", "C17_Spec", "C17_Check"]
PROPS_MODULE = "C17_Properties"
THEOREMS = ["C17_same_matching", "C17_idempotent", "C17_routing_unchanged", "C17_same_semantics",
            "C17_field_preserved", "C17_normal_form", "C17_model_meets_spec"]
EVAL = "C17_Check.eval"
CLAUSES = ["agree", "same_matching", "idempotent"]
COQ_SHARD = 60
RULE = ("distinct cases (rule list, request list) in which the real normalisation changed at least one rule that has "
        "two or more non-default fields, and at least one request matches and one does not match some submitted rule")
TRUSTED_BASE = [
    "Coq 8.16.1 kernel + vm_compute (case files); no native_compute, no extraction",
    "hand-written models C17_Model.v (normalizeRules/filterRules of the admission plugin) and C01_Model.v (matcher), "
    "tied to /repo by the differential run of this check (Go harness harness/c17: exported normalizeRules, the plugin's "
    "Admit() on a real UpstreamCluster object, clusters.RuleMatches and clusters.MatchPolicies before/after)",
    "modelled not verified: scheme defaulting run by Admit() (sets only the strategy), Go slices (nil vs empty is not "
    "distinguished by the model; the harness compares element-wise)",
]
ASSUMPTIONS = [
    "objects reach storage only through the plugin's Admit() (create/update of upstreamclusters); other fields of the "
    "policy (strategy, subset, flow control) are not touched by normalisation",
]


def odd_rule(rng):
    sas = [(rng.choice([b"", b"ns1", b"kube-system", b"\xff"]), rng.choice([b"", b"default", b"sa1"]))
           for _ in range(rng.below(3))]
    return mk_rule(c01.odd_list(rng, c01.V_VERBS), c01.odd_list(rng, c01.V_GROUPS), c01.odd_list(rng, c01.V_RES),
                   c01.odd_list(rng, c01.V_NAMES), c01.odd_list(rng, c01.V_USERS), sas,
                   c01.odd_list(rng, c01.V_UGROUPS), c01.odd_list(rng, c01.V_URLS))


def mk_case(rules, requests, tag):
    return {"rules": rules, "requests": requests, "tag": tag}


def corpus():
    cs_ = []
    # the rule of admission_test.go
    t = mk_rule([b"*", b"get", b"-delete"], [b"-apps", b"rbac"], [b"-deployments", b"-statefulsets"], [b"-apps", b"rbac"],
                [b"-apps", b"rbac"], [(b"default", b"default")], [b"-apps", b"rbac"], [b"-apps", b"rbac"])
    reqs = [mk_attrs(verb=b"delete", group=b"rbac", resource=b"roles", name=b"rbac", user=b"rbac", groups=[b"rbac"]),
            mk_attrs(verb=b"delete", group=b"rbac", resource=b"deployments", name=b"rbac", user=b"rbac", groups=[b"rbac"]),
            mk_attrs(verb=b"get", group=b"apps", resource=b"roles", name=b"apps", user=b"apps", groups=[b"apps"]),
            mk_attrs(verb=b"get", path=b"rbac", user=b"system:serviceaccount:default:default", groups=[b"rbac", b"x"],
                     isres=False, resource=b""),
            mk_attrs(verb=b"get", path=b"apps", user=b"rbac", groups=[b"rbac"], isres=False, resource=b"")]
    cs_.append(mk_case([t], reqs, "corpus"))
    anyres = dict(verbs=[b"*"], groups=[b"*"], resources=[b"*"])
    base = [mk_attrs(), mk_attrs(verb=b"delete", resource=b"deployments", group=b"apps"),
            mk_attrs(resource=b"pods", sub=b"status", user=b"u1", groups=[b"g1"]),
            mk_attrs(user=b"system:admin", groups=[b"system:masters", b"g2"], name=b"nginx"),
            mk_attrs(verb=b"get", path=b"/healthz/etcd", isres=False, resource=b"")]
    # one field at a time: star at every position, duplicates, '-' alone, '', mixed, inverted only, empty
    shapes = [[b"*"], [b"x", b"*"], [b"-x", b"*", b"y"], [b"x", b"x"], [b"-x", b"-x"], [b"-"], [b""], [b"", b"-"],
              [b"-x", b"y"], [b"y", b"-x", b"z"], [b"-x", b"-y"], [], [b"-*"], [b"--x"], [b"**"], [b"-", b"*"]]
    subst = {"verbs": (b"get", b"delete"), "groups": (b"", b"apps"), "resources": (b"pods", b"deployments"),
             "names": (b"", b"nginx"), "users": (b"alice", b"u1"), "ugroups": (b"g1", b"g2"), "urls": (b"/healthz/etcd", b"/healthz/*")}
    for f in FIELDS:
        rules = []
        for sh in shapes:
            x, y = subst[f]
            ent = []
            for e in sh:
                d = len(e) - len(e.lstrip(b"-"))
                ent.append(e[:d] + {b"x": x, b"y": y, b"z": b"zz"}.get(e[d:], e[d:]))
            kw = dict(anyres)
            kw["urls"] = [b"*"]
            kw[f] = ent
            rules.append(mk_rule(**kw))
        for i in range(0, len(rules), 4):
            cs_.append(mk_case(rules[i:i + 4], base, "corpus"))
    # service accounts are passed through untouched
    cs_.append(mk_case([mk_rule(users=[], sas=[(b"kube-system", b"default"), (b"", b"x")], **anyres),
                        mk_rule(users=[b"-alice", b"*"], sas=[(b"ns1", b"sa1")], **anyres)],
                       [mk_attrs(user=c01.SA1), mk_attrs(user=c01.SA2), mk_attrs(user=b"alice")], "corpus"))
    cs_.append(mk_case([], base, "corpus"))
    return cs_


def gen_structured(rng):
    a0 = c01.gen_attrs(rng)
    rules = [c01.gen_rule(rng, a0) for _ in range(rng.randint(1, 3))]
    reqs = [a0]
    for _ in range(rng.randint(3, 5)):
        a = c01.gen_attrs(rng)
        if rng.below(2) == 0:                      # a near miss of a0: change one attribute
            a = dict(a0)
            k = rng.choice(["verb", "group", "user", "name", "path", "sub", "resource"])
            a[k] = c01.gen_attrs(rng)[k]
        reqs.append(a)
    return mk_case(rules, reqs, "structured")


def gen_malformed(rng):
    rules = [odd_rule(rng) for _ in range(rng.randint(1, 3))]
    reqs = []
    for _ in range(rng.randint(3, 5)):
        a = c01.gen_attrs(rng)
        k = rng.below(6)
        if k == 0:
            a["verb"] = B(rng.choice(c01.ODD))
        elif k == 1:
            a["user"] = B(rng.choice(c01.ODD + [b"*", b"-alice"]))
        elif k == 2:
            a["groups"] = L(rng.sample(c01.ODD + c01.Q_UGROUPS, rng.below(4)))
        elif k == 3:
            a["group"], a["name"], a["path"] = B(rng.choice(c01.ODD)), B(rng.choice(c01.ODD)), B(rng.choice(c01.ODD))
        reqs.append(a)
    c = mk_case(rules, reqs, "malformed")
    if rng.below(4) == 0:
        for r in c["rules"]:
            for f in FIELDS:
                if not r[f]:
                    r[f] = None
    return c


def generate(rng, tier, scale=1):
    ns, nm = (230, 70) if tier == "quick" else (3400, 800)
    ns, nm = ns * scale, nm * scale
    return [gen_structured(rng) for _ in range(ns)] + [gen_malformed(rng) for _ in range(nm)]


# ----------------------------------------------------------------------------- Coq printing
def coq_rules(rs):
    return clist([coq_rule(r) for r in (rs or [])])


def coq_matrix(m):
    return clist([clist([cbool(x) for x in row]) for row in (m or [])])


def coq_firsts(xs):
    return clist(["None" if i == -1 else "(Some %d%%nat)" % (i if i >= 0 else 1000) for i in (xs or [])])


def coq_case(case, obs):
    if not isinstance(obs, dict) or "panic" in obs or "norm" not in obs:
        return "CBroken"
    return "(CNorm %s %s (mkObs %s %s %s %s %s %s %s %s))" % (
        coq_rules(case["rules"]), clist([coq_attrs(a) for a in case["requests"]]),
        coq_rules(obs["norm"]), coq_rules(obs["norm2"]), coq_rules(obs["admit"]), coq_rules(obs["admit2"]),
        coq_matrix(obs["before"]), coq_matrix(obs["after"]), coq_firsts(obs["first_before"]), coq_firsts(obs["first_after"]))


# ----------------------------------------------------------------------------- evidence helpers
def _norm_rule(r):
    return tuple(tuple(bytes(x) for x in (r.get(f) or [])) for f in FIELDS)


def nontrivial_key(case, obs):
    if not isinstance(obs, dict) or "norm" not in obs:
        return None
    changed = any(_norm_rule(r) != _norm_rule(n) and c01._nondefault(r) >= 2 for r, n in zip(case["rules"], obs["norm"]))
    flat = [x for row in obs["before"] for x in row]
    if changed and any(flat) and not all(flat):
        return (c01._freeze(case["rules"]), c01._freeze(case["requests"]))
    return None


def stats(case, obs):
    labs = ["stream:%s" % case.get("tag", "?"), "rules:%d" % len(case["rules"]), "requests:%d" % len(case["requests"])]
    if not isinstance(obs, dict) or "norm" not in obs:
        return labs + ["outcome:panic"]
    for r, n in zip(case["rules"], obs["norm"]):
        labs.append("rule:%s" % ("changed" if _norm_rule(r) != _norm_rule(n) else "already-normal"))
        for f in FIELDS:
            v = [bytes(x) for x in (r.get(f) or [])]
            if not v:
                k = "empty"
            elif b"*" in v:
                k = "star-first" if v[0] == b"*" else "star-later"
            elif any(not e.startswith(b"-") for e in v):
                k = "mixed" if any(e.startswith(b"-") for e in v) else "positive"
            else:
                k = "inverted"
            labs.append("field:%s" % k)
    for row in obs["before"]:
        for x in row:
            labs.append("pair:%s" % ("match" if x else "no-match"))
    labs.append("serialised-idempotent:%s" % obs.get("deep_equal"))
    return labs


def _variants(case):
    rs, qs = case["rules"], case["requests"]
    for i in range(len(rs)):
        yield dict(case, rules=rs[:i] + rs[i + 1:])
    for i in range(len(qs)):
        yield dict(case, requests=qs[:i] + qs[i + 1:])
    for j, r in enumerate(rs):
        for f in FIELDS + ["sas"]:
            v = r.get(f) or []
            for k in range(len(v)):
                r2 = dict(r, **{f: v[:k] + v[k + 1:]})
                yield dict(case, rules=rs[:j] + [r2] + rs[j + 1:])


def shrink(case):
    return _variants(case)


def neighbours(case, rng):
    for v in _variants(case):
        yield v
    for _ in range(5):
        yield dict(case, requests=case["requests"] + [c01.gen_attrs(rng)])


def known_match(entry, case, obs, failed):
    return False


LEVEL_TEXT = ("full proof: Coq theorems over every dispatch rule (all eight fields, any mix of '*', '-x', 'x', '', "
              "duplicates, any order) and every request attribute tuple: the Gallina model of the admission plugin's "
              "normalizeRules/filterRules composed with the model of the matcher (C01) matches exactly the same requests "
              "as the submitted rule, routing (policy index, flow control, upstream set, rejection) is unchanged, and "
              "normalisation is idempotent; both models are compared with the real normalizeRules, the plugin's Admit() "
              "and clusters.RuleMatches/MatchPolicies on generated (rules, requests) on every run and the executable "
              "spec is evaluated on the real observations")
LEVEL_NOTE = ("trusted: Coq kernel + vm_compute, the hand-written models (tied by differential run only), Go harness and "
              "one add-only export; modelled not verified: scheme defaulting inside Admit(), Go slice identity; "
              "no axioms (all theorems closed under the global context)")
TECHNIQUE = "Coq proof (key lemma filter∘normalise = filter, structural induction) + differential model/implementation correspondence"
