"""C11 — hot reload converges to the latest object's config, whatever the history."""
from vf.core import B, cstr, cZ, cbool, clist, copt, cpair
from props import c10gen
from props.c10 import coq_op, RESCODE, O, AP, DEL, RETRY

PID = "C11"
MODULES = ["Prelude", "C10_Model", "C10_Spec", "C10_Check", "C11_Model", "C11_Spec", "C11_Check"]
PROPS_MODULE = "C11_Properties"
THEOREMS = ["C11_sync_canonical", "C11_converges", "C11_latest_object", "C11_fresh_is_a_run",
            "C11_partial_sync_keeps_sections_witness"]
EVAL = "C11_Check.eval"
CLAUSES = ["agree", "converges"]
RULE = ("distinct histories (op lists) in which some cluster receives at least three delivered events and at least two "
        "different sections (gates, flow control, server names, TLS material, endpoints, policies, logging) change "
        "between its versions")
TRUSTED_BASE = [
    "Coq 8.16.1 kernel + vm_compute (case files); no native_compute, no extraction",
    "hand-written model C10_Model.v + C11_Model.v tied to /repo by the differential run of this check (Go harness "
    "harness/c11 = rig harness/c10/rig.go: real controller, real ClusterInfo.Sync, real admission plugin, and a "
    "second fresh controller per history)",
    "the controller is built by the real constructor over a stub informer that keeps the registered event handler; in "
    "half of the histories add / update / delete / tombstone-delete (cache.DeletedFinalStateUnknown) events go through "
    "that real handler (queue.ResourceEventHandler) and the real worker step (processNextWorkItem); a tombstone delete is "
    "a delete in the model",
    "modelled not verified: sync.Map / atomic.Value, the informer itself and the queue's timing (events are handed over "
    "one at a time; requeues are explicit retry ops that re-enqueue the same object), component-base feature gates (a gate list), limiter internals beyond "
    "String(), tls/x509 parsing (PEM identified by index), health checking (IsReady is false: no endpoint answers)",
]
ASSUMPTIONS = [
    "one worker: events are processed one at a time; a re-delivered event carries a version of the object that was "
    "delivered before (requeue after a failed attempt, or informer resync)",
    "objects in the store passed admission (validation + name-conflict check) against that same store",
    "client connection settings (rest config) are outside the view, as the property says",
    "rule matching inside MatchAttributes is exercised on the verb only (rule semantics are C01)",
    "limits are observed twice per schema: what GetFlowSchema(name).String() reports and what the limiter enforces "
    "(max-in-flight: TryAcquire admitted by the idle bucket, counted; token bucket: rate and burst of the client-go "
    "limiter TryAcquire consults, read through an add-only accessor - no clock involved); the model's notion of a "
    "schema's limits is the enforced one (enforced = configured), so C11_converges covers it unchanged",
]
HARNESS_CHUNK = 40
COQ_SHARD = 30

VERBS = ["get", "list", "create", "delete"]


# ----------------------------------------------------------------------------- Coq printing
def coq_fck(f):
    k = f["kind"]
    if k == 0:
        return "FExempt" if f["a"] == 0 else "(FMax (-7))"
    if k == 1:
        return "(FMax %s)" % cZ(f["a"])
    if k == 2:
        return "(FTB %s %s)" % (cZ(f["a"]), cZ(f["b"]))
    return "(FMax (-9))"  # unparsed String(): disagrees with every model value


def coq_fc(f):
    return cpair(cstr(f["name"]), coq_fck(f))


def coq_view(v, case):
    if not v["present"]:
        return "absent_view"
    eps = {e["e"]: e for e in v["eps"]}
    veps = clist([("(Some (%s, %s))" % (cbool(eps[e]["disabled"]), cbool(eps[e]["ready"]))) if e in eps else "None"
                  for e in range(c10gen.NEP)])
    if any(e < 0 or e >= c10gen.NEP for e in eps):
        veps = "[None]"  # an endpoint outside the universe: disagree visibly
    probes = []
    for p in v["probes"]:
        if not p["ok"]:
            probes.append("None")
        else:
            ups = clist([cbool(e in p["ups"]) for e in range(c10gen.NEP)])
            probes.append("(Some {| pr_fcname := %s; pr_fc := %s; pr_ups := %s; pr_log := %s |})" %
                          (cstr(p["fcname"]), coq_fc(p["fc"]), ups, cbool(p["log"])))
    keys = [bytes(k) for k in v["keys"]]
    vkeys = clist([cbool(bytes(h) in keys) for h in case["hosts"]])
    enf = clist([coq_fck(f) for f in v.get("enf", [])])
    return ("{| v_present := true; v_stopped := %s; v_eps := %s; v_fcs := %s; v_enf := %s; v_gates := %s; v_probes := %s; "
            "v_names := %s; v_tls := (%s, %s, %s); v_verify := (%s, %s); v_keys := %s |}" %
            (cbool(v["stopped"]), veps, clist([coq_fc(f) for f in v["fcs"]]), enf, clist([cbool(g) for g in v["gates"]]),
             clist(probes), clist([cstr(n) for n in v["names"]]), cbool(v["tlsok"]), cZ(v["cert"]), cZ(v["ca"]),
             cbool(v["vok"]), cZ(v["vca"]), vkeys))


BROKEN = ("{| k_steps := [(ODelete \"x\", {| t_valid := true; t_fvalid := true; t_delivered := true; t_res := 3; t_hosts := []; t_x := []; t_mid := [] |})]; "
          "k_probes := {| pb_eps := []; pb_schemas := []; pb_verbs := []; pb_hosts := [] |}; k_clusters := []; "
          "k_latest := []; k_obs := {| ob_hot := []; ob_fresh := [absent_view]; ob_fresh_res := [] |} |}")


def coq_case(case, obs):
    if not isinstance(obs, dict) or "panic" in obs or len(obs.get("steps", [])) != len(case["ops"]):
        return BROKEN
    steps = []
    for p, s in zip(case["ops"], obs["steps"]):
        steps.append(cpair(coq_op(p), "{| t_valid := %s; t_fvalid := %s; t_delivered := %s; t_res := %s; t_hosts := []; t_x := []; t_mid := [] |}" %
                           (cbool(s["valid"]), cbool(s.get("fvalid", False)), cbool(s["delivered"]),
                            cZ(RESCODE.get(s["res"], 3)))))
    probes = ("{| pb_eps := %s; pb_schemas := %s; pb_verbs := %s; pb_hosts := %s |}" %
              (clist([cZ(e) for e in range(c10gen.NEP)]), clist([cstr(s) for s in case["schemas"]]),
               clist([cstr(v) for v in VERBS]), clist([cstr(h) for h in case["hosts"]])))
    o = ("{| ob_hot := %s; ob_fresh := %s; ob_fresh_res := %s |}" %
         (clist([coq_view(v, case) for v in obs["hot"]]), clist([coq_view(v, case) for v in obs["fresh"]]),
          clist([cZ(RESCODE.get(r, 3)) for r in obs["fresh_res"]])))
    return ("{| k_steps := %s; k_probes := %s; k_clusters := %s; k_latest := %s; k_obs := %s |}" %
            (clist(steps), probes, clist([cstr(c) for c in case["clusters"]]),
             clist([cstr(n) for n in obs["latest"]]), o))


# ----------------------------------------------------------------------------- cases
def mk(ops, clusters, aliases=(), fresh=(0, 0, 0), via=None):
    if via is None:
        via = len(ops) % 2
    names = list(clusters) + [a for a in aliases if a not in clusters]
    return {"hosts": [B(h) for h in c10gen.hosts_for(names)], "ops": ops, "clusters": [B(c) for c in clusters],
            "schemas": [B(s) for s in c10gen.SCHEMAS] + [B(b""), B(b"nosuch")], "fresh": list(fresh), "views": True,
            "nosteps": True, "via": via}


def S(name, kind, a=0, b=0, strat=0, glob=0):
    return {"name": B(name), "kind": kind, "a": a, "b": b, "strat": strat, "global": glob}


def P(verbs, fc=b"", subset=(), log=0):
    return {"verbs": list(verbs), "fc": B(fc), "subset": list(subset), "log": log}


def corpus():
    cs = []
    # feature gates: the documented accumulation witness (fixed by 55d2b74) must stay fixed
    cs.append(mk([AP(O(b"a", gates=[(1, 1), (3, 1)])), AP(O(b"a", gates=[(3, 1)])), AP(O(b"a")),
                  AP(O(b"a", gates=[(0, 1), (0, 0)], ann=1)), AP(O(b"a", ann=2)), AP(O(b"a", gates=[(2, 1)])),
                  AP(O(b"a", ann=3))], [b"a"]))
    cs.append(mk([AP(O(b"a", gates=[(1, 1), (3, 1)])), AP(O(b"a", gates=[(3, 1)]))], [b"a"]))
    # value -> removed (nil / empty) -> the IDENTICAL earlier value restored, for every section: a section syncer
    # that skips "unchanged" input must not compare with a remembered value that an intermediate change did not
    # invalidate (seeded/C11-a-gate-annotation-cache: the gate annotation string survives the reset branch)
    for ann in (0, 1, 2, 3):
        cs.append(mk([AP(O(b"a", gates=[(1, 1)])), AP(O(b"a", ann=ann)), AP(O(b"a", gates=[(1, 1)]))], [b"a"]))
    cs.append(mk([AP(O(b"a", gates=[(3, 1), (0, 1)])), AP(O(b"a", gates=[(2, 1)])), AP(O(b"a")),
                  AP(O(b"a", gates=[(3, 1), (0, 1)])), AP(O(b"a", ann=3)), AP(O(b"a", gates=[(2, 1)]))], [b"a"]))
    fcx = [S(b"s1", 1, 5), S(b"s2", 2, 5, 10, strat=2, glob=1)]
    polx = [P(["get"], b"s1", subset=[1], log=1), P(["*"], b"s2")]
    epx = ((0, 2), (1, 0), (2, 1))
    full = dict(sn=[b"x", b"Y"], cert=1, key=1, ca=2, fc=fcx, pol=polx, eps=epx, log=2, gates=[(0, 1)])
    bare = dict(eps=((3, 0),))
    cs.append(mk([AP(O(b"a", **full)), AP(O(b"a", **bare)), AP(O(b"a", **full))], [b"a"], [b"x", b"y"]))
    for sec, removed in (("fc", dict(fc=[], pol=[P(["*"])])), ("sn", dict(sn=[])), ("tls", dict(cert=0, key=0, ca=0)),
                         ("key", dict(key=0)), ("ca", dict(ca=0)), ("eps", dict(eps=((1, 2),), pol=[P(["*"])])),
                         ("dis", dict(eps=((0, 0), (1, 2), (2, 0)))), ("pol", dict(pol=[P(["list"])])),
                         ("log", dict(log=0)), ("schema", dict(fc=[fcx[1]], pol=[P(["*"], b"s2")]))):
        mid = dict(full)
        mid.update(removed)
        cs.append(mk([AP(O(b"a", **full)), AP(O(b"a", **mid)), AP(O(b"a", **full))], [b"a"], [b"x", b"y"]))
    # (D1) key removed while the certificate stays; CA removed and restored
    cs.append(mk([AP(O(b"a", cert=1, key=1, ca=1)), AP(O(b"a", cert=1, key=0, ca=1)), AP(O(b"a", cert=1, key=0))], [b"a"]))
    cs.append(mk([AP(O(b"a", cert=2, key=2)), AP(O(b"a", cert=0, key=2, ca=2)), AP(O(b"a", cert=3, key=3, ca=2)),
                  AP(O(b"a", cert=3, key=3)), AP(O(b"a", cert=0, key=0, ca=3))], [b"a"]))
    # (D2) a superseded version is delivered again (forced: validation refuses insecure + CA since 4d69cfc);
    #      resync of the current version; re-delivery after delete
    cs.append(mk([AP(O(b"a", client=1, sn=[b"x"], gates=[(1, 1)]), force=True), AP(O(b"a")), RETRY(0)],
                 [b"a"], [b"x"]))
    cs.append(mk([AP(O(b"a", sn=[b"x"], cert=1, key=1, gates=[(1, 1)], log=1)), AP(O(b"a", eps=((2, 2),))), RETRY(0)],
                 [b"a"], [b"x"]))
    cs.append(mk([AP(O(b"a", client=1, sn=[b"x"], gates=[(1, 1)]), force=True), AP(O(b"a")), RETRY(0), RETRY(1)],
                 [b"a"], [b"x"]))
    cs.append(mk([AP(O(b"a", sn=[b"x"], log=1)), AP(O(b"a", sn=[b"y"], log=2)), RETRY(1), DEL(b"a"), RETRY(1),
                  AP(O(b"a", sn=[b"x"]))], [b"a"], [b"x", b"y"]))
    # admission race: v2 rejected (name conflict with b) and requeued, v3 synced, b deleted, stale v2 re-delivered
    cs.append(mk([AP(O(b"b", sn=[b"x"])), AP(O(b"a", log=1)), AP(O(b"a", sn=[b"x"], gates=[(1, 1)], cert=1, key=1), force=True),
                  AP(O(b"a", sn=[b"y"], log=2)), DEL(b"b"), RETRY(2)], [b"a", b"b"], [b"x", b"y"]))
    # deliveries through the real event handler (queue.ResourceEventHandler) and worker step: add, update, delete,
    # and a deletion that is only seen by a relist (cache.DeletedFinalStateUnknown tombstone; 33fd7e6): the deleted
    # cluster must go, like on a fresh gateway; annotation-only and no-change updates must reach the controller
    TOMB = dict(DEL(b"a"), tomb=True)
    cs.append(mk([AP(O(b"a", sn=[b"x"], gates=[(1, 1)])), AP(O(b"b")), TOMB], [b"a", b"b"], [b"x"], via=1))
    cs.append(mk([AP(O(b"a", sn=[b"x"])), TOMB, AP(O(b"a", sn=[b"y"])), dict(DEL(b"a"), tomb=True), AP(O(b"b", sn=[b"x", b"y"]))],
                 [b"a", b"b"], [b"x", b"y"], via=1))
    cs.append(mk([AP(O(b"a")), AP(O(b"a", gates=[(1, 1)])), AP(O(b"a", gates=[(1, 1)])), AP(O(b"a", gates=[(3, 1)], ann=1)),
                  RETRY(3), AP(O(b"a"))], [b"a"], via=1))
    cs.append(mk([AP(O(b"a", sn=[b"x"])), TOMB], [b"a"], [b"x"], via=0))
    # flow control: delete and re-add, type change, resize, duplicate use by policies, default schema
    cs.append(mk([AP(O(b"a", fc=[S(b"s1", 1, 5), S(b"s2", 2, 5, 10)], pol=[P(["get"], b"s1"), P(["*"], b"s2")])),
                  AP(O(b"a", fc=[S(b"s2", 1, 7)], pol=[P(["*"], b"s2")])),
                  AP(O(b"a", fc=[S(b"s1", 0), S(b"s2", 1, 7, strat=2, glob=3)], pol=[P(["list"], b"s1"), P(["*"])])),
                  AP(O(b"a", fc=[], pol=[P(["create", "delete"])])),
                  AP(O(b"a", fc=[S(b"s1", 2, 1, 1), S(b"s3", 1, 0)], pol=[P(["*"], b"s3", log=1)], log=2))], [b"a"]))
    # limits must be ENFORCED, not only reported: only the burst changes (raised, lowered), only the rate, both, a
    # max-in-flight resize, a type change and back, delete and re-add with other limits (seeded/C11-g)
    def TBO(q, b, **kw):
        return O(b"a", fc=[S(b"s1", 2, q, b, **kw)], pol=[P(["*"], b"s1")])
    cs.append(mk([AP(TBO(5, 10)), AP(TBO(5, 50))], [b"a"]))
    cs.append(mk([AP(TBO(5, 50)), AP(TBO(5, 5))], [b"a"]))
    cs.append(mk([AP(TBO(5, 10)), AP(TBO(50, 50)), AP(TBO(50, 60)), AP(TBO(1, 60)), AP(TBO(1, 1))], [b"a"]))
    cs.append(mk([AP(TBO(5, 10, strat=2, glob=10)), AP(TBO(5, 11, strat=2, glob=10)), AP(TBO(5, 11, strat=3, glob=1))], [b"a"]))
    cs.append(mk([AP(O(b"a", fc=[S(b"s1", 1, 5), S(b"s2", 2, 5, 10)], pol=[P(["*"], b"s2")])),
                  AP(O(b"a", fc=[S(b"s1", 1, 100), S(b"s2", 2, 5, 15)], pol=[P(["*"], b"s2")])),
                  AP(O(b"a", fc=[S(b"s1", 2, 1, 100), S(b"s2", 1, 15)], pol=[P(["*"], b"s2")])),
                  AP(O(b"a", fc=[S(b"s1", 2, 1, 1)], pol=[P(["*"])])),
                  AP(O(b"a", fc=[S(b"s1", 2, 1, 2), S(b"s2", 2, 5, 15)], pol=[P(["*"], b"s2")])),
                  AP(O(b"a", fc=[S(b"s1", 1, 0), S(b"s2", 0)], pol=[P(["*"], b"s2")]))], [b"a"]))
    # endpoints: disabled nil / false / true, removal, restoration, subsets, duplicates
    cs.append(mk([AP(O(b"a", eps=((0, 0), (1, 2), (2, 1)), pol=[P(["get"], subset=[1]), P(["*"])])),
                  AP(O(b"a", eps=((1, 0), (3, 2)), pol=[P(["*"], subset=[1, 3])])),
                  AP(O(b"a", eps=((0, 2), (1, 2), (0, 0)))), AP(O(b"a", eps=((0, 1),))),
                  AP(O(b"a", eps=((2, 0), (0, 0)), log=1))], [b"a"]))
    # several clusters, aliases moving, delete and re-create: the re-created cluster must be like new
    cs.append(mk([AP(O(b"a", sn=[b"x"], cert=1, key=1, gates=[(1, 1)], fc=[S(b"s1", 1, 3)], pol=[P(["*"], b"s1")])),
                  AP(O(b"b", sn=[b"y"], ca=2)), DEL(b"a"), AP(O(b"b", sn=[b"y", b"x"], ca=2)), AP(O(b"a")),
                  AP(O(b"a", sn=[b"X"])), DEL(b"b"), AP(O(b"a", sn=[b"X", b"y"], eps=((1, 2),)))],
                 [b"a", b"b"], [b"x", b"y"], fresh=(1, 0, 0)))
    # (outside the quantifier) failing sections: unknown gate, key mismatch, bad CA, bad endpoint; then a good version
    cs.append(mk([AP(O(b"a", sn=[b"x"], gates=[(3, 1)], fc=[S(b"s1", 1, 2)], cert=1, key=1, pol=[P(["*"], b"s1")])),
                  AP(O(b"a", gates=[(4, 1)], fc=[S(b"s2", 1, 2)]), force=True),
                  AP(O(b"a", gates=[(0, 1)], fc=[S(b"s2", 1, 9)], cert=1, key=2), force=True),
                  AP(O(b"a", gates=[(1, 1)], fc=[], ca=-1, sn=[b"y"]), force=True),
                  AP(O(b"a", sn=[b"y"], eps=((-1, 0),), log=1), force=True),
                  AP(O(b"a", sn=[b"y"], eps=((1, 0),)))], [b"a"], [b"x", b"y"]))
    return cs


def generate(rng, tier, scale=1):
    n_clean, n_retry, n_rob, n_conf = (100, 30, 25, 25) if tier == "quick" else (3000, 1000, 600, 600)
    cs = []

    def one(**kw):
        c = c10gen.gen_history(rng, **kw)
        c["views"] = True
        c["nosteps"] = True
        # the views only need a few probe hosts for the manager keys
        return c

    for _ in range(n_clean * scale):
        cs.append(one())
    for _ in range(n_retry * scale):
        cs.append(one(p_retry=25))
    for _ in range(n_conf * scale):   # admission races: a rejected version is requeued and re-delivered later
        c = c10gen.gen_conflict_history(rng)
        c["nosteps"] = True
        cs.append(c)
    for _ in range(n_rob * scale):
        cs.append(one(p_force=15, p_invalid=15, p_retry=10, p_gap=5))
    return cs


SECTIONS = {"gates": ("gates",), "fc": ("fc",), "sn": ("sn",), "tls": ("cert", "key", "ca"), "eps": ("eps",),
            "pol": ("pol",), "log": ("log",)}


def nontrivial_key(case, obs):
    if "panic" in obs:
        return None
    count = {}
    changed = {}
    last = {}
    for p, s in zip(case["ops"], obs.get("steps", [])):
        if not s["delivered"]:
            continue
        if p["op"] == "apply":
            nm = bytes(p["obj"]["name"])
            count[nm] = count.get(nm, 0) + 1
            if nm in last:
                for sec, fields in SECTIONS.items():
                    if any(last[nm][f] != p["obj"][f] for f in fields):
                        changed.setdefault(nm, set()).add(sec)
            last[nm] = p["obj"]
        elif p["op"] == "delete":
            nm = bytes(p["name"])
            count[nm] = count.get(nm, 0) + 1
    if any(count.get(n, 0) >= 3 and len(changed.get(n, ())) >= 2 for n in count):
        return repr(case["ops"])
    return None


def stats(case, obs):
    if "panic" in obs:
        return ["panic"]
    labs = ["len<=%d" % (5 * ((len(case["ops"]) + 4) // 5))]
    for p, s in zip(case["ops"], obs.get("steps", [])):
        if p["op"] == "apply":
            labs.append("apply:%s%s->%s" % ("forced," if p["force"] else "", "valid" if s["valid"] else "refused", s["res"]))
        else:
            labs.append("%s->%s" % (p["op"], s["res"]))
    labs.append("stored_at_end=%d" % len(obs.get("latest", [])))
    for r in obs.get("fresh_res", []):
        labs.append("fresh:" + r)
    return labs


def shrink(case):
    from props import c10
    for c in c10.shrink(case):
        yield c


def neighbours(case, rng):
    for c in shrink(case):
        yield c


def known_match(entry, case, obs, failed):
    return False


LEVEL_TEXT = ("full proof of history independence over the configuration model: Coq theorems for every history of admitted "
              "create/update/delete ops and arbitrary re-deliveries (induction over the op list): every section of a "
              "ClusterInfo after a successful Sync is a function of the applied object alone (whatever the previous "
              "state), and the view of every cluster name through the public accessors equals the view on a freshly "
              "started gateway given only the latest objects in any order; the model (ClusterInfo.Sync section by section "
              "with partial application on failure, controller, manager, admission) is compared with the real controller "
              "and a second fresh controller on generated histories on every run, and the executable spec (hot view = "
              "fresh view) is evaluated on the real observations")
LEVEL_NOTE = ("trusted: Coq kernel + vm_compute, the hand-written model (tied by differential run only), Go harness and "
              "overlay exports; modelled not verified: atomic.Value / sync.Map, informer + syncqueue (requeues are explicit "
              "retry ops), feature-gate parsing, limiter internals beyond String(), tls/x509 parsing, health checks "
              "(IsReady constant false in the rig); client connection settings excluded as the property says; no axioms")
TECHNIQUE = "Coq proof (section-wise canonical-state lemma + invariant over histories) + differential model/implementation correspondence"
