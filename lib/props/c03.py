"""C03 — endpoint selection: only enabled, healthy endpoints of the policy get traffic; a disabled
endpoint gets neither traffic nor probes; 503 when none."""
import os

from vf import core
from vf.core import cZ, cbool, clist, cpair

PID = "C03"
MODULES = ["Prelude", "C03_Model", "C03_Spec", "C03_Check"]
PROPS_MODULE = "C03_Properties"
THEOREMS = ["C03_pick_sound", "C03_pick_complete", "C03_stale_handle_never_routes", "C03_contacted_is_picked", "C03_disabled_no_traffic",
            "C03_disabled_no_new_probe", "C03_disabled_no_probe_at_all",
            "C03_disabled_no_probe_at_all_refuted_before_fix", "C03_macro_is_schedule"]
EVAL = "C03_Check.eval"
CLAUSES = ["agree", "pick_sound", "pick_complete", "contacted_is_picked", "disabled_no_traffic", "disabled_no_probe",
           "removed_no_probe"]
RULE = ("distinct op lists that contain a spec change after the first sync, at least one pick/request that returned an "
        "endpoint, at least one pick/request made while some server was disabled or unhealthy, and at least one probe answer")
TRUSTED_BASE = [
    "Coq 8.16.1 kernel + vm_compute (case files); no native_compute, no extraction",
    "hand-written model C03_Model.v (goroutines as explicit micro steps, select races as schedule bits) tied to /repo by "
    "the differential run of this check: real controller sync handler + ClusterInfo + GatewayHealthCheck + proxy handler chain "
    "(harness/c03, harness/common/chainrig_c03.go, overlay exports)",
    "instrumentation: pkg/clusters/endpoint.go is regenerated from the current file on every run with the single textual "
    "change time.NewTicker(interval) -> verifNewTicker(e, interval) (harness decides when the health-check timer fires)",
    "modelled not verified: goroutine scheduling / Go select fairness / timers (a schedule bit per racy select; the bits of a "
    "real run are reconstructed by search over <= 4 bits per op), net/http, client-go rest client, sync.Map, the round-robin "
    "counter (any ready endpoint is accepted; C14 covers the rotation)",
]
ASSUMPTIONS = [
    "spec changes reach ClusterInfo only through the controller's sync handler (one at a time: 'Sync is single thread')",
    "SetDisabled + EnsureGatewayHealthCheck of one endpoint are taken as one atomic step of the sync",
    "a health probe is counted when the worker goroutine enters healthCheckFun (model) / when GET /healthz reaches the stub (code)",
    "observations are taken at quiescence (no health-check goroutine runnable); 'promptly'/timing is not part of C03",
    "the worker's re-check (ctx.Err()/IstDisabled()) and the start of the probe are one atomic step in the model; in the code a "
    "worker that passed the re-check just before a disable can still send its GET a few microseconds after it — "
    "indistinguishable, for the upstream, from a probe sent just before the disable, and treated like an in-flight probe",
    "probe outcomes are /healthz 200 or non-200; a hanging upstream (5 s client timeout) and a dropped connection (client-go "
    "retries the GET) have the same effect on the status (UpdateStatus(false)) and are not generated; the ResetTransport branch "
    "of GatewayHealthCheck (3 body-read timeouts) is outside C03/C15 and not modelled",
]

GEN_PATH = os.path.join(core.BUILD, "C03", "gen", "endpoint.go")


def gen_instrumented():
    """pkg/clusters/endpoint.go of the tree under test with the ticker seam (see exports/clusters_c03_export.go)."""
    src = open(os.path.join(core.REPO, "pkg", "clusters", "endpoint.go")).read()
    out = src.replace("time.NewTicker(interval)", "verifNewTicker(e, interval)")
    os.makedirs(os.path.dirname(GEN_PATH), exist_ok=True)
    old = open(GEN_PATH).read() if os.path.exists(GEN_PATH) else None
    if old != out:
        open(GEN_PATH, "w").write(out)


gen_instrumented()

HARNESS_CHUNK = 12
HARNESS_TIMEOUT = 900
COQ_SHARD = 20

ON = lambda *ids: {"op": "sync", "servers": [[i, 0] for i in ids], "subsets": [[], []]}


def sync(servers, s0=(), s1=()):
    return {"op": "sync", "servers": [[i, 1 if d else 0] for i, d in servers], "subsets": [list(s0), list(s1)]}


def P(ep, code=200):
    return {"op": "probe", "ep": ep, "code": code}


def T(ep):
    return {"op": "tick", "ep": ep}


def REQ(p):
    return {"op": "request", "policy": p}


def stray_rounds(n):
    """slow probe in flight + one queued trigger + disable, then the probe returns (the witness of the
    stray probe: before the fix the worker's select then picked the queued trigger half of the time)"""
    ops = []
    for _ in range(n):
        ops += [sync([(0, False)]), P(0), P(0), T(0), T(0), sync([(0, True)]), P(0), P(0), P(0), T(0)]
    return {"kind": "hist", "ops": ops}


def corpus():
    cs = []
    # documented behaviour: unhealthy until the first probe answers, disabled never picked, subset respected
    cs.append({"kind": "hist", "ops": [
        sync([(0, False), (1, True)], [0, 1], [2]), REQ(2), P(0), REQ(2), REQ(1), REQ(3), REQ(0),
        {"op": "match", "policy": 0, "slot": 0}, {"op": "pop", "slot": 0},
        sync([(0, True), (1, False)], [0, 1], [2]), {"op": "pop", "slot": 0}, REQ(0), P(1), REQ(0), {"op": "pop", "slot": 0},
        P(1, 500), REQ(0), REQ(2)]})
    # stale picker: endpoint removed / re-added between MatchAttributes and Pop; ghost endpoint in the subset
    cs.append({"kind": "hist", "ops": [
        sync([(0, False), (1, False), (2, False)], [4, 1, 2], []), P(0), P(1), P(2),
        {"op": "match", "policy": 0, "slot": 1}, {"op": "match", "policy": 1, "slot": 2}, {"op": "pop", "slot": 1},
        sync([(0, False), (2, True)], [4, 1, 2], []), {"op": "pop", "slot": 1}, {"op": "pop", "slot": 2}, REQ(0), REQ(1),
        sync([(0, False), (1, False), (2, True)], [4, 1, 2], []), {"op": "pop", "slot": 1}, P(1), {"op": "pop", "slot": 1},
        REQ(0)]})
    # no servers at all, all disabled, all unhealthy
    cs.append({"kind": "hist", "ops": [sync([]), REQ(2), REQ(0), sync([(0, True), (1, True)]), REQ(2), T(0), T(1),
                                       sync([(0, False), (1, False)]), REQ(2), P(0, 500), P(1, 500), REQ(2), P(0), T(0), P(0),
                                       REQ(2)]})
    # the stray-probe witness (short here; the long loop is in the thorough tier)
    cs.append(stray_rounds(4))
    # same mechanism on a removed endpoint, and a leftover goroutine taking a trigger after the endpoint is re-enabled
    cs.append({"kind": "hist", "ops": [
        sync([(0, False), (1, False)]), P(0), P(1), T(0), T(0), T(0), sync([(1, False)]), P(0), P(0), T(0),
        sync([(0, False), (1, False)]), P(0), P(0), REQ(2), REQ(2)]})
    cs.append({"kind": "hist", "ops": [
        sync([(0, False)]), P(0), T(0), T(0), T(0), sync([(0, True)]), sync([(0, False)]), P(0), P(0), P(0), P(0), T(0), P(0)]})
    # stale handles: a picker and a ClusterInfo resolved before the cluster is deleted must not hand out endpoints
    # afterwards (the stopped endpoints keep Healthy=true), nor after the cluster was re-created as a new object;
    # a picker kept across a Sync that removes its endpoint does not return it either
    cs.append({"kind": "hist", "ops": [
        sync([(0, False), (1, False)], [0], []), P(0), P(1),
        {"op": "match", "policy": 0, "slot": 0}, {"op": "match", "policy": 2, "slot": 1}, {"op": "hold", "slot": 0},
        {"op": "pop", "slot": 0}, {"op": "pickone", "slot": 0}, REQ(2),
        {"op": "delete"}, {"op": "pop", "slot": 0}, {"op": "pop", "slot": 1}, {"op": "pickone", "slot": 0}, REQ(2), REQ(0),
        {"op": "match", "policy": 2, "slot": 2}, {"op": "hold", "slot": 2}, T(0), T(1),
        sync([(0, False), (1, False)], [0], []), {"op": "pop", "slot": 0}, {"op": "pickone", "slot": 0}, P(0), P(1),
        {"op": "pop", "slot": 0}, {"op": "pop", "slot": 1}, {"op": "pickone", "slot": 0},
        {"op": "match", "policy": 0, "slot": 2}, {"op": "hold", "slot": 2}, {"op": "pop", "slot": 2}, {"op": "pickone", "slot": 2},
        REQ(0), REQ(2)]})
    cs.append({"kind": "hist", "ops": [
        sync([(0, False), (1, False)], [0, 1], []), P(0), P(1), {"op": "match", "policy": 0, "slot": 0}, {"op": "hold", "slot": 1},
        sync([(1, False)], [0, 1], []), {"op": "pop", "slot": 0}, {"op": "pop", "slot": 0}, {"op": "pickone", "slot": 1},
        sync([], [0, 1], []), {"op": "pop", "slot": 0}, {"op": "pickone", "slot": 1}, {"op": "delete"}, {"op": "delete"},
        {"op": "pop", "slot": 0}, {"op": "pickone", "slot": 1}, REQ(0)]})
    # a stale queue item (a superseded version of the object) is delivered after the current version was synced: the
    # server it lists enabled stays disabled, the server it still lists stays removed, no traffic and no probe for them
    cs.append({"kind": "hist", "ops": [
        sync([(0, False), (1, False)]), P(0), P(1), REQ(2),
        sync([(0, True)]), dict(sync([(0, False), (1, False)]), op="redeliver"), T(0), T(1), REQ(2), REQ(2),
        dict(sync([(0, False), (1, False)]), op="redeliver"), P(0), P(1), REQ(2), {"op": "delete"},
        dict(sync([(0, False), (1, False)]), op="redeliver"), REQ(2), T(0)]})
    # TriggerHealthCheck on a disabled endpoint: the trigger waits for the next enable
    cs.append({"kind": "hist", "ops": [
        sync([(0, True)]), {"op": "trigger", "ep": 0}, T(0), REQ(2), sync([(0, False)]), P(0), P(0), REQ(2),
        {"op": "trigger", "ep": 3}]})
    return cs


def rand_spec(rng):
    ids = rng.sample([0, 1, 2, 3], rng.choice([1, 2, 2, 3, 3, 4]))
    servers = [(i, rng.chance(1, 4)) for i in ids]
    return servers


def rand_subset(rng):
    k = rng.below(10)
    if k < 3:
        return []
    return rng.sample([0, 1, 2, 3, 4], rng.randint(1, 3))


def gen_hist(rng, maxlen=40):
    servers = rand_spec(rng)
    s0, s1 = rand_subset(rng), rand_subset(rng)
    ops = [sync(servers, s0, s1)]
    # let most endpoints answer their first probe so that picks have something to choose from
    for i, d in servers:
        if not d and rng.chance(4, 5):
            ops.append(P(i, rng.choice([200, 200, 200, 500])))
    n = rng.randint(10, maxlen)
    slots = set()
    hslots = set()
    while len(ops) < n:
        k = rng.below(100)
        cur = [i for i, _ in servers]
        anyep = lambda: rng.choice(cur) if cur and rng.chance(9, 10) else rng.below(4)
        if k < 14:
            m = rng.below(10)
            if m < 4 and servers:      # toggle disabled
                j = rng.below(len(servers))
                servers = servers[:j] + [(servers[j][0], not servers[j][1])] + servers[j + 1:]
            elif m < 6 and servers:    # remove one
                j = rng.below(len(servers))
                servers = servers[:j] + servers[j + 1:]
            elif m < 8:                # add one
                rest = [i for i in range(4) if i not in cur]
                if rest:
                    servers = servers + [(rng.choice(rest), rng.chance(1, 4))]
            elif m < 9:                # subsets change
                s0, s1 = rand_subset(rng), rand_subset(rng)
            else:
                servers = rand_spec(rng)
            ops.append(sync(servers, s0, s1))
            if rng.chance(1, 3):      # a superseded version arrives late
                old = rng.choice([x for x in ops if x["op"] == "sync"][:-1] or [ops[0]])
                ops.append(dict(old, op="redeliver"))
        elif k < 30:
            ops.append(T(anyep()))
        elif k < 58:
            ops.append(P(anyep(), rng.choice([200, 200, 200, 200, 500, 503])))
        elif k < 60:
            ops.append({"op": "trigger", "ep": anyep()})
        elif k < 62:
            ops.append({"op": "delete"})
        elif k < 64:
            sl = rng.below(2)
            hslots.add(sl)
            ops.append({"op": "hold", "slot": sl})
        elif k < 67:
            sl = rng.choice(sorted(hslots)) if hslots and rng.chance(9, 10) else rng.below(2)
            ops.append({"op": "pickone", "slot": sl})
        elif k < 70:
            sl = rng.below(3)
            slots.add(sl)
            ops.append({"op": "match", "policy": rng.choice([0, 0, 1, 1, 2, 3]), "slot": sl})
        elif k < 78:
            sl = rng.choice(sorted(slots)) if slots and rng.chance(9, 10) else rng.below(3)
            ops.append({"op": "pop", "slot": sl})
        else:
            ops.append(REQ(rng.choice([0, 0, 1, 1, 2, 2, 2, 3])))
    return {"kind": "hist", "ops": ops}


def gen_boundary(rng):
    """duplicates in the server list, everything disabled, empty lists, only ghost endpoints in a subset"""
    k = rng.below(4)
    if k == 0:
        sv = [(0, False), (0, True), (1, False)]   # duplicate entry, one of them disabled
        ops = [sync(sv), P(0), P(1), REQ(2), T(0), REQ(2)]
    elif k == 1:
        ops = [sync([(0, False)], [4], [4, 4]), P(0), REQ(0), REQ(1), REQ(2)]
    elif k == 2:
        ops = [sync([]), {"op": "pop", "slot": 0}, {"op": "match", "policy": 2, "slot": 0}, {"op": "pop", "slot": 0},
               sync([(2, False)]), {"op": "pop", "slot": 0}, P(2), {"op": "pop", "slot": 0}]
    else:
        ops = [sync([(i, True) for i in range(4)]), T(0), T(1), REQ(2), sync([(i, False) for i in range(4)]),
               P(0), P(1, 500), P(2, 404), REQ(2), REQ(2), REQ(2)]
    for _ in range(rng.randint(0, 6)):
        ops.append(rng.choice([T(rng.below(4)), P(rng.below(4)), REQ(rng.below(4))]))
    return {"kind": "hist", "ops": ops}


def generate(rng, tier, scale=1):
    nh, nb = (140, 12) if tier == "quick" else (1000, 60)
    cs = [gen_hist(rng, 40 if tier == "quick" else 60) for _ in range(nh * scale)]
    cs += [gen_boundary(rng) for _ in range(nb * scale)]
    if tier != "quick":
        cs.append(stray_rounds(30))
        cs += [{"kind": "stress", "n": 500} for _ in range(4)]
    return cs


TP = {"sel": "TSel", "send": "TSend", "exit": "TExit"}


def coq_op(o):
    k = o["op"]
    if k == "sync":
        return "(OSync %s %s)" % (clist([cpair(cZ(i), cbool(d)) for i, d in o["servers"]]),
                                  clist([clist([cZ(x) for x in s]) for s in o["subsets"]]))
    if k == "tick":
        return "(OTick %s)" % cZ(o["ep"])
    if k == "probe":
        return "(OProbe %s %s)" % (cZ(o["ep"]), "POk" if o["code"] == 200 else "PFail")
    if k == "trigger":
        return "(OTrigger %s)" % cZ(o["ep"])
    if k == "match":
        return "(OMatch %s %s)" % (cZ(o["policy"]), cZ(o["slot"]))
    if k == "pop":
        return "(OPop %s)" % cZ(o["slot"])
    if k == "request":
        return "(ORequest %s)" % cZ(o["policy"])
    if k == "delete":
        return "ODelete"
    if k == "hold":
        return "(OHold %s)" % cZ(o["slot"])
    if k == "pickone":
        return "(OPickOne %s)" % cZ(o["slot"])
    raise ValueError(k)


def coq_result(o, s):
    k, res = o["op"], s["res"]
    if k == "tick":
        return "(RFired %s)" % cZ(int(res.split(":")[1]))
    if k == "probe":
        return "ROk" if res == "ok" else "RNoneHeld"
    if k == "trigger":
        return "ROk" if res == "ok" else "RAbsent"
    if k == "match":
        return {"ok": "ROk", "nomatch": "RNoMatch", "nocluster": "RNoCluster"}.get(res, "RErr")
    if k == "hold":
        return {"ok": "ROk", "nocluster": "RNoCluster"}.get(res, "RErr")
    if k in ("pop", "pickone"):
        if s["picked"] >= 0:
            return "(RPicked %s)" % cZ(s["picked"])
        return {"none": "RNoReady", "noslot": "RNoSlot"}.get(res, "RErr")
    if k == "request":
        return "(RHttp %s %s)" % (cZ(s["code"]), cZ(s["stub"]))
    return "ROk" if res == "ok" else "RErr"


def coq_ep(e):
    ticks = []
    for t in e["tickers"]:
        ticks.append("(%s, %s, %s)" % (cbool(t["pending"] != 0), TP[t["state"]], cbool(t["chan"] != 0)))
    return "(mkEpobs %s %s %s %s %s %s %s %s %s %s)" % (
        cbool(e["present"]), cbool(e["disabled"]), cbool(e["healthy"]), cZ(e["ucount"]), cbool(e["hascancel"]),
        cbool(e["chan"] != 0), cZ(e["held"]), cZ(e["hits"]), cZ(e["proxied"]), clist(ticks))


def latest_ops(ops):
    """a redelivered stale queue item must have the effect of re-syncing the LATEST stored object
    (or of the delete path when the object is gone): that is what the model and the spec are given"""
    out, last = [], None
    for o in ops:
        if o["op"] == "sync":
            last = o
        elif o["op"] == "delete":
            last = None
        if o["op"] == "redeliver":
            out.append(dict(last, op="sync") if last is not None else {"op": "delete"})
        else:
            out.append(o)
    return out


def coq_case(case, obs):
    try:
        if "panic" in obs:
            return "CBroken"
        if "inconclusive" in obs:      # machine too slow (probe client timeout while held): no verdict from this history
            return "(CHist [])"
        if case["kind"] == "stress":
            return "(CStress %s %s)" % (cZ(obs["rounds"]), cZ(obs["strays"]))
        steps = obs["steps"]
        if len(steps) != len(case["ops"]):
            return "CBroken"
        tr = []
        for o, s in zip(latest_ops(case["ops"]), steps):
            ob = "(mkObs %s %s %s %s)" % (coq_result(o, s), clist([coq_ep(e) for e in s["eps"]]),
                                          cZ(s["nworkers"]), cZ(s["nprobing"]))
            tr.append(cpair(coq_op(o), ob))
        return "(CHist %s)" % clist(tr)
    except (KeyError, ValueError, TypeError, IndexError):
        return "CBroken"


def nontrivial_key(case, obs):
    if case["kind"] != "hist" or "steps" not in obs:
        return None
    ops, steps = case["ops"], obs["steps"]
    syncs = [o for o in ops if o["op"] == "sync"]
    changed = len(syncs) >= 2 and any(s != syncs[0] for s in syncs[1:])
    got = any(o["op"] in ("pop", "request") and (s["picked"] >= 0 or s["stub"] >= 0) for o, s in zip(ops, steps))
    constrained = False
    for o, s in zip(ops, steps):
        if o["op"] in ("pop", "request", "pickone"):
            if any(e["present"] and (e["disabled"] or not e["healthy"]) for e in s["eps"]):
                constrained = True
    answered = any(o["op"] == "probe" and s["res"] == "ok" for o, s in zip(ops, steps))
    if changed and got and constrained and answered:
        return repr(ops)
    return None


def stats(case, obs):
    if case["kind"] != "hist":
        return ["stress"]
    if "inconclusive" in obs:
        return ["inconclusive:probe-timeout"]
    labs = ["hist:len<=%d" % (10 * ((len(case["ops"]) + 9) // 10))]
    prev = None
    for o, s in zip(case["ops"], obs.get("steps", [])):
        k = o["op"]
        if k == "request":
            labs.append("request->%d" % s["code"])
        elif k in ("pop", "pickone"):
            labs.append("%s->%s" % (k, "ep" if s["picked"] >= 0 else s["res"]))
        elif k == "probe":
            labs.append("probe:%s->%s" % ("ok" if o["code"] == 200 else "fail", s["res"]))
        elif k == "tick":
            labs.append("tick->" + s["res"])
        else:
            labs.append("%s->%s" % (k, s["res"]))
        if k == "sync" and prev is not None:
            # was a probe in flight or a trigger queued on an endpoint that this sync disables/removes?
            now = {i: d for i, d in o["servers"]}
            for i, e in enumerate(prev["eps"]):
                if e["present"] and not e["disabled"] and (i not in now or now[i]) and (e["held"] or e["chan"]):
                    labs.append("sync:cancel-with-work-queued")
        prev = s
    return labs


def shrink(case):
    if case["kind"] != "hist":
        return
    ops = case["ops"]
    for i in range(1, len(ops)):
        yield dict(case, ops=ops[:i] + ops[i + 1:])


def neighbours(case, rng):
    if case["kind"] != "hist":
        return
    ops = case["ops"]
    for i in range(1, len(ops)):
        yield dict(case, ops=ops[:i] + ops[i + 1:])
        yield dict(case, ops=ops[:i] + [ops[i]] + ops[i:])


def known_match(entry, case, obs, failed):
    return False


LEVEL_TEXT = ("partial proof: Coq theorems over every history of spec syncs (servers added/removed/disabled, subsets changed), "
              "probe outcomes, ticks, picks and requests and every schedule of the health-check goroutines (each goroutine step "
              "and each resolution of a racy Go select is a step of the history), about a Gallina model of syncEndpoints, "
              "EnsureGatewayHealthCheck, the ticker/worker goroutines, MatchAttributes, Pop and the dispatcher's pick/forward step: "
              "pick soundness and completeness, contacted = picked, no traffic and no probe for a disabled endpoint (the latter for "
              "the repaired worker loop; the unrepaired loop is refuted by a witness kept in the development and in the corpus). "
              "The model is compared with the real controller + ClusterInfo + GatewayHealthCheck + proxy handler chain on generated "
              "histories on every run and the executable spec is evaluated on the real observations. Modelled, not verified: "
              "goroutine timing, Go select fairness, timers (measured by the correspondence run and the thorough-tier stress loop)")
LEVEL_NOTE = ("trusted: Coq kernel + vm_compute, the hand-written model (tied by differential run only), Go harness, overlay exports "
              "and the one-token ticker seam regenerated from the current endpoint.go; modelled not verified: goroutine scheduling, "
              "select fairness, time.Ticker, net/http, client-go rest client, sync.Map, round-robin counter; no axioms")
TECHNIQUE = ("Coq proof (invariants over micro-step histories with schedule bits) + differential model/implementation "
             "correspondence at quiescence + stress loop for the disable-at-tick-time race (thorough tier)")
