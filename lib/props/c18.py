"""C18 — quota of dead gateway instances is reclaimed; live instances are left alone."""
from vf.core import B, cstr, cZ, cbool, clist, copt, cpair

PID = "C18"
MODULES = ["Prelude", "C13_Model", "C19_Model", "C18_Model", "C18_Spec", "C18_Check"]
PROPS_MODULE = "C18_Properties"
THEOREMS = ["C18_live_kept", "C18_takeover_keeps_live", "C18_orphan_upstream_removed", "C18_live_kept_refuted", "C18_reclaimed",
            "C18_reachable_inv", "C18_reclaimed_refuted", "C18_capacity_returns"]
EVAL = "C18_Check.eval"
CLAUSES = ["agree", "live", "reclaimed", "capacity"]
RULE = ("distinct histories in which at least one instance holding a condition or a counted in-flight is removed "
        "from the client cache by a timeout pass while another instance with recorded state stays in the cache")
TRUSTED_BASE = [
    "Coq 8.16.1 kernel + vm_compute (case files); no native_compute, no extraction",
    "hand-written model C18_Model.v tied to /repo by the differential run of this check (harness/c18: real rateLimiter "
    "with local store, single passes of cleanupTimeoutClient / cleanupUnknownCondition, heartbeat times rewritten to "
    "virtual ages before each pass)",
    "modelled not verified: sync.Map, labels.Selector matching, the goroutines spawned by cleanupTimeoutClient (the "
    "harness waits for them; their effects are modelled as part of the pass), calculateNextQuota (the allocated quota "
    "is an observed input of the Report operation; its arithmetic is property C07)",
]
ASSUMPTIONS = [
    "one limiter replica and one shard, API-backed store in write-through mode over the fake clientset; the replica "
    "may lose and regain the shard (StopLeading / StartLeading = the elector callbacks); who leads is property C13",
    "a gateway uses one identity for heartbeats, reports (Spec.Instance) and acquires (clientSets.ClientID)",
    "request ids of acquires increase (no RequestIDTooOld)",
    "state recorded for an upstream that left the lister is outside the live clause (the unknown-condition pass "
    "deletes such an upstream as a whole); the global-count item of a report is checked by the spec only (its recorded "
    "sum equals the sum over the stored conditions), the model tracks the global-allocate item",
    "a cleanup pass is atomic w.r.t. the other operations (the delete goroutines of a timeout pass have finished)",
]

UPS = [b"a", b"b"]
INST = [b"g1", b"g2", b"g3", b"g-4"]


def H(i):
    return {"op": "hb", "i": B(i)}


def R(u, i, used=1, lvl=50, wc=False, sat=False):
    return {"op": "report", "u": B(u), "i": B(i), "used": used, "lvl": lvl, "wc": wc, "sat": sat}


def GONE(u):
    return {"op": "clustergone", "u": B(u)}


def SET(u):
    return {"op": "clusterset", "u": B(u)}


def A(u, i, n):
    return {"op": "acquire", "u": B(u), "i": B(i), "n": n}


def ADV(dt):
    return {"op": "advance", "dt": dt}


STOP = {"op": "stoplead"}
START = {"op": "startlead"}
TT = {"op": "ticktimeout"}
TU = {"op": "tickunknown"}


def case(ops, ups=(b"a", b"b"), cmax=10, amax=1000):
    return {"ups": [B(u) for u in ups], "cmax": cmax, "amax": amax, "ops": ops}


def saturated(insts, dead, rounds, after, amax, wc, ups=(b"a",), tick_every=3, newcomer=None):
    """Steady saturated reporters: every instance uses all of its quota and reports the same usage every
    round until the limit is fully handed out; the instances in [dead] go silent and are reclaimed by both
    passes; the survivors keep reporting the same usage for [after] rounds."""
    ops = []
    for r in range(rounds):
        for i in insts:
            ops.append(H(i))
            for u in ups:
                ops.append(R(u, i, wc=wc, sat=True))
        ops.append(ADV(1000))
        if r % tick_every == tick_every - 1:
            ops.append(TT)
    live = [i for i in insts if i not in dead]
    ops += [ADV(1000)] + [H(i) for i in live] + [ADV(1000)] + [H(i) for i in live] + [ADV(1500)] + [H(i) for i in live] + [TT, TU]
    for r in range(after):
        for i in live:
            ops.append(H(i))
            for u in ups:
                ops.append(R(u, i, wc=wc, sat=True))
        ops.append(ADV(1000))
        if r == 1:
            ops.append(TT)
    if newcomer:
        ops += [H(newcomer)] + [R(u, newcomer, wc=wc, sat=True) for u in ups]
    return case(ops, ups, 10, amax)


def corpus():
    cs = []
    # witness: an empty-identity heartbeat times out and takes the first-report condition of a live instance with it
    cs.append(case([H(b""), H(b"g1"), R(b"a", b"g1"), ADV(1500), H(b"g1"), ADV(1800), H(b"g1"), TT, TU, R(b"a", b"g1")]))
    # join, report twice (label set), go silent: reclaimed by the timeout pass alone
    cs.append(case([H(b"g1"), H(b"g2"), R(b"a", b"g1"), R(b"a", b"g1"), R(b"a", b"g2"), R(b"a", b"g2"), A(b"a", b"g1", 4), A(b"a", b"g2", 3),
                    ADV(1000), H(b"g2"), TT, ADV(1000), H(b"g2"), TT, ADV(1500), H(b"g2"), TT, R(b"a", b"g2"), TU, R(b"a", b"g2")]))
    # one report only (label empty): survives the timeout pass, reclaimed by the unknown-condition pass
    cs.append(case([H(b"g1"), H(b"g2"), R(b"a", b"g1"), R(b"b", b"g1"), R(b"a", b"g2"), A(b"b", b"g1", 7),
                    ADV(3500), H(b"g2"), TT, R(b"a", b"g2"), TU, R(b"a", b"g2"), R(b"b", b"g2")]))
    # comes back with the same identity between the two passes, and with a new identity
    cs.append(case([H(b"g1"), R(b"a", b"g1"), A(b"a", b"g1", 5), ADV(3500), TT, H(b"g1"), TU, R(b"a", b"g1"), A(b"a", b"g1", 2),
                    ADV(4000), TT, TU, H(b"g3"), R(b"a", b"g3"), A(b"a", b"g3", 10), A(b"a", b"g3", 11)]))
    # witness: in-flight counted for an instance that is no longer in the client cache (it acquired more
    # than 3 s after its last heartbeat, after the timeout pass had removed it) was never dropped
    cs.append(case([H(b"g1"), A(b"a", b"g1", 5), ADV(3500), TT, A(b"a", b"g1", 5), ADV(4000), TT, TU, ADV(40000), TT, TU,
                    H(b"g2"), A(b"a", b"g2", 6)]))
    # the same for an instance that never sent a heartbeat at all
    cs.append(case([A(b"a", b"g1", 5), R(b"a", b"g2"), ADV(5000), TT, TU, ADV(40000), TT, TU]))
    # count limit: refused increases, lowering, exactly at the limit; unknown upstream
    cs.append(case([H(b"g1"), H(b"g2"), A(b"a", b"g1", 6), A(b"a", b"g2", 5), A(b"a", b"g2", 4), A(b"a", b"g1", 7), A(b"a", b"g1", 0),
                    A(b"c", b"g1", 1), R(b"c", b"g1"), ADV(3200), TT, A(b"a", b"g3", 10)]))
    # steady saturated reporters, limit fully handed out, one goes silent and is reclaimed: the FIRST report of
    # a survivor afterwards must record the allocated sum without the dead instance (and the count-item sum too)
    cs.append(saturated([b"g1", b"g2"], [b"g2"], 11, 4, 1000, False))
    cs.append(saturated([b"g1", b"g2", b"g3"], [b"g2"], 12, 3, 20, True, ups=(b"a", b"b"), newcomer=b"g-4"))
    cs.append(saturated([b"g1", b"g2", b"g3"], [b"g1", b"g3"], 12, 3, 100, True))
    # take-over: the replica loses the shard, instances keep heartbeating the standby, it regains the shard and loads
    # the persisted conditions; the unknown-condition pass right after must keep the live g1 and reclaim the dead g2
    cs.append(case([H(b"g1"), H(b"g2"), R(b"a", b"g1"), R(b"a", b"g1"), R(b"a", b"g2"), R(b"b", b"g2"), A(b"a", b"g1", 3),
                    STOP, R(b"a", b"g1"), A(b"a", b"g1", 1), ADV(2000), H(b"g1"), TU, ADV(2000), H(b"g1"), TT, TU,
                    START, TU, TT, R(b"a", b"g1"), A(b"a", b"g1", 2), START, STOP, STOP, H(b"g1"), START, TU,
                    ADV(3500), TT, TU]))
    # a standby from the very beginning, upstream changes while standing by
    cs.append(case([STOP, H(b"g1"), SET(b"c"), GONE(b"b"), ADV(1000), H(b"g1"), TT, START, R(b"c", b"g1"), R(b"b", b"g1"), A(b"c", b"g1", 2),
                    TU, STOP, ADV(3500), TT, START, TU, R(b"a", b"g1")]))
    # an age of exactly 3 s at a timeout pass is not a timeout (time.After is strict): on the leader, and on a standby
    # where a refused acquire does not refresh the cache entry (the two thorough-tier cases of seed 1, shrunk)
    cs.append(case([H(b"g1"), R(b"a", b"g1"), A(b"a", b"g1", 2), ADV(3000), TT, TU, ADV(300), TT, TU]))
    cs.append(case([STOP, H(b"g1"), ADV(900), A(b"a", b"g1", 1), ADV(2100), TT, START, TU, R(b"a", b"g1"), ADV(300), TT]))
    cs.append(case([H(b"g-4"), A(b"a", b"g-4", 8), ADV(1000), TU, H(b"g-4"), STOP, A(b"a", b"g-4", 0), ADV(3000), TT, TT, START, TU]))
    # upstream removed from the lister without the handler running: the unknown-condition pass deletes it as
    # a whole (also the state of live instances of that upstream), the other upstream is untouched; re-added later
    cs.append(case([H(b"g1"), H(b"g2"), R(b"a", b"g1", wc=True), R(b"b", b"g1", wc=True), R(b"a", b"g2"), A(b"a", b"g1", 3), A(b"b", b"g1", 2),
                    GONE(b"a"), ADV(1000), H(b"g1"), H(b"g2"), TT, R(b"a", b"g1"), TU, R(b"a", b"g1"), A(b"a", b"g1", 1), A(b"b", b"g1", 4),
                    SET(b"a"), R(b"a", b"g1", wc=True), A(b"a", b"g1", 1), SET(b"c"), R(b"c", b"g2"), GONE(b"c"), H(b""), TU, ADV(3500), TT, TU]))
    # an instance called "state" has the name of the upstream state condition: nothing is stored for it
    cs.append(case([H(b"state"), H(b"g1"), R(b"a", b"state", wc=True), R(b"a", b"g1"), R(b"a", b"state"), A(b"a", b"state", 4),
                    ADV(3500), H(b"g1"), TT, TU, R(b"a", b"g1", wc=True)]))
    return cs


def gen_hist(rng, boundary=False):
    ups = [b"a"] if rng.chance(1, 3) else [b"a", b"b"]
    insts = list(INST)
    if boundary and rng.chance(1, 2):
        insts.append(b"")
    if boundary and rng.chance(1, 2):
        insts.append(b"state")
    churn = rng.chance(1, 3)      # upstream removal / re-creation in this history
    failover = rng.chance(1, 3)   # the replica loses and regains the shard in this history
    listed = set(ups)
    cmax = rng.choice([5, 10, 10, 20])
    alive = {}            # instance -> True (heartbeating) / False (silent)
    hbt = {}
    acq = {}
    now = 0
    ops = []

    def tick_guard():
        nonlocal now
        # keep every possible age (since the last heartbeat, and since the last acquire — which refreshes the
        # cache entry only while the replica leads) at least 250 ms away from the 3 s boundary at a pass
        while any(abs((now - t) - 3000) < 250 for t in list(hbt.values()) + list(acq.values())):
            ops.append(ADV(300))
            now += 300

    for _ in range(rng.randint(4, 14)):
        # membership changes
        k = rng.below(10)
        if k < 3 and len(alive) < len(insts):
            i = rng.choice([x for x in insts if x not in alive])
            alive[i] = True
        elif k < 5 and alive:
            i = rng.choice(sorted(alive))
            alive[i] = not alive[i] if rng.chance(2, 3) else alive[i]
        # activity of the instances
        for i in sorted(alive):
            if alive[i]:
                if rng.chance(9, 10):
                    ops.append(H(i))
                    hbt[i] = now
                for _ in range(rng.below(3)):
                    u = rng.choice(ups + ([b"c"] if churn else []))
                    if rng.chance(3, 5):
                        ops.append(R(u, i, rng.randint(0, 30), rng.choice([0, 20, 50, 90, 120]), wc=rng.chance(1, 2)))
                    else:
                        ops.append(A(u, i, rng.randint(0, cmax + 2) if rng.chance(4, 5) else 0))
                        acq[i] = now          # an acquire refreshes the cache entry (while leading)
            elif rng.chance(1, 12):
                # half-dead: acts without heartbeating
                if rng.chance(1, 2):
                    ops.append(R(rng.choice(ups), i))
                else:
                    ops.append(A(rng.choice(ups), i, rng.randint(0, 5)))
                    acq[i] = now
        if failover and rng.chance(1, 4):
            ops.append(STOP if rng.chance(1, 2) else START)
            if rng.chance(1, 2):
                ops.append(TU)
        if churn and rng.chance(1, 4):
            u = rng.choice(ups + [b"c"])
            if u in listed and rng.chance(2, 3):
                ops.append(GONE(u))
                listed.discard(u)
            else:
                ops.append(SET(u))
                listed.add(u)
        dt = rng.choice([400, 900, 1000, 1000, 1100, 1600, 2100, 3400, 6000, 31000])
        ops.append(ADV(dt))
        now += dt
        if rng.chance(3, 4):
            tick_guard()
            ops.append(TT)
        if rng.chance(1, 4):
            ops.append(TU)
        if rng.chance(1, 6):
            tick_guard()
            ops.append(TT)
    if rng.chance(2, 3):
        ops.append(ADV(3500))
        now += 3500
        tick_guard()
        ops += [TT, TU]
        for i in sorted(alive):
            if alive[i] and rng.chance(1, 2):
                ops += [H(i), R(rng.choice(ups), i)]
    return case(ops, ups, cmax)


def gen_saturated(rng):
    n = rng.randint(2, 3)
    insts = rng.sample(INST, n)
    dead = rng.sample(insts, rng.randint(1, n - 1))
    ups = (b"a",) if rng.chance(2, 3) else (b"a", b"b")
    return saturated(insts, dead, rng.randint(9, 12), rng.randint(1, 4), rng.choice([20, 100, 1000]), rng.chance(1, 2),
                     ups=ups, tick_every=rng.randint(2, 4), newcomer=(b"g-5" if rng.chance(1, 3) else None))


def generate(rng, tier, scale=1):
    # thorough: 800 histories in shards of 40 (a history is long: the case files are what fills build/C18)
    global COQ_SHARD
    COQ_SHARD = 20 if tier == "quick" else 40
    k = (150 if tier == "quick" else 800) * scale
    out = []
    for j in range(k):
        if j % 6 == 5:
            out.append(gen_saturated(rng))       # steady saturated reporters around a reclamation
        else:
            out.append(gen_hist(rng, boundary=(j % 8 == 7)))
    return out


HARNESS_CHUNK = 25
COQ_SHARD = 20


# ---------------------------------------------------------------- Coq printing
def c_op(o, s):
    k = o["op"]
    if k == "stoplead":
        return "StopLeading"
    if k == "startlead":
        return "StartLeading"
    return "(Op %s)" % c_op0(o, s)


def c_op0(o, s):
    k = o["op"]
    if k == "hb":
        return "(Heartbeat %s)" % cstr(o["i"])
    if k == "report":
        return "(Report %s %s %s)" % (cstr(o["u"]), cstr(o["i"]), cZ(s.get("q", 0)))
    if k == "acquire":
        return "(Acquire %s %s %s)" % (cstr(o["u"]), cstr(o["i"]), cZ(o["n"]))
    if k == "ticktimeout":
        return "TickTimeout"
    if k == "tickunknown":
        return "TickUnknown"
    if k == "advance":
        return "(Advance %s)" % cZ(o["dt"])
    if k == "clustergone":
        return "(ClusterGone %s)" % cstr(o["u"])
    if k == "clusterset":
        return "(ClusterSet %s)" % cstr(o["u"])
    raise ValueError(k)


def c_res(o, s):
    r = s["res"]
    if r == "acc":
        return "(RAcc %s)" % cbool(s.get("acc", False))
    return {"nil": "RNil", "ok": "ROk", "notfound": "RNotFound", "notleader": "RNotLeader"}.get(
        r, "(RAcc false)" if o["op"] == "acquire" else "RNotFound")


def c_obs(o, s):
    conds = clist([cpair(cpair(cstr(c["u"]), cstr(c["i"])), cpair(cZ(c["q"]), cstr(c["lab"]))) for c in s["conds"]])
    sums = clist([cpair(cstr(x["u"]), cZ(x["s"])) for x in s["sums"]])
    cnts = clist([cpair(cstr(x["u"]), cpair(clist([cpair(cstr(e["i"]), cZ(e["c"])) for e in x["entries"]]), cZ(x["total"])))
                  for x in s["cnts"]])
    qc = clist([cpair(cpair(cstr(c["u"]), cstr(c["i"])), cZ(c["qc"])) for c in s["conds"] if c.get("hasqc")])
    sumc = clist([cpair(cstr(x["u"]), cZ(x["s"])) for x in s.get("sumc") or []])
    cnts2 = clist([cpair(cstr(x["u"]), cpair(clist([cpair(cstr(e["i"]), cZ(e["c"])) for e in x["entries"]]), cZ(x["total"])))
                   for x in s.get("cnts2") or []])
    pers = clist([cpair(cpair(cstr(c["u"]), cstr(c["i"])), cpair(cZ(c["q"]), cstr(c["lab"]))) for c in s.get("pers") or []])
    return "(mkObs %s %s %s %s %s %s %s %s %s %s)" % (c_res(o, s), clist([cstr(x) for x in s["clients"]]), conds, sums, cnts, qc,
                                                   sumc, cnts2, cZ(s.get("other", 0)), pers)


def coq_case(case, obs):
    steps = obs.get("steps") if isinstance(obs, dict) else None
    cfg = "(mkCfg %s %s)" % (clist([cstr(u) for u in case["ups"]]), cZ(case["cmax"]))
    if steps is None or len(steps) != len(case["ops"]):
        # harness panic: a one-step trace the model cannot agree with
        return "(CHist %s [(Op TickTimeout, mkObs ROk [] [] [] [] [] [] [] 0 [])])" % cfg
    tr = [cpair(c_op(o, s), c_obs(o, s)) for o, s in zip(case["ops"], steps)]
    return "(CHist %s %s)" % (cfg, clist(tr))


# ---------------------------------------------------------------- metadata
def nontrivial_key(case, obs):
    steps = obs.get("steps") if isinstance(obs, dict) else None
    if not steps:
        return None
    prev = None
    for o, s in zip(case["ops"], steps):
        if o["op"] == "ticktimeout" and prev is not None:
            gone = [c for c in prev["clients"] if c not in s["clients"]]
            had = {bytes(c["i"]) for c in prev["conds"]} | {bytes(e["i"]) for x in prev["cnts"] for e in x["entries"]}
            kept = [c for c in s["clients"] if bytes(c) in had]
            if any(bytes(g) in had for g in gone) and kept:
                return repr(case["ops"])
        prev = s
    return None


def stats(case, obs):
    steps = obs.get("steps") if isinstance(obs, dict) else None
    if not steps:
        return ["panic"]
    labs = ["hist:len<=%d" % (20 * ((len(case["ops"]) + 19) // 20)), "ups=%d" % len(case["ups"])]
    if any(o["op"] in ("stoplead", "startlead") for o in case["ops"]):
        labs.append("pattern:leadership-change")
    if any(o.get("sat") for o in case["ops"]):
        labs.append("pattern:saturated-steady-reporters")
    prev = None
    for o, s in zip(case["ops"], steps):
        labs.append("op:%s->%s" % (o["op"], s["res"] if s["res"] != "acc" else ("acc" if s.get("acc") else "refused")))
        if prev is not None and o["op"] in ("ticktimeout", "tickunknown"):
            d = len(prev["conds"]) - len(s["conds"])
            labs.append("%s:removed_conds=%s" % (o["op"], d if d < 3 else "3+"))
            if len(prev["clients"]) > len(s["clients"]):
                labs.append("%s:client_timed_out" % o["op"])
        prev = s
    return labs


def shrink(case):
    ops = case["ops"]
    for i in range(len(ops)):
        yield dict(case, ops=ops[:i] + ops[i + 1:])


def neighbours(case, rng):
    ops = case["ops"]
    for i in range(len(ops)):
        yield dict(case, ops=ops[:i] + ops[i + 1:])
        yield dict(case, ops=ops[:i] + [ops[i]] + ops[i:])


def known_match(entry, case, obs, failed):
    if entry.get("id") == "C18-empty-identity-timeout":
        return failed == ["live"] and any(o["op"] == "hb" and len(o["i"]) == 0 for o in case["ops"])
    if entry.get("id") == "C18-count-leak-uncached-instance":
        return failed == ["reclaimed"] and any(o["op"] == "acquire" for o in case["ops"])
    return False


LEVEL_TEXT = ("full proof: Coq theorems over every history of heartbeat / report / acquire / advance operations and "
              "cleanup passes at arbitrary times (induction over the op list, invariants), about a Gallina model of the "
              "limiter's client cache, stored conditions with their instance label, recorded allocated sums and "
              "per-instance in-flight counts, and of cleanupTimeoutClient / cleanupUnknownCondition / "
              "DeleteInstanceState; the model is compared with the real rateLimiter on generated histories on every run "
              "and the executable spec is evaluated on the real observations")
LEVEL_NOTE = ("trusted: Coq kernel + vm_compute, the hand-written model (tied by differential run only), Go harness and "
              "overlay exports; the allocated quota of a report is an observed input (its arithmetic is C07); a cleanup "
              "pass is modelled as atomic; no axioms (all theorems closed under the global context)")
TECHNIQUE = "Coq proof (invariants over tick histories) + differential model/implementation correspondence"
