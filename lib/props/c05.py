"""C05 — local max-in-flight: never more than M admitted and unfinished; slots never leak."""
from vf.core import cstr, cZ, cbool, clist, cpair

PID = "C05"
MODULES = ["Prelude", "Sched", "C05_Model", "C05_Spec", "C05_Check"]
PROPS_MODULE = "C05_Properties"
THEOREMS = ["C05_counter_inv", "C05_counter_shape", "C05_admit_le_read", "C05_resize", "C05_release_once",
            "C05_quiescent_zero", "C05_refill", "C05_seq_refines_solo", "C05_sched_spec", "C05_isolation",
            "C05_schemas_isolated_exact_names", "C05_reconfig_bound", "C05_every_exit_releases"]
COQ_SHARD = 120
HARNESS_CHUNK = 130
EVAL = "C05_Check.eval"
CLAUSES = ["agree", "sched_bound", "sched_admit", "quiescent", "refill", "hist_bound", "hist_no_spurious_reject"]
RULE = ("schedule cases: distinct (limit, programs, effective schedule) in which at least two goroutines were inside "
        "TryAcquire/Release at the same time (their steps interleave) and at least one TryAcquire was decided at the "
        "atomic Add (admitted or pushed back); history cases: distinct op lists with at least one reconfiguration "
        "(resize, limit-strategy change, type change, delete or re-add) issued while a request admitted earlier is still in flight and at "
        "least one later acquire on that schema (the same rule for histories driven through the real dispatcher)")
TRUSTED_BASE = [
    "Coq 8.16.1 kernel + vm_compute (case files); no native_compute, no extraction",
    "hand-written model C05_Model.v tied to /repo and to golib's max_inflight.go by the differential run of this check",
    "schedule points are generated from the CURRENT golib file by lib/vf/instrument.py (atomic.X -> yield + atomic.X; the two "
    "plain reads `f.count <= 0`, `f.max != n` -> yield + plain read); the cooperative scheduler harness/common/sched.go runs "
    "exactly one goroutine between yields (sequentially consistent interleavings of the instrumented accesses)",
    "modelled not verified: Go memory model beyond sequential consistency of sync/atomic, sync.Map of the limiter, "
    "the meter, token-bucket admission (always admits here: burst 1000; property C06), Go's defer semantics (C05_every_exit_releases)",
]
ASSUMPTIONS = [
    "interleavings are sequentially consistent at the granularity of one sync/atomic operation (Go memory model for sync/atomic); "
    "the two plain reads of golib are treated as atomic loads",
    "Release is called only by requests that were admitted, exactly once (the dispatcher's `defer flowcontrol.Release()`); "
    "the counter theorems quantify over all programs of that shape, any number of goroutines, any schedule",
    "schema names are unique within one UpstreamCluster spec (histories with duplicate names are not generated; the history "
    "theorems assume NoDup names per Sync)",
    "the gateway runs with the local limiter (rateLimiter mode local), so upstreamLimiter.Load serves the local wrapper for every "
    "limit strategy (\"\", local, globalAllocate, globalCount); histories change the strategy freely",
    "wrapper histories are sequential (Sync is single-threaded per cluster in the controller); concurrent acquire/release on "
    "one limiter object is covered by the counter theorems through C05_seq_refines_solo",
    "token-bucket schemas in histories have qps=burst>=1000 so that they admit every request of a history",
    "the five exits of dispatcher.ServeHTTP (success, upstream error, no ready endpoint, client abort, panic) are replayed through "
    "the real handler chain in the 'disp' histories (the limiter's counter is observed after ServeHTTP returned); the Coq model of "
    "the exits (C05_Model.serve, Go's defer semantics) is not itself compared with the code",
]

LABELS = {
    "TryAcquire:LoadInt64(&f.count)": 0,
    "TryAcquire:LoadUint32(&f.max)": 1,
    "TryAcquire:CompareAndSwapInt64(&f.count, count, 1)": 2,
    "TryAcquire:AddInt64(&f.count, 1)": 3,
    "TryAcquire:AddInt64(&f.count, -1)": 4,
    "Release:f.count": 5,
    "Release:AddInt64(&f.count, -1)": 6,
    "Release:StoreInt64(&f.count, 0)": 7,
    "Resize:f.max": 8,
    "Resize:StoreUint32(&f.max, n)": 9,
}

ACQ = {"c": "acq"}


def RES(n):
    return {"c": "res", "n": n}


def sched_case(m0, progs, sched):
    return {"kind": "sched", "m0": m0, "progs": progs, "sched": sched}


STRATEGIES = ["", "local", "globalAllocate", "globalCount"]


def mif(n, m, st=""):
    return {"n": n, "k": "mif", "max": m, "st": st}


def tb(n, q=1000, st=""):
    return {"n": n, "k": "tb", "qps": q, "burst": q, "st": st}


def ex(n, st=""):
    return {"n": n, "k": "exempt", "st": st}


def sync(c, spec):
    return {"op": "sync", "c": c, "spec": spec}


def acq(c, n, r):
    return {"op": "acq", "c": c, "n": n, "r": r}


def rel(r):
    return {"op": "rel", "r": r}


CLUSTERS = ["A", "B"]
NAMES = ["x", "X", "y"]      # schema names are case-sensitive: "x" and "X" are two schemas
KEYS = [[c, n] for c in CLUSTERS for n in NAMES]


def hist_case(ops, keys=None):
    return {"kind": "hist", "keys": keys or KEYS, "ops": ops}


def corpus():
    cs = []
    # --- schedules
    cs.append(sched_case(1, [[ACQ], [ACQ], [RES(2)]], [0, 1, 0, 1, 2, 0, 1, 0]))
    # both pass the `count >= max` test, both Add, the second is pushed back by Add(-1)
    cs.append(sched_case(1, [[ACQ], [ACQ]], [0, 1, 0, 1, 0, 1]))
    cs.append(sched_case(1, [[ACQ, ACQ], [ACQ, ACQ], [ACQ]], [0, 0, 1, 1, 2, 2, 0, 1, 2, 2, 0, 1, 0, 1]))
    # release racing with an acquire's undo
    cs.append(sched_case(1, [[ACQ], [ACQ], [ACQ]], [0, 0, 0, 1, 1, 2, 2, 1, 2, 0, 0, 1, 2]))
    # shrink while two hold; new requests only while fewer than 1 in flight
    cs.append(sched_case(2, [[ACQ, ACQ], [ACQ, ACQ], [RES(1)], [ACQ]], [0, 0, 0, 1, 1, 1, 2, 2, 3, 3, 0, 0, 3, 3, 1, 1]))
    # grow while full
    cs.append(sched_case(1, [[ACQ], [ACQ], [RES(3)], [ACQ]], [0, 0, 0, 1, 1, 2, 2, 1, 3, 3, 3]))
    # stale max: loaded before a shrink, used after it
    cs.append(sched_case(2, [[ACQ], [ACQ], [RES(1)]], [0, 0, 0, 1, 1, 2, 2, 1]))
    cs.append(sched_case(0, [[ACQ], [ACQ, RES(1), ACQ]], [0, 1, 0, 1, 1, 1]))
    cs.append(sched_case(3, [[RES(3)], [RES(1), RES(2)], [ACQ, ACQ]], [1, 0, 1, 2, 2, 1, 2]))
    cs.append(sched_case(2, [[ACQ], []], [5, 1, 0, 7]))
    # --- histories
    # the old defect (fixed by 8b83864): token bucket A admitted; -> max-in-flight(1): B admitted; A releases;
    # C must be rejected while B is in flight
    cs.append(hist_case([sync("A", [tb("x")]), acq("A", "x", 1), sync("A", [mif("x", 1)]), acq("A", "x", 2), rel(1),
                         acq("A", "x", 3), rel(2), acq("A", "x", 4)]))
    # the same through max-in-flight -> token bucket -> max-in-flight
    cs.append(hist_case([sync("A", [mif("x", 1)]), acq("A", "x", 1), sync("A", [tb("x")]), sync("A", [mif("x", 1)]),
                         acq("A", "x", 2), rel(1), acq("A", "x", 3), rel(2), acq("A", "x", 4), rel(4)]))
    # delete / re-add with a request in flight
    cs.append(hist_case([sync("A", [mif("x", 1), mif("y", 2)]), acq("A", "x", 1), sync("A", [mif("y", 2)]),
                         acq("A", "x", 5), sync("A", [mif("x", 1), mif("y", 2)]), acq("A", "x", 2), acq("A", "x", 3),
                         rel(1), acq("A", "x", 4), rel(2), acq("A", "x", 6)]))
    # resize down / up with requests in flight
    cs.append(hist_case([sync("A", [mif("x", 3)]), acq("A", "x", 1), acq("A", "x", 2), acq("A", "x", 3), acq("A", "x", 4),
                         sync("A", [mif("x", 1)]), acq("A", "x", 5), rel(1), acq("A", "x", 6), rel(2), rel(3),
                         acq("A", "x", 7), acq("A", "x", 8), sync("A", [mif("x", 2)]), acq("A", "x", 9), acq("A", "x", 10)]))
    # isolation: exhaust A/x; A/y, B/x, default are unaffected
    cs.append(hist_case([sync("A", [mif("x", 1), mif("y", 1)]), sync("B", [mif("x", 1)]), acq("A", "x", 1),
                         acq("A", "x", 2), acq("A", "y", 3), acq("B", "x", 4), acq("B", "y", 5), acq("A", "", 6),
                         acq("A", "zz", 7), rel(1), acq("A", "x", 8), acq("B", "x", 9)]))
    cs.append(hist_case([sync("A", [ex("x")]), acq("A", "x", 1), sync("A", [mif("x", 0)]), acq("A", "x", 2),
                         sync("A", [mif("x", 1)]), acq("A", "x", 3), acq("A", "x", 3), rel(3), rel(3), acq("A", "x", 3)]))
    cs.append(hist_case([sync("A", []), sync("A", [mif("x", 2)]), sync("A", [mif("x", 2)]), acq("A", "x", 1),
                         sync("A", []), rel(1), sync("A", [mif("x", 2)]), acq("A", "x", 2), acq("A", "x", 3), acq("A", "x", 4)]))
    # only the limit strategy of a max-in-flight schema is edited while requests are in flight: it never stopped
    # being max-in-flight(M), so the requests admitted before still count
    for a, b in (("local", "globalCount"), ("", "local"), ("globalCount", "globalAllocate"), ("globalAllocate", "")):
        cs.append(hist_case([sync("A", [mif("x", 2, a)]), acq("A", "x", 1), acq("A", "x", 2), acq("A", "x", 3),
                             sync("A", [mif("x", 2, b)]), acq("A", "x", 4), rel(1), acq("A", "x", 5), acq("A", "x", 6),
                             sync("A", [mif("x", 3, a)]), acq("A", "x", 7), acq("A", "x", 8), rel(2), rel(5), rel(7),
                             acq("A", "x", 9), acq("A", "x", 10), acq("A", "x", 11)]))
    cs.append(hist_case([sync("A", [tb("x", 1000, "local")]), acq("A", "x", 1), sync("A", [tb("x", 1000, "globalCount")]),
                         acq("A", "x", 2), sync("A", [ex("x", "local")]), sync("A", [ex("x", "")]), acq("A", "x", 3)]))
    # schema names that are equal up to case, or differ in one punctuation character, are DIFFERENT schemas with
    # their own limits: exhaust one, the others still admit up to their own M; resize one, delete one, re-add
    def twins(mk, cl, acq_, n1, n2, n3):
        return mk([sync(cl, [mif(n1, 1), mif(n2, 3), mif(n3, 2)]),
                   acq_(cl, n1, 1), acq_(cl, n1, 2), acq_(cl, n2, 3), acq_(cl, n2, 4), acq_(cl, n2, 5), acq_(cl, n2, 6),
                   acq_(cl, n3, 7), acq_(cl, n3, 8), acq_(cl, n3, 9), rel(1), acq_(cl, n1, 10), acq_(cl, n1, 11),
                   sync(cl, [mif(n1, 1), mif(n2, 1), mif(n3, 2)]), acq_(cl, n2, 12), rel(3), rel(4), rel(5), acq_(cl, n2, 13),
                   acq_(cl, n2, 14), sync(cl, [mif(n2, 1), mif(n3, 2)]), acq_(cl, n1, 15), acq_(cl, n2, 16), acq_(cl, n3, 17),
                   rel(7), acq_(cl, n3, 18), sync(cl, [mif(n1, 2), mif(n2, 1), mif(n3, 2)]), acq_(cl, n1, 19),
                   acq_(cl, n1, 20), acq_(cl, n1, 21), acq_(cl, n2, 22)],
                  keys=[[cl, n1], [cl, n2], [cl, n3]])
    cs.append(twins(hist_case, "A", acq, "Batch", "batch", "BATCH"))
    cs.append(twins(hist_case, "A", acq, "a.b", "a-b", "x"))
    cs.append(twins(hist_case, "B", acq, "x", "X", "y"))
    dq = lambda c, n, r: dacq(c, n, r, "ok")
    cs.append(twins(disp_case, "a.test", dq, "Batch", "batch", "BATCH"))
    cs.append(twins(disp_case, "a.test", dq, "a.b", "a-b", "X"))
    # --- the same through the real handler chain (dispatcher.ServeHTTP admits and releases)
    cs.append(disp_case([sync("a.test", [mif("x", 1, "local")]), dacq("a.test", "x", 1, "ok"),
                         sync("a.test", [mif("x", 1, "globalCount")]), dacq("a.test", "x", 2, "ok"), rel(1),
                         dacq("a.test", "x", 3, "err"), sync("a.test", [mif("x", 1, "")]), dacq("a.test", "x", 4, "ok"),
                         rel(3), dacq("a.test", "x", 5, "ok")]))
    A = "a.test"
    cs.append(disp_case([sync(A, [tb("x")]), dacq(A, "x", 1, "ok"), sync(A, [mif("x", 1)]), dacq(A, "x", 2, "err"),
                         rel(1), dacq(A, "x", 3, "ok"), rel(2), dacq(A, "x", 4, "abort"), dacq(A, "x", 5, "ok"), rel(4),
                         dacq(A, "x", 6, "panic"), rel(6), dacq(A, "x", 7, "noendpoint"), dacq(A, "x", 8, "ok"),
                         dacq("b.test", "x", 9, "ok"), dacq(A, "", 10, "ok"), dacq(A, "x", 11, "noendpoint")]))
    for ex_ in ("ok", "err", "abort", "panic", "noendpoint"):
        cs.append(disp_case([sync(A, [mif("x", 1), mif("y", 2)]), dacq(A, "x", 1, ex_), dacq(A, "x", 2, "ok"), rel(1),
                             dacq(A, "x", 3, ex_), rel(3), rel(2), dacq(A, "x", 4, "ok"), dacq(A, "y", 5, ex_),
                             dacq(A, "y", 6, ex_), dacq(A, "y", 7, "ok")]))
    return cs


def gen_sched(rng):
    ng = rng.choice([2, 2, 3, 3, 3, 4])
    m0 = rng.choice([0, 1, 1, 1, 2, 2, 3])
    progs = []
    resizers = 0
    for g in range(ng):
        if g >= 1 and resizers < 2 and rng.chance(1, 4):
            progs.append([RES(rng.choice([0, 1, 1, 2, 3])) for _ in range(rng.randint(1, 2))])
            resizers += 1
        else:
            p = []
            for _ in range(rng.randint(1, 3)):
                p.append(ACQ if not rng.chance(1, 12) else RES(rng.choice([1, 2])))
            progs.append(p)
    n = rng.randint(0, 10 * ng)
    sched = []
    mode = rng.below(3)
    for _ in range(n):
        if mode == 0 or not sched:
            sched.append(rng.below(ng))
        elif mode == 1:      # bursts: stay on the same goroutine with probability 1/2
            sched.append(sched[-1] if rng.chance(1, 2) else rng.below(ng))
        else:                # near round-robin: maximal contention
            sched.append((sched[-1] + 1) % ng if rng.chance(3, 4) else rng.below(ng))
    return sched_case(m0, progs, sched)


def rand_schema(rng, n):
    st = rng.choice(STRATEGIES) if rng.chance(1, 2) else ""
    k = rng.below(10)
    if k < 6:
        return mif(n, rng.choice([0, 1, 1, 2, 2, 3]), st)
    if k < 8:
        return tb(n, rng.choice([1000, 2000]), st)
    return ex(n, st)


def restrategize(rng, spec):
    """the same schemas with (mostly) only the limit strategy edited"""
    out = []
    for s in spec:
        s = dict(s)
        if rng.chance(3, 4):
            s["st"] = rng.choice([x for x in STRATEGIES if x != s.get("st", "")])
        if s["k"] == "mif" and rng.chance(1, 5):
            s["max"] = rng.choice([1, 2, 3])
        out.append(s)
    return out


def gen_hist(rng):
    ops = []
    nextr = 1
    live = []
    last = {}
    for _ in range(rng.randint(8, 32)):
        k = rng.below(100)
        if k < 25 or not ops:
            c = rng.choice(CLUSTERS)
            if c in last and last[c] and rng.chance(2, 5):
                sp = restrategize(rng, last[c])
            else:
                sp = [rand_schema(rng, n) for n in NAMES if rng.chance(3, 4)]
            last[c] = sp
            ops.append(sync(c, sp))
        elif k < 70:
            c = rng.choice(CLUSTERS) if rng.chance(1, 3) else "A"
            n = rng.choice(NAMES + ["x", "x", "", "zz"])
            r = nextr
            nextr += 1
            if live and rng.chance(1, 25):
                r = rng.choice(live)       # an id that is still in flight: ignored by harness, model and spec
            else:
                live.append(r)
            ops.append(acq(c, n, r))
        else:
            if live and rng.chance(9, 10):
                r = live.pop(rng.below(len(live)))
            else:
                r = rng.randint(1, nextr + 1)   # already released / never admitted: no-op
            ops.append(rel(r))
    return hist_case(ops)


DCLUSTERS = ["a.test", "b.test"]
DKEYS = [[c, n] for c in DCLUSTERS for n in NAMES]
EXITS = ["ok", "ok", "err", "abort", "panic", "noendpoint"]


def disp_case(ops, keys=None):
    return {"kind": "disp", "keys": keys or DKEYS, "ops": ops}


def dacq(c, n, r, exit_):
    return {"op": "acq", "c": c, "n": n, "r": r, "exit": exit_}


def gen_disp(rng):
    ops = []
    nextr = 1
    live = []
    last = {}
    for _ in range(rng.randint(8, 22)):
        k = rng.below(100)
        if k < 22 or not ops:
            c = rng.choice(DCLUSTERS) if rng.chance(1, 3) else "a.test"
            if c in last and last[c] and rng.chance(2, 5):
                sp = restrategize(rng, last[c])
            else:
                sp = [rand_schema(rng, n) for n in NAMES if rng.chance(3, 4)]
            last[c] = sp
            ops.append(sync(c, sp))
        elif k < 68:
            c = rng.choice(DCLUSTERS) if rng.chance(1, 4) else "a.test"
            n = rng.choice(NAMES + ["x", "x", "", "zz"])
            ex_ = rng.choice(EXITS)
            r = nextr
            nextr += 1
            if ex_ != "noendpoint":
                live.append(r)
            ops.append(dacq(c, n, r, ex_))
        else:
            if live and rng.chance(9, 10):
                r = live.pop(rng.below(len(live)))
            else:
                r = rng.randint(1, nextr + 1)
            ops.append(rel(r))
    return disp_case(ops)


def enum_scheds(ng, length):
    out = [[]]
    for _ in range(length):
        out = [s + [g] for s in out for g in range(ng)]
    return out


def generate(rng, tier, scale=1):
    ns, nh = (600, 200) if tier == "quick" else (6000, 2500)
    cs = [gen_sched(rng) for _ in range(ns * scale)]
    cs += [gen_hist(rng) for _ in range(nh * scale)]
    cs += [gen_disp(rng) for _ in range((40 if tier == "quick" else 300) * scale)]
    if tier == "thorough" and scale == 1:
        # exhaustive schedule prefixes (the rest is drained in id order): 2 goroutines x 12 steps (with the drain:
        # every interleaving of up to ~14 steps), 3 goroutines x 8 steps
        for m0, progs, ng, ln in ((1, [[ACQ, ACQ], [ACQ, ACQ]], 2, 12), (1, [[ACQ], [ACQ], [ACQ]], 3, 8),
                                  (2, [[ACQ, ACQ], [ACQ], [RES(1)]], 3, 8), (1, [[ACQ, ACQ], [RES(0), RES(2)]], 2, 11)):
            for s in enum_scheds(ng, ln):
                cs.append(sched_case(m0, progs, s))
    return cs


def coq_cmd(c):
    return "CAcq" if c["c"] == "acq" else "(CRes %s)" % cZ(c["n"])


def coq_schema(s):
    st = cZ(STRATEGIES.index(s.get("st", "")))
    if s["k"] == "mif":
        return "(SMif %s %s)" % (cZ(s["max"]), st)
    if s["k"] == "tb":
        return "(STb %s %s %s)" % (cZ(s["qps"]), cZ(s["burst"]), st)
    return "(SExempt %s)" % st


def coq_op(o):
    if o["op"] == "sync":
        return "(WSync %s %s)" % (cstr(o["c"]), clist([cpair(cstr(s["n"]), coq_schema(s)) for s in o["spec"]]))
    if o["op"] == "acq":
        return "(WAcq %s %s %s)" % (cstr(o["c"]), cstr(o["n"]), cZ(o["r"]))
    return "(WRel %s)" % cZ(o["r"])


def q4(a, b, c, d):
    return "(%s, %s, %s, %s)" % (cZ(a), cZ(b), cZ(c), cZ(d))


def coq_case(case, obs):
    if case["kind"] == "sched":
        progs = clist([clist([coq_cmd(c) for c in p]) for p in case["progs"]])
        sched = clist(["%d%%nat" % max(0, g) for g in case["sched"]])
        if "panic" in obs:
            return "(CSched %s %s %s [] [] (-1) (-1) (-1))" % (cZ(case["m0"]), progs, sched)
        tr = clist([q4(s["g"], LABELS.get(s["l"], 98), s["e"], s["a"]) for s in obs["trace"]])
        res = clist([clist([cbool(b) for b in r]) for r in obs["results"]])
        return "(CSched %s %s %s %s %s %s %s %s)" % (cZ(case["m0"]), progs, sched, tr, res, cZ(obs["count"]),
                                                     cZ(obs["max"]), cZ(obs["refill"]))
    keys = clist([cpair(cstr(k[0]), cstr(k[1])) for k in case["keys"]])
    steps = obs.get("steps", []) if "panic" not in obs else []
    tr = []
    for i, o in enumerate(case["ops"]):
        if i < len(steps) and steps[i]["res"] == 3:
            # admitted, then "no ready endpoint": the request is over when ServeHTTP returns, so the state in
            # between cannot be observed; the model sees an acquire followed by that request's release
            view = clist([q4(v["p"], v["k"], v["m"], v["c"]) for v in steps[i]["view"]])
            tr.append(cpair(coq_op(o), cpair(cZ(2), "[]")))
            tr.append(cpair("(WRel %s)" % cZ(o["r"]), cpair(cZ(0), view)))
            continue
        if i < len(steps):
            s = steps[i]
            view = clist([q4(v["p"], v["k"], v["m"], v["c"]) for v in s["view"]])
            tr.append(cpair(coq_op(o), cpair(cZ(s["res"]), view)))
        else:   # a panic cut the history short: make the case disagree visibly
            tr.append(cpair(coq_op(o), cpair(cZ(-1), "[]")))
    return "(CHist %s %s)" % (keys, clist(tr))


def _interleaved(trace):
    """two goroutines inside a call at the same time: g's consecutive steps of one call are separated by another's"""
    last = {}
    for i, s in enumerate(trace):
        g = s["g"]
        if g in last and last[g] != i - 1 and LABELS.get(s["l"], 98) not in (0, 8):
            return True
        last[g] = i
    return False


def nontrivial_key(case, obs):
    if "panic" in obs:
        return None
    if case["kind"] == "sched":
        tr = obs["trace"]
        if _interleaved(tr) and any(LABELS.get(s["l"]) == 3 for s in tr):
            return ("s", case["m0"], repr(case["progs"]), tuple(s["g"] for s in tr))
        return None
    ops = case["ops"]
    live = set()
    seen_reconf = None
    steps = obs.get("steps", [])
    for o, s in zip(ops, steps):
        if o["op"] == "acq" and s["res"] == 2:
            live.add(o["r"])
        elif o["op"] == "rel":
            live.discard(o["r"])
        elif o["op"] == "sync" and live:
            seen_reconf = o["c"]
        if o["op"] == "acq" and seen_reconf == o["c"] and s["res"] in (1, 2):
            return (case["kind"], repr(ops))
    return None


def stats(case, obs):
    if "panic" in obs:
        return ["panic"]
    if case["kind"] == "sched":
        tr = obs["trace"]
        labs = ["sched:goroutines=%d" % len(case["progs"]), "sched:steps<=%d" % (10 * ((len(tr) + 9) // 10)),
                "sched:m0=%d" % case["m0"]]
        ev = {1: "admitted", 2: "rejected", 3: "released", 4: "resized"}
        for s in tr:
            if s["e"]:
                labs.append("sched:" + ev.get(s["e"], "?"))
            if LABELS.get(s["l"]) == 4:
                labs.append("sched:pushed-back-after-add")
        if any(c["c"] == "res" for p in case["progs"] for c in p):
            labs.append("sched:with-resize")
        return labs
    kd = case["kind"]
    labs = ["%s:len<=%d" % (kd, 10 * ((len(case["ops"]) + 9) // 10))]
    for o, s in zip(case["ops"], obs.get("steps", [])):
        labs.append("%s:%s->%d" % (kd, o["op"], s["res"]))
        if kd == "disp" and o["op"] == "acq" and s["res"] in (2, 3):
            labs.append("disp:exit=%s" % o.get("exit"))
    return labs


def shrink(case):
    if case["kind"] in ("hist", "disp"):
        ops = case["ops"]
        for i in range(len(ops)):
            yield dict(case, ops=ops[:i] + ops[i + 1:])
    else:
        s = case["sched"]
        for i in range(len(s)):
            yield dict(case, sched=s[:i] + s[i + 1:])
        for g in range(len(case["progs"])):
            p = case["progs"][g]
            if len(p) > 1:
                yield dict(case, progs=case["progs"][:g] + [p[:-1]] + case["progs"][g + 1:])


def neighbours(case, rng):
    if case["kind"] in ("hist", "disp"):
        ops = case["ops"]
        for i in range(len(ops)):
            yield dict(case, ops=ops[:i] + ops[i + 1:])
            yield dict(case, ops=ops[:i] + [ops[i]] + ops[i:])
    else:
        s = case["sched"]
        ng = max(1, len(case["progs"]))
        for i in range(len(s)):
            yield dict(case, sched=s[:i] + s[i + 1:])
            yield dict(case, sched=s[:i] + [(s[i] + 1) % ng] + s[i + 1:])
        for d in (-1, 1):
            yield dict(case, m0=max(0, case["m0"] + d))


def known_match(entry, case, obs, failed):
    return False


LEVEL_TEXT = ("full proof: Coq theorems over every number of goroutines, every program of TryAcquire/Release/Resize calls and "
              "every schedule (invariant lifted through the generic interleaving semantics Sched.v) about a Gallina model of "
              "golib's atomic max-in-flight counter with one step per atomic access, and over every history of resize / type "
              "change / delete / re-add / acquire / release about a model of upstreamLimiter + localWrapper + flowcontrol.Pin; "
              "the models are compared with the real code on every run (real goroutines replayed under a cooperative scheduler "
              "at generated schedule points; real upstreamLimiter histories) and the executable spec is evaluated on the real "
              "observations")
LEVEL_NOTE = ("trusted: Coq kernel + vm_compute, the hand-written models (tied by differential run only), the generated "
              "instrumentation and the cooperative scheduler (sequentially consistent interleavings at sync/atomic granularity); "
              "modelled not verified: token-bucket admission (C06), the meter, sync.Map, Go's defer semantics in the exit model "
              "(the five exits themselves are replayed through the real dispatcher); no axioms")
TECHNIQUE = ("Coq proof (invariants over all interleavings via Sched.invariant_lifting; simulation over reconfiguration histories) "
             "+ scheduled replay of real goroutines + differential model/implementation correspondence")
