"""C02 — identity propagation: the upstream acts as exactly the authenticated (or the allowed impersonated)
user; no client identity header is forwarded."""
from vf.core import B, cstr, cZ, cbool, clist, cpair
from props import chainlib as L

PID = "C02"
MODULES = ["Prelude", "C02_Model", "C02_Spec", "C02_Check", "C02_HistModel", "C02_HistSpec", "C02_HistCheck"]
PROPS_MODULE = "C02_Properties"
THEOREMS = ["C02_identity_exact", "C02_denied_not_forwarded", "C02_malformed_not_forwarded",
            "C02_unnamed_not_forwarded", "C02_no_client_identity_header_survives", "C02_escape_roundtrip",
            "C02_model_meets_spec", "C02_decision_of_current_cluster",
            "C02_identity_survives_transport_reset"]
EVAL = "C02_HistCheck.eval_any"
CLAUSES = ["agree", "identity", "denied", "malformed", "no_client_header", "hist_forward_justified",
           "hist_denied_not_forwarded"]
RULE = ("histories: distinct op lists with an impersonating request after a delete + re-create of its cluster or after a "
        "policy change; single requests: distinct (client header multiset, authenticated identity, deny script) in which the client sent at least one "
        "Authorization / Impersonate-* header, or the identity carries an extra attribute or a byte outside [A-Za-z0-9]")
TRUSTED_BASE = [
    "Coq 8.16.1 kernel + vm_compute (case files); no native_compute, no extraction",
    "hand-written model C02_Model.v tied to /repo by the differential run of this check: the REAL handler chain "
    "(buildProxyHandlerChainFunc, dispatcher, per-endpoint transports of a real ClusterInfo) between a raw TCP client "
    "and a stub TLS upstream (harness/common/chainrig.go, export harness/exports/app_chain_export.go)",
    "modelled, not verified (validated by the differential run only): net/http request parsing, header-name "
    "canonicalisation, field-value validation and trimming, client-go wrapper order, the fork's WithAuthentication, "
    "url.PathUnescape; for connection upgrades the header pipeline up to the request the upstream receives is modelled "
    "(apimachinery tryUpgrade / DialForUpgrade / http.Request.Write), the tunnel after 101 is not",
]
ASSUMPTIONS = [
    "clusters of the rig are real ClusterInfo / EndpointInfo objects shared by the cases of a run; a case may call "
    "EndpointInfo.ResetTransport() on the target cluster's endpoints before its request, so most requests of a run are "
    "forwarded through a rebuilt ProxyTransport (the upgrade transport is not rebuilt by ResetTransport)",
    "histories: the target cluster of a request is the incarnation that owns its Host NOW (server names may move between "
    "live clusters); a cached decision counts only if this incarnation gave it within the TTL; the authorizer's clean-up "
    "goroutine is given time to run after a deletion (the rig waits, bounded)",
    "a response stream cut in the middle (net/http race between the server closing the request body and the outgoing "
    "transport's last read of it, seen only under CPU starvation) is re-sent by the rig up to 3 times; the last observation "
    "counts, so a reproducible cut is still reported; such retries are counted in the evidence (label rig:retried)",
    "the upstream reads identity headers as kube-apiserver does: first Impersonate-User value (empty = no impersonation), "
    "Impersonate-Group values in order, Impersonate-Extra-<k> with k lower-cased then percent-decoded",
    "extra keys are compared modulo ASCII case and extra (key,value) pairs as a multiset (header names are case-insensitive; "
    "Go maps have no order)",
    "identities whose strings are not HTTP field values (control bytes; leading/trailing blanks) are outside the exactness "
    "clause: control bytes => 502, nothing forwarded (proved); edge blanks are trimmed by net/http (modelled)",
    "every case is authenticated by a stub authenticator; the authorizer is a script over (resource, namespace, name, subresource)",
]

NAMES = [b"alice", b"bob", b"system:serviceaccount:ns1:sa1", b"system:serviceaccount:kube-system:default.sa",
         b"system:anonymous", b"system:serviceaccount:NS:sa", b"system:serviceaccount:ns1:sa1:x",
         b"system:serviceaccount::sa", b"al ice", b"\xc3\xa9ve", b"a\tb", b"system:serviceaccount:ns1:"]
GROUPS = [b"dev", b"ops", b"system:authenticated", b"system:unauthenticated", b"system:masters", b"", b"g 1",
          b"\xff\xfe", b"system:serviceaccounts"]
XKEYS = [b"scopes", b"Scopes", b"a/b", b"k%41", b"", b"K 1", b"\x00\r\n", b"\xff",
         b"authentication.kubernetes.io/pod-name", b"%", b"A-b", b"a-B"]
XHDR = [b"scopes", b"Scopes", b"a%2fb", b"A%2Fb", b"%41", b"bad%zz", b"x%", b"", b"a-b", b"%61", b"K%201"]
XVALS = [b"view", b"edit", b"", b"v 1", b"\xe2\x82\xac", b"view"]
OTHER_IMP = [b"Impersonate-Uid", b"Impersonate-Foo", b"Impersonate-Extra", b"Impersonate-", b"Impersonate-Userx",
             b"Impersonate-Group-X"]
AUTHZ = [b"Bearer client-token", b"Basic Zm9vOmJhcg==", b"Bearer " + L.TOKEN, b"bearer x"]
BENIGN = [(b"X-Custom", b"1"), (b"Accept", b"*/*"), (b"Connection", b"Impersonate-User"),
          (b"Connection", b"authorization, impersonate-group"), (b"X-Remote-User", b"root"),
          (b"X-Remote-Group", b"system:masters")]


def ident(name=b"alice", groups=(b"g1",), extra=()):
    return (name, list(groups), [(k, list(vs)) for k, vs in extra])


# ---------------------------------------------------------------- histories (real SAR authorizer)
LIVE_MOVES = True       # a server name moving between two LIVE clusters (defect H1/H2, repaired by 95b80b4)
H_CLUSTERS = ["a", "b"]
H_ALIASES = ["h1", "h2"]
H_HOSTS = ["a", "b", "h1", "h2", "h1", "zz"]
H_REQUESTORS = ["alice", "eve"]
H_IMPS = ["bob", "carol"]
H_DT = [1, 10, 29, 30, 31, 100, 299, 300, 301, 1000]


def hrule(r, i, a):
    return {"requestor": r, "imp": i, "ans": a}


def hist(ops, attl=300, dttl=30, tag="hist"):
    return {"kind": "hist", "tag": tag, "attl": attl, "dttl": dttl, "ops": ops}


def hreq(host, r="alice", i="bob"):
    return {"op": "req", "host": host, "requestor": r, "imp": i}


def hist_corpus():
    A, D, E = [hrule("alice", "bob", "allow")], [hrule("alice", "bob", "deny")], [hrule("alice", "bob", "error")]
    c = []
    # witness of seeded change C02-f: the decision cache is created by a request through an ALIAS, the cluster is
    # deleted and re-created with an RBAC that denies: the deleted cluster's cached "allow" must not be served
    c.append(hist([{"op": "create", "c": "a", "aliases": ["h1"], "policy": A}, hreq("h1"), hreq("h1"),
                   {"op": "delete", "c": "a"}, {"op": "create", "c": "a", "aliases": ["h1"], "policy": D},
                   hreq("h1"), hreq("a")], tag="recreate-via-alias"))
    c.append(hist([{"op": "create", "c": "a", "aliases": ["h1", "h2"], "policy": A}, hreq("a"), hreq("h2"),
                   {"op": "delete", "c": "a"}, {"op": "create", "c": "a", "aliases": ["h2"], "policy": D},
                   hreq("a"), hreq("h2"), hreq("h1")], tag="recreate-via-name"))
    # TTL boundaries: an allow is served from the cache while now <= t0 + attl, a deny while now <= t0 + dttl
    c.append(hist([{"op": "create", "c": "a", "aliases": ["h1"], "policy": D}, hreq("h1"), {"op": "advance", "dt": 31},
                   {"op": "policy", "c": "a", "policy": A}, hreq("h1"), {"op": "policy", "c": "a", "policy": D},
                   {"op": "advance", "dt": 300}, hreq("h1"), {"op": "advance", "dt": 1}, hreq("h1"), hreq("zz")], tag="ttl"))
    c.append(hist([{"op": "create", "c": "a", "aliases": [], "policy": E}, hreq("a"), hreq("a"),
                   {"op": "policy", "c": "a", "policy": A}, hreq("a"), hreq("a", "eve"), hreq("a", "alice", "")], tag="error+self"))
    # H1 / H2: the defect repaired by 95b80b4 - a server name moves between two LIVE clusters
    mv = lambda a, f, t: {"op": "move", "alias": a, "c": f, "to": t}
    c.append(hist([{"op": "create", "c": "a", "aliases": ["h1"], "policy": A}, {"op": "create", "c": "b", "aliases": [], "policy": D},
                   hreq("h1"), mv("h1", "a", "b"), hreq("h1"), hreq("b")], tag="H1-live-move"))
    c.append(hist([{"op": "create", "c": "a", "aliases": ["h1"], "policy": A}, {"op": "create", "c": "b", "aliases": [], "policy": A},
                   hreq("h1"), mv("h1", "a", "b"), {"op": "advance", "dt": 301}, hreq("h1"), {"op": "delete", "c": "b"},
                   {"op": "create", "c": "b", "aliases": ["h1"], "policy": D}, hreq("h1")], tag="H2-stale-watcher"))
    c.append(hist([{"op": "create", "c": "a", "aliases": ["h1"], "policy": D}, {"op": "create", "c": "b", "aliases": ["h2"], "policy": A},
                   hreq("h2"), mv("h2", "b", "a"), hreq("h2"), mv("h2", "a", "b"), hreq("h2"), {"op": "delete", "c": "a"}, hreq("h2"),
                   mv("h1", "a", "b"), mv("b", "b", "a")], tag="move-there-and-back"))
    c.append(hist([{"op": "create", "c": "a", "aliases": ["h1"], "policy": A}, {"op": "create", "c": "b", "aliases": ["h1", "h2"], "policy": D},
                   hreq("h1"), hreq("h2"), {"op": "delete", "c": "a"}, hreq("h1"), {"op": "create", "c": "a", "aliases": ["h1"], "policy": D},
                   hreq("h1"), {"op": "create", "c": "a", "aliases": [], "policy": A}, {"op": "delete", "c": "zz"}], tag="two-clusters"))
    return c


def rand_policy(rng):
    out = []
    for r in H_REQUESTORS:
        for i in H_IMPS:
            k = rng.below(100)
            if k < 20:
                continue
            out.append(hrule(r, i, "allow" if k < 60 else ("deny" if k < 88 else "error")))
    return out


def gen_hist(rng):
    """histories over two cluster names and two aliases; a python-side sketch of who owns which server name
    only steers the choice of hosts towards live ones (the verdict never uses it)"""
    live, keys = set(), {}

    def create(c):
        al = rng.sample(H_ALIASES, rng.below(3))
        op = {"op": "create", "c": c, "aliases": al, "policy": rand_policy(rng)}
        if c not in live and c not in keys:
            live.add(c)
            keys[c] = c
            for a in al:
                keys.setdefault(a, c)
        return op

    ops = [create("a")]
    if rng.chance(1, 2):
        ops.append(create("b"))
    last = None
    for _ in range(rng.randint(6, 22)):
        k = rng.below(100)
        if k < 55:
            if last is not None and rng.chance(1, 3):
                ops.append(dict(last))
                continue
            host = rng.choice(sorted(keys)) if (keys and rng.chance(5, 6)) else rng.choice(H_HOSTS)
            last = hreq(host, rng.choice(H_REQUESTORS + ["alice"]), "" if rng.chance(1, 20) else rng.choice(H_IMPS + ["bob"]))
            ops.append(dict(last))
        elif k < 66:
            ops.append({"op": "advance", "dt": rng.choice(H_DT)})
        elif k < 75:
            c = rng.choice(sorted(live)) if (live and rng.chance(4, 5)) else rng.choice(H_CLUSTERS)
            ops.append({"op": "delete", "c": c})
            if c in live:
                live.discard(c)
                for h in [h for h, v in keys.items() if v == c]:
                    del keys[h]
                if rng.chance(2, 3):
                    ops.append(create(c))       # re-created under the same name
        elif k < 84:
            ops.append(create(rng.choice(H_CLUSTERS)))
        elif k < 90 or not LIVE_MOVES:
            ops.append({"op": "policy", "c": rng.choice(sorted(live)) if live else "a", "policy": rand_policy(rng)})
        else:
            al = rng.choice(H_ALIASES)
            frm = keys.get(al) if rng.chance(5, 6) else rng.choice(H_CLUSTERS)
            to = [c for c in H_CLUSTERS if c != frm]
            to = to[0] if (to and rng.chance(5, 6)) else rng.choice(H_CLUSTERS)
            ops.append({"op": "move", "alias": al, "c": frm or "a", "to": to})
            if keys.get(al) == frm and frm is not None and to in live and to != frm:
                keys[al] = to
                if rng.chance(1, 2):
                    ops.append(hreq(al, rng.choice(H_REQUESTORS), rng.choice(H_IMPS)))
    attl, dttl = rng.choice([(300, 30), (300, 30), (30, 300), (0, 0), (100, 100)])
    return hist(ops, attl, dttl, tag="gen-hist")


ANS = {"allow": "AAllow", "deny": "ADeny", "error": "AError"}


def coq_policy(p):
    return clist([cpair(cpair(cstr(r["requestor"].encode()), cstr(r["imp"].encode())), ANS[r["ans"]]) for r in (p or [])])


def coq_hop(o):
    k = o["op"]
    s = lambda x: cstr((x or "").encode())
    if k == "create":
        return "(HCreate %s %s %s)" % (s(o["c"]), clist([s(a) for a in o.get("aliases") or []]), coq_policy(o.get("policy")))
    if k == "delete":
        return "(HDelete %s)" % s(o["c"])
    if k == "policy":
        return "(HPolicy %s %s)" % (s(o["c"]), coq_policy(o.get("policy")))
    if k == "move":
        return "(HMove %s %s %s)" % (s(o["alias"]), s(o["c"]), s(o["to"]))
    if k == "advance":
        return "(HAdvance %s)" % cZ(o["dt"])
    if k == "req":
        return "(HReq %s %s %s)" % (s(o["host"]), s(o["requestor"]), s(o["imp"]))
    raise ValueError(k)


def coq_hobs(o):
    fwd = clist([cpair(cZ(f["inc"]), clist([cstr(v.encode("latin-1")) for v in f["imp_user"] or []])) for f in o.get("fwd") or []])
    sar = clist([cpair(cpair(cZ(x["inc"]), cpair(cstr(x["requestor"].encode()), cstr(x["imp"].encode()))), ANS.get(x["ans"], "AError"))
                 for x in o.get("sar") or []])
    return "(mkHObs %s %s %s %s)" % (cbool(o.get("done", False)), cZ(o.get("status", 0)), fwd, sar)


def coq_hist(case, obs):
    steps = [] if L.panic_obs_hist(obs) else obs.get("steps", [])
    return "(Hist (mkHCase %s %s %s %s))" % (cZ(case["attl"]), cZ(case["dttl"]), clist([coq_hop(o) for o in case["ops"]]),
                                             clist([coq_hobs(o) for o in steps]))


def corpus():
    c = hist_corpus()
    # the defect repaired by 64b3650: other Impersonate-* headers
    c.append(L.mk_case(headers=[(b"Authorization", b"Bearer client"), (b"Impersonate-Uid", b"7"),
                                (b"impersonate-foo", b"x")], tag="other-imp"))
    c.append(L.mk_case(headers=[(b"Impersonate-User", b"bob"), (b"Impersonate-Group", b"dev"),
                                (b"Impersonate-Group", b"ops"), (b"Impersonate-Extra-Scopes%2fX", b"view"),
                                (b"Impersonate-Uid", b"9")],
                       user=ident(extra=[(b"K/1", [b"v1", b"v2"]), (b"aB", [b"z"])]), tag="imp-all"))
    c.append(L.mk_case(headers=[(b"Impersonate-User", b"bob"), (b"Impersonate-Group", b"dev")],
                       deny=[("groups", b"", b"dev", b"")], tag="deny-group"))
    c.append(L.mk_case(headers=[(b"Impersonate-User", b"bob"), (b"Impersonate-Extra-scopes", b"view")],
                       deny=[("userextras", b"", b"view", b"scopes")], tag="deny-extra"))
    c.append(L.mk_case(headers=[(b"Impersonate-Group", b"dev")], tag="malformed-group"))
    c.append(L.mk_case(headers=[(b"Impersonate-Extra-x", b"1")], tag="malformed-extra"))
    c.append(L.mk_case(headers=[(b"Impersonate-User", b""), (b"Impersonate-Group", b"x")], tag="malformed-empty-user"))
    c.append(L.mk_case(headers=[(b"Impersonate-User", b"system:serviceaccount:ns1:sa1")], tag="sa"))
    c.append(L.mk_case(headers=[(b"Impersonate-User", b"system:serviceaccount:ns1:sa1"),
                                (b"Impersonate-Group", b"dev")], tag="sa-groups"))
    c.append(L.mk_case(headers=[(b"Impersonate-User", b"system:serviceaccount:ns1:sa1")],
                       deny=[("serviceaccounts", b"ns1", b"sa1", b"")], tag="sa-denied"))
    c.append(L.mk_case(headers=[(b"Impersonate-User", b"system:anonymous")], tag="anonymous"))
    c.append(L.mk_case(headers=[(b"Impersonate-User", b"bob"), (b"Impersonate-Group", b"system:unauthenticated")],
                       tag="unauth-group"))
    c.append(L.mk_case(headers=[(b"Impersonate-User", b"bob"), (b"Impersonate-User", b"carol")], tag="two-users"))
    c.append(L.mk_case(headers=[(b"Connection", b"Impersonate-User"), (b"Impersonate-User", b"bob")], tag="conn-imp"))
    c.append(L.mk_case(headers=[(b"Connection", b"authorization"), (b"Authorization", b"Bearer c")], tag="conn-authz"))
    c.append(L.mk_case(headers=[(b"Impersonate-Extra-%41", b"1"), (b"Impersonate-Extra-a", b"2"),
                                (b"Impersonate-User", b"bob")], tag="extra-collide"))
    # identities with arbitrary bytes in extra keys; all byte classes of headerKeyEscape
    c.append(L.mk_case(user=ident(b"al ice\xff", [b"g 1", b"", b";,"], [(b"", [b"v"]), (b"k\xff%/ A", [b"", b"x"])]),
                       tag="bytes"))
    c.append(L.mk_case(user=ident(b"u", [], [(bytes(range(0, 128)), [b"lo"]), (bytes(range(128, 256)), [b"hi"])]),
                       tag="all-bytes"))
    c.append(L.mk_case(user=ident(b"u", [], [(b"aB", [b"1"]), (b"Ab", [b"2"])]), tag="keys-differ-by-case"))
    # not representable on the wire
    c.append(L.mk_case(user=ident(b" lead", [], []), tag="edge-blank"))
    c.append(L.mk_case(user=ident(b"ctl\x01", [], []), tag="ctl-name"))
    c.append(L.mk_case(user=ident(b"u", [b"g\n"], []), tag="ctl-group"))
    # witness of the empty-name defect (repair C02_empty_username.diff): must not be forwarded
    c.append(L.mk_case(user=ident(b"", [], []), tag="empty-name"))
    c.append(L.mk_case(user=ident(b"", [b"system:masters"], []), tag="empty-name-groups"))
    c.append(L.mk_case(user=ident(b"", [], []), headers=[(b"Impersonate-User", b"bob")], tag="empty-name-imp"))
    # connection upgrades (kubectl exec / attach / port-forward): witness of seeded change C02-c (upgrade transport built
    # without the impersonating wrapper => the upstream sees no Impersonate-* header and acts as the gateway)
    up = [(b"Connection", b"Upgrade"), (b"Upgrade", b"SPDY/3.1")]
    c.append(L.mk_case(method="POST", target=b"/api/v1/namespaces/n/pods/p/exec?command=ls", reply=(101, [], (5, 1)),
                       headers=up + [(b"Authorization", b"Bearer client"), (b"Impersonate-Uid", b"7"), (b"X-Custom", b"1")],
                       user=ident(b"alice", [b"dev"], [(b"scopes", [b"view"])]), tag="upgrade-self"))
    c.append(L.mk_case(host="plain.test", method="POST", target=b"/api/v1/namespaces/n/pods/p/exec?command=ls",
                       reply=(101, [], (5, 1)), headers=up + [(b"Authorization", b"Bearer client")],
                       user=ident(b"alice", [b"dev"], [(b"scopes", [b"view"])]), tag="upgrade-self-plain-http"))
    c.append(L.mk_case(host="plain.test", target=b"/api/v1/namespaces/n/pods/p/attach", reply=(101, [], (5, 1)),
                       headers=up + [(b"Impersonate-User", b"bob"), (b"Impersonate-Group", b"ops")], tag="upgrade-imp-plain-http"))
    c.append(L.mk_case(target=b"/api/v1/namespaces/n/pods/p/attach", reply=(101, [], (5, 1)),
                       headers=[(b"Connection", b"keep-alive, upgrade"), (b"Upgrade", b"websocket"),
                                (b"Impersonate-User", b"bob"), (b"Impersonate-Group", b"ops")], tag="upgrade-imp"))
    c.append(L.mk_case(target=b"/api/v1/namespaces/n/pods/p/exec", reply=(101, [], (5, 1)),
                       headers=up + [(b"Impersonate-User", b"bob")], deny=[("users", b"", b"bob", b"")], tag="upgrade-denied"))
    c.append(L.mk_case(target=b"/api/v1/namespaces/n/pods/p/exec", reply=(101, [], (5, 1)),
                       headers=up + [(b"Impersonate-Group", b"x")], tag="upgrade-malformed"))
    c.append(L.mk_case(target=b"/api/v1/namespaces/n/pods/p/portforward",
                       reply=(403, [(b"Content-Type", b"text/plain")], (7, 1)), headers=up, tag="upgrade-refused-by-upstream"))
    c.append(L.mk_case(target=b"/api/v1/namespaces/n/pods/p/exec", reply=(101, [], (5, 1)), headers=up,
                       user=ident(b"", [], []), tag="upgrade-empty-name"))
    # witness of seeded change C02-g: after EndpointInfo.ResetTransport() (what GatewayHealthCheck does after repeated
    # hanging probes) requests must still be forwarded through the impersonating round tripper
    c.append(dict(L.mk_case(host="plain.test", user=ident(b"alice", [b"dev"], [(b"scopes", [b"view"])]), tag="after-reset-1"), resets=1))
    c.append(dict(L.mk_case(host="plain.test", headers=[(b"Impersonate-User", b"bob"), (b"Impersonate-Group", b"ops")],
                            tag="after-reset-2-imp"), resets=2))
    c.append(dict(L.mk_case(host="ok.test", headers=[(b"Authorization", b"Bearer client")], tag="after-reset-tls"), resets=1))
    # rejected by net/http itself
    c.append(L.mk_case(headers=[(b"Impersonate-Extra-a/b", b"1"), (b"Impersonate-User", b"bob")], tag="bad-name"))
    return c


def rand_name(rng):
    k = rng.below(100)
    if k < 80:
        return rng.choice(NAMES)
    if k < 93:
        return L.rand_value(rng, 1, 12) or b"x"
    if k < 95:
        return b""
    if k < 97:
        return rng.choice([b" x", b"x ", b"\tx"])
    return bytes([rng.choice([0, 1, 10, 13, 27, 127])]) + b"x"


def rand_identity(rng):
    name = rand_name(rng)
    groups = [rng.choice(GROUPS) if rng.chance(4, 5) else L.rand_value(rng, 0, 8) for _ in range(rng.choice([0, 1, 1, 2, 3]))]
    extra = []
    seen = set()
    for _ in range(rng.choice([0, 0, 1, 1, 2, 3])):
        k = rng.choice(XKEYS) if rng.chance(3, 4) else L.rand_bytes(rng, 0, 10)
        if k in seen:
            continue
        seen.add(k)
        extra.append((k, [rng.choice(XVALS) if rng.chance(3, 4) else L.rand_value(rng, 0, 8)
                          for _ in range(rng.choice([1, 1, 2, 3]))]))
    return (name, groups, extra)


def approx_items(headers):
    """authorizer items the filter will probably ask about (used only to aim the deny script)"""
    users = [v for k, v in headers if k.lower() == b"impersonate-user"]
    items = []
    if users and users[0]:
        u = users[0]
        parts = u[len(b"system:serviceaccount:"):].split(b":") if u.startswith(b"system:serviceaccount:") else []
        if len(parts) == 2 and parts[0] and parts[1] and parts[0] == parts[0].lower():
            items.append(("serviceaccounts", parts[0], parts[1], b""))
        items.append(("users", b"", u, b""))
    for k, v in headers:
        kl = k.lower()
        if kl == b"impersonate-group":
            items.append(("groups", b"", v.strip(b" \t"), b""))
        elif kl.startswith(b"impersonate-extra-"):
            raw = kl[len(b"impersonate-extra-"):]
            try:
                from urllib.parse import unquote_to_bytes
                key = unquote_to_bytes(raw) if b"%" in raw else raw
            except Exception:
                key = raw
            items.append(("userextras", b"", v.strip(b" \t"), key))
    return items


def gen_case(rng):
    hs = []
    for _ in range(rng.choice([0, 0, 1, 1, 1, 2])):
        hs.append((b"Authorization", rng.choice(AUTHZ)))
    nu = rng.choice([0, 0, 0, 1, 1, 1, 1, 1, 2])
    for _ in range(nu):
        hs.append((b"Impersonate-User", b"" if rng.chance(1, 15) else rng.choice(NAMES + [b"carol"])))
    for _ in range(rng.choice([0, 0, 1, 1, 2, 3]) if (nu or rng.chance(1, 4)) else 0):
        hs.append((b"Impersonate-Group", rng.choice(GROUPS)))
    for _ in range(rng.choice([0, 0, 1, 2]) if (nu or rng.chance(1, 5)) else 0):
        k = b"Impersonate-Extra-" + (rng.choice(XHDR) if rng.chance(3, 4) else L.header_key_escape(L.rand_bytes(rng, 0, 6)))
        for _ in range(rng.choice([1, 1, 2])):
            hs.append((k, rng.choice(XVALS)))
    for _ in range(rng.choice([0, 0, 0, 1, 1, 2])):
        hs.append((rng.choice(OTHER_IMP), rng.choice([b"x", b"7", b"root", b""])))
    for _ in range(rng.choice([0, 0, 1, 2])):
        hs.append(rng.choice(BENIGN))
    hs = rng.shuffle(hs)
    hs = [(L.rand_case_flip(rng, k) if rng.chance(1, 2) else k, v) for k, v in hs]
    items = approx_items(hs)
    deny = []
    r = rng.below(10)
    if items and r < 4:
        for _ in range(rng.choice([1, 1, 2])):
            deny.append(rng.choice(items))
    elif r < 5:
        deny.append(("users", b"", b"nobody", b""))
    user = rand_identity(rng)
    if rng.chance(1, 4):
        # a connection upgrade; http.Request.Write does not validate field values, so keep to identities HTTP can carry
        hs = [(k, v) for k, v in hs if k.lower() != b"connection"]
        hs.insert(rng.below(len(hs) + 1), (L.rand_case_flip(rng, b"Connection"), rng.choice([b"Upgrade", b"upgrade", b"keep-alive, Upgrade"])))
        hs.insert(rng.below(len(hs) + 1), (L.rand_case_flip(rng, b"Upgrade"), rng.choice([b"SPDY/3.1", b"websocket"])))
        ok = lambda v: v == v.strip(b" \t") and all(c in L.VALUE_BYTES for c in v)
        if not (ok(user[0]) and all(ok(g) for g in user[1]) and all(ok(v) for _, vs in user[2] for v in vs)):
            user = (rng.choice(NAMES), [g for g in user[1] if ok(g)], [(k, [v for v in vs if ok(v)]) for k, vs in user[2]])
        return L.mk_case(host=rng.choice(["ok.test", "plain.test"]), method=rng.choice(["GET", "POST"]),
                         target=rng.choice([b"/api/v1/namespaces/n/pods/p/exec?command=sh",
                         b"/api/v1/namespaces/n/pods/p/attach", b"/api/v1/namespaces/n/pods/p/portforward"]),
                         headers=hs, user=user, deny=deny, tag="gen-upgrade",
                         reply=(101, [], (rng.randint(0, 40), rng.randint(1, 99))) if rng.chance(3, 4)
                         else (rng.choice([400, 403, 404]), [(b"Content-Type", b"text/plain")], (7, 1)))
    case = L.mk_case(host=rng.choice(["ok.test", "ok.test", "plain.test"]), headers=hs, user=user, deny=deny, tag="gen")
    case["resets"] = rng.choice([0, 0, 0, 0, 0, 0, 0, 1, 1, 2])
    return case


def generate(rng, tier, scale=1):
    n = (340 if tier == "quick" else 6000) * scale
    nh = (60 if tier == "quick" else 900) * scale
    return [gen_case(rng) for _ in range(n)] + [gen_hist(rng) for _ in range(nh)]


def coq_case(case, obs):
    if case.get("kind") == "hist":
        return coq_hist(case, obs)
    return "(Single %s)" % coq_single(case, obs)


def coq_single(case, obs):
    if L.panic_obs(obs):
        return ("(mkCase %s %s %s %s %s true [] 0 (mkObs (-1) []))" %
                (cstr(L.TOKEN), cstr(L.CLIENT_IP), L.coq_kv_headers(case["headers"]), L.coq_identity(case["user"]),
                 L.coq_items(case["deny"])))
    reached = bool(obs.get("reached")) and obs.get("gw_in") is not None
    h_in = L.coq_headers(obs["gw_in"]["headers"]) if reached else "[]"
    ups = clist([L.coq_headers(u["headers"]) for u in (obs.get("upstream") or [])])
    return ("(mkCase %s %s %s %s %s %s %s %d (mkObs %s %s))" %
            (cstr(L.TOKEN), cstr(L.CLIENT_IP), h_in, L.coq_identity(case["user"]), L.coq_items(case["deny"]),
             cbool(reached), L.coq_items(obs.get("authz_calls")), int(case.get("resets", 0)), cZ(obs.get("status", -1)), ups))


def _families(case):
    fam = set()
    for h in case["headers"]:
        k = bytes(h["k"]).lower()
        if k == b"authorization":
            fam.add("authorization")
        elif k == b"impersonate-user":
            fam.add("imp-user")
        elif k == b"impersonate-group":
            fam.add("imp-group")
        elif k.startswith(b"impersonate-extra-"):
            fam.add("imp-extra")
        elif k.startswith(b"impersonate-"):
            fam.add("imp-other")
    return fam


def _hist_nontrivial(case):
    ops = case["ops"]
    for i, o in enumerate(ops):
        if o["op"] in ("delete", "policy", "move"):
            later = ops[i + 1:]
            if o["op"] != "delete" or any(x["op"] == "create" and x["c"] == o["c"] for x in later):
                if any(x["op"] == "req" and x["imp"] for x in later):
                    return True
    return False


def nontrivial_key(case, obs):
    if case.get("kind") == "hist":
        return ("hist", repr(case["ops"]), case["attl"], case["dttl"]) if _hist_nontrivial(case) else None
    fam = _families(case)
    u = case["user"]
    special = bool(u["extra"]) or any(not (48 <= c <= 57 or 65 <= c <= 90 or 97 <= c <= 122)
                                      for c in u["name"] + [c for g in u["groups"] for c in g])
    if not fam and not special:
        return None
    return (repr(sorted((bytes(h["k"]).lower(), bytes(h["v"])) for h in case["headers"])), repr(u), repr(case["deny"]))


def stats(case, obs):
    if case.get("kind") == "hist":
        labs = ["hist:len<=%d" % (10 * ((len(case["ops"]) + 9) // 10))]
        steps = [] if L.panic_obs_hist(obs) else obs.get("steps", [])
        for o, s in zip(case["ops"], steps):
            if o["op"] == "req":
                labs.append("hist:req->%s%s" % (s.get("status"), "" if s.get("sar") else ("(cached)" if o["imp"] and s.get("status") in (200, 403) else "")))
            else:
                labs.append("hist:%s%s" % (o["op"], "" if s.get("done") else "(n/a)"))
            if s.get("note"):
                labs.append("hist:" + s["note"])
        return labs
    labs = ["family:" + f for f in sorted(_families(case))] or ["family:none"]
    if any(bytes(h["k"]).lower() == b"connection" and b"upgrade" in bytes(h["v"]).lower() for h in case["headers"]):
        labs.append("path:connection-upgrade")
    if L.panic_obs(obs):
        return labs + ["outcome:panic"]
    if obs.get("retries"):
        labs.append("rig:retried")
    if not obs.get("reached"):
        return labs + ["outcome:rejected-by-net/http"]
    if obs.get("upstream"):
        labs.append("outcome:forwarded-" + ("impersonated" if "imp-user" in _families(case) and obs.get("authz_calls") else "self"))
    else:
        labs.append("outcome:answered-%s" % obs.get("status"))
    u = case["user"]
    labs.append("identity:groups=%d,extra=%d" % (len(u["groups"]), len(u["extra"])))
    if case["deny"]:
        labs.append("deny-script:%d" % len(case["deny"]))
    if case.get("resets"):
        labs.append("transport-resets:%d" % case["resets"])
    return labs


def shrink(case):
    if case.get("kind") == "hist":
        ops = case["ops"]
        for i in range(len(ops)):
            yield dict(case, ops=ops[:i] + ops[i + 1:])
        return
    hs = case["headers"]
    for i in range(len(hs)):
        yield dict(case, headers=hs[:i] + hs[i + 1:])
    u = case["user"]
    for i in range(len(u["groups"])):
        yield dict(case, user=dict(u, groups=u["groups"][:i] + u["groups"][i + 1:]))
    for i in range(len(u["extra"])):
        yield dict(case, user=dict(u, extra=u["extra"][:i] + u["extra"][i + 1:]))
    for i in range(len(case["deny"])):
        yield dict(case, deny=case["deny"][:i] + case["deny"][i + 1:])


def neighbours(case, rng):
    for c in shrink(case):
        yield c
    if case.get("kind") == "hist":
        return
    hs = case["headers"]
    for i in range(len(hs)):
        yield dict(case, headers=hs[:i] + [hs[i]] + hs[i:])


def known_match(entry, case, obs, failed):
    return False


LEVEL_TEXT = ("partial proof: Coq theorems over every header set, every authenticated identity (arbitrary bytes) and every "
              "authorizer about a Gallina model of the gateway's header pipeline (authentication filter, impersonation filter, "
              "reverse-proxy hop-by-hop stripping, client-go user-agent/bearer wrappers, dynamic impersonating round tripper, "
              "headerKeyEscape; and the connection-upgrade path: tryUpgrade, WrapRequest of the upgrade transport): the identity told to the upstream is exactly the expected one, denied/malformed/unnamed "
              "requests are not forwarded, no client Authorization or Impersonate-* header survives, the extra-key percent codec "
              "round-trips for all byte strings. The header/percent-codec algebra is proved; the net/http stack (parsing, "
              "canonicalisation, field-value rules) is modelled and validated only by the differential run of the real handler "
              "chain against the model on every check")
LEVEL_NOTE = ("trusted: Coq kernel + vm_compute, the hand-written model (tied to /repo by the differential run only), the Go rig "
              "(real chain + stub upstream) and overlay export; modelled not verified: net/http, textproto canonicalisation, "
              "client-go wrapper order, the fork's WithAuthentication, url.PathUnescape; connection upgrades: request headers modelled, tunnel not; "
              "extra keys modulo ASCII case, extra pairs as multisets; no axioms")
TECHNIQUE = "Coq proof (header algebra, percent codec) + differential model/implementation correspondence on the real handler chain"
