"""C07 — global allocation: quotas never exceed the global limit and are never < 1."""
from vf.core import cZ, cbool, clist, copt, cpair

PID = "C07"
MODULES = ["Prelude", "C07_Float", "C07_Model", "C07_Spec", "C07_Check"]
PROPS_MODULE = "C07_Properties"
THEOREMS = ["C07_floor", "C07_cap", "C07_step_safe", "C07_no_growth_when_over", "C07_burst", "C07_history",
            "C07_overlap", "C07_multi_history", "C07_limit_change_overlap"]
EVAL = "C07_Check.eval"
CLAUSES = ["agree", "answered", "floor", "cap", "step_safe", "no_growth", "burst", "over_commit", "count", "burst_mono"]
RULE = ("calc cases: distinct input tuples under the global-allocate strategy that were answered (no panic); "
        "history cases: distinct histories in which at some point at least two instances are on record for a schema and "
        "which contain a limit or item-type change, an instance removal, a concurrent batch, several schemas, a "
        "count-strategy or untyped item, a refused report, or a state whose sum exceeds the limit; or histories in "
        "which a report is parked before the per-upstream lock while a schema change is handled")
TRUSTED_BASE = [
    "Coq 8.16.1 kernel + vm_compute (case files); Flocq 4.1.0 (IEEE754.BinarySingleNaN at 53/1024) as the definition of binary64",
    "hand-written model C07_Model.v / C07_Float.v tied to /repo by the differential run of this check "
    "(exact comparison of quota and burst on every case; Go harness harness/c07, overlay exports)",
    "modelled not verified: amd64 float64 code generation of the Go compiler (no FMA fusion at GOAMD64=v1, CVTTSD2SL for int32(f)), "
    "math.Ceil/Round/Sqrt/Max, sync.Map, the local store, the per-upstream sync.Mutex",
]
ASSUMPTIONS = [
    "honest instances: a report carries as current quota the quota the server last answered to that instance (0 for a new one)",
    "C07_limit_change_overlap: a report and an UpstreamCluster event of one upstream are serialised by the same "
    "mutex and the report reads limit and sums inside it; checked by parking a real report right after its lookup "
    "of the state condition (store wrapper) while the real UpstreamConditionHandler runs, then resuming it",
    "C07_overlap: reports of one upstream are serialised by the per-upstream mutex and the allocated sum is re-read inside it "
    "(local store returns shared pointers), so concurrent reports behave as some sequential order; checked on concurrent batches "
    "by searching that order",
    "the upstream RequestLevel on record is taken from the real server before each step and fed to the model "
    "(its float summation order over sync.Map is not deterministic); the theorems hold for every value of it",
    "the recorded sum is the int32-saturated sum of the quotas on record (addInt32Saturated, b6683e7); with it the "
    "history theorems need no bound on limits or on the number of instances",
    "the over_commit clause reads 'sum at most the limit, an instance held at the minimum quota of 1 aside' as: the sum "
    "of the quotas above 1 never exceeds max(limit, its value before the step)",
    "histories: one upstream with 1-3 schemas (both item types, allocate and count strategy, item-type changes "
    "mid-history, reports with the old / no item type); limits in histories are >= 0 (validation), arbitrary int32 in "
    "calc cases; a report refused for an item-type mismatch ('err') is expected, not a violation",
    "quotas of a schema = those recorded with the schema's current item type; items recorded with the other type "
    "(left from before a type change) are a different resource: not counted, and counted again if the type is switched back",
]

MAXI = 2 ** 31 - 1
MINI = -2 ** 31

LEVELS = [0, 0, 1, 10, 30, 45, 50, 55, 60, 65, 66, 70, 75, 80, 90, 95, 100, 101, 150, 250, -5]
UPLEVELS = [0, 0, 5, 10, 30, 50, 70, 90, 100, 120, -150, -1]
CLIENTS = [0, 1, 2, 3, 10, 11, 100, 1000]
TOTALS = [0, 1, 2, 3, 10, 49, 50, 51, 99, 100, 101, 499, 500, 501, 1000, 1001, 2999, 3000, 9999, 10000, 10001, 123457,
          1000000, MAXI, MAXI - 1, -1, -100]


def calc(typ, total, allocated, current, used, level, uplevel, clients, gburst=0, count=False):
    return {"kind": "calc", "typ": typ, "count": count, "total": total, "gburst": gburst, "allocated": allocated,
            "uplevel": uplevel, "current": current, "used": used, "level": level, "clients": clients}


def clamp32(v):
    return max(MINI, min(MAXI, int(v)))


def corpus():
    cs = [
        # the witnesses of e2e333a: 1000 -> 100 with two instances at 400 (old code: -300)
        calc("max", 100, 800, 400, 100, 30, 0, 2),
        calc("max", 100, 800, 400, 400, 100, 80, 2),
        calc("max", 100, 800, 400, 500, 150, 80, 2),
        # new instance, nothing left (old code: 0)
        calc("max", 1000, 1000, 0, 0, 0, 0, 3),
        calc("max", 1000, 1000, 0, 0, 0, 0, 30),
        # total 10000, the 0.2% floor (20) with nothing left
        calc("bucket", 10000, 10000, 0, 0, 0, 50, 3, gburst=500),
        calc("bucket", 10000, 10000, 5, 5, 100, 50, 3, gburst=500),
        calc("bucket", 10000, 9990, 5, 5, 100, 50, 3, gburst=500),
        calc("bucket", 10000, 3000, 1000, 900, 95, 50, 3, gburst=500),
        # integer division by zero in the heuristic (expectedAllocatePercent = 0): panic, nothing answered
        calc("bucket", 1000, 300, 100, 90, 95, -150, 3, gburst=100),
        # count strategy: the global values are handed through
        calc("max", 1000, 300, 100, 90, 95, 0, 3, count=True),
        calc("bucket", 1000, 300, 100, 90, 95, 0, 3, gburst=77, count=True),
        # NaN / Inf paths: total 0, current 0 with level > 100, negative total
        calc("max", 0, 0, 0, 0, 0, 0, 1),
        calc("bucket", 0, 5, 3, 1, 150, 0, 0, gburst=10),
        calc("max", -100, 0, 10, 5, 50, 0, 2),
        calc("bucket", 1, 0, 0, 0, 0, 0, 0, gburst=0),
        calc("max", MAXI, MAXI, MAXI, MAXI, 100, 100, 1),
        calc("max", MAXI, MINI, 0, 0, 0, 0, 1),
        calc("max", MAXI, 0, 1, 3000000, 200, 100, 1),
    ]
    lowered = [
        {"op": "reports", "rs": [{"i": 1, "used": 0, "level": 0}]},
        {"op": "reports", "rs": [{"i": 2, "used": 0, "level": 0}]},
    ] + [{"op": "reports", "rs": [{"i": 1 + k % 2, "used": 300, "level": 100}]} for k in range(14)] + [
        {"op": "setlimit", "limit": 100, "burst": 10},
        {"op": "reports", "rs": [{"i": 1, "used": 300, "level": 100}]},
        {"op": "reports", "rs": [{"i": 2, "used": 300, "level": 100}]},
        {"op": "reports", "rs": [{"i": 3, "used": 0, "level": 0}]},
        {"op": "reports", "rs": [{"i": 1, "used": 10, "level": 10}]},
        {"op": "reports", "rs": [{"i": 2, "used": 10, "level": 10}]},
        {"op": "remove", "i": 1},
        {"op": "reports", "rs": [{"i": 3, "used": 1, "level": 100}]},
        {"op": "reports", "rs": [{"i": 2, "used": 10, "level": 10}]},
        {"op": "reports", "rs": [{"i": 3, "used": 1, "level": 100}]},
    ]
    for typ in ("max", "bucket"):
        cs.append({"kind": "hist", "typ": typ, "limit": 1000, "burst": 200, "extra": 0, "steps": lowered})
    # a full schema: every further instance is held at 1
    full = [{"op": "reports", "rs": [{"i": 1, "used": 0, "level": 0}]}] + \
           [{"op": "reports", "rs": [{"i": 1, "used": 10, "level": 100}]} for _ in range(12)] + \
           [{"op": "reports", "rs": [{"i": k, "used": 0, "level": 0}]} for k in (2, 3, 4)] + \
           [{"op": "reports", "rs": [{"i": 2, "used": 1, "level": 100}, {"i": 3, "used": 1, "level": 100}]}]
    cs.append({"kind": "hist", "typ": "max", "limit": 10, "burst": 0, "extra": 0, "steps": full})
    cs.append({"kind": "hist", "typ": "bucket", "limit": 10000, "burst": 500, "extra": 10, "steps": full})
    # concurrent batches (used = 0 keeps the upstream level at 0, so every serialisation is predictable)
    conc = [{"op": "reports", "rs": [{"i": 1, "used": 0, "level": 0}, {"i": 2, "used": 0, "level": 0},
                                     {"i": 3, "used": 0, "level": 0}]}] + \
           [{"op": "reports", "rs": [{"i": 1, "used": 0, "level": 90}, {"i": 2, "used": 0, "level": 95},
                                     {"i": 3, "used": 0, "level": 100}]} for _ in range(8)] + \
           [{"op": "setlimit", "limit": 40, "burst": 5},
            {"op": "reports", "rs": [{"i": 1, "used": 0, "level": 90}, {"i": 4, "used": 0, "level": 0}]},
            {"op": "reports", "rs": [{"i": 2, "used": 0, "level": 10}, {"i": 3, "used": 0, "level": 10}]}]
    cs.append({"kind": "hist", "typ": "max", "limit": 100, "burst": 0, "extra": 0, "steps": conc})
    # limit 2^31-1: one instance grows to the whole limit, a second is held at 1 (true sum 2^31); the int32
    # sum of b6683e7's predecessor wrapped to -2^31 and the third instance was answered 214748365
    wrap = [{"op": "reports", "rs": [{"i": 1, "used": 0, "level": 0}]}] + \
           [{"op": "reports", "rs": [{"i": 1, "used": 0, "level": 100}]} for _ in range(14)] + \
           [{"op": "reports", "rs": [{"i": 2, "used": 0, "level": 0}]},
            {"op": "reports", "rs": [{"i": 3, "used": 0, "level": 0}]},
            {"op": "reports", "rs": [{"i": 2, "used": 0, "level": 100}]}]
    for typ in ("max", "bucket"):
        cs.append({"kind": "hist", "typ": typ, "limit": MAXI, "burst": MAXI if typ == "bucket" else 0, "extra": 0,
                   "steps": wrap})

    def rep(i, items):
        return {"i": i, "items": items}

    def it(sid, typ, used=0, level=0, count=False):
        return {"s": sid, "typ": typ, "count": count, "used": used, "level": level}
    # a negative reported usage makes the server record the upstream level -150: expectedAllocatePercent = 0,
    # and the unrepaired calculateNextQuota panicked (integer divide by zero) on every later report
    for used in (-1500, 1073740320):
        cs.append({"kind": "hist", "extra": 0, "schemas": [{"s": 0, "typ": "max", "limit": 1000, "burst": 0}], "steps": [
            {"op": "reports", "rs": [rep(1, [it(0, "max", used, 0)])]},
            {"op": "reports", "rs": [rep(2, [it(0, "max", 0, 0)])]},
            {"op": "reports", "rs": [rep(1, [it(0, "max", 0, 0)])]},
            {"op": "reports", "rs": [rep(2, [it(0, "max", 10, 100)])]}]})
    # two schemas (count strategy on the second for gw2); the first changes its item type while both instances
    # hold quotas of the old type: old type refused, new type answered (the unrepaired calculateUpstreamCondition
    # dereferenced the missing member of the configuration), a report without the second schema, items without type
    cs.append({"kind": "hist", "extra": 0,
               "schemas": [{"s": 0, "typ": "max", "limit": 1000, "burst": 0}, {"s": 1, "typ": "bucket", "limit": 500, "burst": 50}],
               "steps": [
                   {"op": "reports", "rs": [rep(1, [it(0, "max", 5, 50), it(1, "bucket", 5, 50)])]},
                   {"op": "reports", "rs": [rep(2, [it(0, "max", 5, 50), it(1, "bucket", 5, 50, True)])]},
                   {"op": "setschema", "s": 0, "typ": "bucket", "limit": 800, "burst": 80},
                   {"op": "reports", "rs": [rep(1, [it(0, "max", 5, 50), it(1, "bucket", 5, 50)])]},
                   {"op": "reports", "rs": [rep(1, [it(0, "bucket", 5, 50), it(1, "bucket", 5, 50)])]},
                   {"op": "reports", "rs": [rep(2, [it(0, "bucket", 5, 50), it(1, "bucket", 5, 50)])]},
                   {"op": "reports", "rs": [rep(1, [it(0, "bucket", 5, 50)])]},
                   {"op": "reports", "rs": [rep(2, [it(0, "none", 5, 50), it(1, "none", 5, 50)])]},
                   {"op": "setschema", "s": 0, "typ": "max", "limit": 30, "burst": 0},
                   {"op": "reports", "rs": [rep(1, [it(0, "max", 5, 100), it(1, "bucket", 5, 50)])]},
                   {"op": "reports", "rs": [rep(2, [it(0, "max", 5, 100), it(1, "bucket", 5, 50)])]},
               ]})
    # a report parked between its lookup of the upstream state and the per-upstream lock while the limit is
    # lowered 100 -> 20: afterwards limit 20 is in force (later answers <= 20, a newcomer is held at 1)
    grow = [{"op": "reports", "rs": [rep(1, [it(0, "max", 0, 0)])]}] + \
           [{"op": "reports", "rs": [rep(1, [it(0, "max", 200, 150)])]} for _ in range(5)]
    cs.append({"kind": "hist", "extra": 0, "schemas": [{"s": 0, "typ": "max", "limit": 100, "burst": 0}], "steps": grow + [
        {"op": "overlap", "rs": [rep(1, [it(0, "max", 200, 150)])], "s": 0, "typ": "max", "limit": 20, "burst": 0},
        {"op": "reports", "rs": [rep(1, [it(0, "max", 200, 150)])]},
        {"op": "reports", "rs": [rep(2, [it(0, "max", 0, 0)])]},
        {"op": "overlap", "rs": [rep(2, [it(0, "max", 5, 100)])], "s": 0, "typ": "bucket", "limit": 300, "burst": 30},
        {"op": "reports", "rs": [rep(1, [it(0, "max", 5, 100)])]},
        {"op": "reports", "rs": [rep(1, [it(0, "bucket", 5, 100)])]},
        {"op": "reports", "rs": [rep(2, [it(0, "bucket", 5, 100)])]}]})
    return [upgrade(c) for c in cs]


def gen_calc_grid(rng):
    typ = rng.choice(["max", "bucket"])
    total = rng.choice(TOTALS)
    t = max(total, 1)
    allocated = clamp32(rng.choice([0, t // 2, t - 1, t, t + 1, t * 9 // 10, 2 * t, 8 * t, t // 3, -1]))
    current = clamp32(rng.choice([0, 0, 1, 2, t // 500, t // 500 + 1, t // 20, t // 10, t // 3, t // 2, t - 1, t, t + 5,
                                  allocated, allocated // 2]))
    current = max(current, 0) if rng.chance(9, 10) else -current - 1
    c = max(current, 1)
    used = clamp32(rng.choice([0, 1, c // 2, c * 8 // 10, c - 1, c, c + 1, 2 * c, 5 * c]))
    level = rng.choice(LEVELS)
    if rng.chance(1, 3) and current > 0:
        level = clamp32(used * 100 // c)
    uplevel = rng.choice(UPLEVELS)
    clients = rng.choice(CLIENTS)
    gburst = rng.choice([0, 1, 5, 100, t, 2 * t, MAXI, -3]) if typ == "bucket" else 0
    return calc(typ, total, allocated, current, used, level, uplevel, clients, clamp32(gburst), count=rng.chance(1, 25))


def r32(rng):
    k = rng.below(10)
    if k < 4:
        return rng.randint(MINI, MAXI)
    if k < 7:
        return rng.randint(0, 100000)
    if k < 9:
        return rng.randint(-1000, 1000)
    return rng.choice([MINI, MAXI, 0, 1, -1, MAXI - 1, MINI + 1])


def gen_calc_random(rng):
    typ = rng.choice(["max", "bucket"])
    clients = rng.choice(CLIENTS + [rng.randint(0, 5000), -1, 2 ** 40, 2 ** 62 + 12345])
    return calc(typ, r32(rng), r32(rng), r32(rng), r32(rng), r32(rng) if rng.chance(1, 2) else rng.choice(LEVELS),
                r32(rng) if rng.chance(1, 3) else rng.choice(UPLEVELS), clients,
                r32(rng) if typ == "bucket" else 0, count=rng.chance(1, 25))


def gen_calc_lowered(rng):
    typ = rng.choice(["max", "bucket"])
    total = rng.choice([1, 10, 50, 100, 500, 1000, 10000])
    current = rng.choice([0, 1, 2, total // 2, total, 2 * total, 4 * total, rng.randint(0, 5 * total)])
    allocated = current + rng.choice([0, 1, total, total - current, total - current + 1, 3 * total, rng.randint(0, 6 * total)])
    used = rng.choice([0, current // 2, current, current + 1, 2 * current])
    return calc(typ, total, clamp32(allocated), current, used, rng.choice(LEVELS), rng.choice(UPLEVELS),
                rng.choice(CLIENTS), rng.choice([0, 10, total]) if typ == "bucket" else 0)


H_LIMITS = [0, 1, 2, 5, 10, 50, 100, 100, 1000, 1000, 10000, 100000, 500]
H_USED = [0, 0, 1, 5, 20, 50, 200, 1000, 5000]
H_LEVELS = [0, 0, 10, 40, 60, 80, 95, 100, 100, 150]


def gen_hist(rng, conc):
    typ = rng.choice(["max", "bucket"])
    limit = rng.choice(H_LIMITS[3:] if conc else H_LIMITS)
    burst = rng.choice([0, 1, 10, limit, 2 * limit + 1]) if typ == "bucket" else 0
    extra = rng.choice([0, 0, 0, 6, 9, 10, 50])
    ninst = rng.randint(2, 5)
    steps = []
    cur_limit = limit
    for _ in range(rng.randint(6, 28)):
        k = rng.below(100)
        if k < 10:
            f = rng.choice([(1, 10), (1, 2), (1, 4), (2, 1), (10, 1), (1, 1), (1, 100)])
            cur_limit = max(1 if conc else 0, min(10 ** 6, cur_limit * f[0] // f[1]))
            if rng.chance(1, 5):
                cur_limit = rng.choice(H_LIMITS[3:] if conc else H_LIMITS)
            steps.append({"op": "setlimit", "limit": cur_limit,
                          "burst": rng.choice([burst, 0, cur_limit, 7]) if typ == "bucket" else 0})
        elif k < 17:
            steps.append({"op": "remove", "i": rng.randint(1, ninst)})
        elif conc and k < 60:
            ids = rng.sample(list(range(1, ninst + 1)), rng.randint(2, min(3, ninst)))
            steps.append({"op": "reports", "rs": [{"i": i, "used": 0, "level": rng.choice(H_LEVELS)} for i in ids]})
        else:
            i = rng.randint(1, ninst)
            used = 0 if conc else rng.choice(H_USED + [cur_limit // 3, cur_limit])
            steps.append({"op": "reports", "rs": [{"i": i, "used": used, "level": rng.choice(H_LEVELS)}]})
    return {"kind": "hist", "typ": typ, "limit": limit, "burst": burst, "extra": extra, "steps": steps}


def gen_contention(rng):
    """All instances of one upstream report at once, again and again, each asking for more than its
    share of what is left: level 100 = take 30% more or all that is left, level 5 = give 20% back."""
    typ = rng.choice(["max", "bucket"])
    limit = rng.choice([50, 100, 1000, 10000, 77])
    burst = rng.choice([0, limit, 10]) if typ == "bucket" else 0
    ids = list(range(1, rng.choice([2, 2, 2, 3]) + 1))

    def batch(level):
        return {"op": "reports", "rs": [{"i": i, "used": 0, "level": level} for i in rng.shuffle(ids)]}

    steps = [batch(100) for _ in range(rng.randint(8, 11))]
    for _ in range(rng.randint(4, 7)):
        steps.append(batch(5))
        steps.append(batch(100))
        if rng.chance(1, 3):
            steps.append(batch(100))
    return {"kind": "hist", "typ": typ, "limit": limit, "burst": burst, "extra": 0, "steps": steps}


def upgrade(case):
    """single-schema history in the short form (typ/limit/burst + steps with i/used/level) -> general form"""
    if case.get("kind") != "hist" or "schemas" in case:
        return case
    typ = case["typ"]
    steps = []
    for st in case["steps"]:
        if st["op"] == "reports":
            steps.append({"op": "reports", "rs": [
                {"i": r["i"], "items": [{"s": 0, "typ": typ, "count": False, "used": r["used"], "level": r["level"]}]}
                for r in st["rs"]]})
        elif st["op"] == "setlimit":
            steps.append({"op": "setschema", "s": 0, "typ": typ, "limit": st["limit"], "burst": st["burst"]})
        else:
            steps.append(st)
    return {"kind": "hist", "extra": case["extra"],
            "schemas": [{"s": 0, "typ": typ, "limit": case["limit"], "burst": case["burst"]}], "steps": steps}


def other(typ):
    return "bucket" if typ == "max" else "max"


def gen_multi(rng, conc):
    """One upstream with 1-3 schemas of both item types; instances report all (sometimes some) of them; a schema may
    use the count strategy; schemas change limit, burst and item type; after a type change an instance may still
    report the old type once (refused), or no type at all."""
    ns = rng.choice([1, 2, 2, 3])
    lim = H_LIMITS[3:] if conc else H_LIMITS[1:]
    schemas = []
    for k in range(ns):
        typ = rng.choice(["max", "bucket"])
        limit = rng.choice(lim)
        schemas.append({"s": k, "typ": typ, "limit": limit,
                        "burst": rng.choice([0, 1, 10, limit, 2 * limit + 1]) if typ == "bucket" else 0})
    cur = [dict(x) for x in schemas]
    count_schema = rng.below(ns) if rng.chance(1, 4) else -1       # this schema is under the count strategy
    ninst = rng.randint(2, 4)
    known = {(i, k): cur[k]["typ"] for i in range(1, ninst + 1) for k in range(ns)}
    steps = []

    def items_of(i):
        ks = list(range(ns))
        if ns > 1 and rng.chance(1, 8):
            ks = rng.sample(ks, rng.randint(1, ns - 1))
            ks.sort()
        its = []
        for k in ks:
            typ = known[(i, k)]
            if rng.chance(1, 25):
                typ = "none"
            cnt = (k == count_schema) if not rng.chance(1, 40) else (k != count_schema)
            used = 0 if conc else rng.choice(H_USED + [cur[k]["limit"] // 3, cur[k]["limit"]])
            its.append({"s": k, "typ": typ, "count": cnt, "used": used, "level": rng.choice(H_LEVELS)})
            known[(i, k)] = cur[k]["typ"]                        # after this report (answer or refusal) it knows
        return its

    for _ in range(rng.randint(8, 24)):
        r = rng.below(100)
        if r < 12:
            k = rng.below(ns)
            sc = cur[k]
            if rng.chance(2, 5):                                  # item-type change
                sc["typ"] = other(sc["typ"])
                for i in range(1, ninst + 1):
                    if rng.chance(1, 2):
                        known[(i, k)] = sc["typ"]
            f = rng.choice([(1, 10), (1, 2), (2, 1), (10, 1), (1, 1), (1, 4)])
            sc["limit"] = max(1 if conc else 0, min(10 ** 6, sc["limit"] * f[0] // f[1]))
            sc["burst"] = rng.choice([0, 7, sc["limit"], 2 * sc["limit"] + 1]) if sc["typ"] == "bucket" else 0
            steps.append({"op": "setschema", "s": k, "typ": sc["typ"], "limit": sc["limit"], "burst": sc["burst"]})
        elif r < 18:
            steps.append({"op": "remove", "i": rng.randint(1, ninst)})
        elif conc and r < 55:
            ids = rng.sample(list(range(1, ninst + 1)), rng.randint(2, min(3, ninst)))
            steps.append({"op": "reports", "rs": [{"i": i, "items": items_of(i)} for i in ids]})
        else:
            i = rng.randint(1, ninst)
            steps.append({"op": "reports", "rs": [{"i": i, "items": items_of(i)}]})
    return {"kind": "hist", "extra": rng.choice([0, 0, 6, 10, 50]), "schemas": schemas, "steps": steps}


def gen_overlap(rng):
    """Instances grow under a limit; then a report is parked after its lookup of the upstream state while the
    schema change (lower / higher limit, burst, sometimes the item type) is handled; then plain reports follow."""
    typ = rng.choice(["max", "max", "bucket"])
    limit = rng.choice([50, 100, 100, 1000, 10000])
    burst = rng.choice([0, 10, limit]) if typ == "bucket" else 0
    ids = list(range(1, rng.choice([1, 2, 2, 3]) + 1))
    schemas = [{"s": 0, "typ": typ, "limit": limit, "burst": burst}]
    second = rng.chance(1, 4)
    if second:
        schemas.append({"s": 1, "typ": "bucket", "limit": 500, "burst": 50})

    def report(i, t, level, used):
        items = [{"s": 0, "typ": t, "count": False, "used": used, "level": level}]
        if second:
            items.append({"s": 1, "typ": "bucket", "count": False, "used": 5, "level": rng.choice(H_LEVELS)})
        return {"i": i, "items": items}

    steps = []
    for _ in range(rng.randint(4, 9)):
        for i in ids:
            steps.append({"op": "reports", "rs": [report(i, typ, rng.choice([100, 100, 150, 60]), rng.choice([0, limit, 2 * limit]))]})
    for _ in range(rng.randint(1, 2)):
        f = rng.choice([(1, 5), (1, 5), (1, 2), (1, 10), (3, 1), (1, 1)])
        nlimit = max(1, limit * f[0] // f[1])
        ntyp = other(typ) if rng.chance(1, 6) else typ
        nburst = rng.choice([0, 7, nlimit]) if ntyp == "bucket" else 0
        i = rng.choice(ids)
        steps.append({"op": "overlap", "rs": [report(i, rng.choice([typ, typ, typ, ntyp, "none"]), rng.choice([100, 150, 0, 5]),
                                              rng.choice([0, limit, 2 * limit]))],
                      "s": 0, "typ": ntyp, "limit": nlimit, "burst": nburst})
        typ, limit = ntyp, nlimit
        for _ in range(rng.randint(2, 5)):
            i = rng.choice(ids + [len(ids) + 1])
            steps.append({"op": "reports", "rs": [report(i, typ, rng.choice([100, 150, 150, 0, 40]), rng.choice([0, limit, 2 * limit]))]})
    return {"kind": "hist", "extra": rng.choice([0, 0, 10]), "schemas": schemas, "steps": steps}


def generate(rng, tier, scale=1):
    ng, nr, nl, nh, nc, nk, nm = ((1300, 600, 400, 80, 25, 25, 80) if tier == "quick"
                                  else (30000, 15000, 8000, 1500, 500, 400, 1500))
    calcs, hists = [], []
    for _ in range(ng * scale):
        calcs.append(gen_calc_grid(rng))
    for _ in range(nr * scale):
        calcs.append(gen_calc_random(rng))
    for _ in range(nl * scale):
        calcs.append(gen_calc_lowered(rng))
    for _ in range(nh * scale):
        hists.append(gen_hist(rng, False))
    for _ in range(nc * scale):
        hists.append(gen_hist(rng, True))
    for _ in range(nk * scale):
        hists.append(gen_contention(rng))
    for k in range(nm * scale):
        hists.append(gen_multi(rng, k % 3 == 2))
    for k in range((nm // 3) * scale):
        hists.append(gen_overlap(rng))
    hists = [upgrade(h) for h in hists]
    # spread the (expensive) histories evenly over the stream so that the Coq shards are balanced
    hists = rng.shuffle(hists)
    cs, per, h = [], max(1, len(calcs) // max(1, len(hists))), 0
    for k, c in enumerate(calcs):
        cs.append(c)
        if (k + 1) % per == 0 and h < len(hists):
            cs.append(hists[h])
            h += 1
    cs += hists[h:]
    return cs


# ----------------------------------------------------------------------------- Coq terms
def ctyp(t):
    return "TBucket" if t == "bucket" else "TMax"


def cans(a):
    if not a or not a.get("ok"):
        return "None"
    return "(Some (%s, %s))" % (cZ(a["q"]), cZ(a["b"]))


def coq_case(case, obs):
    if case["kind"] == "calc":
        inp = ("{| i_typ := %s; i_count := %s; i_total := %s; i_gburst := %s; i_allocated := %s; i_uplevel := %s; "
               "i_current := %s; i_used := %s; i_level := %s; i_clients := %s |}" %
               (ctyp(case["typ"]), cbool(case.get("count", False)), cZ(case["total"]), cZ(case.get("gburst", 0)),
                cZ(case["allocated"]), cZ(case["uplevel"]), cZ(case["current"]), cZ(case["used"]), cZ(case["level"]),
                cZ(case["clients"])))
        if "panic" in obs:
            # the harness itself failed (not the guarded call): make the case disagree visibly
            return "(CCalc %s (Some (0, (-1))))" % inp
        return "(CCalc %s %s)" % (inp, cans(obs))
    return coq_hist(case, obs)


def cquotas(qs):
    return clist(["(%s, (%s, %s))" % (cZ(q["i"]), cZ(q["q"]), cZ(q["b"])) for q in qs])


def copt_typ(t):
    return "None" if t == "none" else "(Some %s)" % ctyp(t)


def coq_hist(case, obs):
    steps = obs.get("steps") if isinstance(obs, dict) else None
    schemas = clist(["(%s, (%s, (%s, %s)))" % (cZ(sc["s"]), ctyp(sc["typ"]), cZ(sc["limit"]), cZ(sc["burst"]))
                     for sc in case["schemas"]])
    head = "(CHist %s %s " % (cZ(case["extra"]), schemas)
    if steps is None or len(steps) != len(case["steps"]):
        # harness panic mid-history: an unanswered report makes agree and answered false
        sid = case["schemas"][0]["s"]
        return head + ("[(MReports [{| r_i := 1; r_items := [{| it_s := %s; it_typ := None; it_count := false; it_used := 0; "
                       "it_level := 0; it_up := 0 |}]; r_cur := [0]; r_res := RPanic |}], "
                       "[{| v_s := %s; v_max := []; v_bucket := []; v_rec_max := 0; v_rec_qps := 0 |}])])" % (cZ(sid), cZ(sid)))
    tr = []
    for st, ob in zip(case["steps"], steps):
        up = {so["s"]: so["uplevel"] for so in ob["schemas"]}
        if st["op"] in ("reports", "overlap"):
            rs = []
            for r, res in zip(st["rs"], ob["reports"]):
                items = clist(["{| it_s := %s; it_typ := %s; it_count := %s; it_used := %s; it_level := %s; it_up := %s |}" %
                               (cZ(it["s"]), copt_typ(it["typ"]), cbool(it["count"]), cZ(it["used"]), cZ(it["level"]),
                                cZ(up.get(it["s"], 0))) for it in r["items"]])
                if res["res"] == "ok":
                    rr = "(RAns %s)" % clist(["(%s, %s)" % (cZ(a["q"]), cZ(a["b"])) for a in res["ans"]])
                else:
                    rr = "RErr" if res["res"] == "err" else "RPanic"
                rs.append("{| r_i := %s; r_items := %s; r_cur := %s; r_res := %s |}" %
                          (cZ(r["i"]), items, clist([cZ(x) for x in res["cur"]]), rr))
            if st["op"] == "overlap":
                o = "(MOverlap %s %s %s %s %s)" % (rs[0], cZ(st["s"]), ctyp(st["typ"]), cZ(st["limit"]), cZ(st["burst"]))
            else:
                o = "(MReports %s)" % clist(rs)
        elif st["op"] == "setschema":
            o = "(MSet %s %s %s %s)" % (cZ(st["s"]), ctyp(st["typ"]), cZ(st["limit"]), cZ(st["burst"]))
        else:
            o = "(MRemove %s)" % cZ(st["i"])
        views = clist(["{| v_s := %s; v_max := %s; v_bucket := %s; v_rec_max := %s; v_rec_qps := %s |}" %
                       (cZ(so["s"]), cquotas(so["max"]), cquotas(so["bucket"]), cZ(so["rec_max"]), cZ(so["rec_qps"]))
                       for so in ob["schemas"]])
        tr.append(cpair(o, views))
    return head + clist(tr) + ")"


# ----------------------------------------------------------------------------- evidence helpers
def _hist_features(case, obs):
    steps = obs.get("steps", []) if isinstance(obs, dict) else []
    feats = set()
    if len(case["schemas"]) > 1:
        feats.add("multi-schema")
    cfg = {sc["s"]: dict(sc) for sc in case["schemas"]}
    two = False
    for st, ob in zip(case["steps"], steps):
        if st["op"] == "overlap":
            feats.add("overlap-limit-change")
        if st["op"] in ("setschema", "overlap"):
            if cfg[st["s"]]["typ"] != st["typ"]:
                feats.add("type-change")
            cfg[st["s"]] = {"s": st["s"], "typ": st["typ"], "limit": st["limit"], "burst": st["burst"]}
            feats.add("setlimit")
        elif st["op"] == "remove":
            feats.add("remove")
        else:
            if len(st["rs"]) > 1:
                feats.add("conc")
            for r, res in zip(st["rs"], ob["reports"]):
                if res["res"] == "err":
                    feats.add("refused")
                if res["res"] == "panic":
                    feats.add("unanswered")
                if any(it["count"] for it in r["items"]):
                    feats.add("count-strategy")
                if any(it["typ"] == "none" for it in r["items"]):
                    feats.add("untyped-item")
        for so in ob["schemas"]:
            qs = so["max"] if cfg[so["s"]]["typ"] == "max" else so["bucket"]
            if len(qs) >= 2:
                two = True
            if sum(q["q"] for q in qs) > cfg[so["s"]]["limit"]:
                feats.add("over")
    return two, feats


def nontrivial_key(case, obs):
    if case["kind"] == "calc":
        if case.get("count") or not obs.get("ok"):
            return None
        return ("c",) + tuple(case[k] for k in ("typ", "total", "gburst", "allocated", "uplevel", "current", "used",
                                                 "level", "clients"))
    two, feats = _hist_features(case, obs)
    if (two or "overlap-limit-change" in feats) and feats:
        return ("h", repr(case))
    return None


def stats(case, obs):
    if case["kind"] == "calc":
        if case.get("count"):
            return ["calc:count-strategy"]
        if not obs.get("ok"):
            return ["calc:panic"]
        q, cur, tot, al = obs["q"], case["current"], case["total"], case["allocated"]
        labs = ["calc:" + ("new" if cur == 0 else "grow" if q > cur else "shrink" if q < cur else "same")]
        labs.append("calc:" + ("over-committed" if al > tot else "full" if al == tot else "room"))
        if q == 1:
            labs.append("calc:q=1")
        if q == tot:
            labs.append("calc:q=total")
        labs.append("calc:clients" + ("<=10" if case["clients"] <= 10 else ">10"))
        labs.append("calc:" + case["typ"])
        return labs
    two, feats = _hist_features(case, obs)
    labs = ["hist:len<=%d" % (10 * ((len(case["steps"]) + 9) // 10)), "hist:schemas=%d" % len(case["schemas"])]
    labs += ["hist:" + f for f in sorted(feats)]
    for st, ob in zip(case["steps"], obs.get("steps", [])):
        labs.append("op:%s%s" % (st["op"], "(conc)" if st["op"] == "reports" and len(st["rs"]) > 1 else ""))
        for res in ob["reports"]:
            labs.append("report->" + res["res"])
    return labs


def shrink(case):
    if case["kind"] != "hist":
        for k in ("used", "level", "uplevel", "allocated", "current", "clients"):
            if case[k] not in (0, 1):
                yield dict(case, **{k: 0})
                yield dict(case, **{k: case[k] // 2})
        return
    steps = case["steps"]
    for i in range(len(steps)):
        yield dict(case, steps=steps[:i] + steps[i + 1:])
    for i, st in enumerate(steps):
        if st["op"] == "reports" and len(st["rs"]) > 1:
            for j in range(len(st["rs"])):
                yield dict(case, steps=steps[:i] + [dict(st, rs=st["rs"][:j] + st["rs"][j + 1:])] + steps[i + 1:])
    if len(case["schemas"]) > 1:
        for sc in case["schemas"]:
            keep = [x for x in case["schemas"] if x["s"] != sc["s"]]
            nsteps = []
            for st in steps:
                if st["op"] == "setschema" and st["s"] == sc["s"]:
                    continue
                if st["op"] == "reports":
                    rs = [dict(r, items=[it for it in r["items"] if it["s"] != sc["s"]]) for r in st["rs"]]
                    rs = [r for r in rs if r["items"]]
                    if not rs:
                        continue
                    st = dict(st, rs=rs)
                nsteps.append(st)
            yield dict(case, schemas=keep, steps=nsteps)


def neighbours(case, rng):
    if case["kind"] == "calc":
        for k in ("total", "allocated", "current", "used", "level", "uplevel", "clients", "gburst"):
            for d in (-1, 1):
                v = case[k] + d
                if k != "clients":
                    v = clamp32(v)
                yield dict(case, **{k: v})
        return
    steps = case["steps"]
    for i in range(len(steps)):
        yield dict(case, steps=steps[:i] + steps[i + 1:])
        yield dict(case, steps=steps[:i] + [steps[i]] + steps[i:])


def known_match(entry, case, obs, failed):
    return False


HARNESS_CHUNK = 800
COQ_SHARD = 820

LEVEL_TEXT = ("full proof: Coq theorems, for every binary64 value (NaN and infinities included) that the threshold heuristic "
              "of calculateNextQuota may produce and all int32 limits, sums and previous quotas, about a float64-exact "
              "Gallina model (Flocq binary64) of the clamps of calculateNextQuota and of the server's bookkeeping; lifted "
              "by induction to every history of honest reports (any grouping into concurrent batches, any serialisation), "
              "schema changes (limit, burst, item type) and removals, for every schema of an upstream with several "
              "schemas; the model is compared exactly (quota and burst) with the real "
              "calculateNextQuota and a real rateLimiter on every run and the executable spec is evaluated on the real "
              "observations")
LEVEL_NOTE = ("trusted: Coq kernel + vm_compute, Flocq's formalisation of IEEE-754, the hand-written model (tied by the "
              "differential run only), Go harness and overlay exports; modelled not verified: Go's amd64 float code "
              "generation, math.Ceil/Round/Sqrt/Max, sync.Map, the mutex that serialises reports; axioms: the four "
              "standard-library axioms Flocq/Reals bring (classic, functional_extensionality_dep, sig_forall_dec, sig_not_dec)")
TECHNIQUE = ("Coq proof (real-analysis lemmas on Flocq binary64, induction over histories, invariants) + differential "
             "model/implementation correspondence")
