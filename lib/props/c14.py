"""C14 — round-robin: ready endpoints of a policy share its traffic evenly (also under concurrent pickers)."""
from vf.core import cZ, cbool, clist, cpair

PID = "C14"
MODULES = ["Prelude", "Sched", "C14_Model", "C14_Spec", "C14_Check"]
PROPS_MODULE = "C14_Properties"
THEOREMS = ["C14_pop_stable", "C14_strict", "C14_strict_sync", "C14_concurrent", "C14_unordered", "C14_wrap", "C14_spec_strict", "C14_request_level_even",
            "C14_idempotent_status_write_invisible"]
EVAL = "C14_Check.eval"
CLAUSES = ["agree", "only_ready", "strict", "unordered", "wrap", "conc_strict", "req_strict"]
COQ_SHARD = 60
HARNESS_CHUNK = 80
RULE = ("request cases: distinct (subset, ready, request/limit op list) sent through the real dispatcher in which forwarded "
        "requests reached at least two different endpoints; rr cases: distinct (ready list, mode, upstream order, N) with at least 2 ready endpoints and N >= 2k picks; "
        "history cases: distinct op lists in which the ready set changes between two picks that both see >= 2 ready "
        "endpoints; concurrent cases: distinct (k, picks, effective schedule) in which two goroutines' picks interleave")
TRUSTED_BASE = [
    "Coq 8.16.1 kernel + vm_compute (case files); no native_compute, no extraction",
    "hand-written model C14_Model.v tied to /repo by the differential run of this check (real ClusterInfo, real "
    "MatchAttributes + Pop; the uint64 wrap is reached by storing a counter through an add-only export)",
    "request-level cases go through the real proxy handler chain (filters + dispatcher.ServeHTTP) to k stub TLS upstreams that "
    "record which endpoint received each forwarded request",
    "endpointStatus.SetStatus is instrumented (its Lock / Unlock become schedule points) so that the real status write can be "
    "parked while it holds the status lock and a pick is made at that moment; the pick then has 25 ms to return before the "
    "write is allowed to finish (code that waits for the writer is unaffected by the length of that pause)",
    "Pop is instrumented from the CURRENT clusterinfo.go by lib/vf/instrument.py (atomic.AddUint64 and every sync.Map operation "
    "on `loadbalancer` -> yield + the operation) and "
    "replayed under the cooperative scheduler harness/common/sched.go for the concurrent cases",
    "modelled not verified: sync.Map (Endpoints, loadbalancer) operations are atomic and, for a stable ready set, read-only "
    "except LoadOrStore of the cursor; fmt.Sprintf(\"%v\") of the ready list is injective on (identity, order) of endpoints",
]
ASSUMPTIONS = [
    "request level: a request refused by the policy's flow control (429) returns before Pop and does not consume a round-robin "
    "turn (that is what dispatcher.ServeHTTP does; the property counts picks = forwarded requests); the refusal itself is an "
    "input of the model (max-in-flight 0 schema), its correctness is property C05",
    "the ready set is stable during a window (the property's hypothesis): no server added or removed, no disabled flag or "
    "health changed — ClusterInfo.Sync calls that change none of these may occur anywhere in the window; histories with readiness / server changes are used "
    "only to validate the model (cursor per ready-list key, reset on server-set change)",
    "for policies without explicit subset the upstream order of each pick is an input (observed through an export): it comes "
    "from a sync.Map range whose order Go does not specify; the bound is stated in the number P of distinct orders used",
    "an upstream subset lists each endpoint once (with duplicates an endpoint legitimately gets a double share)",
]

LABEL = "Pop:AddUint64(lb.(*uint64), 1)"
LABEL_MAP = "Pop:s.cluster.loadbalancer.LoadOrStore"
TWO64 = 2 ** 64


def rr(servers, ready, subset, all_, n, force=None, disabled=(), resync=0, writes=0):
    c = {"kind": "rr", "servers": servers, "ready": ready, "subset": subset, "all": all_, "n": n,
         "disabled": list(disabled), "resync": resync, "writes": writes}
    if force:
        c["force"] = {"es": force[0], "v": str(force[1])}
    return c


def req_case(servers, ready, subset, reqs):
    return {"kind": "req", "servers": servers, "ready": ready, "subset": subset, "reqs": reqs}


REQ = {"op": "req"}
HOLD = {"op": "req", "hold": True}


def LIM(zero):
    return {"op": "limit", "zero": zero}


def corpus():
    cs = []
    # the policy's TRAFFIC through the real dispatcher: k = 2..6 ready endpoints, sequential and overlapping
    # requests, refused (429) requests in between (they must not consume a turn)
    for k in (2, 3, 4, 5, 6):
        srv = list(range(k))
        cs.append(req_case(srv, srv, srv, [REQ] * (3 * k + 1)))
        cs.append(req_case(srv, srv, list(reversed(srv)), [REQ, HOLD, REQ, HOLD] * k))
        cs.append(req_case(srv, srv, srv, [REQ, REQ, LIM(True), REQ, LIM(False), REQ, REQ, LIM(True), REQ, REQ, REQ,
                                           LIM(False)] + [REQ] * k))
    cs.append(req_case([0, 1, 2, 3], [0, 1, 3], [3, 0, 1, 2], [REQ, HOLD, REQ, LIM(True), REQ, REQ, LIM(False), REQ, HOLD, REQ]))
    cs.append(req_case([0, 1], [], [0, 1], [REQ, REQ]))
    cs.append(req_case([0, 1, 2], [1], [0, 1, 2], [REQ, REQ, REQ]))
    for k in range(1, 8):
        srv = list(range(k))
        cs.append(rr(srv, srv, srv, False, 3 * k + 1))
        cs.append(rr(srv, srv, [], True, 3 * k + 1))
        cs.append(rr(srv, srv, list(reversed(srv)), False, 25))
    # re-Sync of an unchanged server list between picks ({2 picks, Sync} repeated; also every pick, every 3):
    # the ready set is stable, so the strict window clause spans the Syncs.  0 / 1 / 2 disabled servers,
    # outside and inside the policy's subset
    for dis, sub in (([], [0, 1, 2]), ([3], [0, 1, 2]), ([3, 4], [0, 1, 2]), ([2], [0, 1, 2, 3]), ([1, 4], [0, 1, 2, 3]),
                     ([3], [2, 0, 1])):
        for every in (2, 1, 3):
            cs.append(rr([0, 1, 2, 3, 4], [0, 1, 2, 3, 4], sub, False, 24, disabled=dis, resync=every))
    cs.append(rr([0, 1, 2, 3], [0, 1, 2, 3], [], True, 30, disabled=[3], resync=2))
    # picks made WHILE the health checker records an unchanged result (the real SetStatus parked holding the
    # status lock): the ready set is what it was, so the strict clause applies to every window
    for k in (2, 3, 4, 5):
        srv = list(range(k))
        for every in (1, 2, 3):
            cs.append(rr(srv, srv, srv, False, 4 * k, writes=every))
    cs.append(rr([0, 1, 2, 3], [0, 1, 2], [2, 0, 1, 3], False, 12, disabled=[3], resync=2, writes=2))
    cs.append(rr([0, 1, 2], [0, 1, 2], [], True, 12, writes=2))
    cs.append(rr([0, 1, 2, 3], [0, 1, 3], [3, 2, 9, 0, 1], False, 20))       # unready + unknown endpoint in the subset
    cs.append(rr([0, 1, 2], [], [0, 1, 2], False, 3))                          # nothing ready
    cs.append(rr([0, 1, 2], [1], [0, 1, 2], False, 5))                         # one ready: fast path
    cs.append(rr([0, 1, 2], [0, 1, 2], [0, 1, 2], False, 5000))
    cs.append(rr([0, 1, 2, 3, 4, 5, 6], [0, 1, 2, 3, 4, 5, 6], [], True, 5000))
    cs.append(rr([0, 1, 2, 3, 4], [0, 1, 2, 3, 4], [4, 2, 0, 1, 3], False, 1000))
    # the uint64 wrap: k = 3, 5, 7 do not divide 2^64
    for k in (3, 5, 6, 7):
        srv = list(range(k))
        cs.append(rr(srv, srv, srv, False, 4 * k, force=(srv, TWO64 - k - 1)))
        cs.append(rr(srv, srv, srv, False, 3, force=(srv, TWO64 - 1)))
    cs.append({"kind": "hist", "servers": [0, 1, 2], "ready": [], "subset": [0, 1, 2], "ops": [
        {"op": "pick"}, {"op": "ready", "e": 0, "b": True}, {"op": "pick"}, {"op": "ready", "e": 1, "b": True},
        {"op": "pick"}, {"op": "pick"}, {"op": "ready", "e": 2, "b": True}, {"op": "pick"}, {"op": "pick"},
        {"op": "ready", "e": 2, "b": False}, {"op": "pick"}, {"op": "pick"}, {"op": "servers", "es": [0, 1, 2, 3]},
        {"op": "pick"}, {"op": "pick", "all": True}, {"op": "ready", "e": 3, "b": True}, {"op": "pick", "all": True},
        {"op": "servers", "es": [1, 2, 3]}, {"op": "pick"}, {"op": "pick", "all": True}, {"op": "ready", "e": 7, "b": True},
        {"op": "pick"}, {"op": "servers", "es": [3, 2, 1], "dis": [], "edit": 2}, {"op": "pick"}, {"op": "pick"},
        {"op": "servers", "es": [1, 2, 3], "dis": [3], "edit": 0}, {"op": "pick"}, {"op": "pick"},
        {"op": "servers", "es": [1, 2, 3], "dis": [3], "edit": 3}, {"op": "pick"}, {"op": "pick"},
        {"op": "servers", "es": [1, 2, 3], "dis": [], "edit": 3}, {"op": "pick", "all": True}, {"op": "pick", "all": True},
        {"op": "cursor", "es": [1, 2], "v": str(TWO64 - 1)}, {"op": "pick"}, {"op": "pick"}]})
    # concurrent pickers; every case starts on a ready list whose counter does not exist yet.
    # "all pickers reach the map access before any proceeds", then they proceed in turn:
    for k, ng in ((3, 2), (2, 2), (4, 4), (5, 3)):
        srv = list(range(k))
        cs.append(conc(srv, [(srv, [1] * ng, list(range(ng)) * 2)]))
        cs.append(conc(srv, [(srv, [2] * ng, list(range(ng)) * 4)]))
        cs.append(conc(srv, [(srv, [2] * ng, list(reversed(range(ng))) + list(range(ng)))]))
    # a readiness change between phases: a new ready list = a new counter, first picks interleaved again;
    # then back to the first list, whose counter continues
    cs.append(conc([0, 1, 2, 3], [([0, 1, 2, 3], [2, 2], [0, 1, 0, 1]), ([0, 1, 3], [1, 1, 1], [0, 1, 2, 2, 1, 0]),
                                  ([0, 1, 2, 3], [1, 2], [1, 0, 0, 1]), ([1, 3], [2, 1], [0, 1, 1, 0])]))
    cs.append(conc([2, 0, 1], [([0, 1, 2], [2, 2], [1, 0, 0, 1])]))
    return cs


def gen_rr(rng):
    k = rng.choice([2, 2, 3, 3, 4, 5, 6, 7])
    extra = rng.choice([0, 0, 1, 2])
    servers = list(range(k + extra))
    ready = rng.sample(servers, k)
    all_ = rng.chance(2, 5)
    if all_:
        subset = []
        if rng.chance(1, 2):
            subset = rng.sample(servers, rng.randint(1, len(servers)))   # the other policy has a subset: irrelevant
    else:
        subset = rng.shuffle(ready + [s for s in servers if s not in ready and rng.chance(1, 2)] +
                             ([9] if rng.chance(1, 6) else []))
        if rng.chance(1, 5):
            subset = rng.sample(subset, rng.randint(1, len(subset)))     # a strict subset of the ready ones
    n = rng.choice([1, 2, 3, 5, 8, 13, 21, 34, 40, 55, 64, 100, 150])
    if rng.chance(1, 40):
        n = rng.choice([1000, 5000])
    force = None
    if not all_ and rng.chance(1, 8):
        rd = [e for e in subset if e in ready]
        if len(rd) >= 2:
            force = (rd, rng.choice([TWO64 - 1, TWO64 - 2, TWO64 - rng.randint(1, 30), rng.randint(0, 2 ** 40), 2 ** 63]))
    disabled = []
    resync = 0
    if rng.chance(1, 2):
        resync = rng.choice([1, 2, 2, 3, 5])
        nd = rng.choice([0, 1, 1, 2])
        # disabled servers are taken from the not-ready extras first (outside the ready set), else from the ready ones
        # as long as two stay ready
        pool = [x for x in servers if x not in ready] + rng.shuffle(ready)[:max(0, len(ready) - 2)]
        disabled = pool[:nd]
    writes = 0
    if rng.chance(1, 4):
        writes = rng.choice([1, 2, 2, 3])
        n = min(n, rng.choice([8, 12, 16, 20]))     # every such pick waits for the writer (25 ms)
    return rr(servers, ready, subset, all_, n, force, disabled, resync, writes)


def gen_hist(rng):
    ns = rng.randint(2, 5)
    servers = list(range(ns))
    subset = rng.sample(servers + [rng.randint(0, 6)], rng.randint(1, ns))
    subset = [s for i, s in enumerate(subset) if s not in subset[:i]]
    ready = rng.sample(servers, rng.randint(ns - 1, ns))
    cur_srv = list(servers)
    cur_dis = rng.sample(servers, rng.choice([0, 0, 1])) if ns > 2 else []
    init_dis = list(cur_dis)
    ops = []
    for _ in range(rng.randint(10, 60)):
        r = rng.below(100)
        if r < 60:
            ops.append({"op": "pick", "all": rng.chance(1, 4)})
        elif r < 85:
            ops.append({"op": "ready", "e": rng.randint(0, 6) if rng.chance(1, 4) else rng.below(ns), "b": rng.chance(4, 5)})
            if rng.chance(1, 2):       # the same result recorded again: changes nothing
                ops.append(dict(ops[-1]))
        elif r < 91:
            if rng.chance(3, 5):
                # servers and disabled flags as they are: identical object or unrelated edits
                ops.append({"op": "servers", "es": rng.shuffle(cur_srv), "dis": list(cur_dis), "edit": rng.choice([0, 0, 1, 2, 3])})
            elif rng.chance(1, 2):
                # only the disabled flags change (no server added / removed: cursors stay)
                cur_dis = rng.sample(cur_srv, rng.choice([0, 1, 1, 2]))
                ops.append({"op": "servers", "es": list(cur_srv), "dis": list(cur_dis), "edit": rng.choice([0, 1])})
            else:
                cur_srv = rng.sample(list(range(ns + 1)), rng.randint(2, ns + 1))
                cur_dis = [e for e in cur_dis if e in cur_srv and rng.chance(1, 2)]
                ops.append({"op": "servers", "es": list(cur_srv), "dis": list(cur_dis), "edit": rng.choice([0, 1])})
                for e in cur_srv:
                    if rng.chance(2, 3):
                        ops.append({"op": "ready", "e": e, "b": True})
        else:
            ops.append({"op": "cursor", "es": rng.sample(subset, min(len(subset), rng.randint(2, 3))),
                        "v": str(rng.choice([TWO64 - 1, TWO64 - 2, 5, 2 ** 32]))})
    return {"kind": "hist", "servers": servers, "ready": ready, "disabled": init_dis, "subset": subset, "ops": ops}


def gen_req(rng):
    k = rng.choice([2, 2, 3, 4, 4, 5, 6])
    extra = rng.choice([0, 0, 1])
    servers = list(range(k + extra))
    ready = rng.sample(servers, k)
    subset = rng.shuffle(servers) if rng.chance(2, 3) else rng.shuffle(ready)
    reqs = []
    zero = False
    for _ in range(rng.randint(2 * k, 5 * k)):
        r = rng.below(100)
        if r < 12:
            zero = not zero
            reqs.append(LIM(zero))
        elif r < 35:
            reqs.append(HOLD)
        else:
            reqs.append(REQ)
    return req_case(servers, ready, subset, reqs)


def conc(subset, phases):
    return {"kind": "conc", "servers": sorted(subset), "ready": [], "subset": subset,
            "phases": [{"ready": r, "picks": p, "sched": s} for (r, p, s) in phases]}


def gen_sched_conc(rng, picks):
    ng = len(picks)
    total = 2 * sum(picks)
    mode = rng.below(4)
    if mode == 0:      # everybody does the map access first, then a random order
        return list(range(ng)) + [rng.below(ng) for _ in range(rng.randint(0, total))]
    if mode == 1:      # round robin: maximal interleaving of get-or-create and add
        return [i % ng for i in range(rng.randint(ng, total + 2))]
    if mode == 2:      # pairs racing on the first pick
        a, b = rng.sample(list(range(ng)), 2) if ng >= 2 else (0, 0)
        return [a, b, b, a] + [rng.below(ng) for _ in range(rng.randint(0, total))]
    return [rng.below(ng) for _ in range(rng.randint(0, total + 3))]


def gen_conc(rng):
    k = rng.choice([3, 3, 4, 5])
    subset = rng.shuffle(list(range(k)))
    phases = []
    ready = list(subset) if rng.chance(2, 3) else rng.sample(subset, k - 1)
    for _ in range(rng.choice([1, 1, 2, 3])):
        ng = rng.choice([2, 2, 3, 3, 4])
        picks = [rng.randint(1, 3) for _ in range(ng)]
        phases.append((sorted(ready), picks, gen_sched_conc(rng, picks)))
        # flip the readiness of one endpoint, keeping at least two ready
        e = rng.choice(subset)
        if e in ready and len(ready) > 2:
            ready = [x for x in ready if x != e]
        elif e not in ready:
            ready = ready + [e]
    return conc(subset, phases)


def generate(rng, tier, scale=1):
    nr, nh, nc = (180, 60, 130) if tier == "quick" else (3000, 1000, 3000)
    cs = [gen_rr(rng) for _ in range(nr * scale)]
    cs += [gen_hist(rng) for _ in range(nh * scale)]
    cs += [gen_conc(rng) for _ in range(nc * scale)]
    cs += [gen_req(rng) for _ in range((40 if tier == "quick" else 500) * scale)]
    if tier == "thorough" and scale == 1:
        for k, picks in ((3, [2, 2]), (2, [1, 1, 1]), (4, [2, 1])):
            ng = len(picks)
            seqs = [[]]
            for _ in range(2 * sum(picks)):
                seqs = [s + [g] for s in seqs for g in range(ng)]
            for s in seqs:
                cs.append(conc(list(range(k)), [(list(range(k)), picks, s)]))
    return cs


def zl(l):
    return clist([cZ(x) for x in l])


def coq_case(case, obs):
    k = case["kind"]
    if k == "req":
        ready = [e for e in case["ready"] if e in case["servers"]]
        ops = clist(["QReq" if o["op"] == "req" else "(QLimit %s)" % cbool(o["zero"]) for o in case["reqs"]])
        if "panic" in obs:
            out = [-1 if o["op"] == "req" else -2 for o in case["reqs"]] + [-1]   # never a silent pass
        else:
            out = obs["out"]
        return "(CReq %s %s %s %s)" % (zl(ready), zl(case["subset"]), ops, zl(out))
    if k == "rr":
        ready = [e for e in case["ready"] if e in case["servers"] and e not in case.get("disabled", [])]
        ready = [e for i, e in enumerate(ready) if e not in ready[:i]]
        force = "None"
        if case.get("force"):
            force = "(Some %s)" % cpair(zl(case["force"]["es"]), cZ(int(case["force"]["v"])))
        if "panic" in obs:
            # Pop panicked: every pick counts as a failure, so `only_ready` fails whenever something was ready
            ups = case["subset"] if (not case["all"] and case["subset"]) else case["servers"]
            n = max(1, case["n"])
            return "(CRr %s %s %s %s %s)" % (zl(ready), cbool(not case["all"]), force, clist([zl(ups)] * n), zl([-1] * n))
        picks = obs["picks"]
        return "(CRr %s %s %s %s %s)" % (zl(ready), cbool(not case["all"]), force,
                                         clist([zl(p["order"]) for p in picks]), zl([p["r"] for p in picks]))
    if k == "hist":
        picks = obs.get("picks", []) if "panic" not in obs else []
        ops = []
        for i, o in enumerate(case["ops"]):
            p = picks[i] if i < len(picks) else {"r": -9, "order": []}
            if o["op"] == "pick":
                ops.append("(OPick %s)" % zl(p["order"]))
            elif o["op"] == "ready":
                ops.append("(OReady %s %s)" % (cZ(o["e"]), cbool(o["b"])))
            elif o["op"] == "servers":
                ops.append("(OServers %s %s)" % (zl(o["es"]), zl(o.get("dis", []))))
            else:
                ops.append("(OCursor %s %s)" % (zl(o["es"]), cZ(int(o["v"]))))
        res = [(picks[i]["r"] if i < len(picks) else -9) for i in range(len(case["ops"]))]
        # initial readiness is applied as leading OReady ops (they report -2)
        ready = [e for e in case["ready"]]
        pre = ["(OReady %s true)" % cZ(e) for e in ready]
        return "(CHist %s %s %s %s)" % (zl(case["servers"]), zl(case.get("disabled", [])), clist(pre + ops),
                                        zl([-2] * len(pre) + res))
    phs = []
    ophs = obs.get("phases", []) if "panic" not in obs else []
    for i, ph in enumerate(case["phases"]):
        picks = ["%d%%nat" % p for p in ph["picks"]]
        sched = clist(["%d%%nat" % max(0, g) for g in ph["sched"]])
        if i < len(ophs):
            o = ophs[i]
            # a schedule point the model does not know: the code no longer has the modelled shape; the case is made
            # to disagree with the model (an extra goroutine), the spec is still evaluated on the real order of picks
            if any(s["l"] not in (LABEL, LABEL_MAP) for s in o["trace"]):
                picks = picks + ["99%nat"]
            tr = clist([cpair(cZ(s["g"]), cZ(1 if s["e"] == 1 else 0)) for s in o["trace"]])
            res = clist([zl(r) for r in o["results"]])
        else:
            tr, res = "[((-9), 1)]", "[]"
        phs.append("(%s, %s, %s, %s, %s)" % (zl(ph["ready"]), clist(picks), sched, tr, res))
    return "(CConc %s %s)" % (zl(case["subset"]), clist(phs))


def nontrivial_key(case, obs):
    if "panic" in obs:
        return None
    k = case["kind"]
    if k == "req":
        fwd = [x for x in obs["out"] if x >= 0]
        return ("q", tuple(case["subset"]), tuple(case["ready"]), repr(case["reqs"])) if len(set(fwd)) >= 2 else None
    if k == "rr":
        picks = obs["picks"]
        if not picks:
            return None
        rd = [e for e in picks[0]["order"] if e in case["ready"] and e in case["servers"] and e not in case.get("disabled", [])]
        if len(rd) >= 2 and len(picks) >= 2 * len(rd):
            return ("r", tuple(rd), case["all"], len(picks), case.get("resync", 0), case.get("writes", 0),
                    tuple(case.get("disabled", [])), case.get("force", {}).get("v") if case.get("force") else None,
                    tuple(tuple(p["order"]) for p in picks[:50]))
        return None
    if k == "hist":
        return ("h", repr(case["ops"]), tuple(case["ready"])) if any(o["op"] in ("ready", "servers") for o in case["ops"]) and \
            sum(1 for p in obs["picks"] if p["r"] >= 0) >= 2 else None
    trs = [tuple(s["g"] for s in p["trace"]) for p in obs["phases"]]
    inter = any(any(t[i] != t[i + 1] for i in range(len(t) - 1)) for t in trs)
    return ("c", tuple(case["subset"]), repr(case["phases"]), tuple(trs)) if inter else None


def stats(case, obs):
    if "panic" in obs:
        return ["panic"]
    k = case["kind"]
    if k == "req":
        nr = len([e for e in case["subset"] if e in case["ready"] and e in case["servers"]])
        labs = ["req:k=%d" % nr]
        for o, x in zip(case["reqs"], obs["out"]):
            labs.append("req:limit" if o["op"] == "limit" else "req:refused" if x == -3 else "req:503" if x == -1 else
                        "req:forwarded-overlapping" if o.get("hold") else "req:forwarded")
        return labs
    if k == "rr":
        picks = obs["picks"]
        nr = len([e for e in (picks[0]["order"] if picks else []) if e in case["ready"] and e in case["servers"]
                  and e not in case.get("disabled", [])])
        P = len({tuple(p["order"]) for p in picks})
        n = len(picks)
        return ["rr:%s" % ("all" if case["all"] else "explicit"), "rr:k=%d" % nr, "rr:orders=%d" % min(P, 9),
                "rr:N<=%d" % (10 if n <= 10 else 100 if n <= 100 else 1000 if n <= 1000 else 5000)] + \
               (["rr:forced-cursor"] if case.get("force") else []) + \
               (["rr:pick-during-noop-status-write-every-%d" % case["writes"]] if case.get("writes") else []) + \
               (["rr:resync-every-%d" % case["resync"], "rr:disabled=%d" % len(case.get("disabled", []))] if case.get("resync") else [])
    if k == "hist":
        labs = ["hist:len<=%d" % (10 * ((len(case["ops"]) + 9) // 10))]
        for o, p in zip(case["ops"], obs["picks"]):
            labs.append("hist:%s%s" % (o["op"], (":err" if p["r"] == -1 else ":ok") if o["op"] == "pick" else ""))
        return labs
    labs = ["conc:k=%d" % len(case["subset"]), "conc:phases=%d" % len(case["phases"])]
    for ph, o in zip(case["phases"], obs["phases"]):
        labs.append("conc:goroutines=%d" % len(ph["picks"]))
        tr = o["trace"]
        ng = len(ph["picks"])
        first = [s["g"] for s in tr[:ng]]
        if len(set(first)) == ng and ng >= 2:
            labs.append("conc:all-at-map-access-before-any-add")
    return labs


def shrink(case):
    if case["kind"] == "req":
        q = case["reqs"]
        for i in range(len(q)):
            yield dict(case, reqs=q[:i] + q[i + 1:])
    elif case["kind"] == "rr" and case["n"] > 1:
        yield dict(case, n=case["n"] // 2)
        yield dict(case, n=case["n"] - 1)
    elif case["kind"] == "hist":
        ops = case["ops"]
        for i in range(len(ops)):
            yield dict(case, ops=ops[:i] + ops[i + 1:])
    elif case["kind"] == "conc":
        phs = case["phases"]
        for j in range(len(phs)):
            if len(phs) > 1:
                yield dict(case, phases=phs[:j] + phs[j + 1:])
            s = phs[j]["sched"]
            for i in range(len(s)):
                yield dict(case, phases=phs[:j] + [dict(phs[j], sched=s[:i] + s[i + 1:])] + phs[j + 1:])


def neighbours(case, rng):
    for c in shrink(case):
        yield c
    if case["kind"] == "rr":
        yield dict(case, n=case["n"] + 1)
        yield dict(case, n=case["n"] + len(case["ready"]))


def known_match(entry, case, obs, failed):
    return False


LEVEL_TEXT = ("full proof: Coq theorems over every number k of ready endpoints, every N, every start cursor and every "
              "interleaving of any number of concurrent pickers (the atomic add hands out consecutive values: Sched instance), "
              "about a Gallina model of endpointPickStrategy.Pop and the per-ready-list cursors; strict floor/ceil sharing for "
              "explicit subsets, |k*count - N| <= P*(k-1) for P distinct upstream orders otherwise, at most +-1 across the "
              "uint64 wrap; the model is compared with the real Pop of a real ClusterInfo on every run and the executable spec "
              "is evaluated on the observed pick sequences")
LEVEL_NOTE = ("trusted: Coq kernel + vm_compute, the hand-written model (tied by differential run only), the generated "
              "instrumentation of Pop and the cooperative scheduler; modelled not verified: sync.Map operations, the printed "
              "pointer list as cursor key, the order in which AllEndpoints() ranges over the endpoint map (taken as input); no axioms")
TECHNIQUE = ("Coq proof (residue-class counting, potential argument over cursors, Sched.invariant_lifting for concurrent pickers) "
             "+ scheduled replay of real goroutines + differential model/implementation correspondence")
