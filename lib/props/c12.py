"""C12 — authentication and authorization decisions never cross clusters."""
import hashlib
import json

from vf.core import cstr, cZ, cbool, clist, copt, cpair

PID = "C12"
MODULES = ["Prelude", "C12_Model", "C12_Spec", "C12_Check"]
PROPS_MODULE = "C12_Properties"
THEOREMS = ["C12_answer_provenance", "C12_source_meaning", "C12_unavailable_denies", "C12_no_shared_entry", "C12_owner_cache_only",
            "C12_own_cluster", "C12_other_clusters_not_asked", "C12_overlap_commutes",
            "C12_dispatch_cluster_is_review_cluster", "C12_same_cluster_history", "C12_history"]
EVAL = "C12_Check.eval"
CLAUSES = ["agree", "own_cluster", "unavailable_denies", "fresh_answer", "cached_provenance", "same_cluster"]
RULE = ("distinct (configuration, scripts, op list) histories in which the SAME token or the SAME user+attributes is "
        "presented to hosts of at least two different clusters, at least one request is answered without any review "
        "(cache hit) and at least one by a fresh review")
TRUSTED_BASE = [
    "Coq 8.16.1 kernel + vm_compute (case files); no native_compute, no extraction",
    "hand-written model C12_Model.v tied to /repo by the differential run of this check (Go harness harness/c12: real "
    "authenticator/authorizer/manager/ClusterInfo objects, client-go fake clientsets per endpoint)",
    "overlay replacements of two dependency files (k8s.io/apiserver token cache, apimachinery LRUExpireCache) that only "
    "add a settable clock VerifNow and a VerifRemove accessor",
    "modelled not verified: sync.Map, singleflight, hmac key hashing of the token cache, json.Marshal as an injective key, "
    "LRU eviction and cache gc (covered in the theorems by arbitrary OEvict operations), real-time retry back-off "
    "(WithExponentialBackoff: at most 1+3 calls for tokens because of the 2 s deadline, 1+4 for SAR)",
]
ASSUMPTIONS = [
    "requests are processed one at a time, except pairs of overlapping requests for hosts of DIFFERENT clusters (first "
    "request's review held in flight while the second runs); C12_overlap_commutes shows such a pair is equivalent to "
    "either sequential order in the model; overlaps within one cluster (legitimate singleflight sharing) are not generated",
    "the caches' clock is non-decreasing along a history in the correspondence run (the theorems hold for any clock values)",
    "host names, tokens and attribute strings are printable ASCII in the correspondence run (strings.ToLower / json.Marshal "
    "are modelled on ASCII); audiences are not used",
    "server names move between running clusters and clusters are deleted / re-created only through the controller's "
    "AddOrUpdateForServerNames / DeleteForServerNames (driven directly, without informer and queue); a cluster's own name "
    "is registered to it exactly while it exists; a ClusterInfo is stopped before the next one of the same name is created",
    "the TLS server name (SNI) of a connection is not an input of the model: a chain request is dispatched to, and "
    "reviewed by, cluster_of(Host); chain requests use lower-case, non-IP Host values (the factory lower-cases and strips the port)",
    "a server (endpoint URL, with its upstream identity) is in the server list of at most one cluster at a time; "
    "re-homing = removal from one cluster followed by addition to another",
    "a cluster whose ClusterInfo is stopped is replaced by a new ClusterInfo before the next request (ORestart); requests "
    "racing with the cache-dropping goroutine are not modelled",
]
HARNESS_CHUNK = 25
COQ_SHARD = 30

CLUSTERS = ["c1", "c2", "c3"]
TOKENS = ["tok-a", "tok-b", "t"]
TRETRIES, SRETRIES = 3, 4


def A(user="alice", uid="", groups=("dev",), isres=True, ns="default", verb="get", group="", version="v1",
      resource="pods", subres="", name="p", path=""):
    return {"user": user, "uid": uid, "groups": list(groups), "isres": isres, "ns": ns, "verb": verb, "group": group,
            "version": version, "resource": resource, "subres": subres, "name": name, "path": path}


def IMP(user="alice", target="admin", groups=("dev",)):
    """attributes the impersonation filter builds for `Impersonate-User: target` sent by `user`"""
    return A(user=user, groups=groups, verb="impersonate", resource="users", ns="", name=target, version="", group="")


ATTRS = [
    A(),
    A(path="/ignored-for-resource-requests"),            # same cache key as A()
    A(verb="list", name=""),
    A(user="bob", groups=()),
    A(isres=False, path="/healthz", ns="", resource="", name="", version=""),
    A(isres=False, path="/healthz", ns="ignored", resource="ignored", name="x", version=""),  # same key as previous
    IMP(),                                                                           # permission to impersonate
    A(verb="impersonate", resource="groups", ns="", name="system:masters", version="v1"),
    A(user="alice", uid="42"),
    A(groups=("dev", "ops")),
]


def tauth(c, who="alice"):
    return {"k": "auth", "name": "%s@%s" % (who, c), "uid": "u-" + c}


def sstatus(c, allowed, denied=False):
    return {"k": "status", "allowed": allowed, "denied": denied,
            "reason": "%s@%s" % ("ok" if allowed and not denied else "no", c)}


def srv(c, i):
    """name of the i-th initial server of cluster c"""
    return "%ss%d" % (c, i)


def base_cfg(reg, neps, sttl=100, fttl=10, attl=100, dttl=10):
    """neps: cluster -> number of initial servers (named <c>s0, <c>s1, ...)"""
    return {"reg": [list(p) for p in reg],
            "servers": [{"c": c, "s": [srv(c, i) for i in range(n)]} for c, n in sorted(dict(neps).items())],
            "sttl": sttl, "fttl": fttl, "attl": attl, "dttl": dttl}


def authn(h, tok, now, hvia="direct"):
    return {"op": "authn", "host": h, "hvia": hvia, "tok": tok, "now": now}


def overlapt(ha, hb, tok, now):
    return {"op": "overlapt", "host": ha, "host2": hb, "hvia": "direct", "tok": tok, "now": now}


def overlaps(ha, hb, a, now, avia=""):
    return {"op": "overlaps", "host": ha, "host2": hb, "hvia": "direct", "avia": avia, "attrs": a, "now": now}


def authz(h, a, now, hvia="direct", avia=""):
    return {"op": "authz", "host": h, "hvia": hvia, "avia": avia, "attrs": a, "now": now}



def healthy(c, i, b=True):
    return {"op": "healthy", "srv": srv(c, i), "b": b}


def disabled(c, i, b=True):
    return {"op": "disabled", "srv": srv(c, i), "b": b}


def healthy_srv(s, b=True):
    return {"op": "healthy", "srv": s, "b": b}


def chain(h, tok, now, imp=None, sni=None, port=False):
    """a request through the proxy handler chain; sni = TLS server name of its connection (None: no TLS)"""
    return {"op": "chain", "host": h, "tok": tok, "imp": imp, "sni": sni, "port": port, "now": now}


def addep(c, s):
    return {"op": "addep", "c": c, "srv": s}


def removeep(c, s):
    return {"op": "removeep", "c": c, "srv": s}


def name(c, h):
    """cluster c's object gains server name h (controller: AddOrUpdateForServerNames -> AddWithKey)"""
    return {"op": "name", "c": c, "host": h}


def unname(c, h):
    """cluster c's object loses server name h (controller: AddOrUpdateForServerNames -> Delete, c keeps running)"""
    return {"op": "unname", "c": c, "host": h}


def move(h, x, y):
    return [unname(x, h), name(y, h)]


def delete(c):
    return {"op": "delete", "c": c}


def recreate(c):
    return {"op": "recreate", "c": c}


def corpus():
    cs = []
    reg = [("c1", "c1"), ("c2", "c2"), ("alias1", "c1")]
    neps = {"c1": 2, "c2": 1}
    up = [healthy("c1", 0), healthy("c1", 1), healthy("c2", 0)]
    # 1. the documented shape: same token / same attributes alternating between two clusters that answer differently
    cs.append({"cfg": base_cfg(reg, neps), "via": "token",
               "tscript": {"c1": [tauth("c1")] * 3, "c2": [{"k": "unauth"}, tauth("c2", "mallory")]},
               "sscript": {"c1": [sstatus("c1", True)] * 3, "c2": [sstatus("c2", False, True), sstatus("c2", False)]},
               "ops": up + [authn("c1", "tok-a", 0, "factoryport"), authn("c2", "tok-a", 1, "factory"),
                            authn("c1", "tok-a", 2), authn("c2", "tok-a", 3), authn("C1", "tok-a", 4),
                            authn("alias1", "tok-a", 5), authn("c2", "tok-a", 11), authn("c2", "tok-a", 12),
                            authz("c1", ATTRS[0], 20), authz("c2", ATTRS[0], 21), authz("c1", ATTRS[1], 22),
                            authz("c2", ATTRS[0], 31), authz("c2", ATTRS[0], 32), authz("alias1", ATTRS[0], 33),
                            authz("c1", IMP(), 34, avia="impersonate"), authz("c2", IMP(), 35, "factoryport", "impersonate"),
                            authz("c1", IMP(), 36), authz("c2", IMP(), 37, avia="impersonate"),
                            authz("C2", IMP(), 38, avia="impersonate"), authz("nowhere", IMP(), 39, avia="impersonate")]})
    # 2. same through the request authenticator chain (bearertoken + union + group adder)
    cs.append(dict(cs[0], via="request"))
    # 3. unavailable clusters while ANOTHER cluster holds a valid cached positive answer for the same key
    cs.append({"cfg": base_cfg(reg, neps), "via": "token",
               "tscript": {"c1": [tauth("c1")] * 4, "c2": [tauth("c2")] * 4},
               "sscript": {"c1": [sstatus("c1", True)] * 4, "c2": [sstatus("c2", True)] * 4},
               "ops": [healthy("c1", 0), authn("c1", "t", 0), authz("c1", ATTRS[0], 0),
                       authn("c2", "t", 1), authz("c2", ATTRS[0], 1),              # c2 has no ready endpoint
                       authn("nowhere", "t", 2), authz("nowhere", ATTRS[0], 2),    # unknown host
                       authn(None, "t", 3), authz(None, ATTRS[0], 3),              # no ExtraRequestInfo
                       healthy("c2", 0), authn("c2", "t", 4), authz("c2", ATTRS[0], 4),
                       disabled("c2", 0), authn("c2", "t", 5), authz("c2", ATTRS[0], 5),   # cached but disabled
                       disabled("c2", 0, False), healthy("c2", 0, False), authn("c2", "t", 6), authz("c2", ATTRS[0], 6),
                       healthy("c2", 0), authn("c2", "t", 7), authz("c2", ATTRS[0], 7),
                       healthy("c1", 0, False), authn("c1", "t", 8), authz("alias1", ATTRS[0], 8),
                       healthy("c1", 1), authn("c1", "t", 9), authz("alias1", ATTRS[0], 9)]})
    # 4. TTL boundaries: token entry valid while now < expiry, SAR entry while now <= expiry; failure / deny TTLs
    cs.append({"cfg": base_cfg(reg, neps, sttl=10, fttl=5, attl=10, dttl=5), "via": "token",
               "tscript": {"c1": [tauth("c1"), tauth("c1", "second"), {"k": "unauth"}, tauth("c1", "third")],
                           "c2": [{"k": "unauth"}, {"k": "unauthmsg", "tag": 5}, {"k": "fail", "tag": 6}, tauth("c2")]},
               "sscript": {"c1": [sstatus("c1", True), sstatus("c1", False), sstatus("c1", True, True), sstatus("c1", True)],
                           "c2": [sstatus("c2", False), {"k": "fail", "tag": 8}, sstatus("c2", False, True)]},
               "ops": up + [authn("c1", "t", 0), authn("c1", "t", 9), authn("c1", "t", 10), authn("c1", "t", 19),
                            authn("c1", "t", 20), authn("c1", "t", 24), authn("c1", "t", 25),
                            authn("c2", "t", 0), authn("c2", "t", 4), authn("c2", "t", 5), authn("c2", "t", 6),
                            authn("c2", "t", 7), authn("c2", "t", 8),
                            authz("c1", ATTRS[0], 0), authz("c1", ATTRS[0], 10), authz("c1", ATTRS[0], 11),
                            authz("c1", ATTRS[0], 16), authz("c1", ATTRS[0], 17), authz("c1", ATTRS[0], 27), authz("c1", ATTRS[0], 28),
                            authz("c2", ATTRS[0], 0), authz("c2", ATTRS[0], 5), authz("c2", ATTRS[0], 6), authz("c2", ATTRS[0], 7),
                            authz("c2", ATTRS[0], 8)]})
    # 5. TTL 0 on both sides (token cache bypassed; SAR entries live for the instant they were stored), mixed zero, negative
    for (s, f, a, d) in ((0, 0, 0, 0), (0, 10, 0, 10), (10, 0, 10, 0), (-5, -5, -5, -5)):
        cs.append({"cfg": base_cfg(reg, neps, sttl=s, fttl=f, attl=a, dttl=d), "via": "token",
                   "tscript": {"c1": [tauth("c1"), {"k": "unauth"}] * 4, "c2": [{"k": "unauth"}, tauth("c2")] * 4},
                   "sscript": {"c1": [sstatus("c1", True), sstatus("c1", False)] * 4,
                               "c2": [sstatus("c2", False), sstatus("c2", True)] * 4},
                   "ops": up + [authn("c1", "t", 0), authn("c1", "t", 0), authn("c2", "t", 0), authn("c2", "t", 1),
                                authn("c1", "t", 1), authn("c1", "t", 2), authn("c2", "t", 2), authn("c2", "t", 20),
                                authz("c1", ATTRS[0], 0), authz("c1", ATTRS[0], 0), authz("c2", ATTRS[0], 0),
                                authz("c2", ATTRS[0], 0), authz("c1", ATTRS[0], 1), authz("c1", ATTRS[0], 1),
                                authz("c2", ATTRS[0], 1), authz("c2", ATTRS[0], 20)]})
    # 6. a cluster is stopped and replaced: its hosts' caches are dropped, other clusters' caches stay
    cs.append({"cfg": base_cfg(reg, neps, sttl=1000, fttl=1000, attl=1000, dttl=1000), "via": "token",
               "tscript": {"c1": [tauth("c1", "one"), tauth("c1", "two"), tauth("c1", "three"), tauth("c1", "four")],
                           "c2": [tauth("c2", "one"), tauth("c2", "two")]},
               "sscript": {"c1": [sstatus("c1", True), sstatus("c1", False), sstatus("c1", True), sstatus("c1", False)],
                           "c2": [sstatus("c2", True), sstatus("c2", False)]},
               "ops": up + [authn("c1", "t", 0), authn("alias1", "t", 0), authn("c2", "t", 0),
                            authz("c1", ATTRS[0], 0), authz("alias1", ATTRS[0], 0), authz("c2", ATTRS[0], 0),
                            {"op": "restart", "c": "c1"},
                            authn("c1", "t", 1), authz("c1", ATTRS[0], 1), healthy("c1", 0),
                            authn("c1", "t", 2), authn("alias1", "t", 2), authn("c2", "t", 2),
                            authz("c1", ATTRS[0], 2), authz("alias1", ATTRS[0], 2), authz("c2", ATTRS[0], 2)]})
    # 7. evictions (LRU / gc) and attributes too large to be cached (shouldCache)
    big = A(name="n" * 10000)
    cs.append({"cfg": base_cfg(reg, neps, sttl=1000, fttl=1000, attl=1000, dttl=1000), "via": "token",
               "tscript": {"c1": [tauth("c1", "one"), tauth("c1", "two"), tauth("c1", "three")], "c2": [tauth("c2")] * 3},
               "sscript": {"c1": [sstatus("c1", True), sstatus("c1", False), sstatus("c1", True), sstatus("c1", False)],
                           "c2": [sstatus("c2", True)] * 3},
               "ops": up + [authn("c1", "t", 0), authn("c2", "t", 0), authz("c1", ATTRS[0], 0), authz("c2", ATTRS[0], 0),
                            {"op": "evictt", "host": "c1", "tok": "t"}, {"op": "evicts", "host": "c1", "attrs": ATTRS[1]},
                            {"op": "evictt", "host": "c3", "tok": "t"}, {"op": "evicts", "host": "alias1", "attrs": ATTRS[0]},
                            authn("c1", "t", 1), authn("c2", "t", 1), authz("c1", ATTRS[0], 1), authz("c2", ATTRS[0], 1),
                            authz("c1", big, 2), authz("c1", big, 3)]})
    # 8. retried failures (real back-off sleeps: 0.5 s, 0.75 s, ...): every retry goes to the same cluster
    cs.append({"cfg": base_cfg(reg, neps), "via": "token",
               "tscript": {"c1": [{"k": "fail", "tag": 1, "retry": True}, tauth("c1")], "c2": [tauth("c2")]},
               "sscript": {"c1": [sstatus("c1", True)], "c2": [{"k": "fail", "tag": 2, "retry": True}, sstatus("c2", False)]},
               "ops": up + [authn("c1", "t", 0), authn("c2", "t", 0), authz("c2", ATTRS[0], 0), authz("c1", ATTRS[0], 0)]})
    cs.append({"cfg": base_cfg(reg, neps), "via": "token",
               "tscript": {"c1": [{"k": "fail", "tag": i, "retry": True} for i in range(1, 7)], "c2": [tauth("c2")]},
               "sscript": {}, "ops": up + [authn("c1", "t", 0), authn("c2", "t", 1)]})
    cs.append({"cfg": base_cfg(reg, neps), "via": "token", "tscript": {},
               "sscript": {"c2": [{"k": "fail", "tag": i, "retry": True} for i in range(1, 8)], "c1": [sstatus("c1", True)]},
               "ops": up + [authz("c2", ATTRS[0], 0), authz("c1", ATTRS[0], 1)]})
    # 9. OVERLAPPING requests: the same token / the same attributes for a host of another cluster while the first
    #    cluster's review is still in flight; then later sequential requests to the second host (a wrongly shared
    #    answer would have been stored in its cache)
    long = dict(sttl=1000, fttl=1000, attl=1000, dttl=1000)
    cs.append({"cfg": base_cfg(reg, neps, **long), "via": "token",
               "tscript": {"c1": [tauth("c1")] * 3, "c2": [{"k": "unauth"}, tauth("c2", "mallory")]},
               "sscript": {"c1": [sstatus("c1", True)] * 3, "c2": [sstatus("c2", False, True), sstatus("c2", False)]},
               "ops": up + [overlaps("c1", "c2", IMP(), 0), authz("c2", IMP(), 1), authz("c1", IMP(), 1),
                            overlapt("c1", "c2", "t", 2), authn("c2", "t", 3), authn("c1", "t", 3),
                            overlaps("c2", "alias1", ATTRS[0], 4, ), authz("alias1", ATTRS[0], 5), authz("c2", ATTRS[0], 5)]})
    # the deny direction, through the impersonation filter, and through the request chain
    cs.append({"cfg": base_cfg(reg, neps, **long), "via": "request",
               "tscript": {"c1": [{"k": "unauth"}, tauth("c1")], "c2": [tauth("c2", "root")] * 2},
               "sscript": {"c1": [sstatus("c1", False, True)] * 2, "c2": [sstatus("c2", True)] * 2},
               "ops": up + [overlaps("c1", "c2", IMP(), 0, "impersonate"), authz("c2", IMP(), 1, avia="impersonate"),
                            overlapt("c1", "c2", "t", 2), authn("c2", "t", 3), authn("c1", "t", 3)]})
    # first request needs no review (cache hit / refused), second unavailable, short TTLs, an error held in flight
    cs.append({"cfg": base_cfg(reg, neps), "via": "token",
               "tscript": {"c1": [tauth("c1"), {"k": "fail", "tag": 3}], "c2": [tauth("c2")] * 3},
               "sscript": {"c1": [sstatus("c1", True), {"k": "fail", "tag": 4}], "c2": [sstatus("c2", False)] * 3},
               "ops": up + [authn("c1", "t", 0), overlapt("c1", "c2", "t", 1), overlapt("nowhere", "c2", "t", 2),
                            authz("c1", ATTRS[0], 0), overlaps("c1", "c2", ATTRS[0], 1), overlaps(None, "c2", ATTRS[0], 2),
                            disabled("c2", 0), overlapt("alias1", "c2", "t2", 3), overlaps("alias1", "c2", ATTRS[2], 3),
                            disabled("c2", 0, False), overlapt("c1", "c2", "t3", 200), overlaps("c1", "c2", ATTRS[3], 200),
                            authn("c2", "t3", 201), authz("c2", ATTRS[3], 201)]})
    # 10. SERVER LISTS change (ClusterInfo.Sync): a server is removed from c1 and re-homed to c2 while healthy; reviews
    #     that miss the caches (new tokens / attributes, TTL 0) must go to a CURRENT ready endpoint of the host's cluster
    for ttls in (dict(sttl=0, fttl=0, attl=0, dttl=0), dict(sttl=1000, fttl=1000, attl=1000, dttl=1000)):
        cs.append({"cfg": base_cfg(reg, neps, **ttls), "via": "token",
                   "tscript": {"c1": [tauth("c1")] * 8, "c2": [tauth("c2", "root")] * 8},
                   "sscript": {"c1": [sstatus("c1", False, True)] * 8, "c2": [sstatus("c2", True)] * 8},
                   "ops": [healthy("c1", 0), healthy("c2", 0),
                           authn("c1", "t1", 0), authz("c1", IMP(), 0), authn("c2", "t1", 0),
                           removeep("c1", "c1s0"), authn("c1", "t2", 1), authz("c1", ATTRS[0], 1),     # c1s1 not healthy yet
                           addep("c2", "c1s0"), healthy_srv("c1s0"),                                   # re-homed to c2
                           authn("c1", "t3", 2), authz("c1", ATTRS[2], 2), authn("c2", "t3", 2),
                           healthy("c1", 1), authn("c1", "t4", 3), authz("c1", ATTRS[3], 3), authz("c1", IMP(), 3, avia="impersonate"),
                           authn("c2", "t4", 3), authn("c2", "t5", 4), authz("c2", ATTRS[3], 4),
                           removeep("c2", "c2s0"), authn("c2", "t6", 5), authz("c2", ATTRS[4], 5),     # c2 served by the re-homed server
                           removeep("c2", "c1s0"), authn("c2", "t7", 6), authz("c2", ATTRS[8], 6),     # c2 has no server left
                           addep("c1", "c1s0"), addep("c1", "c1s0"), addep("c2", "c1s1"), removeep("c2", "c1s1"),  # no-ops: owned elsewhere
                           authn("c1", "t8", 7), healthy_srv("c1s0"), healthy("c1", 1, False), authn("c1", "t9", 8),
                           addep("c2", "spare"), healthy_srv("spare"), authn("c2", "t9", 9), authz("c2", ATTRS[9], 9)]})
    # 11. requests through the PROXY CHAIN (ExtraRequestInfo -> WithUpstreamInfo -> bearer authentication -> impersonation
    #     filter -> dispatcher): the cluster whose reviews decide the request must be the cluster it is dispatched to,
    #     whatever the TLS server name of the connection says (same / another cluster / alias / unknown / empty / no TLS)
    for ttls in (dict(sttl=0, fttl=0, attl=0, dttl=0), dict(sttl=1000, fttl=1000, attl=1000, dttl=1000)):
        cs.append({"cfg": base_cfg(reg, neps, **ttls), "via": "request",
                   "tscript": {"c1": [tauth("c1")] * 12, "c2": [{"k": "unauth"}] * 3 + [tauth("c2", "root")] * 9},
                   "sscript": {"c1": [sstatus("c1", True)] * 12, "c2": [sstatus("c2", False, True)] * 12},
                   "ops": up + [chain("c1", "t", 0, sni="c1"), chain("c1", "t", 1, sni="c2"), chain("c1", "t", 2, "admin", sni="c2"),
                                chain("c1", "t", 3, "admin", sni="c1", port=True), chain("alias1", "t", 4, "admin", sni="c2"),
                                chain("c2", "t", 5, sni="c1"), chain("c2", "t", 6, "admin", sni="c1"), chain("c2", "t", 7, sni="alias1"),
                                chain("c2", "t", 8, sni=None), chain("c2", "t", 9, "admin", sni=""), chain("c2", "t", 10, "admin", sni="lb.example"),
                                chain("nowhere", "t", 11, sni="c1"), chain("nowhere", "t", 12, "admin", sni="c2"),
                                disabled("c2", 0), chain("c2", "t2", 13, sni="c1"), chain("c1", "t2", 14, "admin", sni="c2"),
                                authn("c1", "t", 15), authz("c2", IMP("root@c2"), 15)]})
    # 12. SERVER NAMES MOVE between running clusters; clusters are deleted and created again (the controller's
    #     AddOrUpdateForServerNames / DeleteForServerNames).  An answer may be applied to a request for h only if it
    #     was given by the cluster that owns h NOW (this incarnation).
    #     H1: c1 {alias h, allows}, c2 {denies}; request via h -> c1 asked; h moves c1 -> c2; same request -> c2 must be asked
    #     H2: move, advance past the TTL, request (c2 asked, cached), delete c2, re-create c2, request via h -> the new c2 asked
    regh = [("c1", "c1"), ("c2", "c2"), ("h", "c1")]
    for via in ("token", "request"):
        cs.append({"cfg": base_cfg(regh, neps, sttl=100, fttl=100, attl=100, dttl=100), "via": via,
                   "tscript": {"c1": [tauth("c1")] * 4, "c2": [{"k": "unauth"}, tauth("c2", "root"), {"k": "unauth"}, tauth("c2", "third")]},
                   "sscript": {"c1": [sstatus("c1", True)] * 6, "c2": [sstatus("c2", False, True), sstatus("c2", False), sstatus("c2", False, True),
                                                                      sstatus("c2", False), sstatus("c2", False, True), sstatus("c2", False)]},
                   "ops": up + [authn("h", "t", 0), authz("h", ATTRS[0], 0), authz("h", IMP(), 0, avia="impersonate"),          # c1 asked
                                authn("h", "t", 1), authz("h", ATTRS[0], 1), authz("h", IMP(), 1, avia="impersonate")]          # c1's cache
                          + move("h", "c1", "c2") +
                               [authn("h", "t", 2), authz("h", ATTRS[0], 2), authz("h", IMP(), 2, avia="impersonate"),          # H1: c2 asked
                                authn("h", "t", 3), authz("h", ATTRS[0], 3),                                                    # c2's cache
                                authn("c1", "t", 3), authz("c1", ATTRS[0], 3)]                                                  # c1's own name: own cache
                          + move("h", "c2", "c1") + [authn("h", "t", 4), authz("h", ATTRS[0], 4)]                               # back: c1's entries, same incarnation
                          + move("h", "c1", "c2") +
                               [authn("h", "t", 200), authz("h", ATTRS[0], 200), authz("h", IMP(), 200, avia="impersonate"),    # H2: past TTL: c2 asked, cached
                                authn("h", "t", 201), delete("c2"), authn("h", "t", 202), authz("c2", ATTRS[0], 202),           # nobody serves h / c2
                                recreate("c2"), name("c2", "h"), authn("h", "t", 203), healthy("c2", 0),
                                authn("h", "t", 204), authz("h", ATTRS[0], 204), authz("h", IMP(), 204, avia="impersonate"),    # the new c2 asked
                                chain("h", "t", 205, "admin", sni="c1"), chain("c2", "t", 206, sni="h"),
                                name("c1", "h"), unname("c1", "h"), unname("c2", "c2"), recreate("c1"), name("c9", "x"),        # no-ops
                                delete("c1"), name("c2", "c1"), recreate("c1"), authn("c1", "t", 207), authz("c1", ATTRS[0], 207),   # c1's name taken over by c2
                                unname("c2", "c1"), recreate("c1"), healthy("c1", 0), authn("c1", "t", 208), authz("C1", ATTRS[0], 208)]})
    return cs


class RegSim:
    """the generator's copy of the registry semantics (C12_Model.ep_apply), used only to pick overlap partners of
    different clusters and sensible move / delete / re-create operations; the model decides what happens"""

    def __init__(self, reg):
        self.reg = {}
        for k, v in reg:
            self.reg.setdefault(k, v)

    def of(self, h):
        return None if h is None else self.reg.get(h.lower())

    def live(self, c):
        return self.reg.get(c) == c

    def apply(self, o):
        k = o["op"]
        if k == "name":
            h = o["host"].lower()
            if self.live(o["c"]) and self.reg.get(h) is None:
                self.reg[h] = o["c"]
        elif k == "unname":
            h = o["host"].lower()
            if h != o["c"] and self.reg.get(h) == o["c"]:
                self.reg[h] = None
        elif k == "delete":
            if self.live(o["c"]):
                for h in list(self.reg):
                    if self.reg[h] == o["c"]:
                        self.reg[h] = None
        elif k == "recreate":
            if self.reg.get(o["c"]) is None:
                self.reg[o["c"]] = o["c"]


# ------------------------------------------------------------------ generated stream
def gen_case(rng, tier):
    ncl = rng.choice([2, 2, 2, 3])
    cls = CLUSTERS[:ncl]
    reg = [(c, c) for c in cls]
    for k in range(rng.below(3)):
        reg.append(("alias%d" % k, rng.choice(cls)))
    if rng.chance(1, 8):
        reg += [("c9", "c9"), ("orphan", "c9")]    # a cluster (and a server name of it) without any endpoint
    neps = {c: rng.choice([1, 1, 2, 2, 3]) for c in cls}
    if rng.chance(1, 10):
        neps[rng.choice(cls)] = 0
    ttl = lambda: rng.choice([0, 5, 5, 20, 20, 1000, 1000, 1000, 1000, -5])
    if rng.chance(1, 8):
        cfg = base_cfg(reg, neps, 0, 0, ttl(), ttl())
    else:
        cfg = base_cfg(reg, neps, ttl(), ttl(), ttl(), ttl())
    hosts = [k for k, _ in reg]
    toks = rng.sample(TOKENS, rng.choice([1, 1, 1, 2]))
    attrs = rng.sample(ATTRS, rng.choice([1, 1, 2, 2, 3]))
    nops = rng.randint(8, 40)
    # scripts: per cluster, its own flavour of answers; sometimes identical across clusters
    same = rng.chance(1, 5)
    tscript, sscript = {}, {}
    for c in set(v for _, v in reg):
        tag = "c1" if same else c
        tl, sl = [], []
        for i in range(nops):
            k = rng.below(100)
            if k < 50:
                tl.append(tauth(tag, rng.choice(["alice", "alice", "bob"])))
            elif k < 75:
                tl.append({"k": "unauth"})
            elif k < 85:
                tl.append({"k": "unauthmsg", "tag": rng.randint(1, 50)})
            else:
                tl.append({"k": "fail", "tag": rng.randint(1, 50), "retry": tier != "quick" and rng.chance(1, 40)})
            k = rng.below(100)
            if k < 45:
                sl.append(sstatus(tag, True))
            elif k < 65:
                sl.append(sstatus(tag, False, True))
            elif k < 80:
                sl.append(sstatus(tag, False))
            elif k < 85:
                sl.append(sstatus(tag, True, True))
            else:
                sl.append({"k": "fail", "tag": rng.randint(1, 50), "retry": tier != "quick" and rng.chance(1, 40)})
        # a cluster sees about nops/(2*ncl) reviews of each kind; sometimes the script runs out (default: failure 0)
        tscript[c], sscript[c] = tl[:rng.randint(nops // 5, nops // 2 + 2)], sl[:rng.randint(nops // 5, nops // 2 + 2)]
    ops = []
    # most endpoints healthy at the start
    for c in cls:
        for i in range(neps[c]):
            if rng.chance(9, 10):
                ops.append(healthy(c, i))
    with_moves = rng.chance(1, 4)
    if with_moves:
        hosts = hosts + ["vanity"]
    sim = RegSim(reg)
    with_overlap = rng.chance(1, 8)
    with_chain = rng.chance(1, 5)
    with_lists = rng.chance(1, 4)
    lists = {c: [srv(c, i) for i in range(neps[c])] for c in cls}
    free = ["spare0", "spare1"]
    fresh_tok = [0]
    now = 0
    steps = [0, 0, 1, 1, 1, 1, 2, 2, 3, 4, 5, 6, 19, 20, 21] + ([999, 1000, 1001] if rng.chance(1, 4) else [])
    for _ in range(nops):
        k = rng.below(100)
        now += rng.choice(steps)
        if k < 80:
            r = rng.below(100)
            if r < 84:
                h = rng.choice(hosts)
            elif r < 91:
                h = rng.choice(hosts).upper()
            elif r < 96:
                h = rng.choice(["nowhere", "c1.example.com", ""])
            else:
                h = None
            hvia = "direct"
            if h is not None and h == h.lower() and h != "" and rng.chance(1, 3):
                hvia = rng.choice(["factory", "factoryport"])
            h2 = None
            if with_chain and rng.chance(1, 2):
                lows = [x for x in hosts if x == x.lower()]
                hc = rng.choice(lows + ["nowhere"]) if lows else "nowhere"
                others = [x for x in lows if _cluster_of(cfg, x) != _cluster_of(cfg, hc)]
                r2 = rng.below(10)
                sni = (hc if r2 < 2 else rng.choice(others) if r2 < 6 and others else rng.choice(lows) if r2 < 7 and lows
                       else "lb.example" if r2 < 8 else "" if r2 < 9 else None)
                ops.append(chain(hc, rng.choice(toks), now, rng.choice([None, "admin", "admin"]), sni, rng.chance(1, 3)))
                continue
            if with_overlap and rng.chance(1, 4):
                # a second host of ANOTHER cluster (or of none) for an overlapping request with the same key
                others = [x for x in hosts + ["nowhere"]
                          if x != h and (sim.of(x) != sim.of(h) or sim.of(x) is None)]
                h2 = rng.choice(others) if others else None
            if h2 is not None:
                if rng.chance(1, 2):
                    ops.append(overlapt(h, h2, rng.choice(toks), now))
                else:
                    a = rng.choice(attrs)
                    ops.append(overlaps(h, h2, a, now, "impersonate" if a == IMP() and h is not None and rng.chance(1, 2) else ""))
            elif rng.chance(1, 2):
                tok = rng.choice(toks)
                if with_lists and rng.chance(1, 2):     # a token nobody has seen: the review cannot be served from a cache
                    fresh_tok[0] += 1
                    tok = "fresh-%d" % fresh_tok[0]
                ops.append(authn(h, tok, now, hvia))
            else:
                a = rng.choice(attrs)
                # the impersonation filter needs an ExtraRequestInfo-independent route: it only runs with a host context or without
                ops.append(authz(h, a, now, hvia, "impersonate" if a == IMP() and rng.chance(2, 3) else ""))
        elif k < 84:
            c = rng.choice(cls)
            ops.append(healthy(c, rng.below(max(1, neps[c]) + 1), rng.chance(1, 2)))
        elif k < 88:
            c = rng.choice(cls)
            ops.append(disabled(c, rng.below(max(1, neps[c]) + 1), rng.chance(1, 2)))
        elif k < 92:
            c = rng.choice(cls)
            ops.append({"op": "restart", "c": c})
            if rng.chance(3, 4) and lists[c]:
                ops.append(healthy_srv(rng.choice(lists[c])))
        elif with_moves and k < 96 and (not with_lists or rng.chance(1, 2)):
            # server names move between running clusters; clusters are deleted and created again
            r = rng.below(10)
            alive = [c for c in cls if sim.live(c)]
            dead = [c for c in cls if not sim.live(c)]
            movable = [h for h in sorted(sim.reg) if h not in cls] + ["vanity"]
            new = []
            if r < 4 and alive:
                h = rng.choice(movable)
                x, y = sim.of(h), rng.choice(alive)
                new = move(h, x, y) if x else [name(y, h)]
            elif r < 5:
                h = rng.choice(movable)
                new = [unname(sim.of(h) or rng.choice(cls), h)]
            elif r < 6:
                new = [name(rng.choice(cls), rng.choice(movable + cls))]                 # mostly rejected: the name is taken
            elif r < 8 and alive:
                new = [delete(rng.choice(alive))]
            elif dead:
                c = rng.choice(dead)
                new = [recreate(c)]
                if lists[c]:
                    new.append(healthy_srv(rng.choice(lists[c])))
                if rng.chance(1, 2):
                    new.append(name(c, rng.choice(movable)))
            else:
                new = [recreate(rng.choice(cls))]                                       # no-op: it is alive
            for o in new:
                sim.apply(o)
            ops.extend(new)
        elif with_lists and k < 96:
            # the clusters' server lists change: remove / add / re-home (remove from one cluster, add to another)
            owned = [(c, s) for c in cls for s in lists[c]]
            r = rng.below(10)
            if r < 3 and owned:
                c, s = rng.choice(owned)
                ops.append(removeep(c, s))
                lists[c].remove(s)
                free.append(s)
            elif r < 6 and free:
                c, s = rng.choice(cls), rng.choice(free)
                ops.append(addep(c, s))
                free.remove(s)
                lists[c].append(s)
                if rng.chance(4, 5):
                    ops.append(healthy_srv(s))
            elif r < 9 and owned:
                c, s = rng.choice(owned)
                c2 = rng.choice([x for x in cls if x != c])
                ops.append(removeep(c, s))
                ops.append(addep(c2, s))
                lists[c].remove(s)
                lists[c2].append(s)
                if rng.chance(4, 5):
                    ops.append(healthy_srv(s))
            else:  # a no-op by construction: wrong owner / already owned
                c = rng.choice(cls)
                s = rng.choice([x for _, x in owned] + free + ["ghost"])
                ops.append(rng.choice([addep, removeep])(rng.choice([x for x in cls if s not in lists[x]] or cls), s)
                           if s not in free else removeep(c, s))
        elif k < 96:
            ops.append({"op": "evictt", "host": rng.choice(hosts), "tok": rng.choice(toks)})
        else:
            ops.append({"op": "evicts", "host": rng.choice(hosts), "attrs": rng.choice(attrs)})
    return {"cfg": cfg, "via": rng.choice(["token", "token", "request"]), "tscript": tscript, "sscript": sscript, "ops": ops}


def gen_boundary(rng):
    """Malformed / boundary stream: empty scripts, empty registry, no endpoints, all requests without host info."""
    k = rng.below(4)
    ops = [healthy("c1", 0)]
    now = 0
    for _ in range(rng.randint(3, 10)):
        now += rng.choice([0, 1, 5])
        h = rng.choice(["c1", "c2", "", None, "C1", "c1:6443", " c1"])
        # (an empty bearer token never reaches the token authenticator in the request chain: via=token only)
        ops.append(authn(h, rng.choice(["t", "t"] if k == 1 else ["", "t"]), now) if rng.chance(1, 2)
                   else authz(h, rng.choice(ATTRS), now))
    if k == 0:
        return {"cfg": base_cfg([], {}), "via": "token", "tscript": {}, "sscript": {}, "ops": ops}
    if k == 1:
        return {"cfg": base_cfg([("c1", "c1"), ("c2", "c2")], {"c1": 0, "c2": 0}), "via": "request", "tscript": {}, "sscript": {}, "ops": ops}
    if k == 2:
        return {"cfg": base_cfg([("c1", "c1"), ("c2", "c1")], {"c1": 1}), "via": "token", "tscript": {}, "sscript": {}, "ops": ops}
    return {"cfg": base_cfg([("c1", "c1"), ("c2", "c2")], {"c1": 1, "c2": 1}, 5, 5, 5, 5), "via": "token",
            "tscript": {"c1": [tauth("c1")], "c2": []}, "sscript": {"c1": [], "c2": [sstatus("c2", True)]},
            "ops": [healthy("c2", 0)] + ops}


def generate(rng, tier, scale=1):
    n, nb = (225, 20) if tier == "quick" else (3000, 200)
    return [gen_case(rng, tier) for _ in range(n * scale)] + [gen_boundary(rng) for _ in range(nb * scale)]


# ------------------------------------------------------------------ Coq printing
def coq_attrs(a):
    return ("{| a_user := %s; a_uid := %s; a_groups := %s; a_isres := %s; a_ns := %s; a_verb := %s; a_group := %s; "
            "a_version := %s; a_resource := %s; a_subres := %s; a_name := %s; a_path := %s |}" %
            (cstr(a["user"]), cstr(a["uid"]), clist([cstr(g) for g in a["groups"]]), cbool(a["isres"]), cstr(a["ns"]),
             cstr(a["verb"]), cstr(a["group"]), cstr(a["version"]), cstr(a["resource"]), cstr(a["subres"]),
             cstr(a["name"]), cstr(a["path"])))


def model_host(o):
    h = o.get("host")
    return h


def coq_op(o, names=None):
    """names: dict attrs-json -> let-bound Coq identifier (keeps the case terms small)"""
    k = o["op"]
    ca = (lambda a: names[json.dumps(a, sort_keys=True)]) if names is not None else coq_attrs
    if k == "authn":
        return "(OAuthn %s %s %s)" % (copt(model_host(o), cstr), cstr(o["tok"]), cZ(o["now"]))
    if k == "authz":
        return "(OAuthz %s %s %s)" % (copt(model_host(o), cstr), ca(o["attrs"]), cZ(o["now"]))
    if k == "healthy":
        return "(OHealthy %s %s)" % (cstr(o["srv"]), cbool(o["b"]))
    if k == "disabled":
        return "(ODisabled %s %s)" % (cstr(o["srv"]), cbool(o["b"]))
    if k == "chain":
        return "(Chain %s %s %s %s)" % (cstr(o["host"]), cstr(o["tok"]), copt(o.get("imp"), cstr), cZ(o["now"]))
    if k == "addep":
        return "(OAddEp %s %s)" % (cstr(o["c"]), cstr(o["srv"]))
    if k == "removeep":
        return "(ORemoveEp %s %s)" % (cstr(o["c"]), cstr(o["srv"]))
    if k == "restart":
        return "(ORestart %s)" % cstr(o["c"])
    if k == "delete":
        return "(ODelete %s)" % cstr(o["c"])
    if k == "recreate":
        return "(ORecreate %s)" % cstr(o["c"])
    if k == "name":
        return "(OName %s %s)" % (cstr(o["c"]), cstr(o["host"]))
    if k == "unname":
        return "(OUnname %s %s)" % (cstr(o["c"]), cstr(o["host"]))
    if k == "evictt":
        return "(OEvictT %s %s)" % (cstr(o["host"]), cstr(o["tok"]))
    if k == "evicts":
        return "(OEvictS %s %s)" % (cstr(o["host"]), ca(o["attrs"]))
    raise ValueError(k)


ERR = {"none": "ENone", "noinfo": "ENoInfo", "notfound": "ENotFound", "noready": "ENoReady", "both": "EBoth", "other": "EOther"}
DEC = {0: "DDeny", 1: "DAllow", 2: "DNoOpinion"}


def coq_err(e):
    if e.get("c") == "up":
        return "(EUp %s)" % cZ(e.get("tag", 0))
    return ERR.get(e.get("c"), "EOther")


def coq_calls(cs):
    return clist([cpair(cstr(c["c"]), cbool(c["ready"])) for c in cs])


def coq_out(s):
    if s.get("note"):  # the harness saw something that must not happen (caches not dropped, impersonation gate)
        s = dict(s, err={"c": "other"})
    if s["kind"] == "T":
        u = s.get("user")
        return "(OutT {| t_user := %s; t_ok := %s; t_err := %s |} %s)" % (
            "None" if not u else "(Some %s)" % cpair(cstr(u[0]), cstr(u[1])), cbool(s["ok"]), coq_err(s["err"]), coq_calls(s["calls"]))
    if s["kind"] == "S":
        return "(OutS {| s_dec := %s; s_reason := %s; s_err := %s |} %s)" % (
            DEC.get(s["dec"], "DNoOpinion"), cstr(s["reason"]), coq_err(s["err"]), coq_calls(s["calls"]))
    return "OutNone"


def coq_tans(a):
    k = a["k"]
    if k == "auth":
        return "(TAuth %s %s)" % (cstr(a["name"]), cstr(a["uid"]))
    if k == "unauth":
        return "TUnauth"
    if k == "unauthmsg":
        return "(TUnauthMsg %s)" % cZ(a.get("tag", 0))
    return "(TFail %s %s)" % (cZ(a.get("tag", 0)), cbool(a.get("retry", False)))


def coq_sans(a):
    if a["k"] == "status":
        return "(SStatus %s %s %s)" % (cbool(a.get("allowed", False)), cbool(a.get("denied", False)), cstr(a.get("reason", "")))
    return "(SFail %s %s)" % (cZ(a.get("tag", 0)), cbool(a.get("retry", False)))


def coq_cfg(cfg):
    return ("{| reg := %s; servers := %s; sttl := %s; fttl := %s; attl := %s; dttl := %s; tretries := %d%%nat; sretries := %d%%nat |}" %
            (clist([cpair(cstr(k), cstr(v)) for k, v in cfg["reg"]]),
             clist([cpair(cstr(e["c"]), clist([cstr(x) for x in e["s"]])) for e in cfg["servers"]]),
             cZ(cfg["sttl"]), cZ(cfg["fttl"]), cZ(cfg["attl"]), cZ(cfg["dttl"]), TRETRIES, SRETRIES))


# a step on which model (ENoInfo) and observation (EOther) disagree while every spec clause holds
BAD_STEP = '(One (OAuthn None "" 0), R1 (OutT {| t_user := None; t_ok := false; t_err := EOther |} []))'


def split_overlap(o):
    """overlapt / overlaps -> the two plain request ops (A = held in flight, B = ran meanwhile)"""
    if o["op"] == "overlapt":
        return (authn(o["host"], o["tok"], o["now"], o.get("hvia", "direct")),
                authn(o["host2"], o["tok"], o["now"], o.get("hvia", "direct")))
    return (authz(o["host"], o["attrs"], o["now"], o.get("hvia", "direct"), o.get("avia", "")),
            authz(o["host2"], o["attrs"], o["now"], o.get("hvia", "direct"), o.get("avia", "")))


def flat(case, steps):
    """(plain op, its observation) pairs, overlaps expanded"""
    for o, s in zip(case["ops"], steps):
        if o["op"] in ("overlapt", "overlaps"):
            if s.get("a") and s.get("b"):
                oa, ob = split_overlap(o)
                yield oa, s["a"]
                yield ob, s["b"]
        elif o["op"] == "chain":
            if s.get("t"):
                yield authn(o["host"], o["tok"], o["now"]), s["t"]
            if s.get("z") and s.get("t") and s["t"].get("user"):
                yield authz(o["host"], IMP(s["t"]["user"][0], o["imp"], ("system:authenticated",)), o["now"]), s["z"]
        else:
            yield o, s


def coq_case(case, obs):
    cfg = coq_cfg(case["cfg"])
    ts = clist([cpair(cstr(c), clist([coq_tans(a) for a in l])) for c, l in sorted(case["tscript"].items())])
    ss = clist([cpair(cstr(c), clist([coq_sans(a) for a in l])) for c, l in sorted(case["sscript"].items())])
    steps = obs.get("steps") if isinstance(obs, dict) else None
    if steps is None or len(steps) != len(case["ops"]):
        # panic / truncated history: a one-step trace on which model and observation visibly disagree
        return "(Case %s %s %s [%s])" % (cfg, ts, ss, BAD_STEP)
    names, lets = {}, ""
    for o in case["ops"]:
        if "attrs" in o and o["attrs"] is not None:
            k = json.dumps(o["attrs"], sort_keys=True)
            if k not in names:
                names[k] = "a%d" % len(names)
                lets += "let %s := %s in " % (names[k], coq_attrs(o["attrs"]))
    items = []
    for o, s in zip(case["ops"], steps):
        if o["op"] in ("overlapt", "overlaps"):
            if s.get("kind") != "P" or not s.get("a") or not s.get("b"):
                items.append(BAD_STEP)
                continue
            oa, ob = split_overlap(o)
            items.append("(Ovl %s %s, R2 %s %s)" % (coq_op(oa, names), coq_op(ob, names), coq_out(s["a"]), coq_out(s["b"])))
            if s.get("blocked"):
                # the second request did not complete on its own while the first one's review was in flight:
                # never so in the model (requests of different clusters share nothing) -> visible disagreement
                items.append(BAD_STEP)
        elif o["op"] == "chain":
            if s.get("kind") != "C":
                items.append(BAD_STEP)
                continue
            t = "(Some %s)" % coq_out(s["t"]) if s.get("t") else "None"
            z = "(Some %s)" % coq_out(s["z"]) if s.get("z") else "None"
            items.append("(%s, RC %s %s %s)" % (coq_op(o), t, z, copt(s.get("dispatch"), cstr)))
        else:
            items.append("(One %s, R1 %s)" % (coq_op(o, names), coq_out(s)))
            if s.get("kind") == "N" and s.get("note"):
                # a deleted / restarted cluster was not stopped, or the caches created under it were not dropped:
                # never so in the model -> visible disagreement
                items.append(BAD_STEP)
    return "(%sCase %s %s %s %s)" % (lets, cfg, ts, ss, clist(items))


# ------------------------------------------------------------------ evidence helpers
def _cluster_of(cfg, h):
    if h is None:
        return None
    for k, v in cfg["reg"]:
        if k == h.lower():
            return v
    return None


def nontrivial_key(case, obs):
    steps = obs.get("steps") if isinstance(obs, dict) else None
    if not steps or len(steps) != len(case["ops"]):
        return None
    seen = {}
    hit = fresh = False
    for o, s in flat(case, steps):
        if o["op"] not in ("authn", "authz"):
            continue
        c = _cluster_of(case["cfg"], o.get("host"))
        if c is None:
            continue
        key = ("T", o["tok"]) if o["op"] == "authn" else ("S", json.dumps(o["attrs"], sort_keys=True))
        seen.setdefault(key, set()).add(c)
        if s["calls"]:
            fresh = True
        elif s["err"]["c"] in ("none", "both", "up"):
            hit = True
    if hit and fresh and any(len(v) >= 2 for v in seen.values()):
        return hashlib.sha1(json.dumps(case, sort_keys=True).encode()).hexdigest()
    return None


def stats(case, obs):
    labs = ["via:" + case["via"], "len<=%d" % (10 * ((len(case["ops"]) + 9) // 10))]
    c = case["cfg"]
    labs.append("ttl:token=%s" % ("bypass" if c["sttl"] == 0 and c["fttl"] == 0 else "cache"))
    steps = obs.get("steps") if isinstance(obs, dict) else None
    if not steps:
        return labs + ["panic"]
    for o, s in zip(case["ops"], steps):
        if o["op"] in ("overlapt", "overlaps"):
            labs.append("op:%s%s" % (o["op"], ":blocked" if s.get("blocked") else ""))
        if o["op"] == "chain":
            sni, h = o.get("sni"), o["host"]
            rel = ("none" if sni is None else "empty" if sni == "" else "host" if sni == h else
                   "unknown" if _cluster_of(case["cfg"], sni) is None else
                   "same-cluster" if _cluster_of(case["cfg"], sni) == _cluster_of(case["cfg"], h) else "other-cluster")
            labs.append("chain:sni=%s:%s" % (rel, "dispatched" if s.get("dispatch") is not None else "code%s" % s.get("code")))
    for o, s in flat(case, steps):
        if o["op"] in ("authn", "authz"):
            if s["calls"]:
                r = "fresh%d" % len(s["calls"]) if len(s["calls"]) > 1 else "fresh"
            elif s["err"]["c"] in ("noinfo", "notfound", "noready"):
                r = "unavailable:" + s["err"]["c"]
            else:
                r = "hit"
            labs.append("%s:%s" % (o["op"], r))
        else:
            labs.append("op:" + o["op"])
    return labs


def shrink(case):
    ops = case["ops"]
    for i in range(len(ops) - 1, -1, -1):
        yield dict(case, ops=ops[:i] + ops[i + 1:])


def neighbours(case, rng):
    ops = case["ops"]
    for i in range(len(ops)):
        yield dict(case, ops=ops[:i] + ops[i + 1:])
        yield dict(case, ops=ops[:i] + [ops[i]] + ops[i:])
    yield dict(case, via="request" if case["via"] == "token" else "token")


def known_match(entry, case, obs, failed):
    return False


LEVEL_TEXT = ("full proof over the cache model: Coq theorems over every registry of names/aliases, every four TTLs, every "
              "per-cluster answer oracle (arbitrary function of cluster and call index: authenticated-as-X / not "
              "authenticated / allow / deny / no opinion / error, retriable or not) and every sequence of requests "
              "(any hosts, tokens, attributes, clock values), endpoint status changes, cluster replacements and cache "
              "evictions — simulation invariant between the per-host caches and the observable history (induction over "
              "the op list); the model is compared with the real authenticator, authorizer and cluster manager on "
              "generated histories on every run and the executable spec is evaluated on the real observations, "
              "including which cluster's endpoint received each review")
LEVEL_NOTE = ("trusted: Coq kernel + vm_compute, the hand-written model (tied by differential run only), Go harness, "
              "overlay exports and the two clock-instrumented dependency files; modelled not verified: sync.Map, "
              "singleflight, token-key hashing, json.Marshal key injectivity, LRU/gc eviction policy (abstracted to "
              "arbitrary evictions), real-time retry back-off bounds; sequential requests only; no axioms (all "
              "theorems closed under the global context)")
TECHNIQUE = "Coq proof (simulation invariant, induction over histories) + differential model/implementation correspondence"
