"""C13 — sharding: one shard per upstream on both sides; only its leader serves it."""
from vf.core import B, cstr, cZ, cbool, clist, copt, cpair

PID = "C13"
MODULES = ["Prelude", "C13_Model", "C13_Spec", "C13_Check"]
PROPS_MODULE = "C13_Properties C19_Properties"
THEOREMS = ["C13_range", "C13_single_shard", "C13_both_sides", "C13_guard", "C13_serve_only_leader", "C13_history",
            "C13_gateway_follows_announcement",
            "C13_store_shard_filter"]  # the last one is proved over the API-backed store model of C19
EVAL = "C13_Check.eval"
CLAUSES = ["agree", "range", "both_sides", "guard", "serve", "names_leader", "drop", "own_shard", "addressed"]
RULE = ("hash cases: distinct (name bytes, N) with N>=1; history cases: distinct op lists containing at least one "
        "leadership change and one allocate/acquire/cluster-update call issued while NOT leader of the upstream's shard; "
        "gateway cases: distinct op lists with at least two announcements, one of them not listing every shard, and a "
        "ClientFor call answered with a server")
TRUSTED_BASE = [
    "Coq 8.16.1 kernel + vm_compute (case files); no native_compute, no extraction",
    "hand-written model C13_Model.v tied to /repo by the differential run of this check (Go harness harness/c13, overlay exports)",
    "modelled not verified: hash/fnv, sync.Map, client-go leaderelection (only its three callbacks are driven), local store",
    "gateway cases: the real clientSets.sync/ClientFor against an httptest limiter server serving scripted server-info answers; the periodic goroutines (sync every 2 s, heartbeat, client cache clean-up) are not started",
]
HARNESS_CHUNK = 400
ASSUMPTIONS = [
    "leadership changes reach the limiter only through the elector callbacks OnNewLeader/OnStartedLeading/OnStoppedLeading",
    "gateway cases: every announced leader address is non-empty (hypothesis ann_ok of C13_gateway_follows_announcement); shard counts 0..8",
    "history cases use the local store, plus a few with the API-backed store in which every shard is gained once (so Load sees an empty API); what the API-backed store persists and reloads is C19's subject",
]

NAMES = [b"a", b"b", b"c", b"kube-1", b"kube-2", b"prod.example.com", b"x" * 40, b"", b"A", b"\xff\x00z", b"a.b", b"a.b.c"]
IDS = [b"me", b"other", b"third"]
INST = [b"gw1", b"gw2", b"state"]


def corpus():
    cs = []
    for n in (1, 2, 3, 7, 16, 64, 2 ** 31, 2 ** 32 - 1):
        for nm in NAMES:
            cs.append({"kind": "hash", "name": B(nm), "n": n})
    # the witness shapes: lose leadership by OnNewLeader, by OnStoppedLeading, by silence + leaderCheck
    base = [{"op": "start", "shard": 0}, {"op": "start", "shard": 1}, {"op": "set", "u": B(b"a")},
            {"op": "set", "u": B(b"b")}, {"op": "update", "u": B(b"a"), "i": B(b"gw1")},
            {"op": "update", "u": B(b"b"), "i": B(b"gw1")}]
    cs.append({"kind": "hist", "id": B(b"me"), "n": 2, "ops": base + [
        {"op": "newleader", "shard": 0, "id": B(b"other")}, {"op": "newleader", "shard": 1, "id": B(b"other")},
        {"op": "update", "u": B(b"a"), "i": B(b"gw2")}, {"op": "acquire", "u": B(b"b"), "i": B(b"gw2")},
        {"op": "set", "u": B(b"c")}, {"op": "del", "u": B(b"a")}, {"op": "check"},
        {"op": "start", "shard": 0}, {"op": "start", "shard": 1}, {"op": "update", "u": B(b"a"), "i": B(b"gw2")}]})
    cs.append({"kind": "hist", "id": B(b"me"), "n": 2, "ops": base + [
        {"op": "stop", "shard": 0}, {"op": "stop", "shard": 1}, {"op": "update", "u": B(b"a"), "i": B(b"gw2")},
        {"op": "acquire", "u": B(b"a"), "i": B(b"gw1")}, {"op": "check"}, {"op": "start", "shard": 1},
        {"op": "update", "u": B(b"a"), "i": B(b"gw2")}, {"op": "update", "u": B(b"b"), "i": B(b"gw2")}]})
    # a lease loss racing with leaderCheck leaves a store nobody leads; the next leaderCheck must drop it
    cs.append({"kind": "hist", "id": B(b"me"), "n": 2, "ops": base + [
        {"op": "checkrace", "shard": 0}, {"op": "update", "u": B(b"a"), "i": B(b"gw2")}, {"op": "check"},
        {"op": "checkrace", "shard": 1}, {"op": "check"}, {"op": "start", "shard": 0},
        {"op": "update", "u": B(b"a"), "i": B(b"gw2")}]})
    # gateway side: an announcement with a gap (shard 1 unknown), steady state, fail-over window (shard 0 dropped)
    def ep(sh, l):
        return {"shard": sh, "leader": B(l)}
    probes = [{"op": "client", "u": B(nm)} for nm in (b"a", b"b", b"c", b"kube-1", b"kube-2")]
    cs.append({"kind": "gw", "gw": probes[:2] + [{"op": "sync", "n": 3, "eps": [ep(0, b"http://10.0.0.1:8080"), ep(2, b"http://10.0.0.3:8080")]}]
               + probes + [{"op": "sync", "n": 3, "eps": [ep(0, b"http://10.0.0.1:8080"), ep(1, b"http://10.0.0.2:8080"), ep(2, b"http://10.0.0.3:8080")]}]
               + probes + [{"op": "syncfail"}] + probes[:3]
               + [{"op": "sync", "n": 3, "eps": [ep(1, b"http://10.0.0.2:8080"), ep(2, b"http://10.0.0.3:8080")]}] + probes
               + [{"op": "sync", "n": 3, "eps": [ep(2, b"http://10.0.0.3:8080"), ep(0, b"http://10.0.0.9:8080"), ep(1, b"http://10.0.0.2:8080")]}] + probes
               + [{"op": "sync", "n": 2, "eps": [ep(1, b"http://10.0.0.7:8080")]}] + probes
               + [{"op": "sync", "n": 0, "eps": []}] + probes[:2]})
    return cs


def gen_gw(rng):
    """announcements with gaps, in any order, with repeated shards, changing shard counts, failing syncs"""
    servers = [b"http://10.0.0.%d:8080" % i for i in range(1, 7)] + [b"https://lim-%d.example:443" % i for i in range(3)]
    ups = rng.sample(NAMES[:7] + [b"a.b", b"a.b.c"], rng.randint(2, 5))
    n = rng.choice([1, 2, 3, 3, 4, 5, 8])
    ops = []
    for _ in range(rng.randint(2, 7)):
        k = rng.below(20)
        if k < 2:
            ops.append({"op": "syncfail"})
        else:
            if k < 5:
                n = rng.choice([0, 1, 2, 3, 4, 5, 8])
            shards = list(range(n))
            m = rng.below(8)
            if m < 4 and shards:       # a gap: some shards have no leader record
                shards = rng.sample(shards, rng.randint(0, len(shards) - 1)) if len(shards) > 1 else []
            if m in (1, 5):            # not in shard order
                shards = rng.shuffle(list(shards))
            else:
                shards = sorted(shards)
            if m == 6 and shards:      # a shard listed twice
                shards = shards + [rng.choice(shards)]
            if m == 7:                 # a record for a shard beyond the count
                shards = shards + [n + rng.below(3)]
            ops.append({"op": "sync", "n": n, "eps": [{"shard": sh, "leader": B(rng.choice(servers))} for sh in shards]})
        for u in rng.sample(ups, rng.randint(1, len(ups))):
            ops.append({"op": "client", "u": B(u)})
    return {"kind": "gw", "gw": ops}


def rand_name(rng):
    k = rng.below(10)
    if k < 6:
        return rng.choice(NAMES)
    if k < 8:
        return bytes(rng.randint(97, 122) for _ in range(rng.randint(1, 12)))
    return bytes(rng.below(256) for _ in range(rng.randint(0, 20)))


def gen_hist(rng):
    n = rng.choice([1, 2, 2, 3, 3, 4, 5])
    ups = rng.sample(NAMES[:7] + [b"a.b", b"a.b.c"], rng.randint(2, 4))
    ops = []
    for _ in range(rng.randint(6, 30)):
        k = rng.below(100)
        if k < 14:
            ops.append({"op": "start", "shard": rng.below(n)})
        elif k < 22:
            ops.append({"op": "stop", "shard": rng.below(n)})
        elif k < 34:
            ops.append({"op": "newleader", "shard": rng.below(n), "id": B(rng.choice(IDS))})
        elif k < 41:
            ops.append({"op": "check"})
        elif k < 44:
            # a lease loss racing with leaderCheck, usually followed (not always at once) by an ordinary one
            ops.append({"op": "checkrace", "shard": rng.below(n)})
            if rng.chance(2, 3):
                ops.append({"op": "check"})
        elif k < 60:
            ops.append({"op": "set", "u": B(rng.choice(ups))})
        elif k < 66:
            ops.append({"op": "del", "u": B(rng.choice(ups))})
        elif k < 88:
            ops.append({"op": "update", "u": B(rng.choice(ups)), "i": B(rng.choice(INST))})
        else:
            ops.append({"op": "acquire", "u": B(rng.choice(ups)), "i": B(rng.choice(INST))})
    return {"kind": "hist", "id": B(b"me"), "n": n, "ops": ops}


def gen_k8s_hist(rng):
    """API-backed store (periodic mode): every shard is gained at most once, at the beginning, so that
    Load() always sees an empty API (the persisted contents are C19's subject); leadership is then lost
    in every way, one of them during an API outage that makes the store's first flush fail."""
    n = rng.choice([1, 2, 3])
    ups = rng.sample(NAMES[:7], rng.randint(2, 3))
    ops = [{"op": "start", "shard": sh} for sh in range(n)]
    for u in ups:
        ops.append({"op": "set", "u": B(u)})
    for _ in range(rng.randint(2, 5)):
        ops.append({"op": "update", "u": B(rng.choice(ups)), "i": B(rng.choice(INST))})
    flaky = rng.below(n)
    for sh in rng.shuffle(list(range(n))):
        k = rng.below(3)
        if sh == flaky:
            ops.append({"op": "stopflaky", "shard": sh})
        elif k == 0:
            ops.append({"op": "stop", "shard": sh})
        elif k == 1:
            ops.append({"op": "newleader", "shard": sh, "id": B(b"other")})
        ops.append({"op": rng.choice(["update", "acquire"]), "u": B(rng.choice(ups)), "i": B(rng.choice(INST))})
    ops.append({"op": "check"})
    ops.append({"op": "update", "u": B(rng.choice(ups)), "i": B(rng.choice(INST))})
    return {"kind": "hist", "id": B(b"me"), "n": n, "ops": ops, "store": "k8s"}


def generate(rng, tier, scale=1):
    nh, nk = (2000, 150) if tier == "quick" else (30000, 2000)
    nh, nk = nh * scale, nk * scale
    cs = []
    for _ in range(nh):
        k = rng.below(20)
        if k < 14:
            n = rng.choice([1, 2, 3, 7, 16, 64, 2 ** 31])
        elif k < 19:
            n = rng.randint(1, 2 ** 32 - 1)
        else:
            n = rng.choice([0, 2 ** 32, 2 ** 32 + 5, -1])  # outside the quantifier: divide-by-zero / wrap paths
        cs.append({"kind": "hash", "name": B(rand_name(rng)), "n": n})
    for _ in range(nk):
        cs.append(gen_hist(rng))
    for _ in range((4 if tier == "quick" else 30) * scale):   # each costs ~2 s (the limiter's own retry sleep)
        cs.append(gen_k8s_hist(rng))
    for _ in range((150 if tier == "quick" else 2000) * scale):
        cs.append(gen_gw(rng))
    return cs


RES = {"notleader": "RNotLeader", "nostore": "RNoStore", "notfound": "RNotFound", "ok": "ROk", "nil": "RNil",
       "err": "RErr"}


def coq_op(o):
    k = o["op"]
    if k == "newleader":
        return "(ONewLeader %s %s)" % (cZ(o["shard"]), cstr(o["id"]))
    if k == "start":
        return "(OStartLeading %s)" % cZ(o["shard"])
    if k == "stop":
        return "(OStopLeading %s)" % cZ(o["shard"])
    if k == "stopflaky":
        return "(OStopFlaky %s)" % cZ(o["shard"])
    if k == "check":
        return "OLeaderCheck"
    if k == "checkrace":
        return "(OLeaderCheckRace %s)" % cZ(o["shard"])
    if k == "set":
        return "(OClusterSet %s)" % cstr(o["u"])
    if k == "del":
        return "(OClusterDel %s)" % cstr(o["u"])
    if k == "update":
        return "(OUpdate %s %s)" % (cstr(o["u"]), cstr(o["i"]))
    if k == "acquire":
        return "(OAcquire %s %s)" % (cstr(o["u"]), cstr(o["i"]))
    raise ValueError(k)


def coq_snap(snap):
    return clist([cpair(cZ(s["shard"]), clist([cpair(cstr(p["u"]), cstr(p["c"])) for p in s["conds"]])) for s in snap])


def coq_gwop(o):
    if o["op"] == "sync":
        return "(GSync %s %s)" % (cZ(o["n"]), clist([cpair(cZ(e["shard"]), cstr(e["leader"])) for e in o["eps"]]))
    if o["op"] == "syncfail":
        return "GSyncFail"
    return "(GClientFor %s)" % cstr(o["u"])


def coq_gwres(s):
    if s["res"] == "to":
        return "(GTo %s)" % cstr(s["server"])
    return {"nil": "GNil", "err": "GErr"}[s["res"]]


def coq_case(case, obs):
    if case["kind"] == "gw":
        steps = obs.get("steps", [])
        if len(steps) != len(case["gw"]):
            return '(CHash "" 1 None None)'
        return "(CGw %s)" % clist([cpair(coq_gwop(o), coq_gwres(s)) for o, s in zip(case["gw"], steps)])
    if case["kind"] == "hash":
        if "panic" in obs:
            return "(CHash %s %s None None)" % (cstr(case["name"]), cZ(case["n"]))
        return "(CHash %s %s %s %s)" % (cstr(case["name"]), cZ(case["n"]), copt(obs["srv"], cZ), copt(obs["gw"], cZ))
    steps = obs.get("steps", [])
    tr = []
    for o, s in zip(case["ops"], steps):
        ob = ("{| leader_before := %s; ores := %s; names_leader := %s; snap := %s; led_after := %s |}" %
              (cbool(s["leader_before"]), RES[s["res"]], cbool(s["names_leader"]), coq_snap(s["snap"]),
               clist([cZ(x) for x in s["led"]])))
        tr.append(cpair(coq_op(o), ob))
    if len(steps) != len(case["ops"]):
        # a panic mid-history: emit a case the model cannot agree with (GetShardID "" 1 = 0, never a panic)
        return '(CHash "" 1 None None)'
    return "(CHist %s %s %s)" % (cstr(case["id"]), cZ(case["n"]), clist(tr))


def nontrivial_key(case, obs):
    if case["kind"] == "gw":
        syncs = [o for o in case["gw"] if o["op"] == "sync"]
        gap = any(len({e["shard"] for e in o["eps"]}) < o["n"] for o in syncs)
        served = any(s["res"] == "to" for s in obs.get("steps", []))
        return ("g", repr(case["gw"])) if len(syncs) >= 2 and gap and served else None
    if case["kind"] == "hash":
        return ("h", bytes(case["name"]), case["n"]) if case["n"] >= 1 else None
    steps = obs.get("steps", [])
    kinds = {o["op"] for o in case["ops"]}
    refused = any((not s["leader_before"]) and o["op"] in ("update", "acquire", "set", "del")
                  for o, s in zip(case["ops"], steps))
    if refused and kinds & {"start", "stop", "newleader", "check"}:
        return ("k", repr(case["ops"]))
    return None


def stats(case, obs):
    if case["kind"] == "gw":
        labs = ["gw:len<=%d" % (10 * ((len(case["gw"]) + 9) // 10))]
        for o, s in zip(case["gw"], obs.get("steps", [])):
            if o["op"] == "sync":
                k = len({e["shard"] for e in o["eps"]})
                labs.append("gw:sync:%s" % ("n=0" if o["n"] == 0 else "full" if k >= o["n"] else "gap"))
            else:
                labs.append("gw:%s->%s" % (o["op"], s["res"]))
        return labs
    if case["kind"] == "hash":
        n = case["n"]
        return ["hash:n=%s" % (n if n in (0, 1, 2, 3, 7, 16, 64, 2 ** 31) else ("big" if n > 64 else "neg"))]
    labs = ["hist:len<=%d" % (10 * ((len(case["ops"]) + 9) // 10)), "store:%s" % case.get("store", "local")]
    for o, s in zip(case["ops"], obs.get("steps", [])):
        labs.append("op:%s->%s" % (o["op"], s["res"]))
    return labs


def shrink(case):
    if case["kind"] == "gw":
        ops = case["gw"]
        for i in range(len(ops)):
            yield dict(case, gw=ops[:i] + ops[i + 1:])
        return
    if case["kind"] != "hist":
        return
    ops = case["ops"]
    for i in range(len(ops)):
        yield dict(case, ops=ops[:i] + ops[i + 1:])


def neighbours(case, rng):
    if case["kind"] == "gw":
        ops = case["gw"]
        for i in range(len(ops)):
            yield dict(case, gw=ops[:i] + ops[i + 1:])
        return
    if case["kind"] != "hist":
        for d in (-1, 1):
            yield dict(case, n=max(1, case["n"] + d))
        return
    ops = case["ops"]
    for i in range(len(ops)):
        yield dict(case, ops=ops[:i] + ops[i + 1:])
        yield dict(case, ops=ops[:i] + [ops[i]] + ops[i:])


def known_match(entry, case, obs, failed):
    return False

LEVEL_TEXT = ("full proof: Coq theorems over every name, every shard count 1<=N<2^32 and every history of leadership "
              "callbacks and allocate/acquire/cluster-update calls (induction over the op list, invariants), about a "
              "Gallina model of GetShardID/ShardIDFor and of the limiter's leadership guards and shard stores; the model is "
              "compared with the real rateLimiter on generated histories on every run and the executable spec is evaluated "
              "on the real observations")
LEVEL_NOTE = ("trusted: Coq kernel + vm_compute, the hand-written model (tied by differential run only), Go harness and "
              "overlay exports; modelled not verified: hash/fnv, sync.Map, client-go leader election (callbacks only); "
              "no axioms (all theorems closed under the global context)")
TECHNIQUE = "Coq proof (induction over histories, invariants) + differential model/implementation correspondence"
