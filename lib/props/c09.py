"""C09 — a gateway never exceeds the configured global limit whatever the limiter server answers;
local limit on failure; server quotas take effect again on recovery."""
import os

from vf import core
from vf.core import cZ, cbool, clist, copt, cpair

PID = "C09"
MODULES = ["Prelude", "C09_Model", "C09_Spec", "C09_Check"]
PROPS_MODULE = "C09_Properties"
THEOREMS = ["C09_size_le_global", "C09_tokenbucket_le_global", "C09_schema_update_bounds", "C09_fallback",
            "C09_default_iff_deleted", "C09_fallback_heartbeat", "C09_hysteresis", "C09_ready_again",
            "C09_failed_heartbeats_fall_back", "C09_silence_falls_back", "C09_silence_history", "C09_failing_bounds", "C09_recovery_allocate", "C09_recovery_count", "C09_history"]
# VERIF_C09_MODEL=unrepaired / noreclamp compares the same cases with the model of the tree before
# C09_clamp.diff / before C09_reclamp_on_schema_update.diff (correspondence only)
ALT_MODEL = os.environ.get("VERIF_C09_MODEL", "")
UNREPAIRED = ALT_MODEL in ("unrepaired", "noreclamp", "notypestop")
EVAL = {"unrepaired": "C09_Check.eval_unrepaired", "noreclamp": "C09_Check.eval_noreclamp",
        "notypestop": "C09_Check.eval_notypestop"}.get(ALT_MODEL, "C09_Check.eval")
COQ_SHARD = 50
CLAUSES = ["agree"] if UNREPAIRED else ["agree", "bound", "fallback", "inforce", "failing", "recovery", "nopanic"]
RULE = ("distinct (schema, mode, clientset, event list) histories in which the remote limiter was selected at least "
        "once AND at least one server answer was out of range (negative, above the configured global value, of "
        "another type, an error, a rejected or a stale reply), or readiness was lost, or the schema's limits were "
        "changed while a server quota was in force, or its type changed, or it was deleted")
TRUSTED_BASE = [
    "the readiness layer: the real clientSets.sync / clientHeart / setLeaderStatus / IsReady run against a real loopback HTTP "
    "server with scripted endpoints (server info: same leader / other / none / failure; heartbeat: 200 / 500 / no answer; "
    "acquire), driven round by round on a virtual clock (clientsets.go instrumented at build time: time.Now() -> verifNow()); "
    "in the model a heartbeat round is EHb, an info round with a changed leader is ELeader and any other info round is "
    "EElapse 0 (sync does not touch the readiness unless the leader changed)",
    "the counter-manager layer runs on a virtual clock: lib/props/c09.py generates, from the CURRENT remote_counter.go, a copy "
    "with time.Now() -> a settable clock, the 900 ms watchdog ticker -> a ticker fired by the harness, the worker goroutine "
    "not started (the harness plays its rounds by calling the real doAcquire); resetCheck, acquireRequest, doAcquire and send "
    "are the real code; the limiter server is a fake clientset with a scripted acquire subresource; request times are "
    "virtual (epoch 0 + ms + one ns per worker round); token-bucket worker rounds are generated idle only",
    "Coq 8.16.1 kernel + vm_compute (case files); no native_compute, no extraction",
    "hand-written model C09_Model.v (parameters fx=fy=fz=true: tree with build/fixes/C09_clamp.diff, "
    "C09_reclamp_on_schema_update.diff and 06780c0) tied to the code by the "
    "differential run of this check (Go harness harness/c09, overlay exports)",
    "modelled not verified: sync.Map/atomics, the meter (its readings are inputs of the error reply), golib max-inflight "
    "bucket and client-go token bucket (only their size / qps,burst), the goroutines of the reconcile loop, of the "
    "global counter and of the heartbeat (their steps are driven one at a time by the harness), real time (virtual milliseconds: lastChange is "
    "re-based on the virtual clock right before every setLeaderStatus call), a leader change is the "
    "setLeaderStatus(shard, leader, true) of clientSets.sync",
    "the counter-manager layer runs on a virtual clock: lib/props/c09.py generates, from the CURRENT remote_counter.go, a copy "
    "with time.Now() -> a settable clock, the 900 ms watchdog ticker -> a ticker fired by the harness, the worker goroutine "
    "not started (the harness plays its rounds by calling the real doAcquire); resetCheck, acquireRequest, doAcquire and send "
    "are the real code; the limiter server is a fake clientset with a scripted acquire subresource; request times are "
    "virtual (epoch 0 + ms + one ns per round)",
]
ASSUMPTIONS = [
    "the schema is valid (ValidateFlowControlConfiguration): 0 <= local <= global < 2^31, token bucket local qps >= 1, "
    "and carries its global section; along a history it may change in strategy, type and limits (to valid limits) "
    "and be deleted and added again; replies still in flight for a wrapper that was dropped are not modelled",
    "server answers reach the gateway only through reconcile.updateFlowControls / updateGlobalCuntFlowControls "
    "(remoteWrapper.Sync) and globalCounter.send (SetLimit); an answer carries at most one of maxRequestsInflight / tokenBucket",
    "burst-reserve percentages are the defaults (GLOBAL_MAXINFLIGHT_BURST_PERCENT unset)",
    "in-flight requests across a limiter replacement are C05's subject; every TryAcquire of the wrappers ends in the "
    "underlying limiter's TryAcquire (read, and observed for max-in-flight by counting admissions)",
]

COUNTER_FILE = "pkg/flowcontrols/remote/remote_counter.go"
ACQ_GO = '\tgo func() {\n\t\tdefer func() {\n\t\t\tmetrics.RecordRateLimiterRequest(g.cluster, "acquire"'


def prepare():
    """Instrumented copy of the CURRENT remote_counter.go (textual, so that any change of the original survives):
    time.Now() -> verifNow() (virtual clock), the 900 ms ticker of resetCheck -> a ticker fired by the harness,
    the worker goroutine not started in manual mode (the harness plays its rounds), the reply goroutine of
    doAcquire counted so that a round can be awaited.  The hooks live in harness/exports/remote_c09_clock.go."""
    out = os.path.join(core.BUILD, "C09", "remote_counter_instrumented.go")
    os.makedirs(os.path.dirname(out), exist_ok=True)
    try:
        src = open(os.path.join(core.REPO, COUNTER_FILE)).read()
    except OSError:
        src = ""
    gen = src.replace("time.Now()", "verifNow()")
    gen = gen.replace("go g.limitWorker(stopCh)", "verifStartWorker(func() { g.limitWorker(stopCh) })")
    gen = gen.replace("ticker := time.NewTicker(MaxIdealDuration)", "ticker := verifNewTicker(g)")
    gen = gen.replace(ACQ_GO, "\tverifAcquireStart()\n\tgo func() {\n\t\tdefer verifAcquireDone()\n" + ACQ_GO[len("\tgo func() {\n"):])
    old = open(out).read() if os.path.exists(out) else None
    if old != gen:
        with open(out, "w") as f:
            f.write(gen)
    return out


def prepare_clientsets():
    """Instrumented copy of the CURRENT clientsets.go: time.Now() -> verifNow() (virtual clock of the readiness
    hysteresis); the hook lives in harness/exports/clientsets_c09_export.go."""
    out = os.path.join(core.BUILD, "C09", "clientsets_instrumented.go")
    os.makedirs(os.path.dirname(out), exist_ok=True)
    try:
        src = open(os.path.join(core.REPO, "pkg/ratelimiter/clientsets/clientsets.go")).read()
    except OSError:
        src = ""
    gen = src.replace("time.Now()", "verifNow()")
    old = open(out).read() if os.path.exists(out) else None
    if old != gen:
        with open(out, "w") as f:
            f.write(gen)
    return out


prepare()
prepare_clientsets()

I32MIN, I32MAX = -2 ** 31, 2 ** 31 - 1
STRATS = ["globalAllocate", "globalCount", "local", "", "zzz"]
SCOQ = {"globalAllocate": "SAlloc", "globalCount": "SCount", "local": "SLocal", "": "SEmpty"}


def sc(s):
    return SCOQ.get(s, "SOther")


# ----------------------------------------------------------------------------- corpus
def mi(l, g, mode="remote", cs="ok", strat="globalAllocate", ops=()):
    return {"kind": "mi", "l1": l, "l2": 0, "g1": g, "g2": 0, "mode": mode, "cs": cs, "strat": strat, "ops": list(ops)}


def tb(lq, lb, gq, gb, mode="remote", cs="ok", strat="globalAllocate", ops=()):
    return {"kind": "tb", "l1": lq, "l2": lb, "g1": gq, "g2": gb, "mode": mode, "cs": cs, "strat": strat, "ops": list(ops)}


def q_mi(a, s="globalAllocate"):
    return {"op": "quota", "d": "mi", "a": a, "b": 0, "s": s}


def q_tb(a, b, s="globalAllocate"):
    return {"op": "quota", "d": "tb", "a": a, "b": b, "s": s}


def q_none(s="globalAllocate"):
    return {"op": "quota", "d": "none", "a": 0, "b": 0, "s": s}


def hb(ok):
    return {"op": "hb", "ready": ok}


def el(s):
    """elapse s seconds (a float is fine: 4.999)"""
    return {"op": "elapse", "ms": int(round(s * 1000))}


def leader(tag="b"):
    return {"op": "leader", "s": tag}


def q_both(m, q, b, s="globalAllocate"):
    return {"op": "quota", "d": "both", "a": m, "q": q, "b": b, "s": s}


DEL = {"op": "delete"}


def wk(srv, limit=0, idle=False, mx=0, rate=0):
    """one round of the counter manager's worker against the limiter server: accept | reject | error | callerr | omit"""
    return {"op": "worker", "idle": idle, "srv": srv, "limit": limit, "mx": mx, "rate": rate}


def info(mode="same"):
    """one round of clientSets.sync: the server info lists the same leader | other (a leader change) | omit | fail"""
    return {"op": "info", "srv": mode}


def heart(code=200):
    """one round of clientSets.clientHeart: the leader answers 200, 500, or not at all (0)"""
    return {"op": "heart", "limit": code}


def wd(mx=0, rate=0):
    """one tick of the counter's watchdog (resetCheck)"""
    return {"op": "watchdog", "mx": mx, "rate": rate}


def ok(accept, limit, rt):
    return {"op": "count", "r": "ok", "accept": accept, "limit": limit, "rt": rt}


def err(mx, rate, rt):
    return {"op": "count", "r": "err", "mx": mx, "rate": rate, "rt": rt}


def old(rt):
    return {"op": "count", "r": "old", "rt": rt}


CFG = {"op": "cfgsync"}
EN = {"op": "enable"}


def st(s):
    return {"op": "strategy", "s": s}


def sch(l1, l2, g1, g2, kind=None, strat=None):
    """schema update; kind / strategy None = unchanged (filled in by fix_schema_ops)"""
    return {"op": "schema", "nk": kind, "ns": strat, "nl1": l1, "nl2": l2, "ng1": g1, "ng2": g2}


def fix_schema_ops(case):
    """fill in the type / strategy of schema updates that keep them"""
    kind, strat = case["kind"], case["strat"]
    for o in case["ops"]:
        if o["op"] == "strategy":
            strat = o["s"]
        elif o["op"] == "schema":
            o["nk"] = kind = o["nk"] or kind
            if o["ns"] is None:
                o["ns"] = strat
            strat = o["ns"]
    return case


def corpus():
    cs = []
    # the witnesses of the defects of the unrepaired tree (see C09_Unrepaired.v)
    cs.append(mi(5, 20, ops=[hb(True), q_mi(-1)]))                               # negative first answer -> 4294967295
    cs.append(mi(5, 20, ops=[hb(True), q_mi(50)]))                               # first answer above global, creation path
    cs.append(mi(5, 20, ops=[hb(True), q_mi(7), q_tb(7, 9), q_mi(30)]))          # wrong type, then re-creation unclamped
    cs.append(mi(5, 20, ops=[hb(True), q_none()]))                               # no detail -> exempt limiter
    cs.append(mi(5, 20, strat="globalCount", ops=[hb(True), CFG, ok(False, 100, 1)]))   # !Accept above global
    cs.append(mi(5, 20, strat="globalCount", ops=[hb(True), CFG, ok(False, -1, 1)]))    # !Accept negative
    cs.append(mi(5, 20, strat="globalCount", ops=[hb(True), CFG, err(33, 0, 1)]))       # error: meter above global
    cs.append(mi(0, 0, strat="globalCount", ops=[hb(True), CFG]))                       # global 0: reserve 1
    cs.append(mi(5, 20, ops=[hb(True), EN]))                                            # wrapper without limiter
    cs.append(tb(5, 10, 100, 10, ops=[hb(True), q_tb(7, 900), q_tb(8, 901)]))           # burst never clamped
    cs.append(tb(5, 10, 100, 10, ops=[hb(True), q_tb(-8, -1)]))
    cs.append(tb(5, 10, 100, 10, strat="globalCount", ops=[hb(True), CFG, err(0, 50, 1), ok(True, 3, 2)]))  # burst := qps
    cs.append(tb(5, 10, 100, 200, strat="globalCount", ops=[hb(True), CFG, err(0, 5000, 1)]))               # rate above global
    # documented behaviour: fallback and recovery
    cs.append(mi(5, 20, ops=[q_mi(7), hb(True), hb(False), el(4), hb(False), el(1), hb(False), hb(True), q_mi(9)]))
    cs.append(mi(5, 20, strat="globalCount", ops=[hb(True), CFG, ok(True, 12, 5), ok(True, 19, 4), ok(True, 0, 6),
                                                 err(3, 0, 7), err(9, 0, 8), ok(False, 4, 9), ok(True, 15, 10), old(11)]))
    cs.append(mi(5, 20, ops=[hb(True), q_mi(7), st("local"), st("globalCount"), CFG, st("globalAllocate"), q_mi(8)]))
    for mode, c in (("local", "ok"), ("bogus", "ok"), ("remote", "zero"), ("remote", "nil")):
        ops = [hb(True), q_mi(7), st("globalCount"), st("globalAllocate")] if c != "nil" else [st("local"), st("globalAllocate")]
        cs.append(mi(5, 20, mode=mode, cs=c, ops=ops))
    # the same answer twice (DeepEqual short cut), config re-sync while unavailable, a server quota for a
    # global-count schema (granted maximum below the local limit), request times <= 0
    cs.append(mi(5, 20, ops=[hb(True), q_mi(7), q_mi(7), q_mi(7, "zzz"), q_mi(7, "zzz"), q_mi(7, "globalCount"), ok(True, 7, 1)]))
    cs.append(mi(5, 20, strat="globalCount", ops=[hb(True), CFG, err(9, 0, 3), CFG, q_mi(3, "globalCount"), ok(True, 9, 2),
                                                 ok(True, 9, 4), err(1, 0, 5), ok(False, 0, 6), ok(True, 2, -5), ok(True, 3, 0)]))
    cs.append(tb(5, 10, 100, 50, strat="globalCount", ops=[hb(True), CFG, err(0, 7, 1), q_tb(40, 20, "globalCount"), CFG,
                                                          ok(True, 1, 2), err(0, 70, 3), ok(False, 1, 4), old(5), ok(True, 1, 6)]))
    # schema updates changing the limits: the global limit lowered below the quota in force, the server
    # repeating its (now stale) answer — the steady state of a server is to repeat the same quota
    cs.append(mi(2, 10, ops=[hb(True), q_mi(8), sch(2, 0, 4, 0), q_mi(8), q_mi(8), q_mi(3), sch(1, 0, 2, 0), q_mi(3)]))
    cs.append(tb(1, 2, 1, 40, ops=[hb(True), q_tb(1, 30), sch(1, 2, 1, 10), q_tb(1, 30), q_tb(1, 30)]))
    cs.append(mi(2, 10, ops=[hb(True), q_mi(8), sch(2, 0, 20, 0), q_mi(15), q_mi(15), sch(2, 0, 10, 0), q_mi(15)]))
    cs.append(mi(2, 10, ops=[q_mi(8), sch(2, 0, 4, 0), hb(True), q_mi(8)]))                  # not selected while lowered
    cs.append(mi(5, 20, strat="globalCount", ops=[hb(True), CFG, ok(True, 15, 1), sch(5, 0, 10, 0), CFG, CFG, ok(True, 15, 2)]))
    cs.append(mi(5, 20, strat="globalCount", ops=[hb(True), CFG, err(18, 0, 1), sch(2, 0, 10, 0), CFG, sch(2, 0, 30, 0), CFG,
                                                 ok(True, 25, 2)]))                          # lowered while unavailable
    cs.append(tb(5, 10, 100, 50, strat="globalCount", ops=[hb(True), CFG, err(0, 70, 1), sch(5, 10, 40, 20), CFG, ok(True, 1, 2),
                                                          sch(5, 5, 8, 5), CFG]))
    cs.append(mi(5, 20, ops=[hb(True), q_mi(12), st("local"), sch(5, 0, 8, 0), st("globalAllocate"), q_mi(12), q_mi(12)]))
    cs.append(mi(3, 2 ** 31 - 1, strat="globalCount", ops=[hb(True), CFG, ok(True, 2 ** 30, 1), q_mi(2 ** 30, "globalCount")]))
    cs.append(tb(1, 1, 2 ** 31 - 1, 2 ** 31 - 1, ops=[hb(True), q_tb(2 ** 31 - 1, 2 ** 31 - 1), q_tb(I32MIN, I32MIN)]))
    # the TYPE of the schema changes: the quota granted for the old type must not stay in force; answers of
    # the old type keep arriving (ignored); answers with both members; delete and re-add of the name
    cs.append(mi(5, 20, ops=[hb(True), q_mi(12), sch(1, 2, 3, 4, kind="tb"), q_mi(12), q_mi(12), q_both(12, 2, 9), q_tb(3, 3)]))
    cs.append(tb(1, 2, 3, 4, ops=[hb(True), q_tb(3, 4), sch(5, 0, 20, 0, kind="mi"), q_tb(3, 4), q_both(12, 2, 9), q_both(99, -1, 0)]))
    cs.append(mi(5, 20, strat="globalCount", ops=[hb(True), CFG, sch(1, 2, 3, 4, kind="tb"), err(9, 0, 1)]))   # nil deref in SetLimit
    cs.append(mi(5, 20, strat="globalCount", ops=[hb(True), CFG, ok(True, 15, 1), sch(1, 2, 3, 4, kind="tb"), ok(True, 15, 2), CFG,
                                                 err(0, 2, 3), sch(5, 0, 20, 0, kind="mi"), CFG]))
    cs.append(mi(5, 20, ops=[hb(True), q_mi(12), sch(1, 2, 3, 4, kind="tb", strat="local"), sch(1, 2, 3, 4, kind="tb", strat="globalAllocate"),
                             q_tb(2, 2)]))                                                   # type change while switching to local
    cs.append(mi(5, 20, ops=[hb(True), q_mi(12), DEL, q_mi(12), ok(True, 1, 1), CFG, EN, sch(5, 0, 8, 0), q_mi(12), DEL, DEL,
                             st("globalCount"), CFG]))
    cs.append(mi(5, 20, strat="globalCount", ops=[hb(True), CFG, ok(True, 12, 1), DEL, sch(1, 2, 3, 4, kind="tb", strat="globalCount"), CFG,
                                                 err(0, 1, 2)]))
    cs.append(mi(5, 20, ops=[hb(True), q_mi(12), st("globalCount"), ok(True, 9, 1), CFG, st("globalAllocate"), q_mi(12), st("local"),
                             q_mi(12), st("globalAllocate"), q_mi(12)]))                     # allocate <-> count <-> local
    # readiness: the 5 s hysteresis of setLeaderStatus (just below, exactly, just above), flapping, leader change
    cs.append(mi(5, 20, ops=[hb(True), q_mi(12), hb(False), el(4.999), hb(False), el(0.001), hb(False), hb(True), hb(False), el(5),
                             hb(False)]))
    cs.append(mi(5, 20, ops=[hb(True), q_mi(12), hb(False), el(5.001), hb(False), leader("b"), hb(False), el(4.999), hb(True),
                             hb(False), el(4.999), hb(False), el(0.002), hb(False)]))
    cs.append(mi(5, 20, ops=[q_mi(12), leader("b"), hb(False), el(3), hb(True), el(3), hb(False), el(3), hb(False), el(3), hb(False)]))
    cs.append(mi(5, 20, ops=[hb(False), el(9), hb(False), q_mi(12), leader("c"), leader("b"), hb(False), el(9), leader("c")]))
    # the counter manager: worker rounds against the limiter server, missing replies, the 4 s watchdog, the 2 s resync
    cs.append(mi(3, 20, strat="globalCount", ops=[hb(True), CFG, wk("accept", 12), el(2), wk("omit", idle=True), el(1),
                                                 wk("omit", idle=True), el(1), wd(1), el(1), wd(1), wd(9), wk("accept", 9),
                                                 wk("callerr", mx=7), wk("error", idle=True, mx=7), el(3), wk("accept", 30, idle=True)]))
    cs.append(mi(3, 20, strat="globalCount", ops=[hb(True), CFG, wk("accept", 12), el(5), wd(25), wk("omit"), el(5), wd(1),
                                                 wk("reject", 5), wk("accept", 8), el(4.999), wd(2), el(0.001), wd(2)]))
    cs.append(mi(3, 20, strat="globalCount", ops=[hb(True), CFG, el(4), wd(1), CFG, el(1), wd(6), CFG, wk("accept", 10), el(9),
                                                 CFG, wk("omit"), CFG, wd(0), st("globalAllocate"), wd(0), wk("accept", 1)]))
    cs.append(tb(5, 10, 100, 50, strat="globalCount", ops=[hb(True), CFG, wk("accept", 3, idle=True), el(3), wk("accept", 3, idle=True),
                                                          el(5), wd(0, 70), wk("omit", idle=True), el(3), wk("accept", 1, idle=True)]))
    cs.append(mi(3, 20, strat="globalCount", cs="zero", ops=[CFG, wk("accept", 12), el(6), wd(4), wk("accept", 12)]))
    cs.append(mi(3, 20, strat="globalCount", ops=[hb(True), CFG, wk("accept", 12), ok(True, 15, 10 ** 13), wk("accept", 9), el(9),
                                                 wk("accept", 9), sch(1, 2, 3, 4, kind="tb"), wd(0), wk("accept", 1), CFG, el(5),
                                                 wd(0, 2), DEL, wd(0), wk("omit")]))
    # the readiness layer: the real sync / clientHeart rounds against the limiter server; a leader that stays listed
    # while its heartbeats fail must still become not ready after 5 s (IsReady is the only fallback of globalAllocate)
    cs.append(mi(3, 20, ops=[info(), heart(200), q_mi(12), heart(500), el(2), info(), heart(500), el(2), info(), heart(0),
                             el(2), info(), heart(500), q_mi(12), info("omit"), info("fail"), heart(200), heart(500)]))
    cs.append(mi(3, 20, ops=[heart(200), q_mi(12), heart(0), el(4.999), info(), heart(0), el(0.002), heart(0), info("other"),
                             heart(500), el(6), info("other"), heart(500), el(3), heart(500), el(3), info(), heart(500)]))
    cs.append(tb(1, 2, 3, 40, ops=[info(), heart(200), q_tb(3, 30), heart(500), el(3), info(), el(3), info(), heart(500),
                                   info(), heart(200), info()]))
    return [fix_schema_ops(c) for c in cs]


# ----------------------------------------------------------------------------- generators
def vocab(rng, lo, hi):
    """a quota-like int32: mostly around the local / global values, sometimes extreme."""
    k = rng.below(20)
    if k < 3:
        return rng.randint(0, max(hi, 0))
    if k < 9:
        return rng.choice([lo, hi, hi - 1, hi + 1, lo - 1, lo + 1, 0, 1])
    if k < 12:
        return rng.choice([hi * 2, hi + 7, hi + 100, 10 ** 6])
    if k < 16:
        return rng.choice([-1, -2, -hi, -100])
    if k < 18:
        return rng.choice([I32MIN, I32MAX, I32MAX - 1, I32MIN + 1, 2 ** 30, 2 ** 30 + 1])
    return rng.randint(-5, hi + 5)


def clip(v):
    return max(I32MIN, min(I32MAX, v))


def gen_static(rng, tier):
    kind = "mi" if rng.below(5) < 3 else "tb"
    k = rng.below(20)
    if k < 15:
        mode, cs = "remote", "ok"
    elif k < 17:
        mode, cs = "remote", rng.choice(["zero", "nil"])
    else:
        mode, cs = rng.choice(["local", "bogus"]), "ok"
    if kind == "mi":
        g = rng.choice([0, 1, 2, 10, 20, 49, 50, 60]) if rng.below(10) < 8 else rng.choice([100, 2 ** 30, I32MAX])
        l = rng.choice([0, 1, g // 2, g, max(g - 1, 0)])
        l = min(l, g)
        return dict(kind="mi", l1=l, l2=0, g1=g, g2=0, mode=mode, cs=cs)
    gq = rng.choice([1, 2, 10, 100, 1000, I32MAX])
    gb = rng.choice([0, 1, gq // 2, gq, gq, min(2 * gq, I32MAX), min(10 * gq, I32MAX)])
    lq = rng.choice([1, max(gq // 2, 1), gq])
    lb = min(rng.choice([lq, min(2 * lq, I32MAX), 0, 1]), gb)
    return dict(kind="tb", l1=lq, l2=lb, g1=gq, g2=gb, mode=mode, cs=cs)


def gen_quota(rng, c, strat):
    k = rng.below(20)
    s = strat if k < 16 else rng.choice(STRATS)
    same = rng.below(10) < 8
    d = c["kind"] if same else rng.choice(["mi", "tb", "none"])
    if d == "mi":
        ref = (c["l1"], c["g1"])
        return q_mi(clip(vocab(rng, *ref)), s)
    if d == "tb":
        return q_tb(clip(vocab(rng, c["l1"], c["g1"])), clip(vocab(rng, c["l2"], c["g2"])), s)
    return q_none(s)


def gen_count(rng, c, rtstate):
    k = rng.below(20)
    r = rng.below(10)
    if r < 6:
        rtstate[0] += rng.randint(1, 3)
        rt = rtstate[0]
    elif r < 8:
        rt = max(0, rtstate[0] - rng.randint(0, 3))     # stale / reordered
    else:
        rt = 0                                          # the counter's own timeout reply carries no request time
    if k < 9:
        return ok(True, clip(vocab(rng, c["l1"], c["g1"])), rt)
    if k < 13:
        return ok(False, clip(vocab(rng, c["l1"], c["g1"])), rt)
    if k < 18:
        mx = rng.choice([0, 1, c["l1"], c["g1"], c["g1"] + 3, min(2 * c["g1"] + 1, I32MAX), rng.randint(0, 80)])
        rate = rng.choice([0, 1, c["l1"], c["g1"], min(c["g1"] + 3, I32MAX), min(2 * c["g1"] + 1, I32MAX), rng.randint(0, 2000)])
        return err(clip(mx), clip(rate), rt)
    return old(rt)


def gen_limits(rng, c, last):
    """new valid limits of the same type, often just below / above the quota last answered."""
    if c["kind"] == "mi":
        ref = [c["g1"] // 2, max(c["g1"] - 1, 0), c["g1"] + 1, min(2 * c["g1"] + 1, 60), 0, 1, rng.randint(0, 40)]
        if last and last["d"] == "mi" and 0 < last["a"] < 100:
            ref += [last["a"] - 1, last["a"] - 1, last["a"] // 2, last["a"], last["a"] + 1]
        g = max(0, min(rng.choice(ref), 60))
        l = min(rng.choice([0, 1, c["l1"], c["l1"], g // 2, g]), g)
        return sch(l, 0, g, 0)
    refq = [max(c["g1"] // 2, 1), max(c["g1"] - 1, 1), min(c["g1"] + 1, I32MAX), min(2 * c["g1"], I32MAX), 1, rng.randint(1, 200)]
    refb = [c["g2"] // 2, max(c["g2"] - 1, 0), min(c["g2"] + 1, I32MAX), min(2 * c["g2"], I32MAX), 0, 1, rng.randint(0, 200)]
    if last and last["d"] == "tb" and 1 < last["a"] < 10 ** 6:
        refq += [last["a"] - 1, last["a"] // 2 + 1, last["a"]]
    if last and last["d"] == "tb" and 0 < last["b"] < 10 ** 6:
        refb += [last["b"] - 1, last["b"] - 1, last["b"] // 2, last["b"]]
    gq, gb = max(1, rng.choice(refq)), max(0, rng.choice(refb))
    lq = min(rng.choice([1, c["l1"], max(gq // 2, 1), gq]), gq)
    lb = min(rng.choice([c["l2"], 0, 1, lq]), gb)
    return sch(lq, lb, gq, gb)


def fresh_limits(rng, kind):
    """valid limits for a schema of the given type (as in gen_static, small values)"""
    if kind == "mi":
        g = rng.choice([0, 1, 2, 10, 20, 49, 50, 60])
        return min(rng.choice([0, 1, g // 2, g, max(g - 1, 0)]), g), 0, g, 0
    gq = rng.choice([1, 2, 10, 100, 1000])
    gb = rng.choice([0, 1, gq // 2, gq, gq, 2 * gq, 10 * gq])
    lq = rng.choice([1, max(gq // 2, 1), gq])
    return lq, min(rng.choice([lq, 2 * lq, 0, 1]), gb), gq, gb


ELAPSE_MS = [1, 100, 1000, 2000, 4000, 4999, 5000, 5001, 6000]


def gen_worker(rng, cur):
    """the counter-manager layer: worker rounds against the limiter server (accept / reject / error / failed call /
    missing reply), time passing, watchdog ticks; silences around the 2 s resync and the 4 s watchdog thresholds"""
    tbk = cur["kind"] == "tb"          # token bucket: only idle rounds (whether a busy round asks depends on its token pool)

    def round_():
        srv = rng.choice(["accept", "accept", "accept", "reject", "error", "callerr", "omit", "omit"])
        mx = rng.choice([0, 1, cur["l1"], cur["g1"], cur["g1"] + 3, rng.randint(0, 80)])
        rate = rng.choice([0, 1, cur["l1"], cur["g1"], min(cur["g1"] + 3, I32MAX), rng.randint(0, 2000)])
        return wk(srv, clip(vocab(rng, cur["l1"], cur["g1"])), idle=tbk or rng.below(3) == 0, mx=clip(mx), rate=clip(rate))

    def tick():
        return wd(clip(rng.choice([0, 1, cur["l1"], cur["g1"] + 3, rng.randint(0, 80)])),
                  clip(rng.choice([0, 1, cur["l1"], min(cur["g1"] + 3, I32MAX), rng.randint(0, 2000)])))

    k = rng.below(10)
    if k < 4:
        return [round_()]
    if k < 6:
        return [tick()]
    out = [round_()] if rng.below(2) == 0 else []          # a silence: the server stops answering for the schema
    for _ in range(rng.randint(1, 3)):
        out.append({"op": "elapse", "ms": rng.choice([1000, 2000, 3000, 4000, 4999, 5000, 6000])})
        j = rng.below(4)
        if j == 0:
            out.append(wk("omit", idle=tbk or rng.below(2) == 0))
        elif j == 1:
            out.append(CFG)
    out.append(tick())
    if rng.below(2) == 0:
        out.append(round_())
    return out


def gen_case(rng, tier):
    """one history: a stateful walk that tracks the schema currently configured (type, strategy, limits,
    present or deleted) so that answers, schema updates and stale answers of the previous type relate to it."""
    c = gen_static(rng, tier)
    flavour = rng.below(10)
    strat = "globalAllocate" if flavour < 4 else ("globalCount" if flavour < 8 else rng.choice(STRATS))
    c["strat"] = strat
    cur = dict(kind=c["kind"], l1=c["l1"], l2=c["l2"], g1=c["g1"], g2=c["g2"])
    present = True
    ops, last = [], None
    rtstate = [0]
    n = rng.randint(3, 11) if tier == "quick" else rng.randint(4, 28)
    updates = rng.below(3) > 0          # 2 histories in 3 see schema updates
    if c["cs"] == "nil":
        for _ in range(rng.randint(0, 5)):
            k = rng.below(4)
            if k < 2:
                strat = rng.choice(STRATS)
                ops.append(st(strat))
            elif k == 2:
                ops.append(DEL)
            else:
                kind = rng.choice(["mi", "tb"])
                ops.append(sch(*fresh_limits(rng, kind), kind=kind, strat=strat))
        c["ops"] = ops
        return fix_schema_ops(c)
    if rng.below(10) < 8:
        ops.append(hb(True))
    if strat == "globalCount" and rng.below(10) < 8:
        ops.append(CFG)
    for _ in range(n):
        k = rng.below(100)
        count_heavy = strat == "globalCount"
        if k < (12 if count_heavy else 40):
            o = gen_quota(rng, cur, strat)
            if rng.below(12) == 0:
                o = q_both(clip(vocab(rng, cur["l1"], cur["g1"])), clip(vocab(rng, cur["l1"], cur["g1"])),
                           clip(vocab(rng, cur["l2"], cur["g2"])), o["s"])
            ops.append(o)
            last = o
            if rng.below(3) == 0:
                ops.append(dict(o))             # the server repeats its answer: the steady state
        elif k < (50 if count_heavy else 46):
            if rng.below(5) < 2:
                ops.append(gen_count(rng, cur, rtstate))
            else:
                ops.extend(gen_worker(rng, cur))
        elif k < (60 if count_heavy else 50):
            ops.append(CFG)
        elif k < 68:
            j = rng.below(10)
            if j < 4:
                ops.append(hb(rng.below(3) > 0))
            elif j < 6:                         # the real rounds: sync every 2 s lists the leader while its heartbeats fail
                for _ in range(rng.randint(1, 4)):
                    ops.append(heart(rng.choice([500, 500, 0, 200])))
                    ops.append({"op": "elapse", "ms": rng.choice([1000, 2000, 2000, 3000, 4999, 5001])})
                    if rng.below(3) > 0:
                        ops.append(info(rng.choice(["same", "same", "same", "omit", "fail", "other"])))
                ops.append(heart(rng.choice([500, 0, 200])))
            elif j < 8:                         # a failing server: heartbeats around the 5 s hysteresis boundary
                ops.extend([hb(False), {"op": "elapse", "ms": rng.choice(ELAPSE_MS)}, hb(False)])
                if rng.below(2) == 0:
                    ops.extend([{"op": "elapse", "ms": rng.choice(ELAPSE_MS)}, hb(rng.below(2) == 0)])
            else:
                ops.append(leader(rng.choice(["b", "c"])))
        elif k < 74:
            ops.append({"op": "elapse", "ms": rng.choice(ELAPSE_MS)})
        elif k < 80:
            strat = rng.choice(STRATS)
            ops.append(st(strat))
            present = True
        elif k < 84:
            ops.append(EN)
        elif updates and k < 92:                # the limits change (same type)
            u = gen_limits(rng, cur, last if last and last["d"] in ("mi", "tb") else None)
            if rng.below(4) == 0:
                strat = rng.choice(STRATS[:3])
                u["ns"] = strat
            ops.append(u)
            present = True
            cur.update(l1=u["nl1"], l2=u["nl2"], g1=u["ng1"], g2=u["ng2"])
            if last is not None and rng.below(3) > 0:
                ops.extend(dict(last) for _ in range(rng.randint(1, 3)))
            elif rng.below(2) == 0:
                ops.append(CFG)
        elif updates and k < 97:                # the type changes; answers of the old type keep arriving
            kind = "tb" if cur["kind"] == "mi" else "mi"
            if rng.below(3) == 0:
                strat = rng.choice(STRATS[:3])
            l1, l2, g1, g2 = fresh_limits(rng, kind)
            ops.append(sch(l1, l2, g1, g2, kind=kind, strat=strat))
            present = True
            cur.update(kind=kind, l1=l1, l2=l2, g1=g1, g2=g2)
            if last is not None and rng.below(3) > 0:
                ops.extend(dict(last) for _ in range(rng.randint(1, 2)))      # stale answers of the old type
            j = rng.below(4)
            if j == 0:
                ops.append(CFG)
            elif j == 1:
                ops.append(gen_count(rng, cur, rtstate))
        elif updates:                           # the schema name is deleted, and (mostly) added again later
            ops.append(DEL)
            present = False
            if last is not None and rng.below(2) == 0:
                ops.append(dict(last))
            if rng.below(3) > 0:
                kind = rng.choice(["mi", "tb"])
                l1, l2, g1, g2 = fresh_limits(rng, kind)
                ops.append(sch(l1, l2, g1, g2, kind=kind, strat=strat))
                present = True
                cur.update(kind=kind, l1=l1, l2=l2, g1=g1, g2=g2)
        else:
            ops.append(hb(rng.below(3) > 0))
    c["ops"] = ops
    return fix_schema_ops(c)


def generate(rng, tier, scale=1):
    n = (250 if tier == "quick" else 5000) * scale
    return [gen_case(rng, tier) for _ in range(n)]


# ----------------------------------------------------------------------------- Coq printing
def coq_item(d, a, b, s):
    det = "DNone" if d == "none" else ("(DMI %s)" % cZ(a) if d == "mi" else "(DTB %s %s)" % (cZ(a), cZ(b)))
    return "(Build_item %s %s)" % (det, sc(s))


def coq_quota(o):
    if o["d"] == "both":
        return "(Build_item (DBoth %s %s %s) %s)" % (cZ(o["a"]), cZ(o["q"]), cZ(o["b"]), sc(o["s"]))
    return coq_item(o["d"], o["a"], o["b"], o["s"])     # constructor form: record syntax elaborates 5x slower


def coq_ev(o):
    k = o["op"]
    if k == "quota":
        return "(EQuota %s)" % coq_quota(o)
    if k == "cfgsync":
        return "ECfgSync"
    if k == "enable":
        return "EEnable"
    if k == "count":
        if o["r"] == "err":
            r = "(RErr %s %s)" % (cZ(o["mx"]), cZ(o["rate"]))
        elif o["r"] == "old":
            r = "ROld"
        else:
            r = "(ROk %s %s)" % (cbool(o["accept"]), cZ(o["limit"]))
        return "(ECount %s %s)" % (r, cZ(o["rt"]))
    if k == "worker":
        sv = {"accept": "(SvAccept %s)" % cZ(o["limit"]), "reject": "(SvReject %s)" % cZ(o["limit"]), "error": "SvError",
              "callerr": "SvCallErr", "omit": "SvOmit"}[o["srv"]]
        return "(EWorker %s %s %s %s)" % (cbool(o["idle"]), sv, cZ(o["mx"]), cZ(o["rate"]))
    if k == "watchdog":
        return "(EWatchdog %s %s)" % (cZ(o["mx"]), cZ(o["rate"]))
    if k == "heart":      # clientHeart -> setLeaderStatus(shard, leader, answer == 200)
        return "(EHb %s)" % cbool(o["limit"] == 200)
    if k == "info":       # sync touches the readiness only when the leader CHANGED; otherwise nothing happens
        return "ELeader" if o["srv"] == "other" else "(EElapse 0)"
    if k == "hb":
        return "(EHb %s)" % cbool(o["ready"])
    if k == "elapse":
        return "(EElapse %s)" % cZ(o["ms"])
    if k == "leader":
        return "ELeader"
    if k == "delete":
        return "EDelete"
    if k == "strategy":
        return "(EStrategy %s)" % sc(o["s"])
    if k == "schema":
        return "(ESchema %s %s %s %s %s %s)" % ("KMI" if o["nk"] == "mi" else "KTB", sc(o["ns"]), cZ(o["nl1"]), cZ(o["nl2"]),
                                                cZ(o["ng1"]), cZ(o["ng2"]))
    raise ValueError(k)


def coq_lim(l):
    if l is None:
        return "None"
    if l["k"] == "mi":
        return "(Some (LMI %s))" % cZ(l["a"])
    if l["k"] == "tb":
        return "(Some (LTB %s %s))" % (cZ(l["a"]), cZ(l["b"]))
    return "(Some LInf)"


SEL = {"local": "SelLocal", "remote": "SelRemote", "default": "SelDefault", "panic": "SelPanic", "other": "SelDefault"}
WK = {"empty": "WEmpty", "mi": "WMI", "tb": "WTB"}


def coq_rem(r):
    if r is None:
        return "None"
    inner = "None" if r["inner"] not in WK else "(Some %s)" % WK[r["inner"]]
    cfg = "None" if r["cfg"] is None else "(Some %s)" % coq_item(r["cfg"]["d"], r["cfg"]["a"], r["cfg"]["b"], r["cfg"]["s"])
    return ("(Some (Build_robs %s %s %s %s %s))" %
            (inner, coq_lim(r["lim"]), cbool(r["unavail"]), cbool(r["over"]), cfg))


def coq_obs(s):
    return ("(Build_obs %s %s %s %s %s %s %s %s)" %
            (cbool(s["evp"]), SEL.get(s["sel"], "SelDefault"), coq_lim(s["lim"]), cZ(s["adm"]), cbool(s["ready"]),
             coq_rem(s["rem"]), cZ(s.get("lsync", -1)), cbool(s.get("sent", False))))


PANIC_OBS = {"evp": True, "sel": "panic", "lim": None, "adm": -1, "ready": False, "rem": None, "lsync": -1, "sent": False}
MODE = {"remote": "MRemote", "local": "MLocal"}
CSK = {"ok": "CSOk", "zero": "CSZero", "nil": "CSNil"}


def coq_case(case, obs):
    steps = obs.get("steps") if isinstance(obs, dict) else None
    static = ("(Build_static (Build_config %s %s %s %s %s) %s %s)" %
              ("KMI" if case["kind"] == "mi" else "KTB", cZ(case["l1"]), cZ(case["l2"]), cZ(case["g1"]), cZ(case["g2"]),
               MODE.get(case["mode"], "MOther"), CSK[case["cs"]]))
    if not steps:  # the whole case panicked outside an event: visible as a failed nopanic/agree
        return "(Case %s %s %s [])" % (static, sc(case["strat"]), coq_obs(PANIC_OBS))
    evs = case["ops"][:len(steps) - 1]    # the harness stops at the first event that panics
    tr = [cpair(coq_ev(e), coq_obs(s)) for e, s in zip(evs, steps[1:])]
    return "(Case %s %s %s %s)" % (static, sc(case["strat"]), coq_obs(steps[0]), clist(tr))


# ----------------------------------------------------------------------------- evidence helpers
def out_of_range(case, o):
    if o["op"] == "quota":
        if o["d"] != case["kind"]:
            return True
        return o["a"] < 0 or o["a"] > case["g1"] or (o["d"] == "tb" and (o["b"] < 0 or o["b"] > case["g2"]))
    if o["op"] == "count":
        return o["r"] != "ok" or not o["accept"] or o["limit"] < 0 or o["limit"] > case["g1"]
    return False


def nontrivial_key(case, obs):
    steps = obs.get("steps", []) if isinstance(obs, dict) else []
    remote = any(s.get("sel") == "remote" for s in steps)
    bad = any(out_of_range(case, o) for o in case["ops"])
    lost = any(a.get("ready") and not b.get("ready") for a, b in zip(steps, steps[1:]))
    upd = any((o["op"] == "schema" and a.get("rem")) or o["op"] == "delete" or (o["op"] == "schema" and o["nk"] != case["kind"])
              for o, a in zip(case["ops"], steps))
    if remote and (bad or lost or upd):
        return repr((case["kind"], case["l1"], case["l2"], case["g1"], case["g2"], case["mode"], case["cs"], case["strat"],
                     case["ops"]))
    return None


def stats(case, obs):
    labs = ["kind:%s" % case["kind"], "mode:%s/cs:%s" % (case["mode"], case["cs"]), "strategy0:%s" % (case["strat"] or '""'),
            "len<=%d" % (5 * ((len(case["ops"]) + 4) // 5))]
    steps = obs.get("steps", []) if isinstance(obs, dict) else []
    for o, s in zip(case["ops"], steps[1:]):
        lab = o["op"]
        if o["op"] == "quota":
            lab += ":" + ("same-type" if o["d"] == case["kind"] else "other-type") + (":oor" if out_of_range(case, o) else "")
        elif o["op"] == "count":
            lab += ":" + o["r"] + ("" if o["r"] != "ok" else (":accept" if o["accept"] else ":reject"))
        elif o["op"] == "schema":
            lab += ":" + o["nk"]
        elif o["op"] == "elapse":
            lab += ":" + ("<5s" if o["ms"] < 5000 else (">5s" if o["ms"] > 5000 else "=5s"))
        labs.append("ev:%s" % lab)
        labs.append("sel:%s" % s.get("sel"))
    return labs


def shrink(case):
    ops = case["ops"]
    for i in range(len(ops)):
        yield dict(case, ops=ops[:i] + ops[i + 1:])


def neighbours(case, rng):
    ops = case["ops"]
    for i in range(len(ops)):
        yield dict(case, ops=ops[:i] + ops[i + 1:])
    for i in range(len(ops)):
        yield dict(case, ops=ops[:i + 1])


def known_match(entry, case, obs, failed):
    return False


LEVEL_TEXT = ("full proof: Coq theorems over every valid schema (max-in-flight and token-bucket), every limiter mode and "
              "client-set state and every sequence of server answers (arbitrary integers, other types, accept/reject, "
              "errors with arbitrary meter readings, stale and reordered replies, repeated answers), heartbeats, elapsed "
              "time in ms around the 5 s hysteresis, leader changes, answers with both members, schema updates to another "
              "strategy, another type and arbitrary valid limits, deletion and re-creation of the name (the bound is "
              "always the schema currently configured, without a grace period) — induction over the event list with a state invariant — about a Gallina model of Load, "
              "remoteWrapper.Sync, the global-count wrappers and the readiness hysteresis; the model (of the tree with "
              "build/fixes/C09_clamp.diff, C09_reclamp_on_schema_update.diff and 06780c0) is compared with the real upstreamLimiter on generated histories on every run "
              "and the executable spec is evaluated on the real observations; C09_Unrepaired.v keeps the refutations for "
              "the unrepaired tree")
LEVEL_NOTE = ("trusted: Coq kernel + vm_compute, the hand-written model (tied by differential run only), Go harness and "
              "overlay exports; modelled not verified: atomics/sync.Map, the meter (readings are event inputs), the "
              "underlying buckets (size only; admissions counted for max-in-flight), goroutine scheduling of the reconcile "
              "and counter loops (steps driven sequentially), real time; no axioms")
TECHNIQUE = "Coq proof (induction over event histories, invariant) + differential model/implementation correspondence"
