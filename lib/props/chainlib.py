"""Shared helpers of the C02 and C04 plugins: case construction for the chain rig
(harness/common/chainrig.go) and printers from its observations to Coq terms."""
from vf.core import B, cstr, cZ, cbool, clist, cpair

TOKEN = b"gateway-own-credential"          # chainrig.go: gatewayToken
CLIENT_IP = b"127.0.0.1"
TOKEN_BYTES = set(b"!#$%&'*+-.^_`|~0123456789abcdefghijklmnopqrstuvwxyzABCDEFGHIJKLMNOPQRSTUVWXYZ")
VALUE_BYTES = [9] + list(range(32, 127)) + list(range(128, 256))   # httpguts.ValidHeaderFieldValue


def mk_case(host="ok.test", method="GET", target=b"/api/v1/pods", headers=(), body=(0, 0), chunked=False,
            user=(b"alice", [b"g1"], []), deny=(), reply=None, tag=""):
    if reply is None:
        reply = (200, [(b"Content-Type", b"application/json")], (5, 1))
    return {
        "tag": tag,
        "host": host, "method": method, "target": B(target),
        "headers": [{"k": B(k), "v": B(v)} for k, v in headers],
        "body": {"len": body[0], "seed": body[1]}, "chunked": chunked,
        "user": {"name": B(user[0]), "groups": [B(g) for g in user[1]],
                 "extra": [{"k": B(k), "vs": [B(v) for v in vs]} for k, vs in user[2]]},
        "deny": [{"resource": r, "namespace": B(ns), "name": B(n), "subresource": B(sr)} for r, ns, n, sr in deny],
        "reply": {"status": reply[0], "headers": [{"k": B(k), "v": B(v)} for k, v in reply[1]],
                  "body": {"len": reply[2][0], "seed": reply[2][1]}},
    }


def coq_headers(hl):
    """[{k, vs}] -> Coq headers term"""
    return clist([cpair(cstr(e["k"]), clist([cstr(v) for v in e["vs"]])) for e in (hl or [])])


def coq_kv_headers(kvl):
    """[{k, v}] (ordered pairs as sent) -> Coq headers term with one entry per pair"""
    return clist([cpair(cstr(e["k"]), clist([cstr(e["v"])])) for e in (kvl or [])])


def coq_identity(u):
    return "(mkId %s %s %s)" % (cstr(u["name"]), clist([cstr(g) for g in u["groups"]]),
                                clist([cpair(cstr(e["k"]), clist([cstr(v) for v in e["vs"]])) for e in u["extra"]]))


def coq_item(d):
    return "(mkItem %s %s %s %s)" % (cstr(d["resource"].encode()), cstr(d["namespace"]), cstr(d["name"]),
                                     cstr(d["subresource"]))


def coq_items(ds):
    return clist([coq_item(d) for d in (ds or [])])


def panic_obs(obs):
    return (not isinstance(obs, dict)) or ("panic" in obs) or ("status" not in obs)


def panic_obs_hist(obs):
    return (not isinstance(obs, dict)) or ("panic" in obs) or ("steps" not in obs)


def rand_case_flip(rng, name):
    out = bytearray(name)
    for i, c in enumerate(out):
        if (65 <= c <= 90 or 97 <= c <= 122) and rng.chance(1, 3):
            out[i] = c ^ 32
    return bytes(out)


def rand_value(rng, lo=0, hi=10):
    """a byte string that net/http accepts as a field value and does not alter (no edge blanks)"""
    n = rng.randint(lo, hi)
    v = bytes(rng.choice(VALUE_BYTES) for _ in range(n))
    return v.strip(b" \t")


def rand_bytes(rng, lo=0, hi=8):
    return bytes(rng.below(256) for _ in range(rng.randint(lo, hi)))


def header_key_escape(k):
    """python twin of dynamic_impersonate.go headerKeyEscape (used only to build client headers)"""
    out = b""
    for c in k:
        if c in TOKEN_BYTES and c != 37:
            out += bytes([c])
        else:
            out += b"%%%02X" % c
    return out
