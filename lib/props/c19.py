"""C19 — API-backed limiter store: acknowledged state survives crashes, per shard."""
from vf.core import B, cstr, cZ, cbool, clist, copt, cpair

PID = "C19"
MODULES = ["Prelude", "C13_Model", "C19_Model", "C19_Spec", "C19_Check"]
PROPS_MODULE = "C19_Properties"
THEOREMS = ["C19_graceful_stop_survives_transient_failures", "C19_ack_persisted", "C19_ack_durable", "C19_stop_flushes", "C19_load_exact",
            "C19_deleted_stay_deleted", "C19_deleted_race_locked", "C19_deleted_race_refuted",
            "C19_save_race_locked", "C19_save_race_refuted",
            "C13_store_shard_filter"]
EVAL = "C19_Check.eval"
CLAUSES = ["agree", "ack", "stop", "load", "deleted", "filter", "noregress"]
RULE = ("distinct op lists that contain a save, at least one injected API fault or crash that was actually consumed "
        "by an API call (the op made >= 1 call and its plan holds a non-ok outcome), and a later restart+load")
TRUSTED_BASE = [
    "Coq 8.16.1 kernel + vm_compute (case files); no native_compute, no extraction",
    "hand-written model C19_Model.v tied to /repo by the differential run of this check (harness/c19: real k8s cache "
    "store over the fake gateway clientset, fault injection by a prepended reactor, crash = store discarded)",
    "modelled not verified: the fake clientset's object tracker stands in for the API server (no resourceVersion "
    "preconditions: conflicts only arise when injected); wait.ExponentialBackoff / retry.RetryOnConflict (5 steps); "
    "sync.Map iteration order is taken from the run (observed) and universally quantified in the theorems",
]
ASSUMPTIONS = [
    "callers of Save pass cluster = condition.Spec.UpstreamCluster (true of the three call sites in the limiter)",
    "operations of one store are serialised, except Save/Delete/DeleteUpstream issued while a flush is running, which "
    "are interleaved at item granularity (before the first API call of an item); interleavings inside one "
    "createOrUpdate are not modelled",
    "stop/deleted clauses are read for histories in which a condition name belongs to one upstream (hist_wf)",
    "a fault reported by the API means the call had no effect (no lost acknowledgements of successful writes)",
]

UPS = [b"a", b"b", b"c", b"kube-1"]
INST = [b"g1", b"g2", b"state"]
OUT = {"ok": "OOk", "notfound": "ONotFound", "conflict": "OConflict", "exists": "OExists",
       "transient": "OTransient", "crash": "OCrash"}
RES = {"ok": "ROk", "err": "RErr", "refused": "RRefused", "crash": "RCrash", "dead": "RDead"}


def cond(name, up, sv=1, tv=2, lab=3):
    return {"name": B(name), "up": B(up), "sv": sv, "tv": tv, "lab": lab}


def nm(up, inst):
    return up + b"." + inst


def race_witness(wt):
    return {"n": 1, "init": [], "ops": [
        {"op": "restart", "shard": 0, "wt": wt},
        {"op": "save", "c": cond(b"a.g1", b"a")},
        {"op": "flush", "inter": [{"up": B(b"a"), "name": B(b"a.g1"),
                                   "ops": [{"op": "delete", "cl": B(b"a"), "name": B(b"a.g1")}]}]},
        {"op": "restart", "shard": 0, "wt": wt},
        {"op": "load", "o": "ok"}]}


def save_race_witness(wt):
    return {"n": 1, "init": [], "ops": [
        {"op": "restart", "shard": 0, "wt": wt},
        {"op": "save", "c": cond(b"a.g1", b"a", 1, 1, 1)}, {"op": "flush"},
        {"op": "flush", "inter": [{"up": B(b"a"), "name": B(b"a.g1"), "ops": [{"op": "save", "c": cond(b"a.g1", b"a", 2, 2, 2)}]}]},
        {"op": "restart", "shard": 0, "wt": wt},
        {"op": "load", "o": "ok"}]}


def corpus():
    cs = []
    # read-modify-write through the store (Get, change the returned object in place, Save it) must be persisted;
    # saving identical content again is legitimately a no-op
    for wt in (True, False):
        cs.append({"n": 1, "init": [cond(b"b.state", b"b", 0, 0, 4)], "ops": [
            {"op": "restart", "shard": 0, "wt": wt}, {"op": "load", "o": "ok"},
            {"op": "save", "c": cond(b"a.state", b"a", 1, 1, 1)}, {"op": "save", "c": cond(b"a.state", b"a", 1, 1, 1)},
            {"op": "rmw", "c": cond(b"a.state", b"a", 2, 1, 9)}, {"op": "rmw", "c": cond(b"a.state", b"a", 2, 3, 9)},
            {"op": "rmw", "c": cond(b"b.state", b"b", 5, 5, 9)}, {"op": "rmw", "c": cond(b"a.g1", b"a", 7, 7, 7)},
            {"op": "rmw", "c": cond(b"a.g1", b"a", 7, 7, 7)}, {"op": "save", "c": cond(b"a.g1", b"a", 7, 7, 7)},
            {"op": "flush"}, {"op": "rmw", "c": cond(b"a.state", b"a", 4, 4, 9)},
            {"op": "restart", "shard": 0, "wt": wt}, {"op": "load", "o": "ok"}]})
    # a write-through Save racing a flush: the flush must not overwrite the acknowledged newer version
    cs.append(save_race_witness(True))
    cs.append(save_race_witness(False))
    # the periodic-mode delete / sync race: a deleted condition is re-created by the running flush
    cs.append(race_witness(False))
    cs.append(race_witness(True))
    # createOrUpdate after a failed Create: Update(nil) on the next step -> error, nothing acknowledged
    cs.append({"n": 1, "init": [], "ops": [
        {"op": "restart", "shard": 0, "wt": True},
        {"op": "save", "c": cond(b"a.g1", b"a"), "plan": [{"name": B(b"a.g1"), "q": ["ok", "transient"]}]},
        {"op": "save", "c": cond(b"a.g1", b"a"), "plan": [{"name": B(b"a.g1"), "q": ["ok", "exists"]}]},
        {"op": "save", "c": cond(b"a.g1", b"a"), "plan": [{"name": B(b"a.g1"), "q": ["conflict", "ok", "ok"]}]},
        {"op": "save", "c": cond(b"a.g1", b"a", 5, 6, 7), "plan": [{"name": B(b"a.g1"), "q": ["conflict", "ok", "ok"]}]},
        {"op": "save", "c": cond(b"a.g1", b"a", 8, 9, 1),
         "plan": [{"name": B(b"a.g1"), "q": ["conflict", "transient", "conflict", "notfound", "conflict", "ok", "conflict", "ok", "conflict"]}]},
        {"op": "save", "c": cond(b"a.g2", b"a", 5, 6, 7), "plan": [{"name": B(b"a.g2"), "q": ["ok", "crash"]}]},
        {"op": "save", "c": cond(b"a.g2", b"a", 5, 6, 7)},
        {"op": "restart", "shard": 0, "wt": True}, {"op": "load", "o": "ok"}]})
    # shard filter: three shards, conditions of all upstreams persisted, each shard loads its own
    init = [cond(nm(u, i), u, 4, 5, 6) for u in UPS for i in INST[:2]]
    for sh in range(3):
        cs.append({"n": 3, "init": init, "ops": [
            {"op": "restart", "shard": sh, "wt": True}, {"op": "load", "o": "ok"},
            {"op": "save", "c": cond(b"a.g1", b"a", 9, 9, 9)}, {"op": "save", "c": cond(b"b.g1", b"b", 9, 9, 9)},
            {"op": "save", "c": cond(b"c.g1", b"c", 9, 9, 9)}, {"op": "save", "c": cond(b"kube-1.g1", b"kube-1", 9, 9, 9)},
            {"op": "delup", "cl": B(b"a")}, {"op": "delup", "cl": B(b"b")}, {"op": "stop"},
            {"op": "restart", "shard": sh, "wt": False}, {"op": "load", "o": "transient"}, {"op": "load", "o": "ok"}]})
    # periodic mode: pending conditions, failing flush, crash in the middle of a stop, graceful stop
    cs.append({"n": 1, "init": [cond(b"c.g1", b"c", 0, 0, 0)], "ops": [
        {"op": "restart", "shard": 0, "wt": False}, {"op": "load", "o": "ok"},
        {"op": "save", "c": cond(b"a.g1", b"a")}, {"op": "save", "c": cond(b"a.g2", b"a")}, {"op": "save", "c": cond(b"b.g1", b"b")},
        {"op": "flush", "plan": [{"name": B(b"a.g2"), "q": ["transient"]}]},
        {"op": "delete", "cl": B(b"a"), "name": B(b"a.g1"), "plan": [{"name": B(b"a.g1"), "q": ["conflict", "conflict", "ok"]}]},
        {"op": "stop", "plan": [{"name": B(b"b.g1"), "q": ["crash"]}]},
        {"op": "restart", "shard": 0, "wt": False}, {"op": "load", "o": "ok"},
        {"op": "save", "c": cond(b"a.g1", b"a", 7, 7, 7)}, {"op": "stop"}, {"op": "save", "c": cond(b"a.g2", b"a", 8, 8, 8)}, {"op": "stop"},
        {"op": "restart", "shard": 0, "wt": True}, {"op": "load", "o": "ok"}]})
    # a Stop whose final flush fails must not leave the store "stopped": the retried Stop has to flush
    for q in (["transient"], ["conflict"] * 5, ["notfound", "exists"]):
        cs.append({"n": 1, "init": [], "ops": [
            {"op": "restart", "shard": 0, "wt": False},
            {"op": "save", "c": cond(b"a.g1", b"a", 1, 1, 1)}, {"op": "save", "c": cond(b"b.g1", b"b", 2, 2, 2)},
            {"op": "stop", "plan": [{"name": B(b"a.g1"), "q": q}, {"name": B(b"b.g1"), "q": q}]},
            {"op": "stop"}, {"op": "stop"},
            {"op": "restart", "shard": 0, "wt": False}, {"op": "load", "o": "ok"}]})
    # graceful stop through the limiter's own retry (stopLimitStoreWithRetry, 2 s between attempts): k = 0, 1, 2
    # failing flushes (transient / conflicts exhausted / not-found then already-exists), periodic mode, pending
    # conditions; the next holder must load all of them
    for q in ([], ["transient"], ["conflict"] * 5 + ["notfound", "exists"]):
        cs.append({"n": 1, "init": [cond(b"c.g1", b"c", 0, 0, 0)], "ops": [
            {"op": "restart", "shard": 0, "wt": False}, {"op": "load", "o": "ok"},
            {"op": "save", "c": cond(b"a.g1", b"a", 1, 1, 1)}, {"op": "save", "c": cond(b"b.g1", b"b", 2, 2, 2)},
            {"op": "save", "c": cond(b"c.g1", b"c", 3, 3, 3)},
            {"op": "gstop", "shard": 0, "plan": ([{"name": B(b"a.g1"), "q": q}] if q else [])},
            {"op": "gstop", "shard": 0},
            {"op": "restart", "shard": 0, "wt": False}, {"op": "load", "o": "ok"}]})
    # delete retries exhausted / delete of something absent / delete-upstream failing half-way
    cs.append({"n": 1, "init": [], "ops": [
        {"op": "restart", "shard": 0, "wt": True},
        {"op": "save", "c": cond(b"a.g1", b"a")}, {"op": "save", "c": cond(b"a.g2", b"a")}, {"op": "save", "c": cond(b"a.state", b"a")},
        {"op": "delete", "cl": B(b"a"), "name": B(b"a.g1"), "plan": [{"name": B(b"a.g1"), "q": ["conflict"] * 5}]},
        {"op": "delete", "cl": B(b"a"), "name": B(b"a.g1"), "plan": [{"name": B(b"a.g1"), "q": ["notfound"]}]},
        {"op": "delete", "cl": B(b"b"), "name": B(b"b.g1")},
        {"op": "delup", "cl": B(b"a"), "plan": [{"name": B(b"a.g2"), "q": ["transient"]}, {"name": B(b"a.state"), "q": ["transient"]}]},
        {"op": "stop"}, {"op": "restart", "shard": 0, "wt": True}, {"op": "load", "o": "ok"}, {"op": "delup", "cl": B(b"a")}]})
    return cs


def rand_cond(rng, wfok=True):
    u = rng.choice(UPS)
    i = rng.choice(INST)
    name = nm(u, i)
    if not wfok and rng.chance(1, 2):
        u = rng.choice(UPS)
    return cond(name, u, rng.randint(0, 9), rng.randint(0, 9), rng.randint(0, 9))


def rand_queue(rng, crash_ok=True, maxlen=4):
    q = []
    for _ in range(rng.randint(1, maxlen)):
        k = rng.below(100)
        if k < 30:
            q.append("ok")
        elif k < 48:
            q.append("notfound")
        elif k < 68:
            q.append("conflict")
        elif k < 76:
            q.append("exists")
        elif k < 92 or not crash_ok:
            q.append("transient")
        else:
            q.append("crash")
    return q


def rand_fop(rng, deleting, wfok, key=None):
    k = rng.below(10)
    if deleting and k < 5:
        u = rng.choice(UPS)
        if key is not None and rng.chance(2, 3):
            # the racing delete names the very item the flush is about to write
            return {"op": "delete", "cl": B(key[0]), "name": B(key[1])} if k < 4 else {"op": "delup", "cl": B(key[0])}
        if k < 4:
            return {"op": "delete", "cl": B(u), "name": B(nm(u, rng.choice(INST)))}
        return {"op": "delup", "cl": B(u)}
    return {"op": "save", "c": rand_cond(rng, wfok)}


def gen_hist(rng, wfok=True, nops=(6, 16)):
    n = rng.choice([1, 1, 2, 2, 3, 5])
    init = []
    seen = set()
    for _ in range(rng.below(5)):
        c = rand_cond(rng, wfok)
        if bytes(c["name"]) not in seen:
            seen.add(bytes(c["name"]))
            init.append(c)
    mode = rng.chance(1, 2)
    ops = [{"op": "restart", "shard": rng.below(n), "wt": mode}]
    if rng.chance(2, 3):
        ops.append({"op": "load", "o": "ok"})
    need_restart = False
    last = {}             # key -> last content saved with a fresh object
    saved = []            # keys saved so far: interleaved operations are aimed at items a flush will really write
    for _ in range(rng.randint(*nops)):
        if need_restart and rng.chance(4, 5):
            if rng.chance(1, 4):
                mode = not mode
            ops.append({"op": "restart", "shard": rng.below(n), "wt": mode})
            ops.append({"op": "load", "o": "ok"})
            need_restart = False
            continue
        k = rng.below(100)
        faulty = rng.chance(2, 5)
        if saved and rng.chance(1, 7):
            # read-modify-write of something saved earlier / saving identical content again (no faults injected:
            # the object is changed in place before the Save, which the model does not distinguish)
            key = rng.choice(sorted(set(saved)))
            if rng.chance(2, 3):
                ops.append({"op": "rmw", "c": cond(key[1], key[0], rng.randint(0, 9), rng.randint(0, 9), 0)})
            elif key in last:
                ops.append({"op": "save", "c": dict(last[key])})
            continue
        if k < 36:
            c = rand_cond(rng, wfok)
            op = {"op": "save", "c": c}
            names = [bytes(c["name"])]
            saved.append((bytes(c["up"]), bytes(c["name"])))
            last[(bytes(c["up"]), bytes(c["name"]))] = c
        elif k < 48:
            u = rng.choice(UPS)
            if not wfok and rng.chance(1, 3):
                name = nm(rng.choice(UPS), rng.choice(INST))
            else:
                name = nm(u, rng.choice(INST))
            op = {"op": "delete", "cl": B(u), "name": B(name)}
            names = [name]
        elif k < 54:
            u = rng.choice(UPS)
            op = {"op": "delup", "cl": B(u)}
            names = [nm(u, i) for i in INST]
        elif k < 68:
            op = {"op": "flush"}
            names = [nm(u, i) for u in UPS for i in INST]
            if rng.chance(1, 3):
                inter = []
                deleting = True
                pool = sorted(set(saved)) if saved and rng.chance(4, 5) else [(u, nm(u, i)) for u in UPS for i in INST]
                single = mode            # write-through: every interleaved operation may wait for the mutex
                for key in rng.sample(pool, 1 if single else rng.randint(1, 2)):
                    fops = []
                    for _ in range(1 if single else rng.randint(1, 2)):
                        f = rand_fop(rng, deleting, wfok, key)
                        if f["op"] != "save":
                            deleting = False
                        fops.append(f)
                    inter.append({"up": B(key[0]), "name": B(key[1]), "ops": fops})
                op["inter"] = inter
        elif k < 76:
            op = {"op": "stop"}
            names = [nm(u, i) for u in UPS for i in INST]
            if GSTOP_RATE and rng.chance(1, GSTOP_RATE):
                # graceful stop through the limiter's retry wrapper: at most one failing attempt (it sleeps 2 s)
                op = {"op": "gstop", "shard": 0}
                if saved and rng.chance(1, 2):
                    key = rng.choice(sorted(set(saved)))
                    op["plan"] = [{"name": B(key[1]), "q": rng.choice([["transient"], ["conflict"] * 5, ["notfound", "exists"]])}]
                ops.append(op)
                continue
        elif k < 84:
            op = {"op": "load", "o": rng.choice(["ok", "ok", "ok", "transient", "notfound", "crash"])}
            names = []
            if op["o"] == "crash":
                need_restart = True
        else:
            if rng.chance(1, 4):
                mode = not mode
            op = {"op": "restart", "shard": rng.below(n) if rng.chance(9, 10) else n, "wt": mode}
            names = []
        if op["op"] == "stop" and rng.chance(1, 2):
            faulty = True
        if faulty and names:
            plan = []
            for name in rng.sample(names, 1 if len(names) < 3 else rng.randint(1, 2)):
                q = rand_queue(rng, crash_ok=not op.get("inter"))
                plan.append({"name": B(name), "q": q})
                if "crash" in q:
                    need_restart = True
            op["plan"] = plan
        ops.append(op)
        if op["op"] == "stop" and op.get("plan") and not need_restart and rng.chance(2, 3):
            # the caller retries a failed stop (stopLimitStoreWithRetry), then the shard moves on
            ops.append({"op": "stop"})
            if rng.chance(1, 2):
                ops.append({"op": "restart", "shard": rng.below(n), "wt": mode})
                ops.append({"op": "load", "o": "ok"})
    # finish with a hand-over so that durability is observed
    if rng.chance(3, 4):
        if rng.chance(1, 2):
            ops.append({"op": "stop"})
        ops.append({"op": "restart", "shard": rng.below(n), "wt": mode})
        ops.append({"op": "load", "o": "ok"})
    return {"n": n, "init": init, "ops": ops}


def generate(rng, tier, scale=1):
    # thorough: 2000 sequences in shards of 80 (one coqc start-up costs about as much as evaluating 15 cases)
    global COQ_SHARD, GSTOP_RATE
    COQ_SHARD = 30 if tier == "quick" else 80
    GSTOP_RATE = 0 if tier == "quick" else 6      # the real retry sleeps 2 s: generated ones only in the thorough tier
    k = (290 if tier == "quick" else 2000) * scale
    cs = []
    for i in range(k):
        if i % 10 == 9:
            cs.append(gen_hist(rng, wfok=False))       # misuse stream: names shared between upstreams
        elif i % 10 == 8:
            cs.append(gen_hist(rng, nops=(1, 4)))      # short boundary histories
        else:
            cs.append(gen_hist(rng))
    return cs


GSTOP_RATE = 0
HARNESS_CHUNK = 40
COQ_SHARD = 30


# ---------------------------------------------------------------- Coq printing
def c_body(c):
    return "(mkBody %s %s %s %s)" % (cstr(c["up"]), cZ(c["sv"]), cZ(c["tv"]), cZ(c["lab"]))


def c_cond(c):
    return cpair(cstr(c["name"]), c_body(c))


def c_api(l):
    return clist([c_cond(c) for c in l])


def c_loc(l):
    return clist([cpair(cpair(cstr(c["up"]), cstr(c["name"])), c_body(c)) for c in l])


def c_plan(pl):
    return clist([cpair(cstr(p["name"]), clist([OUT[o] for o in p["q"]])) for p in (pl or [])])


def c_fop(f, ord_names):
    if f["op"] == "save":
        return "(FSave %s)" % c_cond(f["c"])
    if f["op"] == "delete":
        return "(FDelete %s %s)" % (cstr(f["cl"]), cstr(f["name"]))
    return "(FDeleteUp %s %s)" % (cstr(f["cl"]), clist([cstr(x) for x in ord_names]))


def c_keys(keys):
    return clist([cpair(cstr(k["up"]), cstr(k["name"])) for k in keys])


def c_op(o, s, prev=None):
    k = o["op"]
    if k == "rmw":
        # in the model a read-modify-write is a Save of the new content; the object keeps the label it had in the store
        c = dict(o["c"])
        for e in (prev or {}).get("loc") or []:
            if e["up"] == c["up"] and e["name"] == c["name"]:
                c["lab"] = e["lab"]
        return "(OFg (FSave %s) [])" % c_cond(c)
    if k in ("save", "delete", "delup"):
        return "(OFg %s %s)" % (c_fop(o, s.get("dord") or []), c_plan(o.get("plan")))
    if k == "flush":
        inter = []
        iobs = s.get("iobs") or []
        for i, e in enumerate(o.get("inter") or []):
            fs = []
            for j, f in enumerate(e["ops"]):
                ordn = []
                if i < len(iobs) and j < len(iobs[i]):
                    ordn = iobs[i][j].get("ord") or []
                fs.append(c_fop(f, ordn))
            inter.append(cpair(cpair(cstr(e["up"]), cstr(e["name"])), clist(fs)))
        return "(OFlush %s %s %s)" % (c_keys(s.get("ord") or []), clist(inter), c_plan(o.get("plan")))
    if k == "stop":
        return "(OStop %s %s)" % (c_keys(s.get("ord") or []), c_plan(o.get("plan")))
    if k == "gstop":
        return "(OGStop %s %s)" % (clist([c_keys(a["ord"]) for a in s.get("atts") or []]), c_plan(o.get("plan")))
    if k == "load":
        return "(OLoad %s)" % OUT[o.get("o") or "ok"]
    if k == "restart":
        return "(ORestart %s %s)" % (cZ(o["shard"]), cbool(o["wt"]))
    raise ValueError(k)


def c_obs(o, s):
    ipos = []
    iobs = s.get("iobs") or []
    for i, e in enumerate(o.get("inter") or []):
        row = []
        for j, _ in enumerate(e["ops"]):
            r = ""
            if i < len(iobs) and j < len(iobs[i]):
                r = iobs[i][j].get("res") or ""
            row.append("None" if r == "" else "(Some %s)" % RES[r])
        ipos.append(clist(row))
    return "(mkObs %s %s %s %s %s %s)" % (RES[s["res"]], clist([RES[x] for x in s.get("ires") or []]), clist(ipos),
                                        c_api(s["api"]), c_loc(s["loc"]), clist([RES[a["res"]] for a in s.get("atts") or []]))


def coq_case(case, obs):
    steps = obs.get("steps") if isinstance(obs, dict) else None
    if steps is None or len(steps) != len(case["ops"]):
        # a panic inside the harness: emit a one-step trace the model cannot agree with
        return "(CHist 1 [] [(ORestart 0 true, mkObs RBad [] [] [] [] [])])"
    tr = [cpair(c_op(o, s, steps[k - 1] if k else None), c_obs(o, s)) for k, (o, s) in enumerate(zip(case["ops"], steps))]
    return "(CHist %s %s %s)" % (cZ(case["n"]), c_api(case["init"]), clist(tr))


# ---------------------------------------------------------------- metadata for the evidence
def nontrivial_key(case, obs):
    steps = obs.get("steps") if isinstance(obs, dict) else None
    if not steps:
        return None
    saved = False
    fault_at = None
    ok = False
    for idx, (o, s) in enumerate(zip(case["ops"], steps)):
        if o["op"] in ("save", "rmw"):
            saved = True
        if fault_at is None and s.get("calls", 0) >= 1 and any(x != "ok" for p in (o.get("plan") or []) for x in p["q"]):
            fault_at = idx
        if o["op"] == "load" and o.get("o") not in ("ok", None, "") and s.get("calls", 0) >= 1 and fault_at is None:
            fault_at = idx
        if fault_at is not None and saved and o["op"] == "load" and idx > fault_at and s["res"] == "ok":
            ok = True
    return repr(case["ops"]) if ok else None


def stats(case, obs):
    steps = obs.get("steps") if isinstance(obs, dict) else None
    if not steps:
        return ["panic"]
    labs = ["hist:len<=%d" % (10 * ((len(case["ops"]) + 9) // 10)), "n=%d" % case["n"]]
    mode = None
    for o, s in zip(case["ops"], steps):
        if o["op"] == "restart":
            mode = "wt" if o["wt"] else "periodic"
        labs.append("op:%s/%s->%s" % (o["op"], mode, s["res"]))
        for p in (o.get("plan") or []):
            for x in p["q"]:
                labs.append("fault:" + x)
        for r in s.get("ires") or []:
            labs.append("interleaved->" + r)
    return labs


def shrink(case):
    ops = case["ops"]
    for i in range(len(ops)):
        yield dict(case, ops=ops[:i] + ops[i + 1:])
    for i, o in enumerate(ops):
        if o.get("plan"):
            yield dict(case, ops=ops[:i] + [{k: v for k, v in o.items() if k != "plan"}] + ops[i + 1:])
    if case["init"]:
        yield dict(case, init=case["init"][1:])


def neighbours(case, rng):
    ops = case["ops"]
    for i in range(len(ops)):
        yield dict(case, ops=ops[:i] + ops[i + 1:])
        yield dict(case, ops=ops[:i] + [ops[i]] + ops[i:])
    for i, o in enumerate(ops):
        if o.get("plan"):
            yield dict(case, ops=ops[:i] + [{k: v for k, v in o.items() if k != "plan"}] + ops[i + 1:])


def known_match(entry, case, obs, failed):
    if entry.get("id") == "C19-delete-sync-race":
        racing = any(f["op"] in ("delete", "delup") for o in case["ops"] if o["op"] == "flush"
                     for e in (o.get("inter") or []) for f in e["ops"])
        return failed == ["deleted"] and racing
    return False


LEVEL_TEXT = ("full proof: Coq theorems over every history of save / delete / delete-upstream / flush / stop / load / "
              "restart operations with an arbitrary injected outcome (ok, not found, conflict, already exists, transient, "
              "crash) at every API call and every map iteration order, about a Gallina model of the k8s cache store "
              "(createOrUpdate retry loop, delete retry loop, shard filter, write-through vs periodic mode) over an API "
              "modelled as a durable map; the model is compared with the real store over the fake gateway clientset on "
              "generated op/fault/crash sequences on every run and the executable spec is evaluated on the real observations")
LEVEL_NOTE = ("trusted: Coq kernel + vm_compute, the hand-written model (tied by differential run only), Go harness, "
              "fake clientset object tracker as the API server; concurrency is modelled only as Save/Delete/DeleteUpstream "
              "interleaved with a running flush at item granularity; no axioms (all theorems closed under the global context)")
TECHNIQUE = "Coq proof (invariants over op lists with fault/crash injection) + differential model/implementation correspondence"
