"""C04 — forwarding fidelity: requests and responses cross the gateway unchanged; terminations are well-formed."""
from vf.core import B, cstr, cZ, cbool, clist, cpair, copt
from props import chainlib as L

PID = "C04"
MODULES = ["Prelude", "C02_Model", "C02_Spec", "C02_Check", "C04_Model", "C04_Spec", "C04_Check"]
PROPS_MODULE = "C04_Properties"
THEOREMS = ["C04_path_segments_preserved", "C04_query_multimap_preserved", "C04_headers_end_to_end",
            "C04_response_relayed", "C04_terminated_not_forwarded", "C04_method_body_preserved", "C04_upgrade_forwarded"]
EVAL = "C04_Check.eval"
CLAUSES = ["agree", "method_body_host", "path_segments", "query_multimap", "headers_end_to_end", "response_relayed",
           "termination"]
RULE = ("distinct (cluster state, method, target, header multiset, body, scripted reply) in which the path carries a percent "
        "escape or a byte net/url would escape, or the query has a duplicate key / rejected pair / escape, or a hop-by-hop or "
        "Connection-named header is present, or the body is non-empty, or the request is terminated by the gateway")
TRUSTED_BASE = [
    "Coq 8.16.1 kernel + vm_compute (case files); no native_compute, no extraction",
    "hand-written models C04_Model.v / C02_Model.v tied to /repo by the differential run of this check: the REAL handler "
    "chain (buildProxyHandlerChainFunc, dispatcher, UpgradeAwareHandler, vendored ReverseProxy, per-endpoint transports) "
    "between a raw TCP client and a stub TLS upstream (harness/common/chainrig.go)",
    "modelled, not verified (validated by the differential run only): net/url (ParseRequestURI, EscapedPath, validEncoded, "
    "ParseQuery, Values.Encode), net/http request/response framing and header reading/writing, HTTP/2, the tunnel of a "
    "connection upgrade after the upstream's answer (the upgrade REQUEST is modelled), RequestInfo resolution (the 'events' flag is an input of the model)",
]
ASSUMPTIONS = [
    "the observed step is the whole handler chain of cmd/kube-gateway/app (buildProxyHandlerChainFunc): panic recovery, cache "
    "control, request info, termination metrics, extra request info, upstream info, WithTraceLog, pre-processing metrics, request "
    "rate, request reader/writer wrapper, wait group, CORS, authentication, audit, impersonator, impersonation, dispatcher + "
    "UpgradeAwareHandler + ReverseProxy + per-endpoint transport; hosts traced.test / tracedplain.test / gated.test / untraced.test "
    "go through a second instance of that chain assembled with proxy tracing enabled (--enable-proxy-tracing), where WithTraceLog "
    "wraps the request body of non-long-running requests to clusters whose feature gate Tracing is on; the model treats all "
    "these filters as the identity on method, target, headers and body",
    "a response stream cut in the middle (net/http race between the server closing the request body and the outgoing "
    "transport's last read of it, seen only under CPU starvation) is re-sent by the rig up to 3 times; the last observation "
    "counts, so a reproducible cut is still reported; such retries are counted in the evidence (label rig:retried)",
    "same path = same segment list (raw path split on literal '/', each segment percent-decoded)",
    "same query = same multimap as url.ParseQuery yields it; pairs Go rejects (bad escapes, ';') are dropped by the "
    "re-encoding and would equally be dropped by a Go upstream, so they are not counted as a change",
    "the gateway's HTTP client owns User-Agent (its own only when the client sent none), Accept-Encoding (gzip added only "
    "when the client sent none, no Range, not HEAD), Te: trailers, Content-Length/Transfer-Encoding (framing; bodies are "
    "compared by digest and length instead); upstream replies never use Content-Encoding",
    "only the first value of a multi-valued User-Agent is written by net/http; the generator sends at most one",
    "host bucket.test is limited by a real-time token bucket (burst 1, 1 token/s): whether a request is admitted depends on "
    "the wall clock, so for this host only the cluster state (limited / admitted) is read off the observation and the "
    "case is judged by the clauses that apply to what happened; the deterministic 429 path is limited.test (max-in-flight 0)",
    "requests net/http rejects before the chain (control bytes or bad escapes in the target, invalid header names) are "
    "answered 400 by the Go server and only checked for not reaching the upstream",
]

TRACED_HOSTS = ["traced.test", "tracedplain.test", "gated.test", "untraced.test"]   # chain built with proxy tracing enabled
HOSTS = {"ok.test": "COk", "plain.test": "COk", "traced.test": "COk", "tracedplain.test": "COk", "gated.test": "COk",
         "untraced.test": "COk", "limited.test": "CLimited", "bucket.test": "CLimited", "disabled.test": "CNoEndpoint",
         "nohost.test": "CUnknown", "dead.test": "CDead"}
EVENT_PATHS = [(b"/api/v1/namespaces/ns1/events", True), (b"/api/v1/events", True), (b"/api/v1/pods", False),
               (b"/apis/events.k8s.io/v1beta1/namespaces/n/events/e1", True), (b"/healthz", False),
               (b"/api/v1/namespaces/ns1/pods/p1", False), (b"/api/v1/namespaces/events", False)]
METHODS = ["GET", "GET", "GET", "POST", "PUT", "PATCH", "DELETE", "HEAD", "OPTIONS", "FOO", "get"]
SEGS = [b"api", b"v1", b"apis", b"x", b"namespaces", b"ns1", b"pods", b"things", b"a%2Fb", b"a%2fb", b"sub%41", b"%25",
        b"a+b", b"a%20b", b"caf%C3%A9", b"\xc3\xa9", b"\x80\xff", b'"q"', b"<x>", b"^", b"`", b"{y}", b"|", b"\\",
        b";v=1", b",", b"(p)", b"!*'", b":", b"@", b"=", b"&", b"$", b"~", b"-._", b"", b".", b"..", b"%3B%2C",
        b"%23", b"#frag", b"[1]", b"%2F%2F", b"%00", b"%7F", b"*"]
BAD_SEGS = [b"%zz", b"%", b"%4", b"a\x01b", b"a b"]
PAIRS = [b"a=1", b"a=2", b"b=", b"=v", b"k", b"a=%zz", b"c;d=1", b"x=%41", b"sp=a+b", b"sp2=a%20b", b"e=%3D%26",
         b"u=\xc3\xa9", b"q=?x", b"", b"z=%", b"b=2", b"watch=true", b"labelSelector=app%3Dweb%2Ctier+in+(a%2Cb)",
         b"%61=1", b"+=+", b"k=v=w", b"fieldSelector=metadata.name%3Dx", b"a=%2B"]
E2E = [(b"Accept", b"application/json"), (b"Content-Type", b"application/json"), (b"X-Custom", b"1"), (b"x-custom", b"2"),
       (b"X-CUSTOM", b"3"), (b"If-Match", b'"abc"'), (b"Cookie", b"a=1"), (b"Cookie", b"b=2"), (b"X-Empty", b""),
       (b"Range", b"bytes=0-1"), (b"Accept-Encoding", b"br"), (b"Accept-Encoding", b"gzip"), (b"Accept-Encoding", b"identity"),
       (b"User-Agent", b"curl/8.0"), (b"User-Agent", b"kubectl/v1.18 (linux/amd64)"), (b"X-Forwarded-For", b"10.0.0.1"),
       (b"X-Forwarded-For", b"10.0.0.2, 10.0.0.3"), (b"X-Remote-User", b"root"), (b"Accept-Language", b"\xc3\xa9n"),
       (b"X-Blank", b"a  b\tc"), (b"Origin", b"http://evil"), (b"Pragma", b"no-cache"), (b"Cache-Control", b"no-store")]
HOP = [(b"Connection", b"close"), (b"Connection", b"keep-alive"), (b"Connection", b"x-foo"), (b"Connection", b"X-Custom, x-foo"),
       (b"Connection", b"te"), (b"Connection", b"accept-encoding"), (b"Connection", b"x-forwarded-for"),
       (b"Connection", b"user-agent , ,cookie"), (b"Connection", b""), (b"X-Foo", b"hop"), (b"Keep-Alive", b"timeout=5"),
       (b"Proxy-Authorization", b"Basic eDp5"), (b"Proxy-Connection", b"keep-alive"), (b"Te", b"trailers"), (b"Te", b"gzip"),
       (b"TE", b"deflate, Trailers"), (b"Upgrade", b"h2c"), (b"Proxy-Authenticate", b"Basic")]
IDH = [(b"Authorization", b"Bearer client"), (b"Impersonate-User", b"bob"), (b"Impersonate-Group", b"dev"),
       (b"Impersonate-Uid", b"7")]
STATUSES = [200, 200, 200, 201, 202, 204, 301, 400, 401, 403, 404, 409, 418, 429, 500, 503]
RH = [(b"X-Up", b"1"), (b"x-up", b"2"), (b"Set-Cookie", b"a=1; Path=/"), (b"Set-Cookie", b"b=2"), (b"Cache-Control", b"max-age=3"),
      (b"Cache-Control", b"no-cache, private"), (b"Location", b"/elsewhere?x=1"), (b"Retry-After", b"7"),
      (b"Connection", b"x-bar"), (b"X-Bar", b"hop"), (b"Keep-Alive", b"timeout=9"), (b"Access-Control-Allow-Origin", b"*"),
      (b"Warning", b'299 - "x"'), (b"ETag", b'W/"1"'), (b"Www-Authenticate", b"Bearer"), (b"Proxy-Authenticate", b"Basic"),
      (b"Upgrade", b"h2c"), (b"X-Content-Type-Options", b"nosniff"), (b"Audit-Id", b"4c9e"), (b"X-Val", b"\xc3\xa9 x"),
      (b"Date", b"Mon, 01 Jan 2001 00:00:00 GMT"), (b"Vary", b"Accept")]
CTYPES = [b"application/json", b"text/plain", b"application/vnd.kubernetes.protobuf", b"application/octet-stream"]


def reply(status=200, headers=(), body=(5, 1), ctype=b"application/json"):
    return (status, [(b"Content-Type", ctype)] + list(headers), body)


def corpus():
    c = []
    # the defect repaired by e0b198a, and its residue (repair C04_rawpath_residue.diff)
    c.append(L.mk_case(target=b"/apis/x/v1/things/a%2Fb/sub%41", tag="escaped-slash"))
    c.append(L.mk_case(target=b'/apis/x/v1/things/a%2Fb/"x', tag="escaped-slash+invalid-raw-byte"))
    c.append(L.mk_case(target=b"/a%2Fb/%41\x80/#x%25?", tag="escaped-slash+raw-high-byte"))
    c.append(L.mk_case(target=b"/p;v=1/q,r/%3B%2C%3F%23#frag", tag="sub-delims"))
    c.append(L.mk_case(target=b"/a%2Fb/{x}/%7By%7D/c^d?x=1", tag="braces"))
    c.append(L.mk_case(target=b"/apis/x/v1/things/a%2Fb/sub%41?b=2&a=1&a=%zz&c;d=1&a=0&e", method="POST", body=(1000, 3),
                       headers=[(b"Authorization", b"Bearer client"), (b"X-Custom", b"1"), (b"x-custom", b"2"),
                                (b"Connection", b"x-foo, keep-alive"), (b"X-Foo", b"hop"), (b"Keep-Alive", b"5"),
                                (b"X-Forwarded-For", b"1.2.3.4"), (b"Accept-Encoding", b"br")], tag="query+hop"))
    # witness of the metrics-label panic (repair C04_metrics_label_utf8.diff): a segment that is not valid UTF-8
    c.append(L.mk_case(target=b"/api/v1/namespaces/n/pods/p/%FF", tag="invalid-utf8-subresource"))
    c.append(L.mk_case(target=b"/api/v1/\xf0\x82", tag="invalid-utf8-resource-raw"))
    c.append(L.mk_case(target=b"//double//slash/./../x?", tag="dots"))
    c.append(L.mk_case(target=b"/x?a=1?b=2&=v&k", tag="query-odd"))
    c.append(L.mk_case(target=b"/x?", tag="force-query"))
    c.append(L.mk_case(target=b"/", tag="root"))
    c.append(L.mk_case(target=b"/a%zz", tag="bad-escape"))
    c.append(L.mk_case(target=b"/a b", tag="space"))
    c.append(L.mk_case(method="PUT", body=(65536, 9), chunked=True,
                       headers=[(b"User-Agent", b"curl/8"), (b"Te", b"trailers"), (b"Upgrade", b"foo"),
                                (b"Proxy-Authorization", b"x"), (b"Proxy-Connection", b"k"), (b"Content-Type", b"a/b"),
                                (b"Accept-Encoding", b"gzip")], tag="chunked-64k"))
    c.append(L.mk_case(headers=[(b"Connection", b"close"), (b"Connection", b"X-A, x-b"), (b"X-A", b"1"), (b"X-B", b"2"),
                                (b"X-C", b"3")], tag="connection-named"))
    c.append(L.mk_case(headers=[(b"X-Forwarded-For", b"")], tag="xff-empty"))
    c.append(L.mk_case(headers=[(b"Connection", b"x-forwarded-for"), (b"X-Forwarded-For", b"6.6.6.6")], tag="xff-hop"))
    c.append(L.mk_case(headers=[(b"Range", b"bytes=0-1")], tag="range"))
    c.append(L.mk_case(method="HEAD", reply=reply(200, [], (10, 2)), tag="head"))
    c.append(L.mk_case(reply=reply(204, [(b"X-Up", b"1")], (0, 0)), tag="204"))
    # upstream answers: witness of the added Cache-Control (repair C04_cache_control.diff)
    c.append(L.mk_case(reply=reply(418, [(b"X-Up", b"1"), (b"x-up", b"2"), (b"Connection", b"x-bar"), (b"X-Bar", b"hop"),
                                         (b"Cache-Control", b"max-age=3"), (b"Date", b"Mon, 01 Jan 2001 00:00:00 GMT")],
                                   (70000, 5), b"text/plain"), tag="reply-headers"))
    c.append(L.mk_case(reply=reply(200, [], (3, 1)), tag="reply-no-cache-control"))
    # witness of seeded change C04-g: with proxy tracing on (chain built with --enable-proxy-tracing, cluster gate
    # Tracing=true) the request body passes through WithTraceLog's traceReader; net/http's server-side reader of a
    # Content-Length body returns the LAST bytes together with io.EOF
    for host in TRACED_HOSTS:
        for n in (0, 1, 10, 4095, 4096, 4097, 65536):
            c.append(L.mk_case(host=host, method="POST", target=b"/api/v1/namespaces/n/configmaps", body=(n, 7),
                               headers=[(b"Content-Type", b"application/json")], reply=reply(201, [], (20, 2)), tag="traced-body-%d" % n))
    c.append(L.mk_case(host="traced.test", method="PUT", target=b"/api/v1/namespaces/n/configmaps/c", body=(65536, 9), chunked=True,
                       tag="traced-chunked"))
    c.append(L.mk_case(host="traced.test", method="PATCH", target=b"/api/v1/namespaces/n/configmaps/c?watch=true", body=(100, 3),
                       tag="traced-long-running"))
    c.append(L.mk_case(host="traced.test", target=b"/api/v1/pods", headers=[(b"X-Debug-Trace-Log", b"1")], tag="traced-debug-log"))
    # connection upgrades: request line and headers as the upstream receives them
    up = [(b"Connection", b"Upgrade"), (b"Upgrade", b"SPDY/3.1")]
    c.append(L.mk_case(method="POST", target=b"/api/v1/namespaces/n/pods/p/exec?command=ls&command=-l&container=a%2Fb&x=%zz",
                       headers=up + [(b"X-Stream-Protocol-Version", b"v4.channel.k8s.io"), (b"Keep-Alive", b"5"),
                                     (b"X-Forwarded-For", b"1.2.3.4"), (b"Authorization", b"Bearer client")],
                       reply=(101, [], (50, 3)), tag="upgrade-exec"))
    c.append(L.mk_case(host="plain.test", target=b'/api/v1/namespaces/n/pods/a%2Fb/"x"/portforward', headers=up,
                       reply=(101, [], (0, 0)), tag="upgrade-escaped-path"))
    c.append(L.mk_case(target=b"/api/v1/namespaces/n/pods/p/attach", headers=up + [(b"User-Agent", b"kubectl/v1.18")],
                       reply=(403, [(b"Content-Type", b"text/plain")], (7, 1)), tag="upgrade-refused"))
    c.append(L.mk_case(host="limited.test", target=b"/api/v1/namespaces/n/pods/p/exec", headers=up, reply=(101, [], (5, 1)),
                       tag="upgrade-limited"))
    # terminations
    for host in ("limited.test", "bucket.test", "disabled.test", "nohost.test", "dead.test"):
        c.append(L.mk_case(host=host, tag="term-" + host))
        c.append(L.mk_case(host=host, method="POST", body=(2000, 4), target=b"/api/v1/namespaces/ns1/events", tag="term-events-" + host))
    c.append(L.mk_case(headers=[(b"Impersonate-User", b"bob")], deny=[("users", b"", b"bob", b"")], method="POST",
                       body=(100, 1), tag="term-403"))
    c.append(L.mk_case(host="nohost.test", headers=[(b"Impersonate-User", b"bob")], deny=[("users", b"", b"bob", b"")],
                       tag="term-unknown+denied"))
    c.append(L.mk_case(host="limited.test", headers=[(b"Impersonate-User", b"bob")], deny=[("users", b"", b"bob", b"")],
                       tag="term-limited+denied"))
    c.append(L.mk_case(headers=[(b"Impersonate-Group", b"dev")], tag="term-500"))
    return c


def rand_path(rng):
    k = rng.below(100)
    if k < 12:
        return rng.choice(EVENT_PATHS)[0]
    n = rng.randint(1, 6)
    segs = [rng.choice(SEGS) for _ in range(n)]
    if k < 18:
        segs[rng.below(n)] = rng.choice(BAD_SEGS)
    if k >= 90:
        segs.append(L.rand_bytes(rng, 1, 6).replace(b"/", b"_").replace(b"?", b"_").replace(b" ", b"_"))
    p = b"/" + b"/".join(segs)
    if rng.chance(1, 6):
        p += b"/"
    return p


def rand_query(rng):
    k = rng.below(10)
    if k < 3:
        return b""
    if k == 3:
        return b"?"
    return b"?" + b"&".join(rng.choice(PAIRS) for _ in range(rng.randint(1, 5)))


def rand_headers(rng):
    hs = []
    for _ in range(rng.choice([0, 1, 2, 3, 4])):
        hs.append(rng.choice(E2E))
    for _ in range(rng.choice([0, 0, 1, 1, 2, 3])):
        hs.append(rng.choice(HOP))
    if rng.chance(1, 4):
        hs.append(rng.choice(IDH))
    # net/http writes only the first User-Agent value: keep at most one
    seen_ua, out = False, []
    for k, v in rng.shuffle(hs):
        if k.lower() == b"user-agent":
            if seen_ua:
                continue
            seen_ua = True
        out.append((L.rand_case_flip(rng, k) if rng.chance(1, 3) else k, v))
    if rng.chance(1, 8):
        out.append((b"X-" + bytes(rng.choice(sorted(L.TOKEN_BYTES)) for _ in range(rng.randint(1, 6))), L.rand_value(rng, 0, 12)))
    return out


def rand_body(rng, method):
    if method == "HEAD":
        return (0, 0)
    n = rng.choice([0, 0, 0, 1, 1, 10, 1000, 4095, 4096, 4097, 32768, 65536, rng.randint(0, 65536)])
    return (n, rng.randint(1, 1000))


def rand_reply(rng):
    st = rng.choice(STATUSES)
    hs = [rng.choice(RH) for _ in range(rng.choice([0, 1, 2, 3, 4]))]
    # the stub upstream is a Go server too: it adds its own Date unless the canonical key is set
    hs = [(L.rand_case_flip(rng, k) if (rng.chance(1, 4) and k != b"Date") else k, v) for k, v in hs]
    n = 0 if st == 204 else rng.choice([0, 2, 17, 300, 5000, 40000, 65536, rng.randint(0, 65536)])
    return reply(st, hs, (n, rng.randint(1, 1000)), rng.choice(CTYPES))


def gen_case(rng):
    method = rng.choice(METHODS)
    k = rng.below(100)
    host = "ok.test"
    deny = []
    hs = rand_headers(rng)
    target = rand_path(rng) + rand_query(rng)
    if k < 22:
        host = rng.choice(["limited.test", "bucket.test", "disabled.test", "nohost.test", "dead.test", "limited.test"])
        if rng.chance(1, 2):
            target = rng.choice(EVENT_PATHS)[0] + rand_query(rng)
    elif k < 30:
        hs = [(a, b) for a, b in hs if not a.lower().startswith(b"impersonate-")] + [(b"Impersonate-User", b"bob")]
        deny = [("users", b"", b"bob", b"")]
    if host == "ok.test" and rng.chance(1, 3):
        host = "plain.test"
    elif host == "ok.test" and rng.chance(1, 2):
        # through the chain instance assembled with --enable-proxy-tracing; feature gates of the cluster drawn from
        # {Tracing=true, Tracing=true + another gate, another gate only, none}
        host = rng.choice(TRACED_HOSTS + ["traced.test", "tracedplain.test"])
        if rng.chance(1, 2):
            method = rng.choice(["POST", "PUT", "PATCH"])
    if rng.chance(1, 9):
        # a connection upgrade (exec / attach / port-forward): every header is forwarded on this path
        # (a "Connection: close" of the client makes net/http's Request.Write emit one more "Connection: close"
        #  line of its own on this path; not modelled, so not generated together with an upgrade)
        hs = [(k, v) for k, v in hs if not (k.lower() == b"connection" and b"close" in v.lower())]
        hs = hs + [(L.rand_case_flip(rng, b"Connection"), rng.choice([b"Upgrade", b"upgrade", b"keep-alive, Upgrade"])),
                   (b"Upgrade", rng.choice([b"SPDY/3.1", b"websocket"]))]
        hs = rng.shuffle(hs)
        rp = ((101, [], (rng.randint(0, 200), rng.randint(1, 999))) if rng.chance(3, 4)
              else (rng.choice([400, 403, 404, 500]), [(b"Content-Type", b"text/plain")], (rng.randint(1, 300), rng.randint(1, 999))))
        return L.mk_case(host=host, method=rng.choice(["GET", "POST"]), target=target, headers=hs, deny=deny, reply=rp,
                         tag="gen-upgrade")
    body = rand_body(rng, method)
    return L.mk_case(host=host, method=method, target=target, headers=hs, body=body,
                     chunked=(body[0] > 0 and rng.chance(1, 5)), deny=deny, reply=rand_reply(rng), tag="gen")


def generate(rng, tier, scale=1):
    n = (360 if tier == "quick" else 5000) * scale
    return [gen_case(rng) for _ in range(n)]


def _events(case):
    path = bytes(case["target"]).split(b"?")[0]
    for p, ev in EVENT_PATHS:
        if p == path:
            return ev
    return False


def _digest(sha, n):
    return b"" if n == 0 else ("%s:%d" % (sha, n)).encode()


def coq_seen(u):
    return "(mkSeen %s %s %s %s %s)" % (cstr(u["method"].encode("latin-1")), cstr(u["uri"]), cstr(u["host"].encode("latin-1")),
                                        L.coq_headers(u["headers"]), cstr(_digest(u["body_sha"], u["body_len"])))


def cluster_of(case, obs):
    """Cluster state of the case. bucket.test is limited by a REAL token bucket (burst 1, 1 token/s, primed by the rig
    immediately before the case's request): whether the request finds the bucket empty depends on the wall clock, so
    for this one host the state is read off the observation -- upstream saw nothing => flow-limited (judged by the
    termination clauses), upstream saw the request => admitted (judged by the fidelity clauses).  The deterministic
    429 path is limited.test (max-in-flight 0), which is never decided from the observation."""
    c = HOSTS.get(case["host"], "CUnknown")
    if case["host"] == "bucket.test" and not L.panic_obs(obs) and obs.get("upstream"):
        return "COk"
    return c


def coq_case(case, obs):
    cluster = cluster_of(case, obs)
    bad = L.panic_obs(obs)
    reached = (not bad) and bool(obs.get("reached")) and obs.get("gw_in") is not None
    h_in = L.coq_headers(obs["gw_in"]["headers"]) if reached else L.coq_kv_headers(case["headers"])
    sent_sha = obs.get("sent_body_sha", "?") if not bad else "?"
    reply_sha = obs.get("reply_sha", "?") if not bad else "?"
    req = "(mkReq %s %s %s %s %s %s)" % (cstr(case["method"].encode()), cstr(case["target"]), cstr(case["host"].encode()), h_in,
                                         cstr(_digest(sent_sha, case["body"]["len"])), cbool(_events(case)))
    rp = case["reply"]
    # the stub's Go server writes its header map sorted by (raw) key: that is the order on the wire
    wire_order = sorted(rp["headers"], key=lambda h: bytes(h["k"]))
    rep = "(mkResp %s %s %s)" % (cZ(rp["status"] or 200), L.coq_kv_headers(wire_order),
                                 cstr(_digest(reply_sha, rp["body"]["len"])))
    if bad:
        o = "(mkObs4 [] (-1) [] \"\" None)"
        return "(mkCase4 %s %s %s %s %s %s %s true %s)" % (cstr(L.TOKEN), cstr(L.CLIENT_IP), cluster, req,
                                                          L.coq_identity(case["user"]), L.coq_items(case["deny"]), rep, o)
    scripted_date = any(bytes(h["k"]).lower() == b"date" for h in rp["headers"])
    rh = [e for e in (obs.get("resp_headers") or []) if scripted_date or bytes(e["k"]) != b"Date"]
    body = _digest(obs.get("resp_body_sha", "?"), obs.get("resp_body_len", 0))
    d = obs.get("status_doc")
    doc = "None" if not d else "(Some (mkDoc %s %s %s %s))" % (cstr(d["kind"].encode()), cstr(d["apiVersion"].encode()),
                                                               cstr(d["status"].encode()), cZ(d["code"]))
    o = "(mkObs4 %s %s %s %s %s)" % (clist([coq_seen(u) for u in (obs.get("upstream") or [])]), cZ(obs.get("status", -1)),
                                     L.coq_headers(rh), cstr(body), doc)
    return "(mkCase4 %s %s %s %s %s %s %s %s %s)" % (cstr(L.TOKEN), cstr(L.CLIENT_IP), cluster, req,
                                                    L.coq_identity(case["user"]), L.coq_items(case["deny"]), rep,
                                                    cbool(reached), o)


def _features(case):
    t = bytes(case["target"])
    path, _, q = t.partition(b"?")
    f = []
    if b"%" in path or any(not (48 <= c <= 57 or 65 <= c <= 90 or 97 <= c <= 122 or c in b"/-_.~") for c in path):
        f.append("path:escape-or-special")
    if b"%2F" in path.upper():
        f.append("path:escaped-slash")
    pairs = [p for p in q.split(b"&") if p]
    keys = [p.split(b"=")[0] for p in pairs]
    if len(keys) != len(set(keys)):
        f.append("query:duplicate-key")
    if any(b";" in p or b"%zz" in p or p.endswith(b"%") for p in pairs):
        f.append("query:rejected-pair")
    if b"%" in q or b"+" in q:
        f.append("query:escape")
    names = {bytes(h["k"]).lower() for h in case["headers"]}
    if names & {b"connection", b"keep-alive", b"proxy-authorization", b"proxy-connection", b"te", b"upgrade", b"trailer",
                b"proxy-authenticate"}:
        f.append("header:hop-by-hop")
    if any(bytes(h["k"]).lower() == b"connection" and bytes(h["v"]).strip() not in (b"", b"close", b"keep-alive")
           for h in case["headers"]):
        f.append("header:connection-named")
    if any(bytes(h["k"]).lower() == b"connection" and b"upgrade" in bytes(h["v"]).lower() for h in case["headers"]):
        f.append("path:connection-upgrade")
    if case["body"]["len"] > 0:
        f.append("body:nonempty")
    if case["host"] != "ok.test" or case["deny"]:
        f.append("terminated")
    return f


def nontrivial_key(case, obs):
    if not _features(case):
        return None
    return (case["host"], case["method"], bytes(case["target"]),
            repr(sorted((bytes(h["k"]).lower(), bytes(h["v"])) for h in case["headers"])),
            case["body"]["len"], repr(case["reply"]), repr(case["deny"]))


def stats(case, obs):
    labs = ["method:" + case["method"], "cluster:" + cluster_of(case, obs)] + _features(case)
    if case["host"] in TRACED_HOSTS:
        labs.append("chain:tracing-enabled/" + case["host"])
    if case["host"] == "bucket.test":
        labs.append("bucket.test:" + ("admitted(refilled)" if cluster_of(case, obs) == "COk" else "limited"))
    n = case["body"]["len"]
    labs.append("body:%s" % ("0" if n == 0 else "<=4KiB" if n <= 4096 else "<=64KiB"))
    if case["chunked"]:
        labs.append("body:chunked")
    if L.panic_obs(obs):
        return labs + ["outcome:panic"]
    if obs.get("retries"):
        labs.append("rig:retried")
    if not obs.get("reached"):
        return labs + ["outcome:rejected-by-net/http"]
    if obs.get("upstream"):
        labs.append("outcome:relayed-%d" % obs.get("status", 0))
    else:
        labs.append("outcome:terminated-%d" % obs.get("status", 0))
    return labs


def _is_upgrade(hs):
    return any(bytes(h["k"]).lower() == b"connection" and b"upgrade" in bytes(h["v"]).lower() for h in hs)


def shrink(case):
    hs = case["headers"]
    for i in range(len(hs)):
        rest = hs[:i] + hs[i + 1:]
        if case["reply"]["status"] == 101 and not _is_upgrade(rest):
            continue        # a scripted 101 only makes sense as the answer to an upgrade request
        yield dict(case, headers=rest)
    rh = case["reply"]["headers"]
    for i in range(1, len(rh)):      # entry 0 is the Content-Type (without it net/http sniffs one)
        yield dict(case, reply=dict(case["reply"], headers=rh[:i] + rh[i + 1:]))
    if case["body"]["len"] > 0:
        yield dict(case, body={"len": 0, "seed": 0}, chunked=False)
    if case["reply"]["body"]["len"] > 3:
        yield dict(case, reply=dict(case["reply"], body={"len": 3, "seed": 1}))
    t = bytes(case["target"])
    path, sep, q = t.partition(b"?")
    pairs = q.split(b"&") if q else []
    for i in range(len(pairs)):
        rest = b"&".join(pairs[:i] + pairs[i + 1:])
        yield dict(case, target=B(path + (b"?" + rest if rest else b"")))
    segs = path.split(b"/")[1:]
    for i in range(len(segs)):
        if len(segs) > 1:
            yield dict(case, target=B(b"/" + b"/".join(segs[:i] + segs[i + 1:]) + (sep + q if sep else b"")))


def neighbours(case, rng):
    for c in shrink(case):
        yield c


def known_match(entry, case, obs, failed):
    return False


LEVEL_TEXT = ("partial proof: Coq theorems over every method, request-target, header set, body and upstream answer about a "
              "Gallina model of the dispatcher's URL rebuild (Path/RawPath/per-segment re-encoding, re-encoded query), of the "
              "reverse proxy's header handling in both directions, and of the gateway's terminations: the path's segment list "
              "and the query multimap are preserved, every end-to-end header arrives unchanged and nothing but the gateway-owned "
              "headers is added, status/headers/body of the answer are relayed, every termination class has its code, "
              "Retry-After and Status body and forwards nothing. The URL/header/query transforms and the percent codec are "
              "proved; net/url and net/http (parsing, framing, EscapedPath, ParseQuery/Encode) are modelled and validated only by "
              "the differential run of the real handler chain against the model on every check")
LEVEL_NOTE = ("trusted: Coq kernel + vm_compute, the hand-written models (tied to /repo by the differential run only), the Go rig "
              "(real chain + stub upstream, raw TCP client) and overlay export; modelled not verified: net/url, net/http request/"
              "response framing, HTTP/2, the tunnel of a connection upgrade (its request is modelled), RequestInfo resolution; method and body pass through the model "
              "unchanged by construction (their fidelity rests on the differential run: digest+length compared); no axioms")
TECHNIQUE = "Coq proof (URL/query/header transforms, percent codec) + differential model/implementation correspondence on the real handler chain"
