"""C10 — tenant resolution: a host resolves to at most one cluster, and the right one."""
from vf.core import B, cstr, cZ, cbool, clist, copt, cpair
from props import c10gen

PID = "C10"
MODULES = ["Prelude", "C10_Model", "C10_Spec", "C10_Check"]
PROPS_MODULE = "C10_Properties"
THEOREMS = ["C10_resolves_iff", "C10_at_most_one", "C10_no_capture", "C10_deleted_stop_resolving",
            "C10_tls_of_owner", "C10_host_normalisation", "C10_request_ignores_sni",
            "C10_retained_names_never_drop", "C10_concurrent_sync_captures_name_witness",
            "C10_stale_names_after_failed_sync_witness"]
EVAL = "C10_Check.eval"
CLAUSES = ["agree", "resolves_iff", "same_tenant", "no_capture", "deleted_stop", "tls_of_owner", "host_norm", "alive",
           "request_by_host", "mid_update", "serial_delivery"]
RULE = ("distinct histories (op lists) in which at least two clusters are stored at some moment and at least one "
        "alias is added to, removed from or refused for a cluster (an update changes a server-name list, a delete "
        "removes a cluster with aliases, or admission refuses a colliding name)")
TRUSTED_BASE = [
    "Coq 8.16.1 kernel + vm_compute (case files); no native_compute, no extraction",
    "hand-written model C10_Model.v tied to /repo by the differential run of this check (Go harness harness/c10, "
    "overlay exports for the controller, the admission plugin and the endpoint picker)",
    "modelled not verified: sync.Map, informer/lister (an indexer plays the API store), crypto/tls + x509 parsing "
    "(PEM blobs are identified by index), client-go transports, strings.ToLower beyond ASCII, net.ParseIP",
]
ASSUMPTIONS = [
    "CHECKED on the code (clause serial_delivery): events reach syncUpstreamCluster one at a time - under the real "
    "Run() with several events queued at once, no two sync handler executions are in progress together; "
    "C10_concurrent_sync_captures_name_witness shows why the theorems need it; the lister already contains the "
    "event's object (informer order)",
    "theorems: admission sees the same store as the controller, so stored objects are pairwise name-disjoint; the "
    "executable spec also judges histories with admission races (a field-valid object that collides with another "
    "cluster's name reaches the store, is rejected by the controller and requeued): it judges a step when the stored "
    "objects are field-valid and pairwise disjoint again and every stored cluster has had a successful event since "
    "its current version was stored - 'current server names' are those of the latest STORED version, never of the "
    "object an event happened to carry (this part is checked on the real code only, not proved)",
    "names and aliases are ASCII; IP-literal hosts are outside the property (the gateway never proxies them)",
    "a request is addressed to its Host header; the SNI of the connection it arrives on selects TLS material only",
    "'at every moment': concurrent requests can observe the manager between two of its mutations; the harness wraps the "
    "controller's real clusters.Manager and repeats all host probes after every single mutation (mid_update clause, "
    "C10_retained_names_never_drop over the model's micro-step trace)",
    "half of the histories deliver events through the real constructor's event handler (queue.ResourceEventHandler) and "
    "the real worker step (processNextWorkItem) instead of calling syncUpstreamCluster directly",
    "objects that validation refuses (un-creatable endpoint, unknown gate, key/cert mismatch, unparsable CA, insecure+CA) "
    "reach the controller only in the robustness stream (admission bypassed); for them only model/code agreement and "
    "the clauses that hold in every state (same_tenant, no_capture, host_norm) are judged",
]
HARNESS_CHUNK = 40
COQ_SHARD = 30


# ----------------------------------------------------------------------------- Coq printing
def coq_kind(s):
    if s["kind"] == 0:
        return "FExempt"
    if s["kind"] == 1:
        return "(FMax %s)" % cZ(s["a"])
    return "(FTB %s %s)" % (cZ(s["a"]), cZ(s["b"]))


def coq_obj(o):
    fc = clist(["{| s_name := %s; s_kind := %s |}" % (cstr(s["name"]), coq_kind(s)) for s in o["fc"]])
    pol = clist(["{| p_verbs := %s; p_fc := %s; p_subset := %s; p_log := %s |}" %
                 (clist([cstr(v) for v in p["verbs"]]), cstr(p["fc"]), clist([cZ(e) for e in p["subset"]]), cZ(p["log"]))
                 for p in o["pol"]])
    return ("{| o_name := %s; o_gates := %s; o_fc := %s; o_sn := %s; o_cert := %s; o_key := %s; o_ca := %s; "
            "o_eps := %s; o_pol := %s; o_log := %s; o_client := %s |}" %
            (cstr(o["name"]), clist([cpair(cZ(g[0]), cbool(g[1])) for g in o["gates"]]), fc,
             clist([cstr(x) for x in o["sn"]]), cZ(o["cert"]), cZ(o["key"]), cZ(o["ca"]),
             clist([cpair(cZ(e["e"]), cZ(e["dis"])) for e in o["eps"]]), pol, cZ(o["log"]), cZ(o["client"])))


def coq_op(p):
    if p["op"] == "apply":
        return "(OApply %s %s)" % (cbool(p["force"]), coq_obj(p["obj"]))
    if p["op"] == "delete":
        return "(ODelete %s)" % cstr(p["name"])
    return "(ORetry %d)" % p["k"]


RESCODE = {"none": 0, "ok": 1, "requeue": 2, "err": 3}


def sni_of(h):
    """same derivation as resolve() in harness/c10/rig.go"""
    h = bytes(h)
    i = h.rfind(b":")
    if i >= 0 and b"]" not in h:
        return h[:i]
    return h


def coq_host_obs(h):
    return ("{| h_c := %s; h_stopped := %s; h_code := %s; h_tc := %s; h_cert := %s; h_ca := %s; h_reqcert := %s; "
            "h_vok := %s; h_vca := %s |}" %
            (cstr(h["c"]), cbool(h["stopped"]), cZ(h["code"]), cstr(h["tc"]), cZ(h["cert"]), cZ(h["ca"]),
             cbool(h["reqcert"]), cbool(h["vok"]), cZ(h["vca"])))


def coq_steps(case, obs, share):
    steps = obs.get("steps", []) if isinstance(obs, dict) else []
    if "panic" in obs or len(steps) != len(case["ops"]):
        return None
    out = []
    def shared(h):
        t = coq_host_obs(h)
        if t not in share:
            share[t] = "h%d" % len(share)
        return share[t]

    for p, s in zip(case["ops"], steps):
        hs = [shared(h) for h in s["hosts"]]
        mids = clist([clist([shared(h) for h in m]) for m in (s.get("mid") or [])])
        xs = clist([cpair(cstr(x["c"]), cZ(x["code"])) for x in s.get("x", [])])
        so = ("{| t_valid := %s; t_fvalid := %s; t_delivered := %s; t_res := %s; t_hosts := %s; t_x := %s; t_mid := %s |}" %
              (cbool(s["valid"]), cbool(s.get("fvalid", False)), cbool(s["delivered"]), cZ(RESCODE.get(s["res"], 3)),
               clist(hs), xs, mids))
        out.append(cpair(coq_op(p), so))
    return clist(out)


def coq_hosts(case):
    return clist([cpair(cstr(h), cstr(sni_of(h))) for h in case["hosts"]])


BROKEN_CASE = ("{| c_hosts := [(\"x\", \"x\")]; c_xps := []; c_mid := false; c_steps := [(ODelete \"x\", {| t_valid := true; "
               "t_fvalid := true; t_delivered := true; t_res := 3; t_hosts := []; t_x := []; t_mid := [] |})]; "
               "c_burst := None |}")


def coq_burst(case, obs):
    """several objects enqueued at once under the real Run(): the model replays them in the order in which the
    sync handler executions started"""
    if not isinstance(obs, dict) or "panic" in obs or "order" not in obs:
        return BROKEN_CASE
    byname = {bytes(o["name"]): o for o in case["burst"]}
    order = [bytes(n) for n in obs["order"]]
    if sorted(order) != sorted(byname) or len(obs["hosts"]) != len(case["hosts"]):
        objs = []          # an object was handled twice or never: disagree visibly (handled / results differ)
    else:
        objs = [byname[n] for n in order]
    share = {}
    hs = []
    for h in obs["hosts"]:
        t = coq_host_obs(h)
        share.setdefault(t, "h%d" % len(share))
        hs.append(share[t])
    lets = "".join("let %s := %s in " % (n, t) for t, n in share.items())
    b = ("{| b_objs := %s; b_maxc := %s; b_res := %s; b_handled := %s; b_final := %s |}" %
         (clist([coq_obj(o) for o in objs]), cZ(obs["maxc"]), clist([cZ(RESCODE.get(r, 3)) for r in obs["res"]]),
          cZ(obs["handled"]), clist(hs)))
    return "(%s{| c_hosts := %s; c_xps := []; c_mid := false; c_steps := []; c_burst := Some %s |})" % (
        lets, coq_hosts(case), b)


def coq_case(case, obs):
    if case.get("burst"):
        return coq_burst(case, obs)
    share = {}   # identical host observations are bound once (let) to keep the case files small
    st = coq_steps(case, obs, share)
    if st is None:  # panic in the harness: a case that disagrees visibly
        return BROKEN_CASE
    lets = "".join("let %s := %s in " % (n, t) for t, n in share.items())
    xps = clist([cpair(cstr(x[0]), cstr(x[1])) for x in case.get("xp", [])])
    return "(%s{| c_hosts := %s; c_xps := %s; c_mid := %s; c_steps := %s; c_burst := None |})" % (
        lets, coq_hosts(case), xps, cbool(case.get("mid", False)), st)


# ----------------------------------------------------------------------------- cases
def O(name, sn=(), cert=0, key=0, ca=0, eps=((0, 0),), gates=(), fc=(), pol=None, log=0, client=0, ann=0):
    if pol is None:
        pol = [{"verbs": ["*"], "fc": B(b""), "subset": [], "log": 0}]
    return {"name": B(name), "ann": ann, "gates": [list(g) for g in gates], "fc": list(fc), "sn": [B(x) for x in sn],
            "cert": cert, "key": key, "ca": ca, "eps": [{"e": e, "dis": d} for e, d in eps], "pol": pol, "log": log,
            "client": client}


def AP(o, force=False):
    return {"op": "apply", "force": force, "obj": o}


def DEL(n):
    return {"op": "delete", "name": B(n)}


def RETRY(k):
    return {"op": "retry", "k": k}


def mk(ops, names, views=False, clusters=()):
    return {"hosts": [B(h) for h in c10gen.hosts_for(names)],
            "xp": [[B(h), B(x)] for h, x in c10gen.xprobes_for(names, None, 16)],
            "mid": True, "via": len(ops) % 2,
            "ops": ops, "clusters": [B(c) for c in clusters],
            "schemas": [B(s) for s in c10gen.SCHEMAS] + [B(b""), B(b"nosuch")], "fresh": [0, 0, 0], "views": views}


def mkburst(objs, names):
    return {"hosts": [B(h) for h in c10gen.hosts_for(names)], "xp": [], "ops": [], "burst": objs, "clusters": [],
            "schemas": [], "fresh": [0, 0, 0], "views": False}


def gen_burst(rng):
    clusters = rng.sample(c10gen.CLUSTERS, rng.randint(3, 4))
    aliases = rng.sample(c10gen.ALIASES[:6], 3)
    objs = []
    for nm in clusters:
        o = c10gen.gen_obj(rng, nm, aliases)
        o["sn"] = [B(rng.choice(aliases))] if rng.chance(2, 3) else []   # few aliases: collisions are frequent
        objs.append(o)
    return mkburst(objs, list(clusters) + aliases)


def corpus():
    cs = []
    # alias with a different case, refused move, release, take-over, delete
    cs.append(mk([AP(O(b"a", sn=[b"X"], cert=1, key=1, ca=1)), AP(O(b"b", sn=[b"x"])), AP(O(b"a")),
                  AP(O(b"b", sn=[b"x", b"y"], cert=2, key=2)), DEL(b"a"), AP(O(b"a", sn=[b"Y"])), DEL(b"b"),
                  AP(O(b"a", sn=[b"Y", b"x"], ca=2))], [b"a", b"b", b"x", b"y"]))
    # alias equal to another cluster's name; cluster named like another cluster's alias
    cs.append(mk([AP(O(b"a", sn=[b"b"])), AP(O(b"b")), DEL(b"a"), AP(O(b"b")), AP(O(b"a", sn=[b"B"])),
                  AP(O(b"c", sn=[b"a.b"])), AP(O(b"a.b"))], [b"a", b"b", b"c", b"a.b"]))
    # duplicates, own name as alias, reordering, alias with a port
    cs.append(mk([AP(O(b"a", sn=[b"x", b"x", b"a"])), AP(O(b"a", sn=[b"a", b"x"])), AP(O(b"a", sn=[b"x:443", b"Y"])),
                  AP(O(b"b", sn=[b"X"])), AP(O(b"a", sn=[b"y", b"x"])), AP(O(b"a", sn=[b"x", b"y"])), DEL(b"a")],
                 [b"a", b"b", b"x", b"y", b"x:443"]))
    # (D1) the serving pair must go when the key is removed (tls_of_owner)
    cs.append(mk([AP(O(b"a", cert=1, key=1)), AP(O(b"a", cert=1, key=0)), AP(O(b"a", cert=2, key=2, ca=3)),
                  AP(O(b"a", cert=0, key=2, ca=3)), AP(O(b"a", ca=0))], [b"a"]))
    # (D2) a superseded version delivered again must not bring its aliases back
    cs.append(mk([AP(O(b"a", client=1, sn=[b"x"]), force=True), AP(O(b"a")), RETRY(0), AP(O(b"b", sn=[b"x"])), RETRY(0),
                  RETRY(1)], [b"a", b"b", b"x"]))
    cs.append(mk([AP(O(b"a", sn=[b"x"])), AP(O(b"a")), RETRY(1), AP(O(b"b", sn=[b"x"])), RETRY(3), RETRY(1), DEL(b"a"),
                  RETRY(1), RETRY(3)], [b"a", b"b", b"x"]))
    # value -> removed -> identical value restored: DenyAllRequests gate (status 429), aliases, certificate, CA
    cs.append(mk([AP(O(b"a", sn=[b"x"], cert=1, key=1, ca=2, gates=[(1, 1)])), AP(O(b"a")),
                  AP(O(b"a", sn=[b"x"], cert=1, key=1, ca=2, gates=[(1, 1)])), AP(O(b"a", ann=3, sn=[b"x"])),
                  AP(O(b"a", sn=[b"x"], cert=1, key=1, ca=2, gates=[(1, 1)]))], [b"a", b"x"]))
    # a version rejected by the controller (server-name conflict: admission race, the object reached the store although
    # b holds the name) is requeued; a newer version is synced; the reason for the rejection disappears; the queue
    # re-delivers the stale version: the cluster must keep the names of its CURRENT version (seeded/C10-e)
    cs.append(mk([AP(O(b"b", sn=[b"x"])), AP(O(b"a")), AP(O(b"a", sn=[b"x"]), force=True), AP(O(b"a", sn=[b"y"])),
                  DEL(b"b"), RETRY(2), RETRY(3)], [b"a", b"b", b"x", b"y"]))
    cs.append(mk([AP(O(b"b", sn=[b"x"], cert=1, key=1)), AP(O(b"a", sn=[b"X", b"y"], cert=2, key=2, ca=1), force=True),
                  AP(O(b"a", sn=[b"y"], ca=3)), AP(O(b"b")), RETRY(1), AP(O(b"b", sn=[b"x"])), RETRY(1)],
                 [b"a", b"b", b"x", b"y"]))
    cs.append(mk([AP(O(b"b", sn=[b"a"])), AP(O(b"a", sn=[b"z"], gates=[(1, 1)]), force=True), RETRY(1), DEL(b"b"),
                  AP(O(b"a")), RETRY(1), DEL(b"a"), RETRY(1)], [b"a", b"b", b"z"]))
    # several events in the queue at once under the REAL Run(): the sync handler must never run twice at the same
    # time (two clusters claiming one name would both pass the conflict check: seeded/C10-g)
    cs.append(mkburst([O(b"a", sn=[b"x"]), O(b"b", sn=[b"x"]), O(b"c", sn=[b"y"])], [b"a", b"b", b"c", b"x", b"y"]))
    cs.append(mkburst([O(b"a", sn=[b"x"], cert=1, key=1), O(b"b", sn=[b"y"], ca=2), O(b"c"), O(b"a.b", sn=[b"z"])],
                      [b"a", b"b", b"c", b"a.b", b"x", b"y", b"z"]))
    # DenyAllRequests gate, forced collisions (admission bypassed), delete of a never created cluster
    cs.append(mk([AP(O(b"a", sn=[b"x"], gates=[(1, 1)])), AP(O(b"b", sn=[b"x"]), force=True), AP(O(b"x"), force=True),
                  DEL(b"a"), RETRY(1), RETRY(2), DEL(b"x"), DEL(b"b"), DEL(b"c")], [b"a", b"b", b"x", b"c"]))
    # (outside the quantifier) endpoint section fails after the server names were stored: stale names
    cs.append(mk([AP(O(b"a", sn=[b"x"])), AP(O(b"a", sn=[b"y"], eps=((-1, 0),)), force=True), AP(O(b"a", sn=[b"y"])),
                  DEL(b"a")], [b"a", b"x", b"y"]))
    return cs


def generate(rng, tier, scale=1):
    n_clean, n_retry, n_rob, n_conf = (105, 25, 35, 30) if tier == "quick" else (3000, 800, 800, 800)
    cs = []
    for _ in range(n_clean * scale):
        c = c10gen.gen_history(rng)
        c["views"] = False
        cs.append(c)
    for _ in range(n_retry * scale):      # redeliveries and objects the client library refuses
        c = c10gen.gen_history(rng, p_retry=20, p_gap=8)
        c["views"] = False
        cs.append(c)
    for _ in range(n_conf * scale):       # admission races: rejected versions are requeued and re-delivered later
        c = c10gen.gen_conflict_history(rng)
        c["views"] = False
        cs.append(c)
    for _ in range((4 if tier == "quick" else 40) * scale):   # bursts under the real Run(): 0.3 s of real waiting each
        cs.append(gen_burst(rng))
    for _ in range(n_rob * scale):        # outside the quantifier: admission bypassed, invalid objects
        c = c10gen.gen_history(rng, p_force=25, p_invalid=12, p_retry=10)
        c["views"] = False
        cs.append(c)
    return cs


def nontrivial_key(case, obs):
    if "panic" in obs:
        return None
    if case.get("burst"):
        return ("burst", repr(case["burst"])) if len(obs.get("order", [])) >= 3 else None
    stored = set()
    two = False
    alias_change = False
    last_sn = {}
    for p, s in zip(case["ops"], obs.get("steps", [])):
        if p["op"] == "apply":
            nm = bytes(p["obj"]["name"])
            sn = tuple(bytes(x).lower() for x in p["obj"]["sn"])
            if s["delivered"]:
                if nm in last_sn and last_sn[nm] != sn:
                    alias_change = True
                stored.add(nm)
                last_sn[nm] = sn
            elif sn:
                alias_change = True
        elif p["op"] == "delete" and s["delivered"]:
            nm = bytes(p["name"])
            if last_sn.get(nm):
                alias_change = True
            stored.discard(nm)
            last_sn.pop(nm, None)
        if len(stored) >= 2:
            two = True
    if two and alias_change:
        return repr(case["ops"])
    return None


def stats(case, obs):
    if "panic" in obs:
        return ["panic"]
    if case.get("burst"):
        return ["burst:n=%d" % len(case["burst"]), "burst:maxc=%s" % obs.get("maxc")] + ["burst->" + r for r in obs.get("res", [])]
    labs = ["len<=%d" % (5 * ((len(case["ops"]) + 4) // 5))]
    for p, s in zip(case["ops"], obs.get("steps", [])):
        if p["op"] == "apply":
            labs.append("apply:%s%s->%s" % ("forced," if p["force"] else "", "valid" if s["valid"] else "refused", s["res"]))
        else:
            labs.append("%s->%s" % (p["op"], s["res"]))
    return labs


def shrink(case):
    if case.get("burst"):
        b = case["burst"]
        for i in range(len(b)):
            if len(b) > 2:
                yield dict(case, burst=b[:i] + b[i + 1:])
        return
    ops = case["ops"]
    for i in range(len(ops)):
        rest = ops[:i] + ops[i + 1:]
        # retries refer to op indices: drop those that pointed at or after the removed op
        fixed = []
        ok = True
        for p in rest:
            if p["op"] == "retry":
                if p["k"] == i:
                    ok = False
                    break
                fixed.append(dict(p, k=p["k"] - 1) if p["k"] > i else p)
            else:
                fixed.append(p)
        if ok:
            yield dict(case, ops=fixed)


def neighbours(case, rng):
    for c in shrink(case):
        yield c


def known_match(entry, case, obs, failed):
    return False


LEVEL_TEXT = ("full proof: Coq theorems over every history of admitted create/update/delete ops and arbitrary "
              "re-deliveries (induction over the op list with a name-ownership invariant), about a Gallina model of the "
              "controller's sync / conflict check / AddOrUpdateForServerNames / DeleteForServerNames, the manager, "
              "ClusterInfo.Sync, the admission name check, HostWithoutPort and the TLS lookups; no_capture is proved for "
              "every state and event, also outside admission; the model is compared with the real controller + admission "
              "plugin + WithUpstreamInfo + WrapGetConfigForClient on generated histories on every run and the executable "
              "spec is evaluated on the real observations")
LEVEL_NOTE = ("trusted: Coq kernel + vm_compute, the hand-written model (tied by differential run only), Go harness and "
              "overlay exports; modelled not verified: informer (an indexer plays the API store), sync.Map, tls/x509 "
              "parsing (PEM identified by index), non-ASCII lower-casing, IP-literal hosts; no axioms")
TECHNIQUE = "Coq proof (invariant over histories) + differential model/implementation correspondence"
