//go:build verif

package main

// Rig shared by the C03 and C15 harnesses: the REAL upstream-cluster controller
// (sync handler with an injected lister), the REAL cluster manager, the REAL proxy
// handler chain (all filters + dispatcher) behind a real listener, the REAL
// GatewayHealthCheck probing stub upstream servers.  The harness only plays the
// informer (objects are put into the lister's indexer), the clients, the
// upstreams, and the timer of the health-check ticker (see exports/clusters_c03_export.go).

import (
	"bytes"
	"fmt"
	"io"
	"net"
	"net/http"
	"net/http/httptest"
	"runtime"
	"strconv"
	"strings"
	"sync"
	"time"

	metav1 "k8s.io/apimachinery/pkg/apis/meta/v1"
	"k8s.io/apimachinery/pkg/util/sets"
	"k8s.io/apiserver/pkg/authentication/authenticator"
	"k8s.io/apiserver/pkg/authentication/user"
	"k8s.io/apiserver/pkg/authorization/authorizer"
	"context"
	genericapiserver "k8s.io/apiserver/pkg/server"
	genericfilters "k8s.io/apiserver/pkg/server/filters"
	"k8s.io/client-go/kubernetes/scheme"
	"k8s.io/client-go/tools/cache"

	"github.com/kubewharf/kubegateway/cmd/kube-gateway/app"
	proxyv1alpha1 "github.com/kubewharf/kubegateway/pkg/apis/proxy/v1alpha1"
	proxylisters "github.com/kubewharf/kubegateway/pkg/client/listers/proxy/v1alpha1"
	"github.com/kubewharf/kubegateway/pkg/clusters"
	"github.com/kubewharf/kubegateway/pkg/gateway/controllers"
)

// ----------------------------------------------------------------------------- stub upstreams

type heldProbe struct{ ch chan int }

type streamRec struct {
	sid      string
	chunks   int
	ended    string // "" while running, "ctx" = request context done (disconnect seen), "complete"
	endedAt  time.Time
	headerAt time.Time
}

type stubUp struct {
	idx int
	srv *httptest.Server
	url string

	mu       sync.Mutex
	gate     bool // hold /healthz requests until released by the harness
	autoCode int  // answer for /healthz when not gated
	hits     int  // /healthz arrivals
	expired  int  // held /healthz requests abandoned by the prober
	held     []*heldProbe
	proxied  int // proxied (non-/healthz) arrivals
	streams  map[string]*streamRec
}

func newStub(idx int) *stubUp {
	s := &stubUp{idx: idx, autoCode: 200, streams: map[string]*streamRec{}}
	s.srv = httptest.NewServer(s)
	s.url = s.srv.URL
	return s
}

func (s *stubUp) reset(gate bool) {
	s.mu.Lock()
	for _, h := range s.held {
		h.ch <- 200
	}
	s.held = nil
	s.gate, s.autoCode, s.hits, s.proxied, s.expired = gate, 200, 0, 0, 0
	s.streams = map[string]*streamRec{}
	s.mu.Unlock()
}

func (s *stubUp) expiredProbes() int {
	s.mu.Lock()
	defer s.mu.Unlock()
	return s.expired
}

func (s *stubUp) setGate(gate bool) {
	s.mu.Lock()
	s.gate = gate
	s.mu.Unlock()
}

func answerProbe(w http.ResponseWriter, code int) {
	switch {
	case code == 200:
		w.WriteHeader(200)
		_, _ = w.Write([]byte("ok"))
	case code < 0: // drop the connection without an answer
		if hj, ok := w.(http.Hijacker); ok {
			if c, _, err := hj.Hijack(); err == nil {
				_ = c.Close()
				return
			}
		}
		w.WriteHeader(500)
	default:
		w.WriteHeader(code)
		_, _ = w.Write([]byte("not ok"))
	}
}

func (s *stubUp) ServeHTTP(w http.ResponseWriter, r *http.Request) {
	if r.URL.Path == "/healthz" {
		s.mu.Lock()
		s.hits++
		if !s.gate {
			code := s.autoCode
			s.mu.Unlock()
			answerProbe(w, code)
			return
		}
		hp := &heldProbe{ch: make(chan int, 1)}
		s.held = append(s.held, hp)
		s.mu.Unlock()
		select {
		case code := <-hp.ch:
			answerProbe(w, code)
		case <-r.Context().Done():
			// the prober gave up (its 5 s client timeout) before the harness answered: the machine is too
			// slow for this history to mean anything
			s.mu.Lock()
			s.expired++
			for i, h := range s.held {
				if h == hp {
					s.held = append(s.held[:i], s.held[i+1:]...)
					break
				}
			}
			s.mu.Unlock()
		}
		return
	}
	q := r.URL.Query()
	sid := q.Get("sid")
	s.mu.Lock()
	s.proxied++
	var rec *streamRec
	if sid != "" {
		rec = &streamRec{sid: sid}
		s.streams[sid] = rec
	}
	s.mu.Unlock()
	end := func(how string) {
		if how == "complete" && r.Context().Err() != nil {
			how = "ctx" // the peer had gone before the answer was complete
		}
		if rec != nil {
			s.mu.Lock()
			rec.ended, rec.endedAt = how, time.Now()
			s.mu.Unlock()
		}
	}
	// "connecting" phase: the upstream accepted the request but does not answer before it is told to
	if key := q.Get("gate"); key != "" {
		ch := holdChan("up:" + key)
		holdMu.Lock()
		holdSeen["up:"+key] = true
		holdMu.Unlock()
		select {
		case <-ch:
			if r.Context().Err() != nil { // both ready: the disconnect came first
				end("ctx")
				return
			}
		case <-r.Context().Done():
			end("ctx")
			return
		}
	}
	w.Header().Set("X-Stub", strconv.Itoa(s.idx))
	w.Header().Set("Content-Type", "application/json")
	if q.Get("watch") != "true" {
		w.WriteHeader(200)
		_, _ = fmt.Fprintf(w, `{"kind":"Status","stub":%d}`, s.idx)
		end("complete")
		return
	}
	// streaming phase: one chunk every 20 ms, flushed.  With sgate=<key> the stream goes on until the
	// harness opens the gate (so it cannot end by itself before the harness acts, however slow the
	// machine is), then [chunks] more chunks and a final END line; without it, [chunks] chunks and END.
	n, _ := strconv.Atoi(q.Get("chunks"))
	if n <= 0 {
		n = 150
	}
	var gate chan struct{}
	if key := q.Get("sgate"); key != "" {
		gate = holdChan("up:" + key)
	}
	w.WriteHeader(200)
	fl, _ := w.(http.Flusher)
	if rec != nil {
		s.mu.Lock()
		rec.headerAt = time.Now()
		s.mu.Unlock()
	}
	left := n
	for i := 0; left > 0 && i < 30000; i++ {
		if _, err := fmt.Fprintf(w, "{\"type\":\"ADDED\",\"object\":{\"n\":%d}}\n", i); err != nil {
			end("ctx")
			return
		}
		if fl != nil {
			fl.Flush()
		}
		if rec != nil {
			s.mu.Lock()
			rec.chunks = i + 1
			s.mu.Unlock()
		}
		open := gate == nil
		if gate != nil {
			select {
			case <-gate:
				open = true
			default:
			}
		}
		if open {
			left--
		}
		select {
		case <-time.After(20 * time.Millisecond):
		case <-r.Context().Done():
			end("ctx")
			return
		}
	}
	if r.Context().Err() == nil {
		_, _ = fmt.Fprintf(w, "{\"type\":\"END\"}\n")
		if fl != nil {
			fl.Flush()
		}
	}
	end("complete")
}

// release answers the oldest held /healthz request; false when none is held.
func (s *stubUp) release(code int) bool {
	s.mu.Lock()
	if len(s.held) == 0 {
		s.mu.Unlock()
		return false
	}
	hp := s.held[0]
	s.held = s.held[1:]
	s.mu.Unlock()
	hp.ch <- code
	return true
}

func (s *stubUp) counts() (hits, held, proxied int) {
	s.mu.Lock()
	defer s.mu.Unlock()
	return s.hits, len(s.held), s.proxied
}

func (s *stubUp) stream(sid string) (streamRec, bool) {
	s.mu.Lock()
	defer s.mu.Unlock()
	r, ok := s.streams[sid]
	if !ok {
		return streamRec{}, false
	}
	return *r, true
}

// ----------------------------------------------------------------------------- gateway

type stubAuthn struct{}

func (stubAuthn) AuthenticateRequest(req *http.Request) (*authenticator.Response, bool, error) {
	if key := req.Header.Get("X-Verif-Hold"); key != "" {
		ch := holdChan(key)
		holdMu.Lock()
		holdSeen[key] = true
		holdMu.Unlock()
		select {
		case <-ch:
		case <-req.Context().Done():
		}
	}
	return &authenticator.Response{User: &user.DefaultInfo{Name: "verif-user", Groups: []string{"system:authenticated"}}}, true, nil
}

type allowAll struct{}

func (allowAll) Authorize(ctx context.Context, a authorizer.Attributes) (authorizer.Decision, string, error) {
	return authorizer.DecisionAllow, "", nil
}

type gwRig struct {
	indexer cache.Indexer
	ctrl    *controllers.UpstreamClusterController
	srv     *httptest.Server
	cli     *http.Client

}

// every ticker created by startGatewayHealthCheck, process-wide (the hook is a package variable)
var (
	tickMu  sync.Mutex
	tickReg []*clusters.VerifTicker
)

func installTickerHook() {
	clusters.VerifTickerHook = func(t *clusters.VerifTicker) {
		tickMu.Lock()
		tickReg = append(tickReg, t)
		tickMu.Unlock()
	}
}

// requests carrying X-Verif-Hold: <key> are held inside the authentication filter, i.e. after the
// cluster was resolved (WithUpstreamInfo) and before the dispatcher matches a policy and picks
var (
	holdMu   sync.Mutex
	holdGate = map[string]chan struct{}{}
	holdSeen = map[string]bool{}
)

func holdChan(key string) chan struct{} {
	holdMu.Lock()
	defer holdMu.Unlock()
	ch, ok := holdGate[key]
	if !ok {
		ch = make(chan struct{})
		holdGate[key] = ch
	}
	return ch
}

func holdArrived(key string) bool {
	holdMu.Lock()
	defer holdMu.Unlock()
	return holdSeen[key]
}

func holdRelease(key string) {
	ch := holdChan(key)
	holdMu.Lock()
	defer holdMu.Unlock()
	select {
	case <-ch:
	default:
		close(ch)
	}
}

func newGwRig() *gwRig {
	g := &gwRig{}
	g.indexer = cache.NewIndexer(cache.MetaNamespaceKeyFunc, cache.Indexers{})
	g.ctrl = controllers.VerifC03NewController(proxylisters.NewUpstreamClusterLister(g.indexer))
	installTickerHook()
	cfg := genericapiserver.NewConfig(scheme.Codecs)
	cfg.Authentication.Authenticator = stubAuthn{}
	cfg.Authorization.Authorizer = allowAll{}
	cfg.RequestInfoResolver = genericapiserver.NewRequestInfoResolver(cfg)
	cfg.LongRunningFunc = genericfilters.BasicLongRunningRequestCheck(sets.NewString("watch", "proxy"),
		sets.NewString("attach", "exec", "proxy", "log", "portforward"))
	h := app.VerifC03BuildProxyHandlerChain(g.ctrl.Manager)(http.NotFoundHandler(), cfg)
	g.srv = httptest.NewServer(h)
	g.cli = &http.Client{Transport: &http.Transport{
		DialContext:         (&net.Dialer{Timeout: 5 * time.Second}).DialContext,
		MaxIdleConnsPerHost: 64,
	}}
	return g
}

func (g *gwRig) close() {
	g.ctrl.Manager.DeleteAll()
	g.srv.CloseClientConnections()
	g.srv.Close()
	g.cli.CloseIdleConnections()
}

type serverSpec struct {
	URL      string
	Disabled bool
}

// policies: one per entry of subsets, matching resource resNames[i]; then a catch-all without subset
var resNames = []string{"pods", "nodes", "secrets"}

func clusterObject(name string, servers []serverSpec, subsets [][]string) *proxyv1alpha1.UpstreamCluster {
	c := &proxyv1alpha1.UpstreamCluster{ObjectMeta: metav1.ObjectMeta{Name: name}}
	for _, s := range servers {
		d := s.Disabled
		srv := proxyv1alpha1.UpstreamClusterServer{Endpoint: s.URL}
		if d {
			srv.Disabled = &d
		}
		c.Spec.Servers = append(c.Spec.Servers, srv)
	}
	for i, sub := range subsets {
		c.Spec.DispatchPolicies = append(c.Spec.DispatchPolicies, proxyv1alpha1.DispatchPolicy{
			UpstreamSubset: sub,
			Rules: []proxyv1alpha1.DispatchPolicyRule{{Verbs: []string{"*"}, APIGroups: []string{"*"},
				Resources: []string{resNames[i]}}},
		})
	}
	c.Spec.DispatchPolicies = append(c.Spec.DispatchPolicies, proxyv1alpha1.DispatchPolicy{
		Rules: []proxyv1alpha1.DispatchPolicyRule{{Verbs: []string{"*"}, APIGroups: []string{"*"}, Resources: []string{"*"}}},
	})
	return c
}

// apply = what the informer + queue do: store the object, run the sync handler.
func (g *gwRig) apply(obj *proxyv1alpha1.UpstreamCluster) error {
	if _, exists, _ := g.indexer.Get(obj); exists {
		must(g.indexer.Update(obj))
	} else {
		must(g.indexer.Add(obj))
	}
	return controllers.VerifC03Sync(g.ctrl, obj)
}

// remove = the object is deleted from the API: gone from the lister, sync handler runs.
func (g *gwRig) remove(name string) error {
	obj := &proxyv1alpha1.UpstreamCluster{ObjectMeta: metav1.ObjectMeta{Name: name}}
	_ = g.indexer.Delete(obj)
	return controllers.VerifC03Sync(g.ctrl, obj)
}

type gwResp struct {
	Code    int
	Stub    int // X-Stub of the answering upstream, -1 when none
	Err     string
	Body    []byte
	Elapsed time.Duration
}

// do sends one request through the real chain over a real connection and reads the whole answer.
func (g *gwRig) do(ctx context.Context, host, pathAndQuery string) gwResp {
	t0 := time.Now()
	req, err := http.NewRequestWithContext(ctx, "GET", g.srv.URL+pathAndQuery, nil)
	must(err)
	req.Host = host
	resp, err := g.cli.Do(req)
	if err != nil {
		return gwResp{Code: -1, Stub: -1, Err: err.Error(), Elapsed: time.Since(t0)}
	}
	defer resp.Body.Close()
	out := gwResp{Code: resp.StatusCode, Stub: -1}
	if v := resp.Header.Get("X-Stub"); v != "" {
		out.Stub, _ = strconv.Atoi(v)
	}
	var buf bytes.Buffer
	_, rerr := io.Copy(&buf, resp.Body)
	out.Body = buf.Bytes()
	if rerr != nil {
		out.Err = rerr.Error()
	}
	out.Elapsed = time.Since(t0)
	return out
}

// ----------------------------------------------------------------------------- goroutine states

type hgState struct {
	id      int64
	state   string
	ticker  bool
	worker  bool
	inProbe bool // the worker is inside GatewayHealthCheck
}

func allStacks() string {
	n := 1 << 18
	for {
		buf := make([]byte, n)
		m := runtime.Stack(buf, true)
		if m < n {
			return string(buf[:m])
		}
		n *= 2
	}
}

// healthGoroutines lists the goroutines started by clusters.startGatewayHealthCheck.
func healthGoroutines() []hgState {
	var out []hgState
	for _, blk := range strings.Split(allStacks(), "\n\n") {
		if !strings.Contains(blk, "created by github.com/kubewharf/kubegateway/pkg/clusters.startGatewayHealthCheck") {
			continue
		}
		var g hgState
		head := blk
		if i := strings.IndexByte(blk, '\n'); i >= 0 {
			head = blk[:i]
		}
		f := strings.Fields(head)
		if len(f) >= 2 {
			g.id, _ = strconv.ParseInt(f[1], 10, 64)
		}
		if i, j := strings.IndexByte(head, '['), strings.IndexByte(head, ']'); i >= 0 && j > i {
			st := head[i+1 : j]
			if k := strings.IndexByte(st, ','); k >= 0 {
				st = st[:k]
			}
			g.state = st
		}
		g.ticker = strings.Contains(blk, "startGatewayHealthCheck.func1")
		g.worker = strings.Contains(blk, "startGatewayHealthCheck.func2")
		g.inProbe = strings.Contains(blk, "controllers.GatewayHealthCheck")
		out = append(out, g)
	}
	return out
}

// quiesce waits until no health-check goroutine can move: none runnable/running, and every
// worker that is inside GatewayHealthCheck has its /healthz request held by a stub.
func quiesce(stubs []*stubUp) []hgState {
	deadline := time.Now().Add(120 * time.Second)
	stable := 0
	for {
		gs := healthGoroutines()
		active, probing := 0, 0
		for _, g := range gs {
			if g.state == "running" || g.state == "runnable" || g.state == "syscall" {
				active++
			}
			if g.inProbe {
				probing++
			}
		}
		held := 0
		for _, s := range stubs {
			_, h, _ := s.counts()
			held += h
		}
		if active == 0 && probing == held {
			stable++
			if stable >= 2 {
				return gs
			}
		} else {
			stable = 0
		}
		if time.Now().After(deadline) {
			panic(fmt.Sprintf("no quiescence: active=%d probing=%d held=%d", active, probing, held))
		}
		runtime.Gosched()
		time.Sleep(100 * time.Microsecond)
	}
}

func (g *gwRig) tickersOf(url string) []*clusters.VerifTicker {
	tickMu.Lock()
	defer tickMu.Unlock()
	var out []*clusters.VerifTicker
	for _, t := range tickReg {
		if t.E.Endpoint == url {
			out = append(out, t)
		}
	}
	return out
}

// forgetTickers drops the registry entries of the given upstreams (end of a case).
func forgetTickers(stubs []*stubUp) {
	urls := map[string]bool{}
	for _, s := range stubs {
		urls[s.url] = true
	}
	tickMu.Lock()
	kept := tickReg[:0]
	for _, t := range tickReg {
		if !urls[t.E.Endpoint] {
			kept = append(kept, t)
		}
	}
	tickReg = kept
	tickMu.Unlock()
}

// cleanup ends a case: every cluster is stopped, held probes are answered, leaked ticker
// goroutines (blocked on a full trigger channel) are let go, until no health goroutine is left.
func (g *gwRig) cleanup(stubs []*stubUp, wait bool) {
	g.ctrl.Manager.DeleteAll()
	deadline := time.Now().Add(5 * time.Second)
	for {
		for _, s := range stubs {
			for s.release(200) {
			}
			for _, t := range g.tickersOf(s.url) {
				clusters.VerifDrainHealthChan(t.E)
			}
		}
		if !wait || len(healthGoroutines()) == 0 || time.Now().After(deadline) {
			break
		}
		time.Sleep(200 * time.Microsecond)
	}
	forgetTickers(stubs)
}
