//go:build verif

package main

// Shared plumbing of every verif harness binary: read {"cases":[...]} from
// stdin, run each case under recover, write {"obs":[...]} to stdout.

import (
	"encoding/json"
	"flag"
	"fmt"
	"io/ioutil"
	"os"
	"runtime/debug"

	"k8s.io/klog"
)

type input struct {
	Cases []json.RawMessage `json:"cases"`
}

type panicObs struct {
	Panic string `json:"panic"`
	Stack string `json:"stack,omitempty"`
}

func quietLogs() {
	fs := flag.NewFlagSet("klog", flag.ContinueOnError)
	klog.InitFlags(fs)
	_ = fs.Set("logtostderr", "false")
	_ = fs.Set("alsologtostderr", "false")
	_ = fs.Set("stderrthreshold", "FATAL")
	_ = fs.Set("v", "0")
	klog.SetOutput(ioutil.Discard)
}

// runCases decodes every case into a fresh value produced by mk and calls fn.
func runCases(fn func(raw json.RawMessage) interface{}) {
	quietLogs()
	data, err := ioutil.ReadAll(os.Stdin)
	if err != nil {
		fmt.Fprintln(os.Stderr, "read stdin:", err)
		os.Exit(2)
	}
	var in input
	if err := json.Unmarshal(data, &in); err != nil {
		fmt.Fprintln(os.Stderr, "decode stdin:", err)
		os.Exit(2)
	}
	out := make([]interface{}, 0, len(in.Cases))
	for _, raw := range in.Cases {
		out = append(out, safely(fn, raw))
	}
	enc := json.NewEncoder(os.Stdout)
	if err := enc.Encode(map[string]interface{}{"obs": out}); err != nil {
		fmt.Fprintln(os.Stderr, "encode:", err)
		os.Exit(2)
	}
}

func safely(fn func(raw json.RawMessage) interface{}, raw json.RawMessage) (res interface{}) {
	defer func() {
		if r := recover(); r != nil {
			res = panicObs{Panic: fmt.Sprint(r), Stack: string(debug.Stack())}
		}
	}()
	return fn(raw)
}

// B is a byte string that travels as a JSON array of byte values, so that
// arbitrary bytes survive (Go's encoding/json would mangle invalid UTF-8).
type B []int

func (b B) S() string {
	bs := make([]byte, len(b))
	for i, v := range b {
		bs[i] = byte(v)
	}
	return string(bs)
}

func toB(s string) B {
	out := make(B, len(s))
	for i := 0; i < len(s); i++ {
		out[i] = int(s[i])
	}
	return out
}

func must(err error) {
	if err != nil {
		panic(err)
	}
}
