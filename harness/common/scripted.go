//go:build verif

package main

// Scripted concurrent callers (shared by C06 and C08): REAL goroutines call one operation of a real
// object under a scripted schedule.  The object reads the clock through a hook; the hook parks a
// scripted caller right after it has read the (virtual) clock, and the script decides when each
// parked caller may go on.  Script events carry the virtual time, which never goes back:
//   {"ev":"read","id":k,"t":T}  caller k invokes the operation at time T
//   {"ev":"go","id":k,"t":T}    caller k, parked after its clock reading, may proceed at time T
// A caller that cannot reach the clock (it waits for a lock held by a parked caller) is let
// through as soon as it gets there.  Observed per call, in order of completion: invocation time,
// the clock reading it was given, completion time, result.

import (
	"runtime"
	"strconv"
	"strings"
	"sync"
	"sync/atomic"
	"time"
)

type concEv struct {
	Ev string `json:"ev"`
	ID int    `json:"id"`
	T  int64  `json:"t"`
	N  int32  `json:"n"`
}

type concCall struct {
	ID   int   `json:"id"`
	Inv  int64 `json:"inv"`
	Read int64 `json:"read"`
	Resp int64 `json:"resp"`
	Ok   bool  `json:"ok"`
	N    int32 `json:"n"`
}

var svnow int64 // virtual clock of the scripted runs, Unix ns

func goid() int64 {
	var buf [64]byte
	n := runtime.Stack(buf[:], false)
	f := strings.Fields(string(buf[:n]))
	id, _ := strconv.ParseInt(f[1], 10, 64)
	return id
}

const parkWait = 60 * time.Millisecond

// runScripted: setHook installs (or, with nil, removes) the clock hook of the object under test;
// call performs the operation for one caller (n = the event's amount).
func runScripted(evs []concEv, setHook func(func() time.Time), call func(n int32) bool) []concCall {
	var mu sync.Mutex
	ids := map[int64]int{}
	readAt := map[int]int64{}
	inv := map[int]int64{}
	amount := map[int]int32{}
	release := map[int]chan struct{}{}
	done := map[int]chan bool{}
	parked := map[int]bool{}
	allowed := map[int]bool{} // "go" already issued while the caller had not reached the clock
	parkedCh := make(chan int, 256)

	setHook(func() time.Time {
		g := goid()
		mu.Lock()
		k, scripted := ids[g]
		mu.Unlock()
		t := atomic.LoadInt64(&svnow)
		if !scripted {
			return time.Unix(0, t)
		}
		mu.Lock()
		readAt[k] = t
		ch := release[k]
		mu.Unlock()
		parkedCh <- k
		<-ch
		return time.Unix(0, t)
	})
	defer setHook(nil)

	waitParked := func(k int, d time.Duration) bool {
		deadline := time.After(d)
		for {
			if parked[k] {
				return true
			}
			select {
			case j := <-parkedCh:
				parked[j] = true
			case <-deadline:
				return parked[k]
			}
		}
	}
	out := []concCall{}
	finished := map[int]bool{}
	finish := func(k int) {
		release[k] <- struct{}{}
		select {
		case ok := <-done[k]:
			mu.Lock()
			r := readAt[k]
			mu.Unlock()
			out = append(out, concCall{ID: k, Inv: inv[k], Read: r, Resp: atomic.LoadInt64(&svnow), Ok: ok, N: amount[k]})
			finished[k] = true
		case <-time.After(5 * time.Second):
			panic("scripted caller did not return")
		}
	}
	// callers whose "go" was issued before they could read the clock proceed as soon as they park
	drainAllowed := func() {
		for progress := true; progress; {
			progress = false
			for k := range allowed {
				if !finished[k] && waitParked(k, parkWait) {
					finish(k)
					delete(allowed, k)
					progress = true
				}
			}
		}
	}

	started := []int{}
	for _, ev := range evs {
		atomic.StoreInt64(&svnow, ev.T)
		k := ev.ID
		switch ev.Ev {
		case "read":
			dk := make(chan bool, 1)
			nk := ev.N
			mu.Lock()
			release[k] = make(chan struct{}, 1)
			mu.Unlock()
			done[k] = dk
			inv[k] = ev.T
			amount[k] = nk
			started = append(started, k)
			reg := make(chan struct{})
			go func() {
				mu.Lock()
				ids[goid()] = k
				mu.Unlock()
				close(reg)
				dk <- call(nk)
			}()
			<-reg
			waitParked(k, parkWait)
		case "go":
			if waitParked(k, parkWait) {
				finish(k)
				drainAllowed()
			} else {
				allowed[k] = true
			}
		default:
			panic("unknown event " + ev.Ev)
		}
	}
	// whatever is still in flight completes at the last time of the script
	for _, k := range started {
		if !finished[k] {
			allowed[k] = true
		}
	}
	for len(allowed) > 0 {
		before := len(allowed)
		drainAllowed()
		if len(allowed) == before {
			// a parked caller holds the lock the others wait for: let the parked ones go first
			progressed := false
			for _, k := range started {
				if !finished[k] && parked[k] {
					finish(k)
					delete(allowed, k)
					progressed = true
				}
			}
			if !progressed {
				panic("scripted callers are stuck")
			}
		}
	}
	return out
}
