//go:build verif

package main

// Shared rig of C02 and C04: the REAL proxy handler chain of
// cmd/kube-gateway/app (buildProxyHandlerChainFunc: filters + dispatcher +
// per-endpoint transports of real ClusterInfo objects registered in a real
// clusters.Manager), served by a Go http server, in front of a stub upstream
// (httptest TLS server) that records what it receives and answers a scripted
// response.  The client side writes raw HTTP/1.1 bytes on a TCP connection so
// that the request-target, header spelling, order and multiplicity are exactly
// those of the case; a recorder placed in front of the chain notes what the Go
// server hands to the first filter (canonical header keys, RequestURI).

import (
	"bufio"
	"bytes"
	"context"
	"crypto/sha256"
	"encoding/hex"
	"encoding/json"
	"fmt"
	"io/ioutil"
	"net"
	"net/http"
	"net/http/httptest"
	"os"
	"sort"
	"strconv"
	"strings"
	"sync"
	"time"

	"github.com/kubewharf/apiserver-runtime/pkg/scheme"
	metav1 "k8s.io/apimachinery/pkg/apis/meta/v1"
	"k8s.io/apimachinery/pkg/util/sets"
	"k8s.io/apiserver/pkg/authentication/authenticator"
	"k8s.io/apiserver/pkg/authentication/user"
	"k8s.io/apiserver/pkg/authorization/authorizer"
	genericapiserver "k8s.io/apiserver/pkg/server"
	genericfilters "k8s.io/apiserver/pkg/server/filters"
	"k8s.io/client-go/rest"
	"k8s.io/klog"

	"github.com/kubewharf/kubegateway/cmd/kube-gateway/app"
	proxyv1alpha1 "github.com/kubewharf/kubegateway/pkg/apis/proxy/v1alpha1"
	"github.com/kubewharf/kubegateway/pkg/clusters"
)

// ---------------------------------------------------------------- case / observation formats

type kv struct {
	K B `json:"k"`
	V B `json:"v"`
}

type kvs struct {
	K  B   `json:"k"`
	Vs []B `json:"vs"`
}

type bodySpec struct {
	Len  int   `json:"len"`
	Seed int64 `json:"seed"`
}

type chainUser struct {
	Name   B     `json:"name"`
	Groups []B   `json:"groups"`
	Extra  []kvs `json:"extra"`
}

type authzRule struct {
	Resource    string `json:"resource"`
	Name        B      `json:"name"`
	Namespace   B      `json:"namespace"`
	Subresource B      `json:"subresource"`
}

type chainReply struct {
	Status  int      `json:"status"`
	Headers []kv     `json:"headers"`
	Body    bodySpec `json:"body"`
}

type chainCase struct {
	Host    string     `json:"host"`   // cluster name used as Host header
	Method  string     `json:"method"` // request method token
	Target  B          `json:"target"` // raw request-target bytes
	Headers []kv       `json:"headers"`
	Body    bodySpec   `json:"body"`
	Chunked bool       `json:"chunked"`
	User    chainUser  `json:"user"`
	Deny    []authzRule `json:"deny"` // impersonation items the authorizer refuses (everything else is allowed)
	Reply   chainReply `json:"reply"`
	Resets  int        `json:"resets"` // EndpointInfo.ResetTransport() calls on the target cluster's endpoints before the request
}

type seenReq struct {
	Method  string `json:"method"`
	URI     B      `json:"uri"`
	Host    string `json:"host"`
	Headers []kvs  `json:"headers"`
	BodyLen int    `json:"body_len"`
	BodySHA string `json:"body_sha"`
}

type statusDoc struct {
	Kind       string `json:"kind"`
	APIVersion string `json:"apiVersion"`
	Status     string `json:"status"`
	Code       int    `json:"code"`
	Reason     string `json:"reason"`
	HasMessage bool   `json:"has_message"`
}

type chainObs struct {
	Reached     bool       `json:"reached"`  // the Go server accepted the request and called the chain
	GwIn        *seenReq   `json:"gw_in"`    // what the chain was handed
	Upstream    []seenReq  `json:"upstream"` // every request the stub upstream received during the case
	AuthzCalls  []authzRule `json:"authz_calls"`
	Status      int        `json:"status"`
	RespHeaders []kvs      `json:"resp_headers"`
	RespBodyLen int        `json:"resp_body_len"`
	RespBodySHA string     `json:"resp_body_sha"`
	StatusDoc   *statusDoc `json:"status_doc"` // response body parsed as a metav1.Status, if it is one
	SentBodySHA string     `json:"sent_body_sha"`
	ReplySHA    string     `json:"reply_sha"`
	GatewayUA   string     `json:"gateway_ua"` // User-Agent the gateway uses for itself (contains the pid)
	ClientIP    string     `json:"client_ip"`
	Retries     int        `json:"retries"` // how often the case was re-sent because the response stream was cut
	Err         string     `json:"err,omitempty"`
}

// ---------------------------------------------------------------- the rig

const gatewayToken = "gateway-own-credential"

type chainRig struct {
	gw       *http.Server
	gwAddr   string
	up       *httptest.Server
	upPlain  *httptest.Server // the same stub upstream behind plain http
	mgr      clusters.Manager
	mu       sync.Mutex
	cur      *chainCase
	upSeen   []seenReq
	gwSeen   *seenReq
	authzLog []authzRule
}

func genBody(s bodySpec) []byte {
	out := make([]byte, s.Len)
	x := uint64(s.Seed)*0x9E3779B97F4A7C15 + 0x1234567
	for i := range out {
		x ^= x << 13
		x ^= x >> 7
		x ^= x << 17
		out[i] = byte(x >> 24)
	}
	return out
}

func sha(b []byte) string {
	h := sha256.Sum256(b)
	return hex.EncodeToString(h[:8])
}

func headerList(h http.Header) []kvs {
	keys := make([]string, 0, len(h))
	for k := range h {
		keys = append(keys, k)
	}
	sort.Strings(keys)
	out := make([]kvs, 0, len(keys))
	for _, k := range keys {
		vs := make([]B, 0, len(h[k]))
		for _, v := range h[k] {
			if k == "User-Agent" && v == gatewayUserAgent() {
				v = gatewayUAToken
			}
			vs = append(vs, toB(v))
		}
		out = append(out, kvs{K: toB(k), Vs: vs})
	}
	return out
}

func record(req *http.Request, readBody bool) seenReq {
	s := seenReq{Method: req.Method, URI: toB(req.RequestURI), Host: req.Host, Headers: headerList(req.Header)}
	if readBody {
		b, _ := ioutil.ReadAll(req.Body)
		s.BodyLen = len(b)
		s.BodySHA = sha(b)
	}
	return s
}

// stub authenticator: every request is authenticated as the scripted user
func (r *chainRig) AuthenticateRequest(req *http.Request) (*authenticator.Response, bool, error) {
	c := r.cur
	if c == nil {
		return nil, false, nil
	}
	u := &user.DefaultInfo{Name: c.User.Name.S()}
	for _, g := range c.User.Groups {
		u.Groups = append(u.Groups, g.S())
	}
	if len(c.User.Extra) > 0 {
		u.Extra = map[string][]string{}
		for _, e := range c.User.Extra {
			for _, v := range e.Vs {
				u.Extra[e.K.S()] = append(u.Extra[e.K.S()], v.S())
			}
		}
	}
	return &authenticator.Response{User: u}, true, nil
}

// scripted authorizer: refuses exactly the listed impersonation items
func (r *chainRig) Authorize(ctx context.Context, a authorizer.Attributes) (authorizer.Decision, string, error) {
	item := authzRule{Resource: a.GetResource(), Name: toB(a.GetName()), Namespace: toB(a.GetNamespace()),
		Subresource: toB(a.GetSubresource())}
	r.mu.Lock()
	r.authzLog = append(r.authzLog, item)
	r.mu.Unlock()
	if a.GetVerb() != "impersonate" {
		return authorizer.DecisionDeny, "verif: unexpected verb", nil
	}
	for _, d := range r.cur.Deny {
		if d.Resource == item.Resource && d.Name.S() == item.Name.S() && d.Namespace.S() == item.Namespace.S() &&
			d.Subresource.S() == item.Subresource.S() {
			return authorizer.DecisionDeny, "verif: scripted deny", nil
		}
	}
	return authorizer.DecisionAllow, "", nil
}

func (r *chainRig) upstreamHandler(w http.ResponseWriter, req *http.Request) {
	s := record(req, true)
	r.mu.Lock()
	r.upSeen = append(r.upSeen, s)
	c := r.cur
	r.mu.Unlock()
	if c == nil {
		w.WriteHeader(599)
		return
	}
	for _, h := range c.Reply.Headers {
		k := h.K.S()
		w.Header()[k] = append(w.Header()[k], h.V.S())
	}
	st := c.Reply.Status
	if st == 0 {
		st = 200
	}
	if st == 101 {
		// accept a connection upgrade: switch protocols, send the scripted bytes on the raw stream, close
		hj, ok := w.(http.Hijacker)
		if !ok {
			w.WriteHeader(500)
			return
		}
		conn, brw, err := hj.Hijack()
		if err != nil {
			return
		}
		defer conn.Close()
		_ = conn.SetDeadline(time.Now().Add(10 * time.Second))
		_, _ = brw.WriteString("HTTP/1.1 101 Switching Protocols\r\nConnection: Upgrade\r\nUpgrade: " + req.Header.Get("Upgrade") + "\r\n\r\n")
		_, _ = brw.Write(genBody(c.Reply.Body))
		_ = brw.Flush()
		return
	}
	w.WriteHeader(st)
	if req.Method != "HEAD" && st != 204 && st != 304 {
		_, _ = w.Write(genBody(c.Reply.Body))
	}
}

// hosts served by the chain instance built with proxy tracing enabled
var tracedHosts = map[string]bool{"traced.test": true, "tracedplain.test": true, "gated.test": true, "untraced.test": true}

func allRule() []proxyv1alpha1.DispatchPolicyRule {
	return []proxyv1alpha1.DispatchPolicyRule{{
		Verbs: []string{"*"}, APIGroups: []string{"*"}, Resources: []string{"*"}, NonResourceURLs: []string{"*"},
	}}
}

func (r *chainRig) addCluster(name string, endpoint string, disabled bool, fc []proxyv1alpha1.FlowControlSchema, schema string) {
	r.addClusterGated(name, endpoint, disabled, fc, schema, "")
}

// addClusterGated: gates is the value of the cluster's feature gate annotation ("" = no annotation)
func (r *chainRig) addClusterGated(name string, endpoint string, disabled bool, fc []proxyv1alpha1.FlowControlSchema, schema string, gates string) {
	meta := metav1.ObjectMeta{Name: name}
	if gates != "" {
		meta.Annotations = map[string]string{"proxy.kubegateway.io/feature-gates": gates}
	}
	obj := &proxyv1alpha1.UpstreamCluster{
		ObjectMeta: meta,
		Spec: proxyv1alpha1.UpstreamClusterSpec{
			Servers:      []proxyv1alpha1.UpstreamClusterServer{{Endpoint: endpoint, Disabled: &disabled}},
			ClientConfig: proxyv1alpha1.ClientConfig{Insecure: true, BearerToken: []byte(gatewayToken)},
			FlowControl:  proxyv1alpha1.FlowControl{Schemas: fc},
			DispatchPolicies: []proxyv1alpha1.DispatchPolicy{{
				Rules: allRule(), FlowControlSchemaName: schema,
			}},
		},
	}
	health := func(e *clusters.EndpointInfo) bool {
		e.UpdateStatus(true, "", "")
		return true
	}
	ci, err := clusters.CreateClusterInfo(obj, health, "", nil)
	must(err)
	r.mgr.Add(ci)
	if !disabled {
		deadline := time.Now().Add(5 * time.Second)
		for {
			ready := false
			ci.Endpoints.Range(func(_ string, e *clusters.EndpointInfo) bool {
				ready = e.IsReady()
				return true
			})
			if ready {
				break
			}
			if time.Now().After(deadline) {
				panic("endpoint of " + name + " never became ready")
			}
			time.Sleep(2 * time.Millisecond)
		}
	}
}

func newChainRig() *chainRig {
	r := &chainRig{mgr: clusters.NewManager()}
	r.up = httptest.NewUnstartedServer(http.HandlerFunc(r.upstreamHandler))
	r.up.StartTLS()
	r.upPlain = httptest.NewServer(http.HandlerFunc(r.upstreamHandler))

	// a port on which nothing listens (connection refused)
	l, err := net.Listen("tcp", "127.0.0.1:0")
	must(err)
	deadAddr := l.Addr().String()
	l.Close()

	r.addCluster("ok.test", r.up.URL, false, nil, "")
	r.addCluster("plain.test", r.upPlain.URL, false, nil, "")
	// clusters reached through the chain built with proxy tracing enabled (see tracedHosts)
	r.addClusterGated("traced.test", r.up.URL, false, nil, "", "Tracing=true")
	r.addClusterGated("tracedplain.test", r.upPlain.URL, false, nil, "", "Tracing=true,CloseConnectionWhenIdle=true")
	r.addClusterGated("gated.test", r.up.URL, false, nil, "", "CloseConnectionWhenIdle=true")
	r.addCluster("untraced.test", r.up.URL, false, nil, "")
	r.addCluster("limited.test", r.up.URL, false, []proxyv1alpha1.FlowControlSchema{{
		Name: "zero",
		FlowControlSchemaConfiguration: proxyv1alpha1.FlowControlSchemaConfiguration{
			MaxRequestsInflight: &proxyv1alpha1.MaxRequestsInflightFlowControlSchema{Max: 0}},
	}}, "zero")
	r.addCluster("bucket.test", r.up.URL, false, []proxyv1alpha1.FlowControlSchema{{
		Name: "dry",
		FlowControlSchemaConfiguration: proxyv1alpha1.FlowControlSchemaConfiguration{
			TokenBucket: &proxyv1alpha1.TokenBucketFlowControlSchema{QPS: 1, Burst: 1}},
	}}, "dry")
	r.addCluster("disabled.test", r.up.URL, true, nil, "")
	r.addCluster("dead.test", "https://"+deadAddr, false, nil, "")

	cfg := genericapiserver.NewConfig(scheme.Codecs)
	cfg.Authentication.Authenticator = r
	cfg.Authorization.Authorizer = r
	cfg.LongRunningFunc = genericfilters.BasicLongRunningRequestCheck(sets.NewString("watch", "proxy"),
		sets.NewString("attach", "exec", "proxy", "log", "portforward"))
	cfg.RequestInfoResolver = genericapiserver.NewRequestInfoResolver(cfg)
	notProxied := http.HandlerFunc(func(w http.ResponseWriter, req *http.Request) { w.WriteHeader(404) })
	chain := app.VerifBuildProxyHandlerChain(r.mgr)(notProxied, cfg)
	// a second instance of the real chain, assembled with --enable-proxy-tracing: WithTraceLog is active for
	// clusters whose feature gate Tracing is on and a no-op for the others
	tracedChain := app.VerifBuildProxyHandlerChainTraced(r.mgr)(notProxied, cfg)

	outer := http.HandlerFunc(func(w http.ResponseWriter, req *http.Request) {
		s := record(req, false)
		r.mu.Lock()
		r.gwSeen = &s
		r.mu.Unlock()
		if tracedHosts[req.Host] {
			tracedChain.ServeHTTP(w, req)
			return
		}
		chain.ServeHTTP(w, req)
	})
	ln, err := net.Listen("tcp", "127.0.0.1:0")
	must(err)
	r.gwAddr = ln.Addr().String()
	r.gw = &http.Server{Handler: outer}
	go r.gw.Serve(ln) // nolint:errcheck

	return r
}

// roundTrip writes the raw request of the case on a fresh TCP connection and reads one response.
func (r *chainRig) roundTrip(c *chainCase) (*http.Response, []byte) {
	conn, err := net.DialTimeout("tcp", r.gwAddr, 5*time.Second)
	must(err)
	defer conn.Close()
	_ = conn.SetDeadline(time.Now().Add(20 * time.Second))
	body := genBody(c.Body)
	var buf bytes.Buffer
	buf.WriteString(c.Method + " ")
	buf.WriteString(c.Target.S())
	buf.WriteString(" HTTP/1.1\r\nHost: " + c.Host + "\r\n")
	for _, h := range c.Headers {
		buf.WriteString(h.K.S() + ": " + h.V.S() + "\r\n")
	}
	if c.Chunked {
		buf.WriteString("Transfer-Encoding: chunked\r\n\r\n")
		for off := 0; off < len(body); off += 4093 {
			end := off + 4093
			if end > len(body) {
				end = len(body)
			}
			buf.WriteString(strconv.FormatInt(int64(end-off), 16) + "\r\n")
			buf.Write(body[off:end])
			buf.WriteString("\r\n")
		}
		buf.WriteString("0\r\n\r\n")
	} else {
		if len(body) > 0 || c.Method == "POST" || c.Method == "PUT" || c.Method == "PATCH" {
			buf.WriteString("Content-Length: " + strconv.Itoa(len(body)) + "\r\n")
		}
		buf.WriteString("\r\n")
		buf.Write(body)
	}
	_, err = conn.Write(buf.Bytes())
	must(err)
	br := bufio.NewReader(conn)
	resp, err := http.ReadResponse(br, &http.Request{Method: c.Method})
	if err != nil {
		return nil, nil
	}
	defer resp.Body.Close()
	if resp.StatusCode == 101 {
		// switched protocols: whatever follows on the raw stream until the gateway closes it
		rb, _ := ioutil.ReadAll(br)
		return resp, rb
	}
	rb, rerr := ioutil.ReadAll(resp.Body)
	if rerr != nil {
		resp.Header.Set("X-Verif-Aborted", rerr.Error()) // the response stream was cut (see run)
	}
	return resp, rb
}

func (r *chainRig) run(raw json.RawMessage) interface{} {
	if os.Getenv("VERIF_CHAIN_DEBUG") != "" { // developer aid: let the gateway's own log through
		klog.SetOutput(os.Stderr)
	}
	var c chainCase
	dec := json.NewDecoder(bytes.NewReader(raw))
	must(dec.Decode(&c))
	r.mu.Lock()
	r.cur = &c
	r.upSeen = nil
	r.gwSeen = nil
	r.authzLog = nil
	r.mu.Unlock()

	if c.Resets > 0 {
		// what GatewayHealthCheck does after repeated hanging probes: the endpoint's transports are rebuilt
		if ci, ok := r.mgr.Get(c.Host); ok {
			for i := 0; i < c.Resets; i++ {
				ci.Endpoints.Range(func(_ string, e *clusters.EndpointInfo) bool {
					must(e.ResetTransport())
					return true
				})
			}
		}
	}
	if c.Host == "bucket.test" {
		// token bucket of burst 1 refilled at 1 token/s: priming requests sent immediately before the
		// case's request take the only token, so the case's request normally finds the bucket empty.
		// (Under load a second may pass before the case's request: the plugin reads the cluster state of
		// this host off the observation, see lib/props/c04.py cluster_of.)
		prime := &chainCase{Host: c.Host, Method: "GET", Target: toB("/api/v1/prime"), User: c.User,
			Reply: chainReply{Status: 200}}
		for i := 0; i < 4; i++ {
			r.mu.Lock()
			r.cur = prime
			r.mu.Unlock()
			presp, _ := r.roundTrip(prime)
			if presp != nil && presp.StatusCode == 429 {
				break
			}
		}
		r.mu.Lock()
		r.cur = &c
		r.upSeen = nil
		r.gwSeen = nil
		r.authzLog = nil
		r.mu.Unlock()
	}
	// A response stream cut in the middle is retried (at most 3 times; the last observation counts).
	// Cause seen under CPU starvation: a race inside net/http between the gateway's HTTP/1 server, which closes
	// the request body when the handler starts writing the response, and the outgoing http.Transport, whose
	// write loop may not yet have done its final read of that body ("invalid Read on closed Body" => the
	// upstream connection is closed while the answer is still being copied). It depends on goroutine scheduling,
	// not on the request, and lies in the net/http layer that this check models but does not verify.
	var resp *http.Response
	var rb []byte
	retries := 0
	for {
		resp, rb = r.roundTrip(&c)
		// only a RELAYED answer can be cut this way: the upstream must have seen the request
		scripted := c.Reply.Status
		if scripted == 0 {
			scripted = 200
		}
		cut := resp != nil && r.upstreamCount() > 0 && resp.StatusCode == scripted && resp.StatusCode != 101 &&
			(resp.Header.Get("X-Verif-Aborted") != "" || cutByUpstreamError(&c, rb))
		if !cut || retries == 3 {
			break
		}
		retries++
		r.mu.Lock()
		r.upSeen = nil
		r.gwSeen = nil
		r.authzLog = nil
		r.mu.Unlock()
	}
	if resp != nil {
		resp.Header.Del("X-Verif-Aborted")
	}

	r.mu.Lock()
	defer r.mu.Unlock()
	obs := chainObs{Upstream: append([]seenReq{}, r.upSeen...), AuthzCalls: append([]authzRule{}, r.authzLog...),
		SentBodySHA: sha(genBody(c.Body)), ReplySHA: sha(genBody(c.Reply.Body)),
		GatewayUA: gatewayUAToken, ClientIP: "127.0.0.1", Retries: retries}
	if r.gwSeen != nil {
		obs.Reached = true
		obs.GwIn = r.gwSeen
	}
	if resp == nil {
		obs.Err = "no response"
		r.cur = nil
		return obs
	}
	obs.Status = resp.StatusCode
	obs.RespHeaders = headerList(resp.Header)
	if len(resp.TransferEncoding) > 0 {
		obs.RespHeaders = append(obs.RespHeaders, kvs{K: toB("Transfer-Encoding"), Vs: []B{toB(strings.Join(resp.TransferEncoding, ","))}})
	}
	obs.RespBodyLen = len(rb)
	obs.RespBodySHA = sha(rb)
	var doc map[string]interface{}
	if json.Unmarshal(rb, &doc) == nil && doc != nil {
		sd := &statusDoc{}
		sd.Kind, _ = doc["kind"].(string)
		sd.APIVersion, _ = doc["apiVersion"].(string)
		sd.Status, _ = doc["status"].(string)
		sd.Reason, _ = doc["reason"].(string)
		if f, ok := doc["code"].(float64); ok {
			sd.Code = int(f)
		}
		if m, ok := doc["message"].(string); ok && m != "" {
			sd.HasMessage = true
		}
		obs.StatusDoc = sd
	}
	r.cur = nil
	return obs
}

// the User-Agent the gateway's rest.Config carries (pkg/clusters/util.go newRESTConfig); it contains the pid,
// so recorded values equal to it are projected to a fixed token
// cutByUpstreamError recognises the second shape of the same fault: when the copy of the upstream's answer
// fails in the middle, the gateway's proxyErrorResponder writes a 502 Status document into the already started
// response and the stream then ends cleanly, so the client receives a prefix of the upstream's body followed by
// that document (reason KubeGatewayInternalError).
func cutByUpstreamError(c *chainCase, rb []byte) bool {
	idx := bytes.LastIndex(rb, []byte(`{"kind":"Status"`))
	if idx < 0 || !bytes.Contains(rb[idx:], []byte("KubeGatewayInternalError")) {
		return false
	}
	want := genBody(c.Reply.Body)
	return idx <= len(want) && bytes.Equal(rb[:idx], want[:idx]) && len(rb) != len(want)
}

func (r *chainRig) upstreamCount() int {
	r.mu.Lock()
	defer r.mu.Unlock()
	return len(r.upSeen)
}

func gatewayUserAgent() string {
	return rest.DefaultKubernetesUserAgent() + "/" + fmt.Sprintf("kube-gateway/pid-%v", os.Getpid())
}

const gatewayUAToken = "<gateway-user-agent>"
