//go:build verif

package main

// A real rateLimiter (pkg/ratelimiter/limiter) wired to fake clientsets, with
// the informer played by the harness (objects are put straight into the
// informer's indexer) and leadership driven through the elector's callbacks.

import (
	"sort"
	"strings"
	"sync/atomic"
	"time"

	apierrors "k8s.io/apimachinery/pkg/api/errors"
	metav1 "k8s.io/apimachinery/pkg/apis/meta/v1"
	"k8s.io/apimachinery/pkg/runtime"
	clienttesting "k8s.io/client-go/testing"
	kubefake "k8s.io/client-go/kubernetes/fake"
	componentbaseconfig "k8s.io/component-base/config"

	proxyv1alpha1 "github.com/kubewharf/kubegateway/pkg/apis/proxy/v1alpha1"
	gatewayfake "github.com/kubewharf/kubegateway/pkg/client/kubernetes/fake"
	"github.com/kubewharf/kubegateway/pkg/ratelimiter/limiter"
	"github.com/kubewharf/kubegateway/pkg/ratelimiter/limiter/controller"
	"github.com/kubewharf/kubegateway/pkg/ratelimiter/limiter/elector"
	"github.com/kubewharf/kubegateway/pkg/ratelimiter/options"
)

type limRig struct {
	rl     limiter.RateLimiter
	v      limiter.VerifLimiter
	n      int
	id     string
	gwfake *gatewayfake.Clientset
	// failWrites != 0: create/update of RateLimitConditions through the fake API fail with 503
	failWrites int32
}

func newLimRig(identity string, shards int, storeKind string) *limRig {
	return newLimRigWith(identity, shards, storeKind, 0)
}

// newLimRigWith also sets the sync period of the API-backed ("k8s") store; 0 = write-through.
func newLimRigWith(identity string, shards int, storeKind string, k8sSyncPeriod time.Duration) *limRig {
	gw := gatewayfake.NewSimpleClientset()
	kube := kubefake.NewSimpleClientset()
	opts := options.RateLimitOptions{
		ShardingCount:      shards,
		LimitStore:         storeKind,
		Identity:           identity,
		K8sStoreSyncPeriod: k8sSyncPeriod,
		LeaderElectionConfiguration: componentbaseconfig.LeaderElectionConfiguration{
			LeaderElect:       true,
			LeaseDuration:     metav1.Duration{Duration: 15 * time.Second},
			RenewDeadline:     metav1.Duration{Duration: 10 * time.Second},
			RetryPeriod:       metav1.Duration{Duration: 2 * time.Second},
			ResourceLock:      "leases",
			ResourceName:      "verif",
			ResourceNamespace: "default",
		},
	}
	rl, err := limiter.NewRateLimiter(gw, kube, opts)
	must(err)
	rig := &limRig{rl: rl, v: limiter.VerifUnwrap(rl), n: shards, id: identity, gwfake: gw}
	gw.PrependReactor("*", "ratelimitconditions", func(action clienttesting.Action) (bool, runtime.Object, error) {
		if atomic.LoadInt32(&rig.failWrites) != 0 && (action.GetVerb() == "create" || action.GetVerb() == "update") {
			return true, nil, apierrors.NewServiceUnavailable("verif: injected API outage")
		}
		return false, nil, nil
	})
	return rig
}

func (r *limRig) setFailWrites(on bool) {
	v := int32(0)
	if on {
		v = 1
	}
	atomic.StoreInt32(&r.failWrites, v)
}

func (r *limRig) setCluster(c *proxyv1alpha1.UpstreamCluster) {
	must(controller.VerifIndexer(r.v.Controller()).Add(c))
}
func (r *limRig) delCluster(c *proxyv1alpha1.UpstreamCluster) {
	must(controller.VerifIndexer(r.v.Controller()).Delete(c))
}
func (r *limRig) newLeader(shard int, id string) { elector.VerifNewLeader(r.v.Elector(), shard, id) }
func (r *limRig) startLeading(shard int)         { elector.VerifStartLeading(r.v.Elector(), shard) }
func (r *limRig) stopLeading(shard int)          { elector.VerifStopLeading(r.v.Elector(), shard) }

type snapPair struct {
	U B `json:"u"`
	C B `json:"c"`
}
type snapShard struct {
	Shard int        `json:"shard"`
	Conds []snapPair `json:"conds"`
}

// snapshot: per shard store (ascending shard id) the sorted (upstream, name) pairs.
func (r *limRig) snapshot() []snapShard {
	stores := r.v.Stores()
	ids := make([]int, 0, len(stores))
	for k := range stores {
		ids = append(ids, k)
	}
	sort.Ints(ids)
	out := make([]snapShard, 0, len(ids))
	for _, k := range ids {
		conds, _ := r.v.StoreConditions(k)
		type kv struct{ u, c string }
		var ps []kv
		for _, c := range conds {
			ps = append(ps, kv{c.Spec.UpstreamCluster, c.Name})
		}
		sort.Slice(ps, func(i, j int) bool {
			if ps[i].u != ps[j].u {
				return ps[i].u < ps[j].u
			}
			return ps[i].c < ps[j].c
		})
		sh := snapShard{Shard: k, Conds: []snapPair{}}
		for _, p := range ps {
			sh.Conds = append(sh.Conds, snapPair{toB(p.u), toB(p.c)})
		}
		out = append(out, sh)
	}
	return out
}

func (r *limRig) ledShards() []int {
	out := []int{}
	for i := 0; i < r.n; i++ {
		if r.v.Elector().IsLeader(i) {
			out = append(out, i)
		}
	}
	for k := range r.v.Stores() {
		if (k < 0 || k >= r.n) && r.v.Elector().IsLeader(k) {
			out = append(out, k)
		}
	}
	return out
}

// classify maps an error of the limiter API to the small enum shared with the model.
func classifyLimErr(err error) string {
	if err == nil {
		return "ok"
	}
	msg := err.Error()
	switch {
	case strings.Contains(msg, "leader is"):
		return "notleader"
	case strings.Contains(msg, "limit store for upstream") && strings.Contains(msg, "not found"):
		return "nostore"
	case strings.Contains(msg, "not found"):
		return "notfound"
	default:
		return "err"
	}
}

func globalMaxInflightCluster(name string, schema string, max int32) *proxyv1alpha1.UpstreamCluster {
	return &proxyv1alpha1.UpstreamCluster{
		ObjectMeta: metav1.ObjectMeta{Name: name},
		Spec: proxyv1alpha1.UpstreamClusterSpec{
			FlowControl: proxyv1alpha1.FlowControl{
				Schemas: []proxyv1alpha1.FlowControlSchema{{
					Name: schema,
					FlowControlSchemaConfiguration: proxyv1alpha1.FlowControlSchemaConfiguration{
						GlobalMaxRequestsInflight: &proxyv1alpha1.MaxRequestsInflightFlowControlSchema{Max: max},
					},
				}},
			},
		},
	}
}
