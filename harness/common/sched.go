//go:build verif

package main

// Cooperative scheduler for scheduled replay of REAL goroutines.
//
// The code under test is instrumented (lib/vf/instrument.py): before every shared
// access it calls <pkg>.VerifYield(label).  The harness assigns VerifYield =
// s.Yield.  Exactly one managed goroutine runs between two yields; which one runs
// next is dictated by a schedule = list of goroutine ids:
//
//   s := newCoSched()
//   s.Go(func() { ok := fc.TryAcquire(); s.Event(1, 0); ... })    // id 0
//   s.Go(func() { ... })                                          // id 1
//   pkg.VerifYield = s.Yield
//   trace := s.Run(schedule)       // []schedStep: goroutine, label of the access performed, event
//   pkg.VerifYield = nil
//
// Run first brings every goroutine to its first yield point (in id order; nothing
// shared has been touched yet), then for every schedule entry resumes that goroutine:
// it performs the access it was parked in front of, plus all local computation up to
// its next yield point (or its end).  One scheduled step = one shared access = one
// step of the Coq model (coq/theories/Sched.v).  Entries naming a finished or unknown
// goroutine are skipped.  After the schedule, leftover goroutines are drained in id
// order.  Same schedule => byte-identical trace.

import "fmt"

type schedStep struct {
	G int    `json:"g"` // goroutine id
	L string `json:"l"` // label of the shared access performed in this step
	E int    `json:"e"` // event reported by the goroutine body during this step (0 = none)
	A int64  `json:"a"` // event argument
}

type coG struct {
	id       int
	fn       func()
	resume   chan struct{}
	label    string
	done     bool
	panicked interface{}
	ev       int
	arg      int64
}

type coSched struct {
	gs       []*coG
	cur      *coG
	back     chan struct{}
	trace    []schedStep
	maxSteps int
}

func newCoSched() *coSched {
	return &coSched{back: make(chan struct{}), maxSteps: 100000}
}

// Go registers a goroutine; ids are 0,1,2,... in registration order.
func (s *coSched) Go(fn func()) int {
	g := &coG{id: len(s.gs), fn: fn, resume: make(chan struct{})}
	s.gs = append(s.gs, g)
	return g.id
}

// Yield is the schedule point (assign it to the instrumented package's VerifYield).
// Called from a goroutine that is not managed by the scheduler it returns at once.
func (s *coSched) Yield(label string) {
	g := s.cur
	if g == nil {
		return
	}
	g.label = label
	s.back <- struct{}{}
	<-g.resume
}

// Event attaches an observation (e.g. "TryAcquire returned true") to the current step.
func (s *coSched) Event(e int, a int64) {
	if g := s.cur; g != nil {
		g.ev, g.arg = e, a
	}
}

func (s *coSched) launch(g *coG) {
	s.cur = g
	go func() {
		defer func() {
			if r := recover(); r != nil {
				g.panicked = r
			}
			g.done = true
			s.back <- struct{}{}
		}()
		<-g.resume
		g.fn()
	}()
	g.resume <- struct{}{}
	<-s.back
	s.cur = nil
}

// step resumes goroutine id for one shared access; false if it is finished / unknown.
func (s *coSched) step(id int) bool {
	if id < 0 || id >= len(s.gs) || s.gs[id].done {
		return false
	}
	g := s.gs[id]
	lab := g.label
	g.ev, g.arg = 0, 0
	s.cur = g
	g.resume <- struct{}{}
	<-s.back
	s.cur = nil
	s.trace = append(s.trace, schedStep{G: id, L: lab, E: g.ev, A: g.arg})
	return true
}

// Run executes the schedule and drains; it returns the trace of effective steps.
// A panic inside a managed goroutine is re-raised here (so runCases reports it).
func (s *coSched) Run(schedule []int) []schedStep {
	for _, g := range s.gs {
		s.launch(g)
	}
	for _, id := range schedule {
		s.step(id)
	}
	for _, g := range s.gs {
		n := 0
		for !g.done {
			s.step(g.id)
			n++
			if n > s.maxSteps {
				panic(fmt.Sprintf("sched: goroutine %d does not terminate (livelock at %q)", g.id, g.label))
			}
		}
	}
	for _, g := range s.gs {
		if g.panicked != nil {
			panic(fmt.Sprintf("goroutine %d panicked: %v", g.id, g.panicked))
		}
	}
	if s.trace == nil {
		return []schedStep{}
	}
	return s.trace
}
