//go:build verif

package main

// C09 harness: a REAL upstreamLimiter (mode fixed at construction, so that no
// reconcile goroutine is started) over a real clientSets value whose readiness
// is driven through the real setLeaderStatus; the harness plays the reconcile
// loop (updateGlobalCuntFlowControls / updateFlowControls with a scripted
// server answer) and the global-count replies (remoteWrapper.SetLimit) in the
// order given by the case, and after every event observes which limiter
// GetOrDefault returns, how it is sized (String()) and how many back-to-back
// TryAcquire it admits.

import (
	"context"
	"encoding/json"
	"fmt"
	goruntime "runtime"
	"strconv"
	"strings"
	"time"

	"io/ioutil"
	"net/http"
	"net/http/httptest"

	metav1 "k8s.io/apimachinery/pkg/apis/meta/v1"

	proxyv1alpha1 "github.com/kubewharf/kubegateway/pkg/apis/proxy/v1alpha1"
	"github.com/kubewharf/kubegateway/pkg/flowcontrols"
	"github.com/kubewharf/kubegateway/pkg/flowcontrols/flowcontrol"
	"github.com/kubewharf/kubegateway/pkg/flowcontrols/remote"
	"github.com/kubewharf/kubegateway/pkg/flowcontrols/util"
	"github.com/kubewharf/kubegateway/pkg/ratelimiter/clientsets"
)

const (
	cluster = "c"
	schema  = "s"
)

type c09Op struct {
	Op     string `json:"op"` // quota | cfgsync | count | worker | watchdog | hb | leader | elapse | strategy | schema | delete | enable
	Idle   bool   `json:"idle"` // worker: no request was counted since the last round
	Srv    string `json:"srv"`  // worker: what the limiter server does: accept | reject | error | callerr | omit
	D      string `json:"d"`  // quota: mi | tb | none | both
	A      int32  `json:"a"`  // quota: max | qps (both: max)
	B      int32  `json:"b"`  // quota: burst
	Q      int32  `json:"q"`  // quota both: qps
	S      string `json:"s"`  // quota/strategy: strategy text; elapse: unused
	R      string `json:"r"`  // count: err | old | ok
	Accept bool   `json:"accept"`
	Limit  int32  `json:"limit"`
	RT     int64  `json:"rt"`
	MX     int32  `json:"mx"`   // count err: meter max in-flight reading
	Rate   int32  `json:"rate"` // count err: meter rate reading
	Ready  bool   `json:"ready"`
	Ms     int64  `json:"ms"`  // elapse: virtual milliseconds
	NK     string `json:"nk"`  // schema: type (mi | tb) and strategy of the new schema
	NS     string `json:"ns"`
	NL1    int32  `json:"nl1"` // schema: new local / global limits
	NL2    int32  `json:"nl2"`
	NG1    int32  `json:"ng1"`
	NG2    int32  `json:"ng2"`
}

type c09Case struct {
	Kind  string  `json:"kind"` // mi | tb
	L1    int32   `json:"l1"`
	L2    int32   `json:"l2"`
	G1    int32   `json:"g1"`
	G2    int32   `json:"g2"`
	Mode  string  `json:"mode"`  // remote | local | bogus
	CS    string  `json:"cs"`    // ok | zero | nil
	Strat string  `json:"strat"` // initial strategy
	Ops   []c09Op `json:"ops"`
}

type limDesc struct {
	K string `json:"k"` // mi | tb | ex | ?
	A int64  `json:"a"`
	B int64  `json:"b"`
}

type itemDesc struct {
	D string `json:"d"`
	A int32  `json:"a"`
	B int32  `json:"b"`
	S string `json:"s"`
}

type remDesc struct {
	Inner   string    `json:"inner"` // none | empty | mi | tb
	Lim     *limDesc  `json:"lim"`
	Unavail bool      `json:"unavail"`
	Over    bool      `json:"over"`
	Cfg     *itemDesc `json:"cfg"`
}

type c09Step struct {
	EvPanic bool     `json:"evp"`
	Sel     string   `json:"sel"` // local | remote | default | other | panic
	Lim     *limDesc `json:"lim"`
	Adm     int      `json:"adm"`
	Ready   bool     `json:"ready"`
	Rem     *remDesc `json:"rem"`
	LSync   int64    `json:"lsync"` // lastSyncTime (Unix seconds) of the global counter of the schema, -1: no counter
	Sent    bool     `json:"sent"`  // worker: the limiter server received an acquire request for the schema
}

func parseDesc(s string) *limDesc {
	d := &limDesc{K: "?"}
	for _, kv := range strings.Split(s, ",") {
		p := strings.SplitN(kv, "=", 2)
		if len(p) != 2 {
			continue
		}
		switch p[0] {
		case "type":
			switch p[1] {
			case string(proxyv1alpha1.MaxRequestsInflight):
				d.K = "mi"
			case string(proxyv1alpha1.TokenBucket):
				d.K = "tb"
			case string(proxyv1alpha1.Exempt):
				d.K = "ex"
			}
		case "size", "qps":
			d.A, _ = strconv.ParseInt(p[1], 10, 64)
		case "burst":
			d.B, _ = strconv.ParseInt(p[1], 10, 64)
		}
	}
	if d.K == "ex" {
		d.A, d.B = 0, 0
	}
	return d
}

func mkSchema(c *c09Case, strategy string) proxyv1alpha1.FlowControlSchema {
	s := proxyv1alpha1.FlowControlSchema{Name: schema, Strategy: proxyv1alpha1.LimitStrategy(strategy)}
	if c.Kind == "mi" {
		s.MaxRequestsInflight = &proxyv1alpha1.MaxRequestsInflightFlowControlSchema{Max: c.L1}
		s.GlobalMaxRequestsInflight = &proxyv1alpha1.MaxRequestsInflightFlowControlSchema{Max: c.G1}
	} else {
		s.TokenBucket = &proxyv1alpha1.TokenBucketFlowControlSchema{QPS: c.L1, Burst: c.L2}
		s.GlobalTokenBucket = &proxyv1alpha1.TokenBucketFlowControlSchema{QPS: c.G1, Burst: c.G2}
	}
	return s
}

func mkItem(op c09Op) proxyv1alpha1.RateLimitItemConfiguration {
	it := proxyv1alpha1.RateLimitItemConfiguration{Name: schema, Strategy: proxyv1alpha1.LimitStrategy(op.S)}
	switch op.D {
	case "mi":
		it.MaxRequestsInflight = &proxyv1alpha1.MaxRequestsInflightFlowControlSchema{Max: op.A}
	case "tb":
		it.TokenBucket = &proxyv1alpha1.TokenBucketFlowControlSchema{QPS: op.A, Burst: op.B}
	case "both":
		it.MaxRequestsInflight = &proxyv1alpha1.MaxRequestsInflightFlowControlSchema{Max: op.A}
		it.TokenBucket = &proxyv1alpha1.TokenBucketFlowControlSchema{QPS: op.Q, Burst: op.B}
	}
	return it
}

func describeItem(it proxyv1alpha1.RateLimitItemConfiguration) *itemDesc {
	if it.Name == "" && it.MaxRequestsInflight == nil && it.TokenBucket == nil && it.Strategy == "" {
		return nil
	}
	d := &itemDesc{D: "none", S: string(it.Strategy)}
	if it.MaxRequestsInflight != nil {
		d.D, d.A = "mi", it.MaxRequestsInflight.Max
	} else if it.TokenBucket != nil {
		d.D, d.A, d.B = "tb", it.TokenBucket.QPS, it.TokenBucket.Burst
	}
	return d
}

func describeRemote(cache remote.FlowControlCache) (rd *remDesc) {
	if cache == nil {
		return nil
	}
	rw := cache.FlowControl()
	if rw == nil {
		return nil
	}
	rd = &remDesc{}
	rd.Inner, rd.Unavail, rd.Over = remote.VerifInner(rw)
	rd.Cfg = describeItem(rw.Config())
	if rd.Inner != "none" {
		rd.Lim = parseDesc(rw.String())
	}
	return rd
}

// probe: what a request would meet right now.
func probe(l flowcontrols.UpstreamLimiter, cache remote.FlowControlCache, capAdm int, st *c09Step) {
	defer func() {
		if r := recover(); r != nil {
			st.Sel, st.Lim, st.Adm = "panic", nil, -1
		}
	}()
	st.Adm = -1
	fc := l.GetOrDefault(schema)
	switch {
	case cache != nil && fc == flowcontrol.FlowControl(cache.LocalFlowControl()):
		st.Sel = "local"
	case cache != nil && cache.FlowControl() != nil && fc == flowcontrol.FlowControl(cache.FlowControl()):
		st.Sel = "remote"
	case fc == flowcontrol.DefaultFlowControl:
		st.Sel = "default"
	default:
		st.Sel = "other"
	}
	pinned := flowcontrol.Pin(fc)
	st.Lim = parseDesc(pinned.String())
	if st.Lim.K == "mi" {
		n := 0
		for n < capAdm && pinned.TryAcquire() {
			n++
		}
		for i := 0; i < n; i++ {
			pinned.Release()
		}
		st.Adm = n
	}
}

func runC09(raw json.RawMessage) interface{} {
	var c c09Case
	must(json.Unmarshal(raw, &c))
	ctx, cancel := context.WithCancel(context.Background())
	defer cancel()

	var cs clientsets.ClientSets
	shard := 0
	switch c.CS {
	case "ok":
		cs = clientsets.VerifClientSets(3)
		sh, err := cs.ShardIDFor(cluster)
		must(err)
		shard = sh
	case "zero":
		cs = clientsets.VerifClientSets(0)
	case "nil":
	default:
		panic("unknown cs " + c.CS)
	}
	// the limiter server: a real HTTP server (loopback) that the real clients of clientSets talk to. Its three
	// endpoints follow the script of the current round: the acquire subresource (worker rounds), the server
	// info (sync rounds), the heartbeat (heartbeat rounds).
	var script *c09Op
	sent := false
	infoMode, heartCode := "same", 200
	var srvURL, srvURL2 string
	curLeader := func() string { return srvURL }
	server := httptest.NewServer(http.HandlerFunc(func(w http.ResponseWriter, r *http.Request) {
		switch {
		case strings.HasSuffix(r.URL.Path, "/ratelimit/endpoints"):
			info := proxyv1alpha1.RateLimitServerInfo{Server: "verif", ShardCount: 3}
			switch infoMode {
			case "fail":
				http.Error(w, "unavailable", http.StatusInternalServerError)
				return
			case "same":
				info.Endpoints = []proxyv1alpha1.EndpointInfo{{Leader: curLeader(), ShardID: int32(shard)}}
			case "other":
				info.Endpoints = []proxyv1alpha1.EndpointInfo{{Leader: srvURL2, ShardID: int32(shard)}}
			case "omit":
			}
			_ = json.NewEncoder(w).Encode(info)
		case strings.HasSuffix(r.URL.Path, "/ratelimit/heartbeat"):
			if heartCode == 0 { // no answer: drop the connection
				if hj, ok := w.(http.Hijacker); ok {
					if conn, _, err := hj.Hijack(); err == nil {
						conn.Close()
						return
					}
				}
			}
			w.WriteHeader(heartCode)
		case strings.HasSuffix(r.URL.Path, "/acquire") && script != nil:
			req := &proxyv1alpha1.RateLimitAcquire{}
			body, _ := ioutil.ReadAll(r.Body)
			_ = json.Unmarshal(body, req)
			for _, rq := range req.Spec.Requests {
				if rq.FlowControl == schema {
					sent = true
				}
			}
			reply := &proxyv1alpha1.RateLimitAcquire{}
			reply.APIVersion, reply.Kind = "proxy.kubegateway.io/v1alpha1", "RateLimitAcquire"
			switch script.Srv {
			case "callerr":
				http.Error(w, "connection refused", http.StatusInternalServerError)
				return
			case "accept":
				reply.Status.Results = []proxyv1alpha1.RateLimitAcquireResult{{FlowControl: schema, Accept: true, Limit: script.Limit}}
			case "reject":
				reply.Status.Results = []proxyv1alpha1.RateLimitAcquireResult{{FlowControl: schema, Accept: false, Limit: script.Limit}}
			case "error":
				reply.Status.Results = []proxyv1alpha1.RateLimitAcquireResult{{FlowControl: schema, Error: "limiter overloaded"}}
			case "omit":
				reply.Status.Results = []proxyv1alpha1.RateLimitAcquireResult{{FlowControl: "another-schema", Accept: true, Limit: 1}}
			default:
				panic("unknown server behaviour " + script.Srv)
			}
			w.Header().Set("Content-Type", "application/json")
			_ = json.NewEncoder(w).Encode(reply)
		default:
			http.NotFound(w, r)
		}
	}))
	defer server.Close()
	srvURL = server.URL
	srvURL2 = strings.Replace(server.URL, "127.0.0.1", "localhost", 1)
	leaderNow := srvURL
	curLeader = func() string { return leaderNow }
	var vnow, rounds, hbcalls int64
	if cs != nil {
		clientsets.VerifSetClient(cs, shard, srvURL, clientsets.VerifRealClient(cs, srvURL))
		clientsets.VerifSetLookup(cs, func() []string { return []string{srvURL} })
	}
	// virtual clock of clientsets.go: strictly increasing, so that "exactly 5 s later" is after the deadline
	clientsets.VerifNow = func() time.Time { hbcalls++; return time.Unix(0, vnow*1000000+hbcalls) }
	// virtual clock of remote_counter.go: epoch + virtual milliseconds + one nanosecond per worker round
	remote.VerifNow = func() time.Time { return time.Unix(0, vnow*1000000+rounds) }
	lim := flowcontrols.NewUpstreamLimiter(ctx, cluster, c.Mode, cs)
	prov := flowcontrols.VerifCounterProvider(lim)
	strategy := c.Strat
	lim.Sync(proxyv1alpha1.FlowControl{Schemas: []proxyv1alpha1.FlowControlSchema{mkSchema(&c, strategy)}})
	cache := lim.AllFlowControls()[schema]
	if cache == nil {
		panic("schema not created")
	}
	defer func() {
		if cache != nil {
			cache.Stop() // a deleted cache was stopped by FlowControlMap.Delete
		}
		if cs != nil {
			clientsets.VerifForget(cs, shard)
		}
	}()
	rec := flowcontrols.VerifReconcile(lim)
	syncSchemas := func(present bool) {
		fc := proxyv1alpha1.FlowControl{}
		if present {
			fc.Schemas = []proxyv1alpha1.FlowControlSchema{mkSchema(&c, strategy)}
		}
		lim.Sync(fc)
		cache = lim.AllFlowControls()[schema] // nil after a delete, a new object after a re-add
	}
	probeCap := func() int {
		capAdm := int(c.G1) + 5 // follows the global limit currently configured
		if capAdm < 5 {
			capAdm = 5
		}
		if capAdm > 70 {
			capAdm = 70
		}
		return capAdm
	}

	steps := []c09Step{}
	observe := func(st *c09Step) {
		if cs != nil {
			st.Ready = cs.IsReady(cluster)
		}
		st.Rem = describeRemote(cache)
		// the counter manager follows the remote wrapper through goroutines: wait until it has
		st.LSync = -1
		if st.Rem != nil && (st.Rem.Inner == "mi" || st.Rem.Inner == "tb") {
			if v, ok := remote.VerifLastSync(prov, schema); ok {
				st.LSync = v
			}
		} else {
			remote.VerifCounterGone(prov, schema)
			goruntime.Gosched()
			time.Sleep(200 * time.Microsecond)
		}
		probe(lim, cache, probeCap(), st)
		if cs != nil {
			// the request of the next allocate round is built from the same state; it must not panic either
			func() {
				defer func() {
					if r := recover(); r != nil {
						st.Sel, st.Lim, st.Adm = "panic", nil, -1
					}
				}()
				remote.VerifBuildLimitConditions(rec)
			}()
		}
	}
	{
		var st c09Step
		observe(&st)
		steps = append(steps, st) // step 0: state right after the schema was synced
	}
	for _, op := range c.Ops {
		var st c09Step
		func() {
			defer func() {
				if r := recover(); r != nil {
					st.EvPanic = true
				}
			}()
			switch op.Op {
			case "quota":
				cond := &proxyv1alpha1.RateLimitCondition{
					ObjectMeta: metav1.ObjectMeta{Name: cluster + ".verif"},
					Spec: proxyv1alpha1.RateLimitSpec{
						UpstreamCluster:         cluster,
						Instance:                "verif",
						LimitItemConfigurations: []proxyv1alpha1.RateLimitItemConfiguration{mkItem(op)},
					},
				}
				remote.VerifUpdateFlowControls(rec, cond)
			case "cfgsync":
				remote.VerifUpdateGlobalCount(rec)
			case "enable":
				// the reconcile goroutine is preempted between EnableRemoteFlowControl and Sync
				if cache != nil && remote.EnableGlobalFlowControl(cache.LocalFlowControl().Config()) && cache.FlowControl() == nil {
					cache.EnableRemoteFlowControl()
				}
			case "count":
				if cache == nil {
					break
				}
				rw := cache.FlowControl()
				if rw == nil {
					break
				}
				var res *remote.AcquireResult
				switch op.R {
				case "err":
					util.VerifSetReadings(remote.VerifMeter(cache), op.MX, float64(op.Rate))
					res = remote.VerifAcquireResult(false, 0, "limiter server unavailable", op.RT)
				case "old":
					res = remote.VerifAcquireResult(false, 0, "RequestIDTooOld", op.RT)
				case "ok":
					res = remote.VerifAcquireResult(op.Accept, op.Limit, "", op.RT)
				default:
					panic("unknown reply " + op.R)
				}
				rw.SetLimit(res)
			case "worker":
				// one round of the counter manager's worker against the scripted limiter server
				rounds++
				if cs == nil {
					break
				}
				script, sent = &op, false
				if cache != nil && (op.Srv == "error" || op.Srv == "callerr") {
					util.VerifSetReadings(remote.VerifMeter(cache), op.MX, float64(op.Rate))
				}
				remote.VerifSetEvent(prov, schema, !op.Idle)
				remote.VerifDoAcquire(prov)
				st.Sent = sent
				script = nil
			case "watchdog":
				// one tick of the counter's resetCheck loop
				if cache != nil {
					util.VerifSetReadings(remote.VerifMeter(cache), op.MX, float64(op.Rate))
				}
				remote.VerifWatchdogTick(prov, schema)
			case "info":
				// one round of clientSets.sync: the server info lists the same leader, another one, none, or fails
				if cs != nil {
					infoMode = op.Srv
					clientsets.VerifSyncRound(cs)
					if op.Srv == "other" {
						leaderNow, srvURL2 = srvURL2, leaderNow
					}
					infoMode = "same"
				}
			case "heart":
				// one round of clientSets.clientHeart: the leader answers 200, 500, or not at all (limit 0)
				if cs != nil {
					heartCode = int(op.Limit)
					clientsets.VerifHeartRound(cs)
					heartCode = 200
				}
			case "hb":
				if cs != nil {
					clientsets.VerifHeartbeatAt(cs, shard, "srv", op.Ready, vnow)
				}
			case "leader":
				// clientSets.sync() saw another leader for the shard: setLeaderStatus(shard, newLeader, true).
				// (the endpoint itself is not stored: a real client would start talking to it)
				if cs != nil {
					clientsets.VerifHeartbeatAt(cs, shard, "srv-"+op.S, true, vnow)
				}
			case "elapse":
				if op.Ms > 0 {
					vnow += op.Ms
				}
			case "strategy":
				strategy = op.S
				syncSchemas(true)
			case "schema":
				// the operator changes the schema (type, strategy, limits), or adds it again:
				// UpstreamLimiter.Sync -> localWrapper.Sync
				c.Kind, strategy = op.NK, op.NS
				c.L1, c.L2, c.G1, c.G2 = op.NL1, op.NL2, op.NG1, op.NG2
				syncSchemas(true)
			case "delete":
				syncSchemas(false)
			default:
				panic(fmt.Sprintf("unknown op %q", op.Op))
			}
		}()
		if st.EvPanic {
			st.Sel, st.Adm, st.LSync, st.Sent = "panic", -1, -1, false
			steps = append(steps, st)
			break // an unrecovered panic in the reconcile goroutine ends the process
		}
		observe(&st)
		steps = append(steps, st)
	}
	return map[string]interface{}{"steps": steps}
}

func main() {
	remote.VerifSetWaitAcquireTimeout(0)
	remote.VerifManual = true
	runCases(runC09)
}
