/*
Copyright 2016 The Kubernetes Authors.

Licensed under the Apache License, Version 2.0 (the "License");
you may not use this file except in compliance with the License.
You may obtain a copy of the License at

    http://www.apache.org/licenses/LICENSE-2.0

Unless required by applicable law or agreed to in writing, software
distributed under the License is distributed on an "AS IS" BASIS,
WITHOUT WARRANTIES OR CONDITIONS OF ANY KIND, either express or implied.
See the License for the specific language governing permissions and
limitations under the License.
*/

package cache

import (
	"sync"
	"time"

	"github.com/hashicorp/golang-lru"
)

// Clock defines an interface for obtaining the current time
type Clock interface {
	Now() time.Time
}

// realClock implements the Clock interface by calling time.Now()
type realClock struct{}

func (realClock) Now() time.Time {
	if VerifNow != nil {
		return VerifNow()
	}
	return time.Now()
}

// VerifNow, when set, replaces the wall clock of every LRUExpireCache built by
// NewLRUExpireCache (/verif C12 instrumentation; nothing else differs in this file).
var VerifNow func() time.Time

// LRUExpireCache is a cache that ensures the mostly recently accessed keys are returned with
// a ttl beyond which keys are forcibly expired.
type LRUExpireCache struct {
	// clock is used to obtain the current time
	clock Clock

	cache *lru.Cache
	lock  sync.Mutex
}

// NewLRUExpireCache creates an expiring cache with the given size
func NewLRUExpireCache(maxSize int) *LRUExpireCache {
	return NewLRUExpireCacheWithClock(maxSize, realClock{})
}

// NewLRUExpireCacheWithClock creates an expiring cache with the given size, using the specified clock to obtain the current time.
func NewLRUExpireCacheWithClock(maxSize int, clock Clock) *LRUExpireCache {
	cache, err := lru.New(maxSize)
	if err != nil {
		// if called with an invalid size
		panic(err)
	}
	return &LRUExpireCache{clock: clock, cache: cache}
}

type cacheEntry struct {
	value      interface{}
	expireTime time.Time
}

// Add adds the value to the cache at key with the specified maximum duration.
func (c *LRUExpireCache) Add(key interface{}, value interface{}, ttl time.Duration) {
	c.lock.Lock()
	defer c.lock.Unlock()
	c.cache.Add(key, &cacheEntry{value, c.clock.Now().Add(ttl)})
}

// Get returns the value at the specified key from the cache if it exists and is not
// expired, or returns false.
func (c *LRUExpireCache) Get(key interface{}) (interface{}, bool) {
	c.lock.Lock()
	defer c.lock.Unlock()
	e, ok := c.cache.Get(key)
	if !ok {
		return nil, false
	}
	if c.clock.Now().After(e.(*cacheEntry).expireTime) {
		c.cache.Remove(key)
		return nil, false
	}
	return e.(*cacheEntry).value, true
}

// Remove removes the specified key from the cache if it exists
func (c *LRUExpireCache) Remove(key interface{}) {
	c.lock.Lock()
	defer c.lock.Unlock()
	c.cache.Remove(key)
}

// Keys returns all the keys in the cache, even if they are expired. Subsequent calls to
// get may return not found. It returns all keys from oldest to newest.
func (c *LRUExpireCache) Keys() []interface{} {
	c.lock.Lock()
	defer c.lock.Unlock()
	return c.cache.Keys()
}
