/*
Copyright 2017 The Kubernetes Authors.

Licensed under the Apache License, Version 2.0 (the "License");
you may not use this file except in compliance with the License.
You may obtain a copy of the License at

    http://www.apache.org/licenses/LICENSE-2.0

Unless required by applicable law or agreed to in writing, software
distributed under the License is distributed on an "AS IS" BASIS,
WITHOUT WARRANTIES OR CONDITIONS OF ANY KIND, either express or implied.
See the License for the specific language governing permissions and
limitations under the License.
*/

package cache

import (
	"context"
	"crypto/hmac"
	"crypto/rand"
	"crypto/sha256"
	"encoding/binary"
	"errors"
	"hash"
	"io"
	"runtime"
	"sync"
	"time"
	"unsafe"

	"golang.org/x/sync/singleflight"

	apierrors "k8s.io/apimachinery/pkg/api/errors"
	utilclock "k8s.io/apimachinery/pkg/util/clock"
	"k8s.io/apiserver/pkg/authentication/authenticator"
	"k8s.io/klog"
)

var errAuthnCrash = apierrors.NewInternalError(errors.New("authentication failed unexpectedly"))

const sharedLookupTimeout = 30 * time.Second

// cacheRecord holds the three return values of the authenticator.Token AuthenticateToken method
type cacheRecord struct {
	resp *authenticator.Response
	ok   bool
	err  error
}

type cachedTokenAuthenticator struct {
	authenticator authenticator.Token

	cacheErrs  bool
	successTTL time.Duration
	failureTTL time.Duration

	cache cache
	group singleflight.Group

	// hashPool is a per authenticator pool of hash.Hash (to avoid allocations from building the Hash)
	// HMAC with SHA-256 and a random key is used to prevent precomputation and length extension attacks
	// It also mitigates hash map DOS attacks via collisions (the inputs are supplied by untrusted users)
	hashPool *sync.Pool
}

type cache interface {
	// given a key, return the record, and whether or not it existed
	get(key string) (value *cacheRecord, exists bool)
	// caches the record for the key
	set(key string, value *cacheRecord, ttl time.Duration)
	// removes the record for the key
	remove(key string)
}

// New returns a token authenticator that caches the results of the specified authenticator. A ttl of 0 bypasses the cache.
func New(authenticator authenticator.Token, cacheErrs bool, successTTL, failureTTL time.Duration) authenticator.Token {
	return newWithClock(authenticator, cacheErrs, successTTL, failureTTL, verifClock{})
}

// ---- /verif C12 instrumentation (overlay replacement of this file; nothing else differs) ----

// VerifNow, when set, is what the caches built by New use as their clock.
var VerifNow func() time.Time

type verifClock struct{ utilclock.RealClock }

func (verifClock) Now() time.Time {
	if VerifNow != nil {
		return VerifNow()
	}
	return time.Now()
}

func (c verifClock) Since(t time.Time) time.Duration { return c.Now().Sub(t) }

// VerifRemove drops the record of one token (no audiences) from a cache built by New.
func VerifRemove(t authenticator.Token, token string) {
	a := t.(*cachedTokenAuthenticator)
	a.cache.remove(keyFunc(a.hashPool, nil, token))
}

// ---- end of instrumentation ----

func newWithClock(authenticator authenticator.Token, cacheErrs bool, successTTL, failureTTL time.Duration, clock utilclock.Clock) authenticator.Token {
	randomCacheKey := make([]byte, 32)
	if _, err := rand.Read(randomCacheKey); err != nil {
		panic(err) // rand should never fail
	}

	return &cachedTokenAuthenticator{
		authenticator: authenticator,
		cacheErrs:     cacheErrs,
		successTTL:    successTTL,
		failureTTL:    failureTTL,
		// Cache performance degrades noticeably when the number of
		// tokens in operation exceeds the size of the cache. It is
		// cheap to make the cache big in the second dimension below,
		// the memory is only consumed when that many tokens are being
		// used. Currently we advertise support 5k nodes and 10k
		// namespaces; a 32k entry cache is therefore a 2x safety
		// margin.
		cache: newStripedCache(32, fnvHashFunc, func() cache { return newSimpleCache(clock) }),

		hashPool: &sync.Pool{
			New: func() interface{} {
				return hmac.New(sha256.New, randomCacheKey)
			},
		},
	}
}

// AuthenticateToken implements authenticator.Token
func (a *cachedTokenAuthenticator) AuthenticateToken(ctx context.Context, token string) (*authenticator.Response, bool, error) {
	doneAuthenticating := stats.authenticating()

	auds, audsOk := authenticator.AudiencesFrom(ctx)

	key := keyFunc(a.hashPool, auds, token)
	if record, ok := a.cache.get(key); ok {
		// Record cache hit
		doneAuthenticating(true)
		return record.resp, record.ok, record.err
	}

	// Record cache miss
	doneBlocking := stats.blocking()
	defer doneBlocking()
	defer doneAuthenticating(false)

	type lookup struct {
		resp *authenticator.Response
		ok   bool
	}

	c := a.group.DoChan(key, func() (val interface{}, err error) {
		doneFetching := stats.fetching()
		// We're leaving the request handling stack so we need to handle crashes
		// ourselves. Log a stack trace and return a 500 if something panics.
		defer func() {
			if r := recover(); r != nil {
				err = errAuthnCrash
				// Same as stdlib http server code. Manually allocate stack
				// trace buffer size to prevent excessively large logs
				const size = 64 << 10
				buf := make([]byte, size)
				buf = buf[:runtime.Stack(buf, false)]
				klog.Errorf("%v\n%s", r, buf)
			}
			doneFetching(err == nil)
		}()

		// Check again for a cached record. We may have raced with a fetch.
		if record, ok := a.cache.get(key); ok {
			return lookup{record.resp, record.ok}, record.err
		}

		// Detach the context because the lookup may be shared by multiple callers,
		// however propagate the audience.
		ctx, cancel := context.WithTimeout(context.Background(), sharedLookupTimeout)
		defer cancel()

		if audsOk {
			ctx = authenticator.WithAudiences(ctx, auds)
		}

		resp, ok, err := a.authenticator.AuthenticateToken(ctx, token)
		if !a.cacheErrs && err != nil {
			return nil, err
		}

		switch {
		case ok && a.successTTL > 0:
			a.cache.set(key, &cacheRecord{resp: resp, ok: ok, err: err}, a.successTTL)
		case !ok && a.failureTTL > 0:
			a.cache.set(key, &cacheRecord{resp: resp, ok: ok, err: err}, a.failureTTL)
		}
		return lookup{resp, ok}, err
	})

	select {
	case result := <-c:
		if result.Err != nil {
			return nil, false, result.Err
		}
		lookup := result.Val.(lookup)
		return lookup.resp, lookup.ok, nil
	case <-ctx.Done():
		return nil, false, ctx.Err()
	}
}

// keyFunc generates a string key by hashing the inputs.
// This lowers the memory requirement of the cache and keeps tokens out of memory.
func keyFunc(hashPool *sync.Pool, auds []string, token string) string {
	h := hashPool.Get().(hash.Hash)

	h.Reset()

	// try to force stack allocation
	var a [4]byte
	b := a[:]

	writeLengthPrefixedString(h, b, token)
	// encode the length of audiences to avoid ambiguities
	writeLength(h, b, len(auds))
	for _, aud := range auds {
		writeLengthPrefixedString(h, b, aud)
	}

	key := toString(h.Sum(nil)) // skip base64 encoding to save an allocation

	hashPool.Put(h)

	return key
}

// writeLengthPrefixedString writes s with a length prefix to prevent ambiguities, i.e. "xy" + "z" == "x" + "yz"
// the length of b is assumed to be 4 (b is mutated by this function to store the length of s)
func writeLengthPrefixedString(w io.Writer, b []byte, s string) {
	writeLength(w, b, len(s))
	if _, err := w.Write(toBytes(s)); err != nil {
		panic(err) // Write() on hash never fails
	}
}

// writeLength encodes length into b and then writes it via the given writer
// the length of b is assumed to be 4
func writeLength(w io.Writer, b []byte, length int) {
	binary.BigEndian.PutUint32(b, uint32(length))
	if _, err := w.Write(b); err != nil {
		panic(err) // Write() on hash never fails
	}
}

// toBytes performs unholy acts to avoid allocations
func toBytes(s string) []byte {
	return *(*[]byte)(unsafe.Pointer(&s))
}

// toString performs unholy acts to avoid allocations
func toString(b []byte) string {
	return *(*string)(unsafe.Pointer(&b))
}
