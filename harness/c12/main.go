//go:build verif

package main

// C12 harness: the REAL multi-cluster token authenticator and SAR authorizer
// (built by their real constructors) on top of the REAL cluster manager
// (clusters.NewManager, real ClusterInfo / EndpointInfo objects created by
// CreateClusterInfo), where every endpoint's clientset is a scripted
// client-go fake.  The fakes record which cluster's endpoint received each
// TokenReview / SubjectAccessReview and whether that endpoint was ready.
// The caches' clocks are virtual (overlay replacement of the two cache files
// exposes a settable VerifNow).

import (
	"context"
	"crypto/tls"
	"encoding/json"
	"errors"
	"fmt"
	"net/http"
	"net/http/httptest"
	"reflect"
	"regexp"
	"strconv"
	"strings"
	"sync"
	"time"

	authenticationv1 "k8s.io/api/authentication/v1"
	authorizationv1 "k8s.io/api/authorization/v1"
	apierrors "k8s.io/apimachinery/pkg/api/errors"
	metav1 "k8s.io/apimachinery/pkg/apis/meta/v1"
	"k8s.io/apimachinery/pkg/runtime"
	utilcache "k8s.io/apimachinery/pkg/util/cache"
	"k8s.io/apiserver/pkg/authentication/authenticator"
	"k8s.io/apiserver/pkg/authentication/group"
	"k8s.io/apiserver/pkg/authentication/request/bearertoken"
	unionauth "k8s.io/apiserver/pkg/authentication/request/union"
	"k8s.io/apiserver/pkg/authentication/request/websocket"
	tokencache "k8s.io/apiserver/pkg/authentication/token/cache"
	"k8s.io/apiserver/pkg/authentication/user"
	"k8s.io/apiserver/pkg/authorization/authorizer"
	genericapifilters "k8s.io/apiserver/pkg/endpoints/filters"
	apirequest "k8s.io/apiserver/pkg/endpoints/request"
	"k8s.io/client-go/kubernetes"
	kubefake "k8s.io/client-go/kubernetes/fake"
	authnv1client "k8s.io/client-go/kubernetes/typed/authentication/v1"
	authzv1client "k8s.io/client-go/kubernetes/typed/authorization/v1"
	"k8s.io/client-go/kubernetes/scheme"
	k8stesting "k8s.io/client-go/testing"

	proxyv1alpha1 "github.com/kubewharf/kubegateway/pkg/apis/proxy/v1alpha1"
	"github.com/kubewharf/kubegateway/pkg/clusters"
	"github.com/kubewharf/kubegateway/pkg/gateway/controllers"
	tokenwebhook "github.com/kubewharf/kubegateway/pkg/gateway/authentication/token/webhook"
	sarwebhook "github.com/kubewharf/kubegateway/pkg/gateway/authorization/webhook"
	"github.com/kubewharf/kubegateway/pkg/gateway/endpoints/filters"
	"github.com/kubewharf/kubegateway/pkg/gateway/endpoints/request"
	authzconfig "github.com/kubewharf/kubegateway/pkg/gateway/proxy/authorizer"
)

// ---------------------------------------------------------------- case format

type c12Answer struct {
	K       string `json:"k"` // auth | unauth | unauthmsg | status | fail
	Name    string `json:"name"`
	UID     string `json:"uid"`
	Tag     int64  `json:"tag"`
	Retry   bool   `json:"retry"`
	Allowed bool   `json:"allowed"`
	Denied  bool   `json:"denied"`
	Reason  string `json:"reason"`
}

type c12Attrs struct {
	User     string   `json:"user"`
	UID      string   `json:"uid"`
	Groups   []string `json:"groups"`
	IsRes    bool     `json:"isres"`
	NS       string   `json:"ns"`
	Verb     string   `json:"verb"`
	Group    string   `json:"group"`
	Version  string   `json:"version"`
	Resource string   `json:"resource"`
	Subres   string   `json:"subres"`
	Name     string   `json:"name"`
	Path     string   `json:"path"`
}

type c12Op struct {
	Op    string    `json:"op"` // authn | authz | healthy | disabled | restart | evictt | evicts
	Host  *string   `json:"host"`
	Host2 *string   `json:"host2"` // overlapt / overlaps: the host of the second request
	HVia  string    `json:"hvia"` // direct | factory | factoryport : how ExtraRequestInfo is produced
	AVia  string    `json:"avia"` // "" | impersonate : Authorize called directly / by the impersonation filter
	Tok   string    `json:"tok"`
	Attrs *c12Attrs `json:"attrs"`
	Now   int64     `json:"now"`
	C     string    `json:"c"`
	Srv   string    `json:"srv"`
	// chain: a request through the proxy handler chain
	Imp  *string `json:"imp"`  // Impersonate-User header, if any
	SNI  *string `json:"sni"`  // req.TLS.ServerName (null: no TLS)
	Port bool    `json:"port"` // Host header carries a port
	B     bool      `json:"b"`
}

type c12Cfg struct {
	Reg  [][2]string      `json:"reg"`
	Servers []struct {
		C string   `json:"c"`
		S []string `json:"s"`
	} `json:"servers"` // initial .spec.servers per cluster (pairwise disjoint)
	STTL int64            `json:"sttl"`
	FTTL int64            `json:"fttl"`
	ATTL int64            `json:"attl"`
	DTTL int64            `json:"dttl"`
}

type c12Case struct {
	Cfg     c12Cfg                 `json:"cfg"`
	TScript map[string][]c12Answer `json:"tscript"`
	SScript map[string][]c12Answer `json:"sscript"`
	Via     string                 `json:"via"` // token | request
	Ops     []c12Op                `json:"ops"`
}

type errObs struct {
	C   string `json:"c"` // none | noinfo | notfound | noready | up | both | other
	Tag int64  `json:"tag"`
	Msg string `json:"msg,omitempty"`
}

type callObs struct {
	C     string `json:"c"`
	Ready bool   `json:"ready"`
	// not part of the observation: the host for which the calling code obtained this client
	// (ClientFor(host)), and whether the answer handed out makes the caller retry after a back-off
	host  string
	retry bool
	kind  string // T | S
}

type stepObs struct {
	Kind   string    `json:"kind"` // T | S | N
	User   []string  `json:"user"` // [name, uid] or null
	OK     bool      `json:"ok"`
	Dec    int       `json:"dec"`
	Reason string    `json:"reason"`
	Err    errObs    `json:"err"`
	Calls  []callObs `json:"calls"`
	Note   string    `json:"note,omitempty"`
	// overlapt / overlaps (kind P): the request whose review was held in flight, the request that ran
	// meanwhile, and whether the second one failed to complete before the first one's review was released
	// chain (kind C): token authentication (if the chain got that far), impersonation review (if one was
	// made), the cluster recorded for dispatch (if the terminal handler was reached), response code
	T        *stepObs `json:"t,omitempty"`
	Z        *stepObs `json:"z,omitempty"`
	Dispatch *string  `json:"dispatch"`
	Code     int      `json:"code,omitempty"`
	A       *stepObs `json:"a,omitempty"`
	B       *stepObs `json:"b,omitempty"`
	Blocked bool     `json:"blocked,omitempty"`
}

// ---------------------------------------------------------------- rig

type c12Rig struct {
	mu      sync.Mutex
	cfg     c12Cfg
	mgr     clusters.Manager
	infos   map[string]*clusters.ClusterInfo
	tscript map[string][]c12Answer
	sscript map[string][]c12Answer
	tidx    map[string]int
	sidx    map[string]int
	calls   []callObs
	ctl     *controllers.UpstreamClusterController // the real controller; r.mgr is the same object as clusters.Manager
	names   map[string][]string                    // cluster -> extra server names (.spec.secureServing.serverNames) of its object
	all     []*clusters.ClusterInfo                // every ClusterInfo ever created (stopped at the end)
	owner   map[string]string   // server -> cluster whose server list it is in ("" = none)
	lists   map[string][]string // cluster -> current server list
	dis     map[string]bool     // server -> Disabled flag in its cluster's object
	gate    *c12Gate
	via     string
	now     int64
	tok     authenticator.Token
	req     authenticator.Request
	authz   authorizer.Authorizer
}

var c12Base = time.Date(2030, 1, 1, 0, 0, 0, 0, time.UTC)

func (r *c12Rig) clock() time.Time {
	r.mu.Lock()
	defer r.mu.Unlock()
	return c12Base.Add(time.Duration(r.now))
}

func c12Err(tag int64, retry bool) error {
	e := errors.New("verif-err:" + strconv.FormatInt(tag, 10))
	if retry {
		return apierrors.NewInternalError(e) // webhook.DefaultShouldRetry => true
	}
	return e
}

func (r *c12Rig) record(cluster string, ep *clusters.EndpointInfo, host string, retry bool) {
	r.calls = append(r.calls, callObs{C: cluster, Ready: ep.IsReady(), host: host, retry: retry})
}

// ---- attribution of a review to the request that issued it ----
// The ClientProvider handed to the authenticator / authorizer is the real manager behind a thin
// decorator: the clientset ClientFor(host) returns is wrapped so that every TokenReview /
// SubjectAccessReview created through it carries the annotation verif-host=<host> (on a copy of the
// object) when it reaches the endpoint's fake clientset.  Two overlapping requests are addressed to
// different hosts, so each recorded review names the request that issued it and, independently, the
// cluster whose endpoint received it.
const c12HostAnn = "verif-host"

type c12Provider struct {
	inner clusters.ClientProvider
}

func (p *c12Provider) ClientFor(name string) (*clusters.ClusterInfo, kubernetes.Interface, error) {
	ci, cs, err := p.inner.ClientFor(name)
	if cs != nil {
		cs = &c12Client{Interface: cs, host: name}
	}
	return ci, cs, err
}

type c12Client struct {
	kubernetes.Interface
	host string
}

func (c *c12Client) AuthenticationV1() authnv1client.AuthenticationV1Interface {
	return &c12Authn{AuthenticationV1Interface: c.Interface.AuthenticationV1(), host: c.host}
}
func (c *c12Client) AuthorizationV1() authzv1client.AuthorizationV1Interface {
	return &c12Authz{AuthorizationV1Interface: c.Interface.AuthorizationV1(), host: c.host}
}

type c12Authn struct {
	authnv1client.AuthenticationV1Interface
	host string
}

func (c *c12Authn) TokenReviews() authnv1client.TokenReviewInterface {
	return &c12TR{TokenReviewInterface: c.AuthenticationV1Interface.TokenReviews(), host: c.host}
}

type c12TR struct {
	authnv1client.TokenReviewInterface
	host string
}

func (c *c12TR) Create(ctx context.Context, tr *authenticationv1.TokenReview, o metav1.CreateOptions) (*authenticationv1.TokenReview, error) {
	cp := tr.DeepCopy()
	cp.Annotations = map[string]string{c12HostAnn: c.host}
	return c.TokenReviewInterface.Create(ctx, cp, o)
}

type c12Authz struct {
	authzv1client.AuthorizationV1Interface
	host string
}

func (c *c12Authz) SubjectAccessReviews() authzv1client.SubjectAccessReviewInterface {
	return &c12SAR{SubjectAccessReviewInterface: c.AuthorizationV1Interface.SubjectAccessReviews(), host: c.host}
}

type c12SAR struct {
	authzv1client.SubjectAccessReviewInterface
	host string
}

func (c *c12SAR) Create(ctx context.Context, sar *authorizationv1.SubjectAccessReview, o metav1.CreateOptions) (*authorizationv1.SubjectAccessReview, error) {
	cp := sar.DeepCopy()
	cp.Annotations = map[string]string{c12HostAnn: c.host}
	return c.SubjectAccessReviewInterface.Create(ctx, cp, o)
}

func c12ActionHost(action k8stesting.Action) string {
	if ca, ok := action.(k8stesting.CreateAction); ok {
		if m, ok := ca.GetObject().(metav1.Object); ok {
			return m.GetAnnotations()[c12HostAnn]
		}
	}
	return ""
}

// c12Gate holds the first review of one kind issued by the request for one host until release is closed.
type c12Gate struct {
	host, kind string
	used          bool
	entered       chan struct{}
	release       chan struct{}
}

// takeGate is called by a reactor under r.mu; it returns the gate to wait on (or nil).
func (r *c12Rig) takeGate(host, kind string) *c12Gate {
	g := r.gate
	if g == nil || g.used || g.host != host || g.kind != kind {
		return nil
	}
	g.used = true
	close(g.entered)
	return g
}

func (g *c12Gate) wait() {
	if g != nil {
		<-g.release
	}
}

func c12URL(srv string) string { return "https://" + srv + ".invalid:6443" }

// specFor is the UpstreamCluster object of cluster name with its CURRENT server list.
func (r *c12Rig) specFor(name string) *proxyv1alpha1.UpstreamCluster {
	obj := &proxyv1alpha1.UpstreamCluster{
		ObjectMeta: metav1.ObjectMeta{Name: name},
		Spec: proxyv1alpha1.UpstreamClusterSpec{
			ClientConfig: proxyv1alpha1.ClientConfig{Insecure: true, BearerToken: []byte("gw")},
		},
	}
	obj.Spec.SecureServing.ServerNames = append([]string{}, r.names[name]...)
	for _, srv := range r.lists[name] {
		d := r.dis[srv]
		obj.Spec.Servers = append(obj.Spec.Servers, proxyv1alpha1.UpstreamClusterServer{Endpoint: c12URL(srv), Disabled: &d})
	}
	return obj
}

// newCluster builds a real ClusterInfo for the cluster's current server list; the clientset of
// every endpoint is the scripted fake of that server.
func (r *c12Rig) newCluster(name string) *clusters.ClusterInfo {
	for _, srv := range r.lists[name] {
		r.dis[srv] = false
	}
	info, err := clusters.CreateClusterInfo(r.specFor(name), nil, "", nil)
	must(err)
	r.all = append(r.all, info)
	for _, srv := range r.lists[name] {
		r.attachFake(info, srv)
	}
	return info
}

// attachFake gives the EndpointInfo of srv in info a fake clientset that plays the upstream
// apiserver srv: it answers as the cluster that OWNS srv at the time of the review (the cluster in
// whose server list srv currently is), from that cluster's script, and records the review with that
// owner and with whether the EndpointInfo object that was used is the owner's current, ready
// endpoint for srv.
func (r *c12Rig) attachFake(info *clusters.ClusterInfo, srv string) {
	ep, ok := info.Endpoints.Load(c12URL(srv))
	if !ok {
		panic("endpoint missing: " + srv)
	}
	cs := kubefake.NewSimpleClientset()
	enter := func(action k8stesting.Action, kind string) (c12Answer, *c12Gate) {
		host := c12ActionHost(action)
		r.mu.Lock()
		defer r.mu.Unlock()
		owner := r.owner[srv]
		current := false
		if oi := r.infos[owner]; owner != "" && oi != nil {
			if cur, ok := oi.Endpoints.Load(c12URL(srv)); ok && cur == ep {
				current = ep.IsReady()
			}
		}
		a := c12Answer{K: "fail"}
		if kind == "T" {
			if k := r.tidx[owner]; owner != "" && k < len(r.tscript[owner]) {
				a = r.tscript[owner][k]
			}
			r.tidx[owner]++
		} else {
			if k := r.sidx[owner]; owner != "" && k < len(r.sscript[owner]) {
				a = r.sscript[owner][k]
			}
			r.sidx[owner]++
		}
		r.calls = append(r.calls, callObs{C: owner, Ready: current, host: host, retry: a.K == "fail" && a.Retry, kind: kind})
		return a, r.takeGate(host, kind)
	}
	cs.PrependReactor("create", "tokenreviews", func(action k8stesting.Action) (bool, runtime.Object, error) {
		a, g := enter(action, "T")
		g.wait() // the review is "in flight" until the harness releases it
		switch a.K {
		case "auth":
			return true, &authenticationv1.TokenReview{Status: authenticationv1.TokenReviewStatus{
				Authenticated: true, User: authenticationv1.UserInfo{Username: a.Name, UID: a.UID}}}, nil
		case "unauth":
			return true, &authenticationv1.TokenReview{}, nil
		case "unauthmsg":
			return true, &authenticationv1.TokenReview{Status: authenticationv1.TokenReviewStatus{
				Error: "verif-err:" + strconv.FormatInt(a.Tag, 10)}}, nil
		default:
			return true, nil, c12Err(a.Tag, a.Retry)
		}
	})
	cs.PrependReactor("create", "subjectaccessreviews", func(action k8stesting.Action) (bool, runtime.Object, error) {
		a, g := enter(action, "S")
		g.wait()
		if a.K == "status" {
			return true, &authorizationv1.SubjectAccessReview{Status: authorizationv1.SubjectAccessReviewStatus{
				Allowed: a.Allowed, Denied: a.Denied, Reason: a.Reason}}, nil
		}
		return true, nil, c12Err(a.Tag, a.Retry)
	})
	clusters.VerifSetClientset(ep, cs)
}

// addEp / removeEp: the cluster's object gets a new .spec.servers and is synced (ClusterInfo.Sync).
func (r *c12Rig) addEp(c, srv string) {
	r.mu.Lock()
	if r.owner[srv] != "" {
		r.mu.Unlock()
		return // a server belongs to at most one cluster at a time
	}
	r.owner[srv] = c
	r.lists[c] = append(r.lists[c], srv)
	r.dis[srv] = false
	r.mu.Unlock()
	if info := r.infos[c]; info != nil {
		must(info.Sync(r.specFor(c)))
		r.attachFake(info, srv)
	}
}

func (r *c12Rig) removeEp(c, srv string) {
	r.mu.Lock()
	if r.owner[srv] != c {
		r.mu.Unlock()
		return
	}
	r.owner[srv] = ""
	kept := []string{}
	for _, x := range r.lists[c] {
		if x != srv {
			kept = append(kept, x)
		}
	}
	r.lists[c] = kept
	r.mu.Unlock()
	if info := r.infos[c]; info != nil {
		must(info.Sync(r.specFor(c)))
	}
}

// create: a new ClusterInfo for c's object (current server list and server names), registered the
// way the controller does for a new UpstreamCluster: AddOrUpdateForServerNames(nil, info).
func (r *c12Rig) create(c string) {
	info := r.newCluster(c)
	if err := r.ctl.AddOrUpdateForServerNames(nil, info); err != nil {
		info.Stop()
		panic("create " + c + ": " + err.Error())
	}
	r.infos[c] = info
}

func newC12Rig(c *c12Case) *c12Rig {
	ctl := controllers.VerifC12NewController()
	r := &c12Rig{cfg: c.Cfg, ctl: ctl, mgr: ctl, infos: map[string]*clusters.ClusterInfo{},
		tscript: c.TScript, sscript: c.SScript, tidx: map[string]int{}, sidx: map[string]int{}}
	tokencache.VerifNow = r.clock
	utilcache.VerifNow = r.clock
	r.owner, r.lists, r.dis, r.names = map[string]string{}, map[string][]string{}, map[string]bool{}, map[string][]string{}
	for _, cs := range c.Cfg.Servers {
		for _, srv := range cs.S {
			if r.owner[srv] != "" {
				panic("invalid case: server " + srv + " listed twice")
			}
			r.owner[srv] = cs.C
			r.lists[cs.C] = append(r.lists[cs.C], srv)
		}
	}
	// initial registry: a cluster exists iff its own name is registered to it; the other names
	// registered to it are the server names of its object
	reg := map[string]string{}
	order := []string{}
	for _, kv := range c.Cfg.Reg {
		if _, dup := reg[kv[0]]; !dup {
			reg[kv[0]] = kv[1]
			order = append(order, kv[0])
		}
	}
	for _, k := range order {
		cl := reg[k]
		if reg[cl] != cl {
			panic("invalid case: name " + k + " registered to a cluster that does not exist: " + cl)
		}
		if k != cl {
			r.names[cl] = append(r.names[cl], k)
		}
	}
	for _, k := range order {
		if reg[k] == k {
			r.create(k)
		}
	}
	prov := &c12Provider{inner: r.mgr} // the real controller / manager; only tags the clientsets it hands out
	r.tok = tokenwebhook.NewMultiClusterTokenReviewAuthenticator(prov, time.Duration(c.Cfg.STTL), time.Duration(c.Cfg.FTTL), authenticator.Audiences{"gw"})
	// the wiring of pkg/gateway/proxy/authenticator/config.go around the token authenticator
	r.req = group.NewAuthenticatedGroupAdder(unionauth.New(bearertoken.New(r.tok), websocket.NewProtocolAuthenticator(r.tok)))
	az, _, err := (&authzconfig.AuthorizerConfig{CacheAuthorizedTTL: time.Duration(c.Cfg.ATTL),
		CacheUnauthorizedTTL: time.Duration(c.Cfg.DTTL), ClusterClientProvider: prov}).New()
	must(err)
	r.authz = az
	return r
}

func (r *c12Rig) stop() {
	for _, info := range r.all {
		info.Stop()
	}
	tokencache.VerifNow = nil
	utilcache.VerifNow = nil
}

// request + context the way the gateway's filters produce them
func (r *c12Rig) newRequest(op *c12Op) *http.Request {
	req, err := http.NewRequest("GET", "https://gateway.invalid/api/v1/namespaces/default/pods", nil)
	must(err)
	ctx := context.Background()
	ctx = apirequest.WithRequestInfo(ctx, &apirequest.RequestInfo{IsResourceRequest: true, Path: req.URL.Path, Verb: "list",
		APIPrefix: "api", APIVersion: "v1", Namespace: "default", Resource: "pods"})
	req = req.WithContext(ctx)
	if op.Host == nil {
		return req
	}
	var info *request.ExtraRequestInfo
	switch op.HVia {
	case "factory", "factoryport":
		req.Host = *op.Host
		if op.HVia == "factoryport" {
			req.Host = *op.Host + ":6443"
		}
		f := &request.ExtraRequestInfoFactory{LongRunningFunc: func(*http.Request, *apirequest.RequestInfo) bool { return false }}
		info, err = f.NewExtraRequestInfo(req)
		must(err)
	default:
		info = &request.ExtraRequestInfo{Scheme: "https", Hostname: *op.Host}
	}
	return req.WithContext(request.WithExtraRequestInfo(ctx, info))
}

var c12Tag = regexp.MustCompile(`verif-err:(-?\d+)`)

func c12Classify(err error, requestMode bool) errObs {
	if err == nil {
		return errObs{C: "none"}
	}
	msg := err.Error()
	switch {
	case strings.Contains(msg, "failed to get extra request info from context"),
		strings.Contains(msg, "failed to get request host from context"):
		return errObs{C: "noinfo"}
	case strings.Contains(msg, "cluster not found"):
		return errObs{C: "notfound"}
	case strings.Contains(msg, "no ready endpoints"):
		return errObs{C: "noready"}
	case strings.Contains(msg, "both allow and deny"):
		return errObs{C: "both"}
	}
	if m := c12Tag.FindStringSubmatch(msg); m != nil {
		t, _ := strconv.ParseInt(m[1], 10, 64)
		return errObs{C: "up", Tag: t}
	}
	if requestMode && msg == "invalid bearer token" {
		// bearertoken.Authenticator's default error for (nil, false, nil)
		return errObs{C: "none"}
	}
	return errObs{C: "other", Msg: msg}
}

func (a *c12Attrs) record() *authorizer.AttributesRecord {
	return &authorizer.AttributesRecord{
		User:            &user.DefaultInfo{Name: a.User, UID: a.UID, Groups: a.Groups},
		Verb:            a.Verb,
		Namespace:       a.NS,
		APIGroup:        a.Group,
		APIVersion:      a.Version,
		Resource:        a.Resource,
		Subresource:     a.Subres,
		Name:            a.Name,
		ResourceRequest: a.IsRes,
		Path:            a.Path,
	}
}

// remove: c's UpstreamCluster object is deleted — the controller's DeleteForServerNames (which must
// unregister every server name of c and stop its ClusterInfo); then the per-host caches created
// under that ClusterInfo must be dropped by their watcher goroutines.
func (r *c12Rig) remove(c string) string {
	old := r.infos[c]
	if old == nil {
		return ""
	}
	// caches that must go: keyed by this ClusterInfo, or (host-only keys) of a host it serves now
	watched := map[string]bool{}
	for _, h := range append(tokenwebhook.VerifCacheHosts(r.tok), sarwebhook.VerifCacheHosts(r.authz)...) {
		if ci, ok := r.mgr.Get(h); ok && ci == old {
			watched[h] = true
		}
	}
	ptr := reflect.ValueOf(old).Pointer()
	r.ctl.DeleteForServerNames(c)
	r.infos[c] = nil
	note := ""
	if _, still := r.mgr.Get(c); still {
		note = "cluster-still-registered"
	} else if old.Context().Err() == nil {
		note = "cluster-not-stopped"
	}
	left := func() int {
		n := 0
		for _, k := range tokenwebhook.VerifCacheKeys(r.tok) {
			if (k.Cluster != 0 && k.Cluster == ptr) || (k.Cluster == 0 && watched[k.Host]) {
				n++
			}
		}
		for _, k := range sarwebhook.VerifCacheKeys(r.authz) {
			if (k.Cluster != 0 && k.Cluster == ptr) || (k.Cluster == 0 && watched[k.Host]) {
				n++
			}
		}
		return n
	}
	deadline := time.Now().Add(3 * time.Second)
	if note != "" {
		deadline = time.Now().Add(50 * time.Millisecond)
	}
	for left() > 0 {
		if time.Now().After(deadline) {
			if note == "" {
				note = "caches-not-dropped"
			}
			break
		}
		time.Sleep(time.Millisecond)
	}
	return note
}

// restart: c's object is deleted and created again with the same server names and server list.
func (r *c12Rig) restart(c string) string {
	if r.infos[c] == nil {
		return ""
	}
	note := r.remove(c)
	r.create(c)
	return note
}

// name / unname: c's object gains / loses a server name; the controller's update path for an
// existing cluster: ClusterInfo.Sync(object) then AddOrUpdateForServerNames(old names, info).
func (r *c12Rig) name(c, h string) {
	k := strings.ToLower(h)
	info := r.infos[c]
	if info == nil {
		return
	}
	if _, taken := r.mgr.Get(k); taken {
		return // already a name of c, or the update would be rejected (checkServerNameConflict)
	}
	old := info.LoadServerNames()
	r.names[c] = append(r.names[c], k)
	must(info.Sync(r.specFor(c)))
	must(r.ctl.AddOrUpdateForServerNames(old, info))
}

func (r *c12Rig) unname(c, h string) {
	k := strings.ToLower(h)
	info := r.infos[c]
	if info == nil || k == c {
		return
	}
	if ci, ok := r.mgr.Get(k); !ok || ci != info {
		return
	}
	old := info.LoadServerNames()
	kept := []string{}
	for _, x := range r.names[c] {
		if x != k {
			kept = append(kept, x)
		}
	}
	r.names[c] = kept
	must(info.Sync(r.specFor(c)))
	must(r.ctl.AddOrUpdateForServerNames(old, info))
}

// recreate: a deleted cluster's object is created again (no extra server names).
func (r *c12Rig) recreate(c string) {
	if r.infos[c] != nil {
		return
	}
	if _, taken := r.mgr.Get(c); taken {
		return // its name is a server name of another cluster now: the controller rejects the new object
	}
	r.names[c] = nil
	r.create(c)
}

// recAuthorizer passes every call through to the real authorizer and keeps what it saw.
type recAuthorizer struct {
	inner  authorizer.Authorizer
	n      int
	attrs  authorizer.Attributes
	dec    authorizer.Decision
	reason string
	err    error
}

func (a *recAuthorizer) Authorize(ctx context.Context, attr authorizer.Attributes) (authorizer.Decision, string, error) {
	a.n++
	a.attrs = attr
	a.dec, a.reason, a.err = a.inner.Authorize(ctx, attr)
	return a.dec, a.reason, a.err
}

// impersonate: the gateway's impersonation filter asks the authorizer whether the requestor may
// impersonate user attrs.Name; the request context carries the ExtraRequestInfo as usual.
func (r *c12Rig) impersonate(req *http.Request, a *c12Attrs) (authorizer.Decision, string, error, string) {
	rec := &recAuthorizer{inner: r.authz}
	reached := false
	h := filters.WithNoLoggingImpersonation(http.HandlerFunc(func(http.ResponseWriter, *http.Request) { reached = true }), rec, scheme.Codecs)
	req.Header.Set(authenticationv1.ImpersonateUserHeader, a.Name)
	req = req.WithContext(apirequest.WithUser(req.Context(), &user.DefaultInfo{Name: a.User, UID: a.UID, Groups: a.Groups}))
	w := httptest.NewRecorder()
	h.ServeHTTP(w, req)
	if rec.n != 1 {
		panic(fmt.Sprintf("impersonation filter called the authorizer %d times", rec.n))
	}
	want, got := a.record(), rec.attrs
	if got.GetVerb() != want.Verb || got.GetResource() != want.Resource || got.GetName() != want.Name ||
		got.GetNamespace() != want.Namespace || got.GetAPIGroup() != want.APIGroup || got.GetAPIVersion() != want.APIVersion ||
		got.GetSubresource() != want.Subresource || got.IsResourceRequest() != want.ResourceRequest || got.GetUser().GetName() != a.User {
		panic("impersonation filter built other attributes than the case expects")
	}
	note := ""
	allowed := rec.err == nil && rec.dec == authorizer.DecisionAllow
	if reached != allowed || (!reached && w.Code != http.StatusForbidden) {
		note = "impersonation-gate-mismatch"
	}
	return rec.dec, rec.reason, rec.err, note
}

func (r *c12Rig) endpoint(srv string) *clusters.EndpointInfo {
	info := r.infos[r.owner[srv]]
	if r.owner[srv] == "" || info == nil {
		return nil
	}
	ep, ok := info.Endpoints.Load(c12URL(srv))
	if !ok {
		return nil
	}
	return ep
}

func (r *c12Rig) doAuthn(op *c12Op, st *stepObs) {
	st.Kind = "T"
	req := r.newRequest(op)
	var resp *authenticator.Response
	var ok bool
	var err error
	if r.via == "request" {
		req.Header.Set("Authorization", "Bearer "+op.Tok)
		resp, ok, err = r.req.AuthenticateRequest(req)
	} else {
		resp, ok, err = r.tok.AuthenticateToken(req.Context(), op.Tok)
	}
	st.OK = ok
	if resp != nil && resp.User != nil {
		st.User = []string{resp.User.GetName(), resp.User.GetUID()}
	}
	st.Err = c12Classify(err, r.via == "request")
}

func (r *c12Rig) doAuthz(op *c12Op, st *stepObs) {
	st.Kind = "S"
	req := r.newRequest(op)
	var dec authorizer.Decision
	var reason string
	var err error
	if op.AVia == "impersonate" {
		dec, reason, err, st.Note = r.impersonate(req, op.Attrs)
	} else {
		dec, reason, err = r.authz.Authorize(req.Context(), op.Attrs.record())
	}
	st.Dec = int(dec)
	st.Reason = reason
	st.Err = c12Classify(err, false)
}

func (r *c12Rig) takeCalls() []callObs {
	r.mu.Lock()
	defer r.mu.Unlock()
	out := append([]callObs{}, r.calls...)
	r.calls = nil
	return out
}

// overlap: request A (op.Host) is started; the first review it issues is held in flight at the
// endpoint that received it; meanwhile request B (op.Host2, same token / same attributes) must run
// to completion on its own; then A's review is released and A's result collected.
// B is given c12Bound (3 s), counted from its start and again from every review it issues (a review
// that got a retriable failure is followed by the code's own back-off sleep of up to ~2 s, so the
// bound is 2.5 s longer after such a review).  A correct B needs milliseconds; the bound is generous
// because 300 ms was exceeded once by plain CPU starvation on a heavily loaded machine (a request for
// an unknown host flagged as blocked).  A B that waits for A's flight never completes before the
// release, whatever the bound.  A request that makes no progress within the bound while A's
// review is in flight is recorded as blocked.
// Reviews are attributed to the request that issued them (host tag of the client they were created
// through), never by timing.
func (r *c12Rig) overlap(op *c12Op) stepObs {
	kind := "T"
	if op.Op == "overlaps" {
		kind = "S"
	}
	opA, opB := *op, *op
	opB.Host = op.Host2
	run := func(o *c12Op) *stepObs {
		st := &stepObs{Calls: []callObs{}}
		defer func() {
			if x := recover(); x != nil {
				st.Err = errObs{C: "other", Msg: fmt.Sprint("panic: ", x)}
			}
		}()
		if kind == "T" {
			r.doAuthn(o, st)
		} else {
			r.doAuthz(o, st)
		}
		return st
	}
	hostA, hostB := "", ""
	if op.Host != nil {
		hostA = *op.Host
	}
	if op.Host2 != nil {
		hostB = *op.Host2
	}
	if op.Host != nil && op.Host2 != nil && hostA == hostB {
		panic("overlap: the two requests must be addressed to different hosts")
	}
	g := &c12Gate{kind: kind, host: hostA, entered: make(chan struct{}), release: make(chan struct{})}
	r.mu.Lock()
	if op.Host != nil {
		r.gate = g
	}
	r.mu.Unlock()
	doneA := make(chan *stepObs, 1)
	go func() { doneA <- run(&opA) }()
	var a, b *stepObs
	select {
	case <-g.entered: // A's review is in flight
	case a = <-doneA: // A needed no review (cache hit / refused)
	case <-time.After(10 * time.Second):
		panic("overlap: request A neither issued a review nor returned")
	}
	doneB := make(chan *stepObs, 1)
	go func() { doneB <- run(&opB) }()
	blocked := false
	const c12Bound = 3 * time.Second
	deadline := time.Now().Add(c12Bound)
	seen := 0
	for b == nil && !blocked {
		select {
		case b = <-doneB:
		case <-time.After(2 * time.Millisecond):
			r.mu.Lock()
			n, last := 0, callObs{}
			for _, cl := range r.calls {
				if op.Host2 != nil && cl.host == hostB {
					n++
					last = cl
				}
			}
			r.mu.Unlock()
			if n > seen { // B made progress: it issued another review
				seen = n
				if last.retry {
					deadline = time.Now().Add(c12Bound + 2500*time.Millisecond)
				} else {
					deadline = time.Now().Add(c12Bound)
				}
			}
			if time.Now().After(deadline) {
				blocked = true
			}
		}
	}
	close(g.release)
	if a == nil {
		select {
		case a = <-doneA:
		case <-time.After(30 * time.Second):
			panic("overlap: request A did not return after its review was released")
		}
	}
	if b == nil {
		select {
		case b = <-doneB:
		case <-time.After(30 * time.Second):
			panic("overlap: request B never returned")
		}
	}
	r.mu.Lock()
	r.gate = nil
	r.mu.Unlock()
	a.Calls, b.Calls = []callObs{}, []callObs{}
	for _, cl := range r.takeCalls() {
		if op.Host2 != nil && cl.host == hostB {
			b.Calls = append(b.Calls, cl)
		} else {
			a.Calls = append(a.Calls, cl) // issued through a client obtained for A's host (or untagged)
		}
	}
	return stepObs{Kind: "P", Calls: []callObs{}, A: a, B: b, Blocked: blocked}
}

// recAuthenticator passes the call through to the real request authenticator and keeps what it saw.
type recAuthenticator struct {
	inner authenticator.Request
	n     int
	resp  *authenticator.Response
	ok    bool
	err   error
}

func (a *recAuthenticator) AuthenticateRequest(req *http.Request) (*authenticator.Response, bool, error) {
	a.n++
	a.resp, a.ok, a.err = a.inner.AuthenticateRequest(req)
	return a.resp, a.ok, a.err
}

// chain: one request through the gateway's proxy handler chain, in the order of
// cmd/kube-gateway/app/proxy.go (filters that do not take part in choosing a cluster are left out):
// WithExtraRequestInfo (real factory) -> WithUpstreamInfo -> WithAuthentication (bearer token, the
// real multi-cluster token authenticator) -> WithImpersonator -> WithNoLoggingImpersonation (the real
// authorizer) -> terminal handler standing in for the dispatcher, which records
// ExtraRequestInfo.UpstreamCluster, the cluster the request would be forwarded to.
func (r *c12Rig) chain(op *c12Op) stepObs {
	st := stepObs{Kind: "C", Calls: []callObs{}}
	recN := &recAuthenticator{inner: r.req}
	recZ := &recAuthorizer{inner: r.authz}
	terminal := http.HandlerFunc(func(w http.ResponseWriter, req *http.Request) {
		d := ""
		if info, ok := request.ExtraRequestInfoFrom(req.Context()); ok && info.UpstreamCluster != nil {
			d = info.UpstreamCluster.Cluster
		}
		st.Dispatch = &d
		w.WriteHeader(http.StatusOK)
	})
	var h http.Handler = terminal
	h = filters.WithNoLoggingImpersonation(h, recZ, scheme.Codecs)
	h = filters.WithImpersonator(h)
	h = genericapifilters.WithAuthentication(h, recN, genericapifilters.Unauthorized(scheme.Codecs, false), nil)
	h = filters.WithUpstreamInfo(h, r.mgr, scheme.Codecs)
	h = filters.WithExtraRequestInfo(h, &request.ExtraRequestInfoFactory{
		LongRunningFunc: func(*http.Request, *apirequest.RequestInfo) bool { return false }}, scheme.Codecs)

	req, err := http.NewRequest("GET", "https://gateway.invalid/api/v1/namespaces/default/pods", nil)
	must(err)
	req = req.WithContext(apirequest.WithRequestInfo(context.Background(), &apirequest.RequestInfo{IsResourceRequest: true,
		Path: req.URL.Path, Verb: "list", APIPrefix: "api", APIVersion: "v1", Namespace: "default", Resource: "pods"}))
	req.Host = *op.Host
	if op.Port {
		req.Host += ":6443"
	}
	if op.SNI != nil {
		req.TLS = &tls.ConnectionState{ServerName: *op.SNI}
	}
	req.Header.Set("Authorization", "Bearer "+op.Tok)
	if op.Imp != nil {
		req.Header.Set(authenticationv1.ImpersonateUserHeader, *op.Imp)
	}
	w := httptest.NewRecorder()
	h.ServeHTTP(w, req)
	st.Code = w.Code
	calls := r.takeCalls()
	if recN.n > 1 || recZ.n > 1 {
		panic("chain: authenticator / authorizer called more than once")
	}
	if recN.n == 1 {
		t := &stepObs{Kind: "T", Calls: []callObs{}, OK: recN.ok, Err: c12Classify(recN.err, true)}
		if recN.resp != nil && recN.resp.User != nil {
			t.User = []string{recN.resp.User.GetName(), recN.resp.User.GetUID()}
		}
		for _, cl := range calls {
			if cl.kind == "T" {
				t.Calls = append(t.Calls, cl)
			}
		}
		st.T = t
	}
	if recZ.n == 1 {
		z := &stepObs{Kind: "S", Calls: []callObs{}, Dec: int(recZ.dec), Reason: recZ.reason, Err: c12Classify(recZ.err, false)}
		for _, cl := range calls {
			if cl.kind == "S" {
				z.Calls = append(z.Calls, cl)
			}
		}
		// the filter must have asked about exactly: may <authenticated user> impersonate user <imp>
		a := recZ.attrs
		if op.Imp == nil || a.GetVerb() != "impersonate" || a.GetResource() != "users" || a.GetName() != *op.Imp ||
			a.GetNamespace() != "" || a.GetAPIGroup() != "" || a.GetAPIVersion() != "" || a.GetSubresource() != "" ||
			!a.IsResourceRequest() || st.T == nil || st.T.User == nil || a.GetUser().GetName() != st.T.User[0] ||
			a.GetUser().GetUID() != st.T.User[1] || strings.Join(a.GetUser().GetGroups(), ",") != "system:authenticated" {
			z.Note = "unexpected-impersonation-attributes"
		}
		st.Z = z
	}
	return st
}

func runC12(raw json.RawMessage) interface{} {
	var c c12Case
	must(json.Unmarshal(raw, &c))
	r := newC12Rig(&c)
	r.via = c.Via
	defer r.stop()
	steps := []stepObs{}
	for i := range c.Ops {
		op := &c.Ops[i]
		r.mu.Lock()
		r.calls = nil
		r.now = op.Now
		r.mu.Unlock()
		st := stepObs{Kind: "N", Calls: []callObs{}}
		switch op.Op {
		case "authn":
			r.doAuthn(op, &st)
		case "authz":
			r.doAuthz(op, &st)
		case "overlapt", "overlaps":
			st = r.overlap(op)
		case "chain":
			st = r.chain(op)
		case "healthy":
			if ep := r.endpoint(op.Srv); ep != nil {
				ep.UpdateStatus(op.B, "verif", "verif")
			}
		case "disabled":
			if ep := r.endpoint(op.Srv); ep != nil {
				ep.SetDisabled(op.B)
				r.dis[op.Srv] = op.B
			}
		case "addep":
			r.addEp(op.C, op.Srv)
		case "removeep":
			r.removeEp(op.C, op.Srv)
		case "restart":
			st.Note = r.restart(op.C)
		case "delete":
			st.Note = r.remove(op.C)
		case "recreate":
			r.recreate(op.C)
		case "name":
			r.name(op.C, *op.Host)
		case "unname":
			r.unname(op.C, *op.Host)
		case "evictt":
			tokenwebhook.VerifEvict(r.tok, *op.Host, op.Tok)
		case "evicts":
			sarwebhook.VerifEvict(r.authz, *op.Host, op.Attrs.record())
		default:
			panic("unknown op " + op.Op)
		}
		r.mu.Lock()
		if len(r.calls) > 0 {
			st.Calls = append(st.Calls, r.calls...)
		}
		r.mu.Unlock()
		steps = append(steps, st)
	}
	return map[string]interface{}{"steps": steps}
}

func main() { runCases(runC12) }
