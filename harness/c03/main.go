//go:build verif

package main

// C03 harness: histories of spec syncs / ticks / probe answers / picks / requests applied to the
// real controller + ClusterInfo + dispatcher chain, observed at quiescence after every op.

import (
	"context"
	"encoding/json"
	"fmt"
	"os"
	"runtime"
	"time"

	"k8s.io/apiserver/pkg/authentication/user"
	"k8s.io/apiserver/pkg/authorization/authorizer"

	"github.com/kubewharf/kubegateway/pkg/clusters"
	"github.com/kubewharf/kubegateway/pkg/gateway/controllers"
)

const c03Cluster = "c03.example.com"
const nStubs = 4
const ghostURL = "http://127.0.0.1:1" // never a server; may be named by a subset

var stubs []*stubUp

type c03Op struct {
	Op      string  `json:"op"`
	Servers [][]int `json:"servers"` // [endpoint id, disabled 0/1]
	Subsets [][]int `json:"subsets"` // subsets of policies 0 and 1 (endpoint ids; 4 = ghost)
	Ep      int     `json:"ep"`
	Code    int     `json:"code"`
	Policy  int     `json:"policy"`
	Slot    int     `json:"slot"`
	N       int     `json:"n"` // stress: rounds
}

type c03Case struct {
	Kind string  `json:"kind"` // "hist" | "stress"
	Ops  []c03Op `json:"ops"`
	N    int     `json:"n"`
}

type tickObs struct {
	Pending int    `json:"pending"` // a tick is buffered in the ticker channel
	State   string `json:"state"`   // sel | send | exit
	Chan    int    `json:"chan"`    // len of the trigger channel of the ticker's EndpointInfo
}

type epObs struct {
	Present   bool      `json:"present"`
	Disabled  bool      `json:"disabled"`
	Healthy   bool      `json:"healthy"`
	Ucount    int       `json:"ucount"`
	HasCancel bool      `json:"hascancel"`
	Chan      int       `json:"chan"`
	Held      int       `json:"held"`
	Hits      int       `json:"hits"`
	Proxied   int       `json:"proxied"`
	Tickers   []tickObs `json:"tickers"`
}

type c03Step struct {
	Res      string  `json:"res"`
	Picked   int     `json:"picked"`
	Code     int     `json:"code"`
	Stub     int     `json:"stub"`
	Eps      []epObs `json:"eps"`
	NWorkers int     `json:"nworkers"`
	NProbing int     `json:"nprobing"`
}

func epURL(id int) string {
	if id >= 0 && id < nStubs {
		return stubs[id].url
	}
	return ghostURL
}

func epID(url string) int {
	for i, s := range stubs {
		if s.url == url {
			return i
		}
	}
	return nStubs
}

func attrsFor(policy int) authorizer.Attributes {
	u := &user.DefaultInfo{Name: "verif-user", Groups: []string{"system:authenticated"}}
	if policy >= 0 && policy < len(resNames) {
		return authorizer.AttributesRecord{User: u, Verb: "list", Namespace: "default", APIVersion: "v1",
			Resource: resNames[policy], ResourceRequest: true, Path: "/api/v1/namespaces/default/" + resNames[policy]}
	}
	return authorizer.AttributesRecord{User: u, Verb: "get", ResourceRequest: false, Path: "/version"}
}

func pathFor(policy int) string {
	if policy >= 0 && policy < len(resNames) {
		return "/api/v1/namespaces/default/" + resNames[policy]
	}
	return "/version"
}

func snapshot(g *gwRig, st *c03Step) {
	gs := quiesce(stubs)
	byID := map[int64]hgState{}
	for _, h := range gs {
		byID[h.id] = h
		if h.worker {
			st.NWorkers++
			if h.inProbe {
				st.NProbing++
			}
		}
	}
	info, _ := g.ctrl.Manager.Get(c03Cluster)
	st.Eps = make([]epObs, nStubs)
	for i, s := range stubs {
		o := &st.Eps[i]
		o.Hits, o.Held, o.Proxied = s.counts()
		if info != nil {
			if e, ok := info.Endpoints.Load(s.url); ok {
				o.Present = true
				o.Disabled, o.Healthy, o.Ucount, o.HasCancel = clusters.VerifEndpointFlags(e)
				o.Chan = clusters.VerifHealthChanLen(e)
			}
		}
		o.Tickers = []tickObs{}
		for _, t := range g.tickersOf(s.url) {
			to := tickObs{Pending: len(t.C), Chan: clusters.VerifHealthChanLen(t.E)}
			h, alive := byID[t.Gid]
			switch {
			case !alive:
				to.State = "exit"
			case h.state == "chan send":
				to.State = "send"
			case h.state == "select":
				to.State = "sel"
			default:
				to.State = "other:" + h.state
			}
			o.Tickers = append(o.Tickers, to)
		}
	}
}

func runHist(c c03Case) interface{} {
	for _, s := range stubs {
		s.reset(true)
	}
	g := newGwRig()
	defer g.close()
	defer g.cleanup(stubs, true)
	pickers := map[int]clusters.EndpointPicker{}
	held := map[int]*clusters.ClusterInfo{} // ClusterInfo objects kept by a caller (stale after a deletion)
	steps := []c03Step{}
	for _, op := range c.Ops {
		st := c03Step{Res: "ok", Picked: -1, Code: 0, Stub: -1}
		switch op.Op {
		case "sync", "redeliver":
			// redeliver: a superseded version of the object (a stale queue item) reaches the sync handler while
			// the lister holds the latest one; the handler must act on the latest object, not on the item
			var servers []serverSpec
			for _, sv := range op.Servers {
				servers = append(servers, serverSpec{URL: epURL(sv[0]), Disabled: sv[1] != 0})
			}
			subsets := make([][]string, 2)
			for i := 0; i < 2; i++ {
				if i < len(op.Subsets) {
					for _, id := range op.Subsets[i] {
						subsets[i] = append(subsets[i], epURL(id))
					}
				}
			}
			if op.Op == "redeliver" {
				if err := controllers.VerifC03Sync(g.ctrl, clusterObject(c03Cluster, servers, subsets)); err != nil {
					st.Res = "err"
				}
			} else if err := g.apply(clusterObject(c03Cluster, servers, subsets)); err != nil {
				st.Res = "err"
			}
		case "tick":
			fired := 0
			for _, t := range g.tickersOf(epURL(op.Ep)) {
				if !t.Stopped() && t.Fire() {
					fired++
				}
			}
			st.Res = fmt.Sprintf("fired:%d", fired)
		case "probe":
			if op.Ep < 0 || op.Ep >= nStubs || !stubs[op.Ep].release(op.Code) {
				st.Res = "none"
			}
		case "trigger":
			st.Res = "absent"
			if info, ok := g.ctrl.Manager.Get(c03Cluster); ok {
				if e, ok := info.Endpoints.Load(epURL(op.Ep)); ok {
					e.TriggerHealthCheck()
					st.Res = "ok"
				}
			}
		case "match":
			info, ok := g.ctrl.Manager.Get(c03Cluster)
			if !ok {
				st.Res = "nocluster"
				break
			}
			p, err := info.MatchAttributes(attrsFor(op.Policy))
			if err != nil {
				st.Res = "nomatch"
				delete(pickers, op.Slot)
				break
			}
			pickers[op.Slot] = p
		case "pop":
			p, ok := pickers[op.Slot]
			if !ok {
				st.Res = "noslot"
				break
			}
			e, err := p.Pop()
			if err != nil {
				st.Res = "none"
				break
			}
			st.Picked = epID(e.Endpoint)
		case "delete": // the UpstreamCluster object is deleted: controller delete path -> DeleteWithStop
			must(g.remove(c03Cluster))
		case "hold":
			info, ok := g.ctrl.Manager.Get(c03Cluster)
			if !ok {
				st.Res = "nocluster"
				break
			}
			held[op.Slot] = info
		case "pickone":
			info, ok := held[op.Slot]
			if !ok {
				st.Res = "noslot"
				break
			}
			e, err := info.PickOne()
			if err != nil {
				st.Res = "none"
				break
			}
			st.Picked = epID(e.Endpoint)
		case "request":
			r := g.do(context.Background(), c03Cluster, pathFor(op.Policy))
			st.Code, st.Stub = r.Code, r.Stub
		default:
			panic("unknown op " + op.Op)
		}
		snapshot(g, &st)
		steps = append(steps, st)
		for _, s := range stubs {
			if s.expiredProbes() > 0 {
				return map[string]interface{}{"inconclusive": "a held /healthz request hit the prober's 5 s timeout"}
			}
		}
	}
	return map[string]interface{}{"steps": steps}
}

// runStress searches for the stray probe after a disable with the real concurrency of the code (no
// waiting for quiescence between the tick and the disable).  Each round: the endpoint is enabled and
// healthy; the upstream starts answering /healthz slowly; a tick starts probe P1 (held by the upstream);
// a second tick and the disabling sync run concurrently; after the sync has returned P1 is answered.
// The worker goroutine was inside P1 during the whole sync, so every further GET /healthz that reaches
// the upstream was started after the endpoint had been disabled: a stray.
func runStress(c c03Case) interface{} {
	for _, s := range stubs {
		s.reset(false)
	}
	g := newGwRig()
	defer g.close()
	defer g.cleanup(stubs, true)
	up := stubs[0]
	on := clusterObject(c03Cluster, []serverSpec{{URL: up.url}, {URL: stubs[1].url}}, make([][]string, 2))
	off := clusterObject(c03Cluster, []serverSpec{{URL: up.url, Disabled: true}, {URL: stubs[1].url}}, make([][]string, 2))
	fire := func() {
		for _, t := range g.tickersOf(up.url) {
			if !t.Stopped() {
				t.Fire()
			}
		}
	}
	strays, rounds, skipped := 0, c.N, 0
	for i := 0; i < rounds; i++ {
		up.setGate(false)
		must(g.apply(on))
		quiesce(stubs)
		up.setGate(true)
		fire()
		deadline := time.Now().Add(2 * time.Second)
		for {
			if _, held, _ := up.counts(); held >= 1 {
				break
			}
			if time.Now().After(deadline) {
				break
			}
			time.Sleep(50 * time.Microsecond)
		}
		if _, held, _ := up.counts(); held != 1 {
			skipped++
			for up.release(200) {
			}
			continue
		}
		done := make(chan struct{})
		go func() {
			fire()
			close(done)
		}()
		if i%2 == 1 {
			runtime.Gosched()
		}
		must(g.apply(off))
		<-done
		h0, _, _ := up.counts()
		up.release(200)
		quiesce(stubs)
		time.Sleep(300 * time.Microsecond)
		quiesce(stubs)
		h1, held, _ := up.counts()
		strays += h1 - h0
		for k := 0; k < held; k++ {
			up.release(200)
		}
		quiesce(stubs)
	}
	return map[string]interface{}{"rounds": rounds, "strays": strays, "skipped": skipped}
}

func runC03(raw json.RawMessage) interface{} {
	var c c03Case
	must(json.Unmarshal(raw, &c))
	if c.Kind == "stress" {
		return runStress(c)
	}
	return runHist(c)
}

func main() {
	for i := 0; i < nStubs; i++ {
		stubs = append(stubs, newStub(i))
	}
	_ = os.Setenv("no_proxy", "*")
	runCases(runC03)
}
