//go:build verif

package main

// C14 correspondence harness: the real endpointPickStrategy.Pop() of a real ClusterInfo.
//   kind "rr":   stable ready set, N requests (MatchAttributes + Pop each), explicit subset or all;
//   kind "hist": readiness changes, server-set changes (real ClusterInfo.Sync), forced cursor;
//   kind "req":  the policy's traffic: requests through the real proxy handler chain (reqrig.go);
//   kind "conc": concurrent pickers replayed under the cooperative scheduler (Pop instrumented:
//                atomic.AddUint64 is a schedule point).

import (
	"encoding/json"
	"fmt"
	"strings"
	"time"

	metav1 "k8s.io/apimachinery/pkg/apis/meta/v1"
	"k8s.io/apiserver/pkg/authentication/user"
	"k8s.io/apiserver/pkg/authorization/authorizer"

	proxyv1alpha1 "github.com/kubewharf/kubegateway/pkg/apis/proxy/v1alpha1"
	"github.com/kubewharf/kubegateway/pkg/clusters"
)

type c14Op struct {
	Op  string `json:"op"` // "pick" | "ready" | "servers" | "cursor"
	All bool   `json:"all"`
	E   int    `json:"e"`
	B   bool   `json:"b"`
	Es  []int  `json:"es"`
	Dis []int  `json:"dis"`  // servers: the ones with disabled=true
	Edit int   `json:"edit"` // servers: unrelated edits of the object (flow control / logging / another policy)
	V   string `json:"v"` // uint64 in decimal
}

type c14Case struct {
	Kind    string  `json:"kind"`
	Servers []int   `json:"servers"`
	Ready   []int   `json:"ready"`
	Disabled []int  `json:"disabled"` // servers carrying disabled=true in the spec
	Resync  int     `json:"resync"`   // rr: after every <resync> picks, Sync again (same servers and flags), 0 = never
	Writes  int     `json:"writes"`   // rr: every <writes>-th pick runs WHILE a status write that changes nothing
	//                                    (UpdateStatus(true) on a healthy endpoint) holds the endpoint's status lock
	Subset  []int   `json:"subset"` // explicit upstream subset of the first policy (may be empty)
	All     bool    `json:"all"`    // rr: use the policy without subset
	N       int     `json:"n"`
	Force   *c14Op  `json:"force"`
	Ops     []c14Op `json:"ops"`
	Phases  []c14Phase `json:"phases"`
	Reqs    []reqOp    `json:"reqs"` // kind "req": requests of the subset policy through the real dispatcher
}

// one phase of a concurrent case: the readiness of the subset's endpoints is set first (sequentially),
// then the pickers run under the scheduler
type c14Phase struct {
	Ready []int `json:"ready"`
	Picks []int `json:"picks"`
	Sched []int `json:"sched"`
}

func epName(i int) string { return fmt.Sprintf("https://10.0.0.%d:443", i+1) }

func epID(name string) int {
	var i int
	if _, err := fmt.Sscanf(name, "https://10.0.0.%d:443", &i); err != nil {
		return -3
	}
	return i - 1
}

// c14Cluster builds the UpstreamCluster object.  edit = 0: always the identical object; other values change
// only fields that have nothing to do with the servers (flow control, logging, a policy of another name).
func c14Cluster(servers []int, subset []int, disabled []int, edit int) *proxyv1alpha1.UpstreamCluster {
	obj := &proxyv1alpha1.UpstreamCluster{
		ObjectMeta: metav1.ObjectMeta{Name: "c14.test"},
		Spec: proxyv1alpha1.UpstreamClusterSpec{
			ClientConfig: proxyv1alpha1.ClientConfig{Insecure: true, BearerToken: []byte("t")},
		},
	}
	dis := map[int]bool{}
	for _, d := range disabled {
		dis[d] = true
	}
	for _, s := range servers {
		srv := proxyv1alpha1.UpstreamClusterServer{Endpoint: epName(s)}
		if dis[s] {
			t := true
			srv.Disabled = &t
		}
		obj.Spec.Servers = append(obj.Spec.Servers, srv)
	}
	sub := []string{}
	for _, s := range subset {
		sub = append(sub, epName(s))
	}
	if len(sub) > 0 {
		obj.Spec.DispatchPolicies = append(obj.Spec.DispatchPolicies, proxyv1alpha1.DispatchPolicy{
			Rules:          []proxyv1alpha1.DispatchPolicyRule{{Verbs: []string{"*"}, APIGroups: []string{"*"}, Resources: []string{"subs"}}},
			UpstreamSubset: sub,
		})
	}
	if edit%2 == 1 { // a policy for other requests comes and goes
		obj.Spec.DispatchPolicies = append(obj.Spec.DispatchPolicies, proxyv1alpha1.DispatchPolicy{
			Rules:                 []proxyv1alpha1.DispatchPolicyRule{{Verbs: []string{"get"}, APIGroups: []string{"*"}, Resources: []string{"others"}}},
			FlowControlSchemaName: "other",
		})
	}
	obj.Spec.DispatchPolicies = append(obj.Spec.DispatchPolicies, proxyv1alpha1.DispatchPolicy{
		Rules: []proxyv1alpha1.DispatchPolicyRule{{Verbs: []string{"*"}, APIGroups: []string{"*"}, Resources: []string{"*"}, NonResourceURLs: []string{"*"}}},
	})
	if edit > 0 {
		obj.Spec.FlowControl.Schemas = []proxyv1alpha1.FlowControlSchema{{
			Name: "other",
			FlowControlSchemaConfiguration: proxyv1alpha1.FlowControlSchemaConfiguration{
				MaxRequestsInflight: &proxyv1alpha1.MaxRequestsInflightFlowControlSchema{Max: int32(10 + edit)}},
		}}
		if edit%3 == 0 {
			obj.Spec.Logging.Mode = proxyv1alpha1.LogOn
		}
	}
	return obj
}

func attrs(all bool) authorizer.Attributes {
	res := "subs"
	if all {
		res = "alls"
	}
	return authorizer.AttributesRecord{User: &user.DefaultInfo{Name: "u"}, Verb: "get", APIVersion: "v1",
		Resource: res, ResourceRequest: true, Path: "/api/v1/" + res}
}

func setReady(ci *clusters.ClusterInfo, e int, b bool) {
	if info, ok := ci.Endpoints.Load(epName(e)); ok {
		info.UpdateStatus(b, "verif", "")
	}
}

type pickObs struct {
	R     int   `json:"r"`     // endpoint id, -1 error
	Order []int `json:"order"` // the picker's upstream list
}

func onePick(ci *clusters.ClusterInfo, all bool) pickObs {
	p, err := ci.MatchAttributes(attrs(all))
	must(err)
	o := pickObs{R: -1, Order: []int{}}
	for _, u := range clusters.VerifC14Upstreams(p) {
		o.Order = append(o.Order, epID(u))
	}
	info, err := p.Pop()
	if err == nil {
		o.R = epID(info.Endpoint)
	}
	return o
}

// pickDuringWrite: the health checker records an UNCHANGED result for endpoint e (the real
// EndpointInfo.UpdateStatus -> endpointStatus.SetStatus, instrumented so that it can be parked while it holds
// the status lock) and a request of the policy is picked at that very moment.  The write changes neither
// `healthy` nor `disabled`, so the ready set is what it was and the pick must be the next round-robin turn.
func pickDuringWrite(ci *clusters.ClusterInfo, all bool, e int) pickObs {
	info, ok := ci.Endpoints.Load(epName(e))
	if !ok {
		return onePick(ci, all)
	}
	s := newCoSched()
	s.Go(func() { info.UpdateStatus(true, "", "") })
	// only the writer is under the scheduler: the picker's own schedule points (Pop:...) must not reach it
	clusters.VerifYield = func(label string) {
		if strings.HasPrefix(label, "SetStatus:") {
			s.Yield(label)
		}
	}
	s.launch(s.gs[0]) // parked in front of SetStatus' Lock
	s.step(0)         // Lock taken; parked in front of the deferred Unlock: the write is in progress
	done := make(chan pickObs, 1)
	go func() {
		defer func() {
			if r := recover(); r != nil {
				done <- pickObs{R: -1, Order: []int{}}
			}
		}()
		done <- onePick(ci, all)
	}()
	var o pickObs
	got := false
	select {
	case o = <-done: // the pick did not wait for the writer
		got = true
	case <-time.After(25 * time.Millisecond): // the pick waits for the writer (RLock)
	}
	for !s.gs[0].done {
		s.step(0) // Unlock; UpdateStatus returns
	}
	if !got {
		o = <-done
	}
	clusters.VerifYield = nil
	return o
}

func parseU64(s string) uint64 {
	var v uint64
	_, err := fmt.Sscanf(s, "%d", &v)
	must(err)
	return v
}

func names(es []int) []string {
	out := []string{}
	for _, e := range es {
		out = append(out, epName(e))
	}
	return out
}

func runC14(raw json.RawMessage) interface{} {
	var c c14Case
	must(json.Unmarshal(raw, &c))
	if c.Kind == "req" {
		return runReq(c)
	}
	ci, err := clusters.CreateClusterInfo(c14Cluster(c.Servers, c.Subset, c.Disabled, 0), nil, "", nil)
	must(err)
	defer ci.Stop()
	for _, e := range c.Ready {
		setReady(ci, e, true)
	}
	switch c.Kind {
	case "rr":
		if c.Force != nil {
			if !clusters.VerifC14SetCursor(ci, names(c.Force.Es), parseU64(c.Force.V)) {
				panic("cannot force cursor")
			}
		}
		out := make([]pickObs, 0, c.N)
		readyOfSubset := []int{} // healthy, enabled endpoints the policy can use: the targets of the no-op writes
		{
			dis := map[int]bool{}
			for _, d := range c.Disabled {
				dis[d] = true
			}
			cand := c.Subset
			if c.All || len(cand) == 0 {
				cand = c.Servers
			}
			for _, e := range cand {
				if info, ok := ci.Endpoints.Load(epName(e)); ok && info.IsReady() && !dis[e] {
					readyOfSubset = append(readyOfSubset, e)
				}
			}
		}
		for i := 0; i < c.N; i++ {
			if c.Resync > 0 && i > 0 && i%c.Resync == 0 {
				// the informer re-delivers the object, or somebody edits an unrelated field: servers and
				// disabled flags are what they were
				edit := 0
				if (i/c.Resync)%2 == 0 {
					edit = i / c.Resync
				}
				must(ci.Sync(c14Cluster(c.Servers, c.Subset, c.Disabled, edit)))
			}
			if c.Writes > 0 && i%c.Writes == c.Writes-1 && len(readyOfSubset) > 0 {
				e := readyOfSubset[(i/c.Writes)%len(readyOfSubset)]
				out = append(out, pickDuringWrite(ci, c.All, e))
				continue
			}
			out = append(out, onePick(ci, c.All))
		}
		return map[string]interface{}{"picks": out}
	case "hist":
		servers := c.Servers
		out := []pickObs{}
		for _, op := range c.Ops {
			switch op.Op {
			case "pick":
				out = append(out, onePick(ci, op.All))
			case "ready":
				setReady(ci, op.E, op.B)
				out = append(out, pickObs{R: -2, Order: []int{}})
			case "servers":
				servers = op.Es
				must(ci.Sync(c14Cluster(servers, c.Subset, op.Dis, op.Edit)))
				out = append(out, pickObs{R: -2, Order: []int{}})
			case "cursor":
				clusters.VerifC14SetCursor(ci, names(op.Es), parseU64(op.V))
				out = append(out, pickObs{R: -2, Order: []int{}})
			default:
				panic("unknown op " + op.Op)
			}
		}
		return map[string]interface{}{"picks": out}
	case "conc":
		type phaseObs struct {
			Trace   []schedStep `json:"trace"`
			Results [][]int     `json:"results"`
		}
		out := []phaseObs{}
		for _, ph := range c.Phases {
			isReady := map[int]bool{}
			for _, e := range ph.Ready {
				isReady[e] = true
			}
			for _, e := range c.Subset {
				setReady(ci, e, isReady[e])
			}
			s := newCoSched()
			results := make([][]int, len(ph.Picks))
			for gi := range ph.Picks {
				gi := gi
				n := ph.Picks[gi]
				results[gi] = []int{}
				p, err := ci.MatchAttributes(attrs(false))
				must(err)
				s.Go(func() {
					for j := 0; j < n; j++ {
						info, err := p.Pop()
						if err != nil {
							results[gi] = append(results[gi], -1)
							s.Event(1, -1)
							continue
						}
						results[gi] = append(results[gi], epID(info.Endpoint))
						s.Event(1, int64(epID(info.Endpoint))) // this step completed a pick
					}
				})
			}
			clusters.VerifYield = s.Yield
			trace := func() []schedStep {
				defer func() { clusters.VerifYield = nil }()
				return s.Run(ph.Sched)
			}()
			out = append(out, phaseObs{Trace: trace, Results: results})
		}
		return map[string]interface{}{"phases": out}
	}
	panic("unknown kind " + c.Kind)
}

func main() { runCases(runC14) }
