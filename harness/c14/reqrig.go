//go:build verif

package main

// kind "req": the TRAFFIC of one policy.  N requests go through the REAL proxy handler chain
// (cmd/kube-gateway/app buildProxyHandlerChainFunc: filters + dispatcher.ServeHTTP) of a real
// ClusterInfo with k stub upstreams (one TLS server per endpoint); every upstream records the requests
// it receives, so the observation is "which endpoint did request j go to" (or 429 / 503).
// Requests may overlap: a held request stays parked in its upstream until the end of the case.
// "limit" ops re-Sync the cluster with the policy's flow-control schema set to max-in-flight 0
// (every request refused) or wide open; servers are unchanged.

import (
	"context"
	"fmt"
	"net/http"
	"net/http/httptest"
	"strconv"
	"sync"
	"time"

	"github.com/kubewharf/apiserver-runtime/pkg/scheme"
	metav1 "k8s.io/apimachinery/pkg/apis/meta/v1"
	"k8s.io/apimachinery/pkg/util/sets"
	"k8s.io/apiserver/pkg/authentication/authenticator"
	"k8s.io/apiserver/pkg/authentication/user"
	"k8s.io/apiserver/pkg/authorization/authorizer"
	genericapiserver "k8s.io/apiserver/pkg/server"
	genericfilters "k8s.io/apiserver/pkg/server/filters"

	"github.com/kubewharf/kubegateway/cmd/kube-gateway/app"
	proxyv1alpha1 "github.com/kubewharf/kubegateway/pkg/apis/proxy/v1alpha1"
	"github.com/kubewharf/kubegateway/pkg/clusters"
)

type reqOp struct {
	Op   string `json:"op"`   // "req" | "limit"
	Hold bool   `json:"hold"` // req: stay in flight at the upstream until the end of the case
	Zero bool   `json:"zero"` // limit: max-in-flight 0
}

type reqRig struct {
	ups     []*httptest.Server
	chain   http.Handler
	ci      *clusters.ClusterInfo
	mu      sync.Mutex
	arrived chan [2]int64 // (request id, endpoint index)
	release chan struct{}
	held    map[int64]bool
}

func (r *reqRig) AuthenticateRequest(req *http.Request) (*authenticator.Response, bool, error) {
	return &authenticator.Response{User: &user.DefaultInfo{Name: "verif-user"}}, true, nil
}

func (r *reqRig) Authorize(ctx context.Context, a authorizer.Attributes) (authorizer.Decision, string, error) {
	return authorizer.DecisionAllow, "", nil
}

func (r *reqRig) upstream(idx int) http.HandlerFunc {
	return func(w http.ResponseWriter, req *http.Request) {
		id, err := strconv.ParseInt(req.Header.Get("X-Verif-R"), 10, 64)
		if err != nil {
			w.WriteHeader(599)
			return
		}
		r.mu.Lock()
		hold := r.held[id]
		r.mu.Unlock()
		r.arrived <- [2]int64{id, int64(idx)}
		if hold {
			select {
			case <-r.release:
			case <-req.Context().Done():
			}
		}
		w.Header().Set("Content-Type", "application/json")
		w.WriteHeader(200)
		_, _ = w.Write([]byte("{}"))
	}
}

func (r *reqRig) cluster(servers []int, subset []int, zero bool) *proxyv1alpha1.UpstreamCluster {
	obj := &proxyv1alpha1.UpstreamCluster{
		ObjectMeta: metav1.ObjectMeta{Name: "c14.test"},
		Spec: proxyv1alpha1.UpstreamClusterSpec{
			ClientConfig: proxyv1alpha1.ClientConfig{Insecure: true, BearerToken: []byte("t")},
		},
	}
	for _, s := range servers {
		obj.Spec.Servers = append(obj.Spec.Servers, proxyv1alpha1.UpstreamClusterServer{Endpoint: r.ups[s].URL})
	}
	sub := []string{}
	for _, s := range subset {
		sub = append(sub, r.ups[s].URL)
	}
	max := int32(100000)
	if zero {
		max = 0
	}
	obj.Spec.FlowControl.Schemas = []proxyv1alpha1.FlowControlSchema{{
		Name: "lim",
		FlowControlSchemaConfiguration: proxyv1alpha1.FlowControlSchemaConfiguration{
			MaxRequestsInflight: &proxyv1alpha1.MaxRequestsInflightFlowControlSchema{Max: max}},
	}}
	obj.Spec.DispatchPolicies = []proxyv1alpha1.DispatchPolicy{
		{
			Rules:                 []proxyv1alpha1.DispatchPolicyRule{{Verbs: []string{"*"}, APIGroups: []string{"*"}, Resources: []string{"subs"}}},
			UpstreamSubset:        sub,
			FlowControlSchemaName: "lim",
		},
		{
			Rules: []proxyv1alpha1.DispatchPolicyRule{{Verbs: []string{"*"}, APIGroups: []string{"*"}, Resources: []string{"*"}, NonResourceURLs: []string{"*"}}},
		},
	}
	return obj
}

type reqWriter struct {
	h      http.Header
	status int
}

func (w *reqWriter) Header() http.Header { return w.h }
func (w *reqWriter) Write(b []byte) (int, error) {
	if w.status == 0 {
		w.status = 200
	}
	return len(b), nil
}
func (w *reqWriter) WriteHeader(code int) {
	if w.status == 0 {
		w.status = code
	}
}

func runReq(c c14Case) interface{} {
	r := &reqRig{arrived: make(chan [2]int64, 256), release: make(chan struct{}), held: map[int64]bool{}}
	nsrv := 0
	for _, s := range append(append([]int{}, c.Servers...), c.Subset...) {
		if s+1 > nsrv {
			nsrv = s + 1
		}
	}
	for i := 0; i < nsrv; i++ {
		up := httptest.NewUnstartedServer(r.upstream(i))
		up.StartTLS()
		r.ups = append(r.ups, up)
	}
	var wg sync.WaitGroup
	defer func() {
		close(r.release)
		wg.Wait()
		r.ci.Stop()
		for _, up := range r.ups {
			up.CloseClientConnections()
			up.Close()
		}
	}()
	mgr := clusters.NewManager()
	ci, err := clusters.CreateClusterInfo(r.cluster(c.Servers, c.Subset, false), nil, "", nil)
	must(err)
	r.ci = ci
	isReady := map[int]bool{}
	for _, e := range c.Ready {
		isReady[e] = true
	}
	for _, s := range c.Servers {
		if info, ok := ci.Endpoints.Load(r.ups[s].URL); ok {
			info.UpdateStatus(isReady[s], "verif", "")
		}
	}
	mgr.Add(ci)
	cfg := genericapiserver.NewConfig(scheme.Codecs)
	cfg.Authentication.Authenticator = r
	cfg.Authorization.Authorizer = r
	cfg.LongRunningFunc = genericfilters.BasicLongRunningRequestCheck(sets.NewString("watch", "proxy"),
		sets.NewString("attach", "exec", "proxy", "log", "portforward"))
	cfg.RequestInfoResolver = genericapiserver.NewRequestInfoResolver(cfg)
	notProxied := http.HandlerFunc(func(w http.ResponseWriter, req *http.Request) { w.WriteHeader(404) })
	r.chain = app.VerifBuildProxyHandlerChain(mgr)(notProxied, cfg)

	out := []int{}
	var id int64
	for _, op := range c.Reqs {
		switch op.Op {
		case "limit":
			must(ci.Sync(r.cluster(c.Servers, c.Subset, op.Zero)))
			out = append(out, -2)
		case "req":
			id++
			rid := id
			r.mu.Lock()
			r.held[rid] = op.Hold
			r.mu.Unlock()
			req := httptest.NewRequest("GET", "https://c14.test/api/v1/subs", nil)
			req.Host = "c14.test"
			req.Header.Set("X-Verif-R", strconv.FormatInt(rid, 10))
			w := &reqWriter{h: http.Header{}}
			done := make(chan int, 1)
			wg.Add(1)
			go func() {
				defer wg.Done()
				defer func() {
					if rec := recover(); rec != nil {
						done <- -1
						return
					}
					done <- w.status
				}()
				r.chain.ServeHTTP(w, req)
			}()
			res := -9
			t := time.NewTimer(20 * time.Second)
		waiting:
			for {
				select {
				case a := <-r.arrived:
					if a[0] == rid {
						res = int(a[1])
						if !op.Hold {
							<-done
						}
						break waiting
					}
				case st := <-done:
					// finished without (or, for a fast upstream, right after) reaching an upstream
					select {
					case a := <-r.arrived:
						if a[0] == rid {
							res = int(a[1])
							break waiting
						}
					default:
					}
					switch st {
					case 429:
						res = -3
					case 503:
						res = -1
					default:
						panic(fmt.Sprintf("request %d: unexpected status %d", rid, st))
					}
					break waiting
				case <-t.C:
					panic(fmt.Sprintf("request %d neither finished nor reached an upstream", rid))
				}
			}
			t.Stop()
			out = append(out, res)
		default:
			panic("unknown op " + op.Op)
		}
	}
	return map[string]interface{}{"out": out}
}
