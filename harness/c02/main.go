//go:build verif

package main

import "encoding/json"

// C02 harness.  A plain case is one HTTP request sent through the real proxy handler chain with a
// scripted filter-level authorizer (harness/common/chainrig.go); a case of kind "hist" is a history of
// cluster creations / deletions and impersonating requests through the same chain with the REAL
// multi-cluster SubjectAccessReview authorizer (harness/c02/hist.go).
func main() {
	rig := newChainRig()
	runCases(func(raw json.RawMessage) interface{} {
		var k struct {
			Kind string `json:"kind"`
		}
		_ = json.Unmarshal(raw, &k)
		if k.Kind == "hist" {
			return runHist(raw)
		}
		return rig.run(raw)
	})
}
