//go:build verif

package main

// C02 harness: every case is one HTTP request sent through the real proxy
// handler chain (see harness/common/chainrig.go); the observation is what the
// stub upstream received and what the client got back.
func main() {
	rig := newChainRig()
	runCases(rig.run)
}
