//go:build verif

package main

// C02 histories: the REAL proxy handler chain with the REAL multi-cluster SubjectAccessReview
// authorizer (pkg/gateway/authorization/webhook, built by pkg/gateway/proxy/authorizer as the gateway
// does) on a REAL clusters.Manager whose clusters are created, deleted (DeleteWithStop on every
// server name, as the controller's DeleteForServerNames does) and re-created during the case.
// Every cluster INCARNATION has its own stub upstream (httptest TLS server) that answers the
// SubjectAccessReviews the authorizer posts to it from a scripted policy and records the proxied
// requests it receives.  The clock of the authorizer's decision caches is virtual (the C12 overlay
// of apimachinery's lruexpirecache.go exposes VerifNow).

import (
	"bufio"
	"bytes"
	"encoding/json"
	"io/ioutil"
	"net"
	"net/http"
	"net/http/httptest"
	"sort"
	"sync"
	"time"

	"github.com/kubewharf/apiserver-runtime/pkg/scheme"
	metav1 "k8s.io/apimachinery/pkg/apis/meta/v1"
	utilcache "k8s.io/apimachinery/pkg/util/cache"
	"k8s.io/apimachinery/pkg/util/sets"
	"k8s.io/apiserver/pkg/authentication/authenticator"
	"k8s.io/apiserver/pkg/authentication/user"
	"k8s.io/apiserver/pkg/authorization/authorizer"
	genericapiserver "k8s.io/apiserver/pkg/server"
	genericfilters "k8s.io/apiserver/pkg/server/filters"

	"github.com/kubewharf/kubegateway/cmd/kube-gateway/app"
	proxyv1alpha1 "github.com/kubewharf/kubegateway/pkg/apis/proxy/v1alpha1"
	"github.com/kubewharf/kubegateway/pkg/clusters"
	sarwebhook "github.com/kubewharf/kubegateway/pkg/gateway/authorization/webhook"
	authzconfig "github.com/kubewharf/kubegateway/pkg/gateway/proxy/authorizer"
)

type histRule struct {
	Requestor string `json:"requestor"`
	Imp       string `json:"imp"`
	Ans       string `json:"ans"` // allow | deny | error   (no rule: deny)
}

type histOp struct {
	Op        string     `json:"op"` // create | delete | policy | move | advance | req
	C         string     `json:"c"`
	Aliases   []string   `json:"aliases"`
	Policy    []histRule `json:"policy"`
	Alias     string     `json:"alias"`
	To        string     `json:"to"`
	Dt        int64      `json:"dt"` // virtual seconds
	Host      string     `json:"host"`
	Requestor string     `json:"requestor"`
	Imp       string     `json:"imp"`
}

type histCase struct {
	Kind string   `json:"kind"`
	ATTL int64    `json:"attl"` // virtual seconds
	DTTL int64    `json:"dttl"`
	Ops  []histOp `json:"ops"`
}

type histSar struct {
	Inc       int    `json:"inc"`
	Requestor string `json:"requestor"`
	Imp       string `json:"imp"`
	Ans       string `json:"ans"`
}

type histFwd struct {
	Inc     int      `json:"inc"`
	ImpUser []string `json:"imp_user"`
	ImpGrp  []string `json:"imp_group"`
	Auth    []string `json:"auth"`
}

type histObs struct {
	Done   bool      `json:"done"`   // bookkeeping ops: whether the op was applicable
	Status int       `json:"status"` // req
	Fwd    []histFwd `json:"fwd"`
	Sar    []histSar `json:"sar"`
	Note   string    `json:"note,omitempty"`
}

type histInc struct {
	id     int
	name   string
	policy []histRule
	srv    *httptest.Server
	info   *clusters.ClusterInfo
}

type histRig struct {
	mu      sync.Mutex
	mgr     clusters.Manager
	authz   authorizer.Authorizer
	gw      *http.Server
	gwAddr  string
	now     int64
	nextID  int
	live    map[string]*histInc // cluster name -> live incarnation
	keys    map[string]string   // server name -> cluster name
	curUser string
	fwd     []histFwd
	sar     []histSar
}

var histBase = time.Date(2030, 1, 1, 0, 0, 0, 0, time.UTC)

func (r *histRig) clock() time.Time {
	r.mu.Lock()
	defer r.mu.Unlock()
	return histBase.Add(time.Duration(r.now) * time.Second)
}

func (r *histRig) AuthenticateRequest(req *http.Request) (*authenticator.Response, bool, error) {
	return &authenticator.Response{User: &user.DefaultInfo{Name: r.curUser, Groups: []string{"dev"}}}, true, nil
}

func (r *histRig) upstream(inc *histInc) http.Handler {
	return http.HandlerFunc(func(w http.ResponseWriter, req *http.Request) {
		if req.Method == "POST" && req.URL.Path == "/apis/authorization.k8s.io/v1/subjectaccessreviews" {
			body, _ := ioutil.ReadAll(req.Body)
			var doc struct {
				Spec struct {
					User               string `json:"user"`
					ResourceAttributes struct {
						Verb, Resource, Name string
					} `json:"resourceAttributes"`
				} `json:"spec"`
			}
			_ = json.Unmarshal(body, &doc)
			r.mu.Lock()
			ans := "deny"
			for _, p := range inc.policy {
				if p.Requestor == doc.Spec.User && p.Imp == doc.Spec.ResourceAttributes.Name {
					ans = p.Ans
				}
			}
			r.sar = append(r.sar, histSar{Inc: inc.id, Requestor: doc.Spec.User, Imp: doc.Spec.ResourceAttributes.Name, Ans: ans})
			r.mu.Unlock()
			w.Header().Set("Content-Type", "application/json")
			if ans == "error" {
				// not retried by webhook.DefaultShouldRetry: the authorizer answers decisionOnError (deny), uncached
				w.WriteHeader(403)
				_, _ = w.Write([]byte(`{"kind":"Status","apiVersion":"v1","status":"Failure","reason":"Forbidden","code":403,"message":"verif: scripted error"}`))
				return
			}
			w.WriteHeader(201)
			allowed := "false"
			if ans == "allow" {
				allowed = "true"
			}
			_, _ = w.Write([]byte(`{"kind":"SubjectAccessReview","apiVersion":"authorization.k8s.io/v1","spec":{},"status":{"allowed":` + allowed + `}}`))
			return
		}
		r.mu.Lock()
		r.fwd = append(r.fwd, histFwd{Inc: inc.id, ImpUser: append([]string{}, req.Header["Impersonate-User"]...),
			ImpGrp: append([]string{}, req.Header["Impersonate-Group"]...), Auth: append([]string{}, req.Header["Authorization"]...)})
		r.mu.Unlock()
		w.Header().Set("Content-Type", "text/plain")
		_, _ = w.Write([]byte("ok"))
	})
}

func newHistRig(c *histCase) *histRig {
	r := &histRig{mgr: clusters.NewManager(), live: map[string]*histInc{}, keys: map[string]string{}}
	utilcache.VerifNow = r.clock
	az, _, err := (&authzconfig.AuthorizerConfig{CacheAuthorizedTTL: time.Duration(c.ATTL) * time.Second,
		CacheUnauthorizedTTL: time.Duration(c.DTTL) * time.Second, ClusterClientProvider: r.mgr}).New()
	must(err)
	r.authz = az
	cfg := genericapiserver.NewConfig(scheme.Codecs)
	cfg.Authentication.Authenticator = r
	cfg.Authorization.Authorizer = az
	cfg.LongRunningFunc = genericfilters.BasicLongRunningRequestCheck(sets.NewString("watch", "proxy"),
		sets.NewString("attach", "exec", "proxy", "log", "portforward"))
	cfg.RequestInfoResolver = genericapiserver.NewRequestInfoResolver(cfg)
	notProxied := http.HandlerFunc(func(w http.ResponseWriter, req *http.Request) { w.WriteHeader(404) })
	chain := app.VerifBuildProxyHandlerChain(r.mgr)(notProxied, cfg)
	ln, err := net.Listen("tcp", "127.0.0.1:0")
	must(err)
	r.gwAddr = ln.Addr().String()
	r.gw = &http.Server{Handler: chain}
	go r.gw.Serve(ln) // nolint:errcheck
	return r
}

func (r *histRig) close() {
	_ = r.gw.Close()
	names := []string{}
	for n := range r.live {
		names = append(names, n)
	}
	sort.Strings(names)
	for _, n := range names {
		r.delete(n)
	}
	utilcache.VerifNow = nil
}

func (r *histRig) create(name string, aliases []string, policy []histRule) bool {
	if _, ok := r.live[name]; ok {
		return false
	}
	if _, taken := r.keys[name]; taken {
		return false
	}
	r.nextID++
	inc := &histInc{id: r.nextID, name: name, policy: policy}
	inc.srv = httptest.NewTLSServer(r.upstream(inc))
	no := false
	obj := &proxyv1alpha1.UpstreamCluster{
		ObjectMeta: metav1.ObjectMeta{Name: name},
		Spec: proxyv1alpha1.UpstreamClusterSpec{
			Servers:          []proxyv1alpha1.UpstreamClusterServer{{Endpoint: inc.srv.URL, Disabled: &no}},
			ClientConfig:     proxyv1alpha1.ClientConfig{Insecure: true, BearerToken: []byte(gatewayToken)},
			DispatchPolicies: []proxyv1alpha1.DispatchPolicy{{Rules: allRule()}},
		},
	}
	health := func(e *clusters.EndpointInfo) bool {
		e.UpdateStatus(true, "", "")
		return true
	}
	ci, err := clusters.CreateClusterInfo(obj, health, "", nil)
	must(err)
	inc.info = ci
	deadline := time.Now().Add(5 * time.Second)
	for {
		ready := false
		ci.Endpoints.Range(func(_ string, e *clusters.EndpointInfo) bool {
			ready = e.IsReady()
			return true
		})
		if ready {
			break
		}
		if time.Now().After(deadline) {
			panic("endpoint of " + name + " never became ready")
		}
		time.Sleep(time.Millisecond)
	}
	r.mu.Lock()
	r.live[name] = inc
	r.mu.Unlock()
	// the controller's AddOrUpdateForServerNames: the cluster name, then every server name that is free
	r.mgr.AddWithKey(name, ci)
	r.keys[name] = name
	for _, a := range aliases {
		if _, taken := r.keys[a]; taken {
			continue
		}
		r.mgr.AddWithKey(a, ci)
		r.keys[a] = name
	}
	return true
}

// delete = the controller's DeleteForServerNames: DeleteWithStop on every server name of the cluster.
// The authorizer drops the decision caches of the stopped cluster in goroutines: wait for them (bounded),
// so that the history continues after the clean-up the code intends.
func (r *histRig) delete(name string) (bool, string) {
	inc, ok := r.live[name]
	if !ok {
		return false, ""
	}
	watched := map[string]bool{}
	for _, k := range sarwebhook.VerifCacheHosts(r.authz) {
		if ci, ok := r.mgr.Get(k); ok && ci == inc.info {
			watched[k] = true
		}
	}
	ks := []string{}
	for k, c := range r.keys {
		if c == name {
			ks = append(ks, k)
		}
	}
	sort.Strings(ks)
	for _, k := range ks {
		r.mgr.DeleteWithStop(k)
		delete(r.keys, k)
	}
	inc.info.Stop()
	// (with caches keyed by (host, cluster) a host can legitimately keep a cache of another live cluster, so the
	// wait is bounded and its expiry is only noted)
	note := ""
	deadline := time.Now().Add(400 * time.Millisecond)
	for {
		left := 0
		for _, k := range sarwebhook.VerifCacheHosts(r.authz) {
			if watched[k] {
				left++
			}
		}
		if left == 0 {
			break
		}
		if time.Now().After(deadline) {
			note = "caches-not-dropped"
			break
		}
		time.Sleep(time.Millisecond)
	}
	r.mu.Lock()
	delete(r.live, name)
	r.mu.Unlock()
	inc.srv.Close()
	return true, note
}

func (r *histRig) request(host, requestor, imp string) histObs {
	r.mu.Lock()
	r.curUser = requestor
	r.fwd = nil
	r.sar = nil
	r.mu.Unlock()
	conn, err := net.DialTimeout("tcp", r.gwAddr, 5*time.Second)
	must(err)
	defer conn.Close()
	_ = conn.SetDeadline(time.Now().Add(20 * time.Second))
	var buf bytes.Buffer
	buf.WriteString("GET /api/v1/namespaces/default/pods HTTP/1.1\r\nHost: " + host + "\r\n")
	if imp != "" {
		buf.WriteString("Impersonate-User: " + imp + "\r\n")
	}
	buf.WriteString("\r\n")
	_, err = conn.Write(buf.Bytes())
	must(err)
	o := histObs{Fwd: []histFwd{}, Sar: []histSar{}}
	resp, err := http.ReadResponse(bufio.NewReader(conn), &http.Request{Method: "GET"})
	if err == nil {
		_, _ = ioutil.ReadAll(resp.Body)
		resp.Body.Close()
		o.Status = resp.StatusCode
	}
	r.mu.Lock()
	o.Fwd = append(o.Fwd, r.fwd...)
	o.Sar = append(o.Sar, r.sar...)
	r.mu.Unlock()
	return o
}

func runHist(raw json.RawMessage) interface{} {
	var c histCase
	must(json.Unmarshal(raw, &c))
	r := newHistRig(&c)
	defer r.close()
	out := []histObs{}
	for _, op := range c.Ops {
		o := histObs{Fwd: []histFwd{}, Sar: []histSar{}}
		switch op.Op {
		case "create":
			o.Done = r.create(op.C, op.Aliases, op.Policy)
		case "delete":
			o.Done, o.Note = r.delete(op.C)
		case "policy":
			r.mu.Lock()
			if inc, ok := r.live[op.C]; ok {
				inc.policy = op.Policy
				o.Done = true
			}
			r.mu.Unlock()
		case "move":
			// a server name is taken from one live cluster and given to another (two object updates
			// handled by the controller's AddOrUpdateForServerNames): nothing is stopped
			to, ok := r.live[op.To]
			if r.keys[op.Alias] == op.C && op.Alias != op.C && ok && op.To != op.C {
				r.mgr.Delete(op.Alias)
				r.mgr.AddWithKey(op.Alias, to.info)
				r.keys[op.Alias] = op.To
				o.Done = true
			}
		case "advance":
			r.mu.Lock()
			r.now += op.Dt
			r.mu.Unlock()
			o.Done = true
		case "req":
			o = r.request(op.Host, op.Requestor, op.Imp)
			o.Done = true
		default:
			panic("unknown op " + op.Op)
		}
		out = append(out, o)
	}
	return map[string]interface{}{"steps": out}
}
