//go:build verif

package main

// kind "disp": reconfiguration histories through the REAL proxy handler chain
// (cmd/kube-gateway/app buildProxyHandlerChainFunc: filters + dispatcher.ServeHTTP) of real
// ClusterInfo objects in a real clusters.Manager, in front of a stub TLS upstream whose handler
// parks every request until the history says how it ends:
//   ok         upstream answers 200
//   err        upstream closes the connection without answering (gateway's error responder)
//   abort      the client goes away (request context cancelled) while the upstream hangs
//   panic      the upstream answers, the gateway-side ResponseWriter panics on WriteHeader
//   noendpoint the cluster has no ready endpoint when the request arrives (503 at once)
// An "acq" op starts one request and waits until it is either in flight at the upstream
// (admitted) or finished (429 / error); a "rel" op ends it in its exit mode and waits until
// ServeHTTP has returned, i.e. until the dispatcher's deferred Release has run.

import (
	"context"
	"fmt"
	"net/http"
	"net/http/httptest"
	"strconv"
	"sync"
	"time"

	"github.com/kubewharf/apiserver-runtime/pkg/scheme"
	"github.com/zoumo/golib/lock/maxinflight"
	metav1 "k8s.io/apimachinery/pkg/apis/meta/v1"
	"k8s.io/apimachinery/pkg/util/sets"
	"k8s.io/apiserver/pkg/authentication/authenticator"
	"k8s.io/apiserver/pkg/authentication/user"
	"k8s.io/apiserver/pkg/authorization/authorizer"
	genericapiserver "k8s.io/apiserver/pkg/server"
	genericfilters "k8s.io/apiserver/pkg/server/filters"

	"github.com/kubewharf/kubegateway/cmd/kube-gateway/app"
	proxyv1alpha1 "github.com/kubewharf/kubegateway/pkg/apis/proxy/v1alpha1"
	"github.com/kubewharf/kubegateway/pkg/clusters"
	"github.com/kubewharf/kubegateway/pkg/flowcontrols/flowcontrol"
	"github.com/kubewharf/kubegateway/pkg/flowcontrols/remote"
)

type dispReq struct {
	exit   string
	cancel context.CancelFunc
	gate   chan string
	done   chan int // status code written by the chain (0: nothing written, -1: panic reached the caller)
}

type dispRig struct {
	up      *httptest.Server
	chain   http.Handler
	mgr     clusters.Manager
	cis     map[string]*clusters.ClusterInfo
	mu      sync.Mutex
	reqs    map[int64]*dispReq
	arrived chan int64
}

func (r *dispRig) AuthenticateRequest(req *http.Request) (*authenticator.Response, bool, error) {
	return &authenticator.Response{User: &user.DefaultInfo{Name: "verif-user"}}, true, nil
}

func (r *dispRig) Authorize(ctx context.Context, a authorizer.Attributes) (authorizer.Decision, string, error) {
	return authorizer.DecisionAllow, "", nil
}

func (r *dispRig) upstream(w http.ResponseWriter, req *http.Request) {
	id, err := strconv.ParseInt(req.Header.Get("X-Verif-R"), 10, 64)
	if err != nil {
		w.WriteHeader(599)
		return
	}
	r.mu.Lock()
	dr := r.reqs[id]
	r.mu.Unlock()
	if dr == nil {
		w.WriteHeader(598)
		return
	}
	r.arrived <- id
	switch <-dr.gate {
	case "err":
		if hj, ok := w.(http.Hijacker); ok {
			conn, _, err := hj.Hijack()
			if err == nil {
				// a malformed answer (not a silently closed connection, which the gateway's
				// transport would transparently retry on a reused connection)
				_, _ = conn.Write([]byte("BROKEN UPSTREAM\r\n\r\n"))
				conn.Close()
				return
			}
		}
		panic(http.ErrAbortHandler)
	case "abort":
		<-req.Context().Done()
	default:
		w.Header().Set("Content-Type", "application/json")
		w.WriteHeader(200)
		_, _ = w.Write([]byte("{}"))
	}
}

// schema names a dispatch policy exists for (schema names are case-sensitive: "Batch", "batch" and "BATCH" are
// three schemas); each policy matches its own resource
var dispNames = []string{"x", "y", "zz", "X", "Batch", "batch", "BATCH", "a.b", "a-b"}

func resFor(name string) string { return fmt.Sprintf("r%xs", name) }

func dispCluster(name, endpoint string, spec []c05Schema) *proxyv1alpha1.UpstreamCluster {
	obj := &proxyv1alpha1.UpstreamCluster{
		ObjectMeta: metav1.ObjectMeta{Name: name},
		Spec: proxyv1alpha1.UpstreamClusterSpec{
			Servers:      []proxyv1alpha1.UpstreamClusterServer{{Endpoint: endpoint}},
			ClientConfig: proxyv1alpha1.ClientConfig{Insecure: true, BearerToken: []byte("gw")},
		},
	}
	for _, s := range spec {
		obj.Spec.FlowControl.Schemas = append(obj.Spec.FlowControl.Schemas, toSchema(s))
	}
	for _, n := range dispNames {
		obj.Spec.DispatchPolicies = append(obj.Spec.DispatchPolicies, proxyv1alpha1.DispatchPolicy{
			Rules:                 []proxyv1alpha1.DispatchPolicyRule{{Verbs: []string{"*"}, APIGroups: []string{"*"}, Resources: []string{resFor(n)}}},
			FlowControlSchemaName: n,
		})
	}
	obj.Spec.DispatchPolicies = append(obj.Spec.DispatchPolicies, proxyv1alpha1.DispatchPolicy{
		Rules: []proxyv1alpha1.DispatchPolicyRule{{Verbs: []string{"*"}, APIGroups: []string{"*"}, Resources: []string{"*"}, NonResourceURLs: []string{"*"}}},
	})
	return obj
}

func newDispRig(clusterNames []string) *dispRig {
	r := &dispRig{mgr: clusters.NewManager(), cis: map[string]*clusters.ClusterInfo{}, reqs: map[int64]*dispReq{},
		arrived: make(chan int64, 64)}
	r.up = httptest.NewUnstartedServer(http.HandlerFunc(r.upstream))
	r.up.StartTLS()
	for _, name := range clusterNames {
		ci, err := clusters.CreateClusterInfo(dispCluster(name, r.up.URL, nil), nil, "", nil)
		must(err)
		r.setHealthy(ci, true)
		r.mgr.Add(ci)
		r.cis[name] = ci
	}
	cfg := genericapiserver.NewConfig(scheme.Codecs)
	cfg.Authentication.Authenticator = r
	cfg.Authorization.Authorizer = r
	cfg.LongRunningFunc = genericfilters.BasicLongRunningRequestCheck(sets.NewString("watch", "proxy"),
		sets.NewString("attach", "exec", "proxy", "log", "portforward"))
	cfg.RequestInfoResolver = genericapiserver.NewRequestInfoResolver(cfg)
	notProxied := http.HandlerFunc(func(w http.ResponseWriter, req *http.Request) { w.WriteHeader(404) })
	r.chain = app.VerifBuildProxyHandlerChain(r.mgr)(notProxied, cfg)
	return r
}

func (r *dispRig) close() {
	// never leave an upstream handler parked (httptest.Server.Close waits for them)
	r.mu.Lock()
	for _, dr := range r.reqs {
		select {
		case dr.gate <- "ok":
		default:
		}
		dr.cancel()
	}
	r.mu.Unlock()
	for _, ci := range r.cis {
		ci.Stop()
	}
	r.up.CloseClientConnections()
	r.up.Close()
}

func (r *dispRig) setHealthy(ci *clusters.ClusterInfo, b bool) {
	ci.Endpoints.Range(func(_ string, e *clusters.EndpointInfo) bool {
		e.UpdateStatus(b, "verif", "")
		return true
	})
}

// the gateway-side ResponseWriter: records the status, optionally panics on the first WriteHeader
type dispWriter struct {
	h       http.Header
	status  int
	panicOn bool
}

func (w *dispWriter) Header() http.Header { return w.h }
func (w *dispWriter) Write(b []byte) (int, error) {
	if w.status == 0 {
		w.WriteHeader(200)
	}
	return len(b), nil
}
func (w *dispWriter) WriteHeader(code int) {
	if w.panicOn && code == 200 {
		w.panicOn = false
		panic("verif: response writer failed")
	}
	if w.status == 0 {
		w.status = code
	}
}

func (r *dispRig) start(cluster, name string, id int64, exit string) *dispReq {
	ctx, cancel := context.WithCancel(context.Background())
	dr := &dispReq{exit: exit, cancel: cancel, gate: make(chan string, 1), done: make(chan int, 1)}
	r.mu.Lock()
	r.reqs[id] = dr
	r.mu.Unlock()
	path := "/api/v1/other"
	if name != "" {
		path = "/api/v1/" + resFor(name)
	}
	req := httptest.NewRequest("GET", "https://"+cluster+path, nil).WithContext(ctx)
	req.Host = cluster
	req.Header.Set("X-Verif-R", strconv.FormatInt(id, 10))
	w := &dispWriter{h: http.Header{}, panicOn: exit == "panic"}
	go func() {
		defer func() {
			if rec := recover(); rec != nil {
				dr.done <- -1
				return
			}
			dr.done <- w.status
		}()
		r.chain.ServeHTTP(w, req)
	}()
	return dr
}

func (r *dispRig) view(keys [][2]string) []c05View {
	out := make([]c05View, 0, len(keys))
	for _, k := range keys {
		v := c05View{}
		if ci, ok := r.cis[k[0]]; ok {
			fc := ci.GetFlowSchema(k[1])
			if fc != flowcontrol.DefaultFlowControl {
				cur := remote.VerifUnwrapMeter(flowcontrol.Pin(fc))
				v.P = 1
				switch cur.Type() {
				case proxyv1alpha1.MaxRequestsInflight:
					cnt, mx, ok := maxinflight.VerifState(flowcontrol.VerifTokenBucket(cur))
					if !ok {
						panic("max-in-flight limiter without atomic bucket")
					}
					v.K, v.M, v.C = 0, int64(mx), cnt
				case proxyv1alpha1.TokenBucket:
					v.K = 1
				default:
					v.K = 2
				}
			}
		}
		out = append(out, v)
	}
	return out
}

type dispStep struct {
	Res    int       `json:"res"`
	Status int       `json:"status"`
	View   []c05View `json:"view"`
}

func runDisp(c c05Case) interface{} {
	names := []string{}
	seen := map[string]bool{}
	for _, k := range c.Keys {
		if !seen[k[0]] {
			seen[k[0]] = true
			names = append(names, k[0])
		}
	}
	r := newDispRig(names)
	defer r.close()
	inflight := map[int64]*dispReq{}
	steps := []dispStep{}
	wait := func(dr *dispReq, id int64) (arrived bool, status int) {
		t := time.NewTimer(20 * time.Second)
		defer t.Stop()
		for {
			select {
			case a := <-r.arrived:
				if a == id {
					return true, 0
				}
			case st := <-dr.done:
				return false, st
			case <-t.C:
				panic(fmt.Sprintf("request %d neither finished nor reached the upstream", id))
			}
		}
	}
	for _, op := range c.Ops {
		st := dispStep{}
		ci := r.cis[op.C]
		switch op.Op {
		case "sync":
			must(ci.Sync(dispCluster(op.C, r.up.URL, op.Spec)))
		case "acq":
			if _, busy := inflight[op.R]; busy {
				break
			}
			if op.Exit == "noendpoint" {
				r.setHealthy(ci, false)
			}
			dr := r.start(op.C, op.N, op.R, op.Exit)
			arrived, status := wait(dr, op.R)
			if op.Exit == "noendpoint" {
				r.setHealthy(ci, true)
			}
			st.Status = status
			switch {
			case arrived:
				inflight[op.R] = dr
				st.Res = 2
			case status == 429:
				st.Res = 1
			case status == 503 && op.Exit == "noendpoint":
				st.Res = 3 // admitted, then failed before forwarding: the request is already over
			default:
				st.Res = -1
			}
		case "rel":
			if dr, ok := inflight[op.R]; ok {
				delete(inflight, op.R)
				if dr.exit == "abort" {
					dr.cancel()
				}
				dr.gate <- dr.exit
				t := time.NewTimer(20 * time.Second)
				select {
				case st.Status = <-dr.done:
				case <-t.C:
					panic(fmt.Sprintf("request %d does not finish", op.R))
				}
				t.Stop()
				dr.cancel()
			}
		default:
			panic("unknown op " + op.Op)
		}
		st.View = r.view(c.Keys)
		steps = append(steps, st)
	}
	// let everything still in flight finish
	for id, dr := range inflight {
		dr.gate <- "ok"
		<-dr.done
		dr.cancel()
		delete(inflight, id)
	}
	return map[string]interface{}{"steps": steps}
}
