//go:build verif

package main

// C05 correspondence harness.
//   kind "sched": real flowcontrol.NewFlowControl(max-in-flight) object (golib atomic counter,
//                 instrumented) driven by 2-4 real goroutines under the cooperative scheduler;
//   kind "hist":  histories of Sync / (GetOrDefault + Pin + TryAcquire) / Release through the
//                 real upstreamLimiter of one or more clusters;
//   kind "disp":  the same histories through the real proxy handler chain (disprig.go): requests
//                 admitted and released by dispatcher.ServeHTTP itself, ending in five different ways;

import (
	"context"
	"encoding/json"

	"github.com/zoumo/golib/lock/maxinflight"

	proxyv1alpha1 "github.com/kubewharf/kubegateway/pkg/apis/proxy/v1alpha1"
	"github.com/kubewharf/kubegateway/pkg/flowcontrols"
	"github.com/kubewharf/kubegateway/pkg/flowcontrols/flowcontrol"
	"github.com/kubewharf/kubegateway/pkg/flowcontrols/remote"
)

type c05Cmd struct {
	C string `json:"c"` // "acq" | "res"
	N int64  `json:"n"`
}

type c05Schema struct {
	N     string `json:"n"`
	K     string `json:"k"` // "mif" | "tb" | "exempt"
	St    string `json:"st"` // limit strategy: "" | "local" | "globalAllocate" | "globalCount"
	Max   int32  `json:"max"`
	QPS   int32  `json:"qps"`
	Burst int32  `json:"burst"`
}

type c05Op struct {
	Op   string      `json:"op"` // "sync" | "acq" | "rel"
	C    string      `json:"c"`
	N    string      `json:"n"`
	R    int64       `json:"r"`
	Exit string      `json:"exit"` // disp only: how the request ends
	Spec []c05Schema `json:"spec"`
}

type c05Case struct {
	Kind  string      `json:"kind"`
	M0    int64       `json:"m0"`
	Progs [][]c05Cmd  `json:"progs"`
	Sched []int       `json:"sched"`
	Ops   []c05Op     `json:"ops"`
	Keys  [][2]string `json:"keys"`
}

func mifSchema(name string, max int32) proxyv1alpha1.FlowControlSchema {
	return proxyv1alpha1.FlowControlSchema{
		Name: name,
		FlowControlSchemaConfiguration: proxyv1alpha1.FlowControlSchemaConfiguration{
			MaxRequestsInflight: &proxyv1alpha1.MaxRequestsInflightFlowControlSchema{Max: max},
		},
	}
}

func toSchema(s c05Schema) proxyv1alpha1.FlowControlSchema {
	out := proxyv1alpha1.FlowControlSchema{Name: s.N, Strategy: proxyv1alpha1.LimitStrategy(s.St)}
	global := out.Strategy == proxyv1alpha1.GlobalAllocateLimit || out.Strategy == proxyv1alpha1.GlobalCountLimit
	switch s.K {
	case "mif":
		out.MaxRequestsInflight = &proxyv1alpha1.MaxRequestsInflightFlowControlSchema{Max: s.Max}
		if global { // a global strategy comes with its global limit; the local limit stays the fallback
			out.GlobalMaxRequestsInflight = &proxyv1alpha1.MaxRequestsInflightFlowControlSchema{Max: 1000}
		}
	case "tb":
		out.TokenBucket = &proxyv1alpha1.TokenBucketFlowControlSchema{QPS: s.QPS, Burst: s.Burst}
		if global {
			out.GlobalTokenBucket = &proxyv1alpha1.TokenBucketFlowControlSchema{QPS: 100000, Burst: 100000}
		}
	default:
		out.Exempt = &proxyv1alpha1.ExemptFlowControlSchema{}
	}
	return out
}

// ---------------------------------------------------------------- schedules

func runSched(c c05Case) interface{} {
	fc := flowcontrol.NewFlowControl(mifSchema("s", int32(c.M0)))
	tb := flowcontrol.VerifTokenBucket(fc)
	s := newCoSched()
	results := make([][]bool, len(c.Progs))
	for gi := range c.Progs {
		gi := gi
		prog := c.Progs[gi]
		results[gi] = []bool{}
		s.Go(func() {
			for _, cmd := range prog {
				switch cmd.C {
				case "acq":
					ok := fc.TryAcquire()
					results[gi] = append(results[gi], ok)
					if ok {
						s.Event(1, 0)
						fc.Release()
						s.Event(3, 0)
					} else {
						s.Event(2, 0)
					}
				case "res":
					tb.Resize(uint32(cmd.N))
					s.Event(4, cmd.N)
				default:
					panic("unknown cmd " + cmd.C)
				}
			}
		})
	}
	maxinflight.VerifYield = s.Yield
	defer func() { maxinflight.VerifYield = nil }()
	trace := s.Run(c.Sched)
	maxinflight.VerifYield = nil
	count, max, ok := maxinflight.VerifState(tb)
	if !ok {
		panic("not an atomic bucket")
	}
	// once everything has finished, `max` new requests are admitted again and one more is not
	refill := -1
	if max <= 64 {
		refill = 0
		for i := uint32(0); i < max+1; i++ {
			if fc.TryAcquire() {
				refill++
			}
		}
	}
	return map[string]interface{}{"trace": trace, "results": results, "count": count, "max": max, "refill": refill}
}

// ---------------------------------------------------------------- wrapper histories

type c05View struct {
	P int   `json:"p"`
	K int   `json:"k"`
	M int64 `json:"m"`
	C int64 `json:"c"`
}

type c05Step struct {
	Res  int       `json:"res"`
	View []c05View `json:"view"`
}

func runHist(c c05Case) interface{} {
	ctx, cancel := context.WithCancel(context.Background())
	defer cancel()
	lims := map[string]flowcontrols.UpstreamLimiter{}
	lim := func(cluster string) flowcontrols.UpstreamLimiter {
		l, ok := lims[cluster]
		if !ok {
			l = flowcontrols.NewUpstreamLimiter(ctx, cluster, "", nil)
			lims[cluster] = l
		}
		return l
	}
	defer func() {
		for _, l := range lims {
			for _, fcc := range l.AllFlowControls() {
				fcc.Stop()
			}
		}
	}()
	inflight := map[int64]flowcontrol.FlowControl{}
	view := func() []c05View {
		out := make([]c05View, 0, len(c.Keys))
		for _, k := range c.Keys {
			v := c05View{}
			if l, ok := lims[k[0]]; ok {
				if fcc, ok := l.AllFlowControls()[k[1]]; ok {
					cur := remote.VerifUnwrapMeter(flowcontrol.Pin(fcc.LocalFlowControl()))
					v.P = 1
					switch cur.Type() {
					case proxyv1alpha1.MaxRequestsInflight:
						cnt, mx, ok := maxinflight.VerifState(flowcontrol.VerifTokenBucket(cur))
						if !ok {
							panic("max-in-flight limiter without atomic bucket")
						}
						v.K, v.M, v.C = 0, int64(mx), cnt
					case proxyv1alpha1.TokenBucket:
						v.K = 1
					default:
						v.K = 2
					}
				}
			}
			out = append(out, v)
		}
		return out
	}
	steps := []c05Step{}
	for _, op := range c.Ops {
		st := c05Step{}
		switch op.Op {
		case "sync":
			fcs := proxyv1alpha1.FlowControl{}
			for _, s := range op.Spec {
				fcs.Schemas = append(fcs.Schemas, toSchema(s))
			}
			lim(op.C).Sync(fcs)
		case "acq":
			if _, busy := inflight[op.R]; busy {
				break
			}
			// exactly what dispatcher.ServeHTTP does with endpointPicker.FlowControl()
			fc := flowcontrol.Pin(lim(op.C).GetOrDefault(op.N))
			if fc.TryAcquire() {
				inflight[op.R] = fc
				st.Res = 2
			} else {
				st.Res = 1
			}
		case "rel":
			if fc, ok := inflight[op.R]; ok {
				delete(inflight, op.R)
				fc.Release()
			}
		default:
			panic("unknown op " + op.Op)
		}
		st.View = view()
		steps = append(steps, st)
	}
	return map[string]interface{}{"steps": steps}
}

func runC05(raw json.RawMessage) interface{} {
	var c c05Case
	must(json.Unmarshal(raw, &c))
	switch c.Kind {
	case "sched":
		return runSched(c)
	case "hist":
		return runHist(c)
	case "disp":
		return runDisp(c)
	}
	panic("unknown kind " + c.Kind)
}

func main() { runCases(runC05) }
