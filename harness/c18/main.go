//go:build verif

package main

// C18 harness: a real rateLimiter (local store, leader of the only shard) driven by
// heartbeat / report / acquire operations and by single passes of its two cleanup
// loops.  Time is virtual: before a cleanup pass the harness rewrites every cached
// heartbeat time to "real now minus the instance's virtual heartbeat age", so no
// sleeping is needed and ages stay exact.

import (
	"context"
	"encoding/json"
	"runtime"
	"sort"
	"time"

	metav1 "k8s.io/apimachinery/pkg/apis/meta/v1"

	proxyv1alpha1 "github.com/kubewharf/kubegateway/pkg/apis/proxy/v1alpha1"
	"github.com/kubewharf/kubegateway/pkg/ratelimiter/limiter"
	"github.com/kubewharf/kubegateway/pkg/ratelimiter/store/flowcontrol"
	limitutil "github.com/kubewharf/kubegateway/pkg/ratelimiter/util"
)

type c18Op struct {
	Op   string `json:"op"` // hb | report | acquire | ticktimeout | tickunknown | advance
	U    B      `json:"u"`
	I    B      `json:"i"`
	N    int32  `json:"n"`
	Dt   int64  `json:"dt"`
	Used int32  `json:"used"`
	Lvl  int32  `json:"lvl"`
	Wc   bool   `json:"wc"` // the report also carries the global-count item
	Sat  bool   `json:"sat"` // saturated reporter: usage = the quota it holds, request level 100
}

type c18Case struct {
	Ups  []B     `json:"ups"`
	Cmax int32   `json:"cmax"`
	Amax int32   `json:"amax"`
	Ops  []c18Op `json:"ops"`
}

type c18Cond struct {
	U   B     `json:"u"`
	I   B     `json:"i"`
	Q   int32 `json:"q"`
	Lab B     `json:"lab"`
	HasLab bool `json:"haslab"`
	Qc     int32 `json:"qc"`
	HasQc  bool  `json:"hasqc"`
}
type c18Cnt struct {
	U       B       `json:"u"`
	Entries []c18En `json:"entries"`
	Total   int32   `json:"total"`
}
type c18En struct {
	I B     `json:"i"`
	C int32 `json:"c"`
}
type c18Sum struct {
	U B     `json:"u"`
	S int32 `json:"s"`
}
type c18Step struct {
	Res     string    `json:"res"`
	Q       int32     `json:"q"`
	Acc     bool      `json:"acc"`
	Clients []B       `json:"clients"`
	Conds   []c18Cond `json:"conds"`
	Sums    []c18Sum  `json:"sums"`
	SumC    []c18Sum  `json:"sumc"`
	Cnts    []c18Cnt  `json:"cnts"`
	Cnts2   []c18Cnt  `json:"cnts2"` // the second global-count schema (same limit, same acquires)
	Other   int       `json:"other"` // instance entries on flow controls nobody acquires on
	Pers    []c18Cond `json:"pers"`  // conditions persisted in the API
}

func c18Cluster(name string, amax, cmax int32) *proxyv1alpha1.UpstreamCluster {
	mk := func(n string, max int32) proxyv1alpha1.FlowControlSchema {
		return proxyv1alpha1.FlowControlSchema{
			Name: n,
			FlowControlSchemaConfiguration: proxyv1alpha1.FlowControlSchemaConfiguration{
				GlobalMaxRequestsInflight: &proxyv1alpha1.MaxRequestsInflightFlowControlSchema{Max: max},
			},
		}
	}
	tb := func(n string) proxyv1alpha1.FlowControlSchema {
		return proxyv1alpha1.FlowControlSchema{
			Name: n,
			FlowControlSchemaConfiguration: proxyv1alpha1.FlowControlSchemaConfiguration{
				GlobalTokenBucket: &proxyv1alpha1.TokenBucketFlowControlSchema{QPS: 100, Burst: 100},
			},
		}
	}
	return &proxyv1alpha1.UpstreamCluster{
		ObjectMeta: metav1.ObjectMeta{Name: name},
		Spec: proxyv1alpha1.UpstreamClusterSpec{
			// both kinds of global flow control on every upstream: three max-in-flight schemas (one used with the
			// allocate strategy, two with the count strategy) and two token buckets
			FlowControl: proxyv1alpha1.FlowControl{Schemas: []proxyv1alpha1.FlowControlSchema{
				tb("tb1"), mk("alloc", amax), mk("count", cmax), tb("tb2"), mk("count2", cmax)}},
		},
	}
}

// The virtual clock is imposed by rewriting the cached heartbeat times just before a pass; the pass
// then compares them with the real time.Now().  If the process is descheduled between the two for
// longer than the margin the generator keeps around the 3 s boundary, the ages the pass saw are not
// the virtual ones: such a run is discarded and the case is run again from scratch (the decision
// depends only on the measured overrun, never on what was observed).
const clockMargin = 40 * time.Millisecond

// A virtual age a (always a multiple of 100 ms) is realised as a real age in
// (a - clockBias, a - clockBias + clockMargin) = (a - 50 ms, a - 10 ms): "older than 3 s" therefore comes
// out exactly as in the virtual arithmetic — 3000 ms is not a timeout (time.After is strict), 3100 ms is.
const clockBias = 50 * time.Millisecond

func runC18(raw json.RawMessage) interface{} {
	for attempt := 0; attempt < 200; attempt++ {
		obs, overrun := runC18Once(raw)
		if !overrun {
			return obs
		}
	}
	panic("virtual clock overrun in 200 consecutive attempts")
}

func runC18Once(raw json.RawMessage) (interface{}, bool) {
	overrun := false
	var c c18Case
	must(json.Unmarshal(raw, &c))
	// API-backed store in write-through mode: what the leader records is what the next leader loads
	rig := newLimRigWith("me", 1, "k8s", 0)
	rig.startLeading(0)
	ups := []string{}
	for _, u := range c.Ups {
		cl := c18Cluster(u.S(), c.Amax, c.Cmax)
		rig.setCluster(cl)
		must(rig.v.Handler(cl))
		ups = append(ups, u.S())
	}
	known := map[string]bool{}
	for _, u := range ups {
		known[u] = true
	}
	nowM := int64(0)
	hbM := map[string]int64{}
	quota := map[[2]string]int32{}
	reqID := int64(0)
	syncTimes := func() {
		for cl := range rig.v.Clients() {
			if t, ok := hbM[cl]; ok {
				rig.v.SetHeartbeat(cl, time.Now().Add(-time.Duration(nowM-t)*time.Millisecond+clockBias))
			}
		}
	}
	steps := []c18Step{}
	for _, op := range c.Ops {
		st := c18Step{Res: "nil"}
		u, i := op.U.S(), op.I.S()
		passStart := time.Now()
		if op.Op == "ticktimeout" || op.Op == "tickunknown" {
			syncTimes()
		}
		before := rig.v.Clients()
		switch op.Op {
		case "hb":
			must(rig.rl.Heartbeat(i))
		case "advance":
			nowM += op.Dt
		case "stoplead":
			rig.stopLeading(0)
		case "startlead":
			rig.startLeading(0)
		case "clustergone":
			rig.delCluster(c18Cluster(u, c.Amax, c.Cmax))
		case "clusterset":
			cl := c18Cluster(u, c.Amax, c.Cmax)
			rig.setCluster(cl)
			must(rig.v.Handler(cl))
			if !known[u] {
				known[u] = true
				ups = append(ups, u)
			}
		case "report":
			if op.Sat {
				// what a saturated gateway sends: it uses all of the quota it was given last time
				op.Used, op.Lvl = quota[[2]string{u, i}], 0
				if op.Used > 0 {
					op.Lvl = 100
				}
			}
			cond := &proxyv1alpha1.RateLimitCondition{
				ObjectMeta: metav1.ObjectMeta{Name: limitutil.GenerateRateLimitConditionName(u, i)},
				Spec: proxyv1alpha1.RateLimitSpec{
					UpstreamCluster: u,
					Instance:        i,
					LimitItemConfigurations: []proxyv1alpha1.RateLimitItemConfiguration{{
						Name:     "alloc",
						Strategy: proxyv1alpha1.GlobalAllocateLimit,
						LimitItemDetail: proxyv1alpha1.LimitItemDetail{
							MaxRequestsInflight: &proxyv1alpha1.MaxRequestsInflightFlowControlSchema{Max: quota[[2]string{u, i}]},
						},
					}},
				},
				Status: proxyv1alpha1.RateLimitStatus{
					LimitItemStatuses: []proxyv1alpha1.RateLimitItemStatus{{
						Name:         "alloc",
						RequestLevel: op.Lvl,
						LimitItemDetail: proxyv1alpha1.LimitItemDetail{
							MaxRequestsInflight: &proxyv1alpha1.MaxRequestsInflightFlowControlSchema{Max: op.Used},
						},
					}},
				},
			}
			if op.Wc {
				cond.Spec.LimitItemConfigurations = append(cond.Spec.LimitItemConfigurations, proxyv1alpha1.RateLimitItemConfiguration{
					Name:     "count",
					Strategy: proxyv1alpha1.GlobalCountLimit,
					LimitItemDetail: proxyv1alpha1.LimitItemDetail{
						MaxRequestsInflight: &proxyv1alpha1.MaxRequestsInflightFlowControlSchema{Max: 0},
					},
				})
				cond.Status.LimitItemStatuses = append(cond.Status.LimitItemStatuses, proxyv1alpha1.RateLimitItemStatus{
					Name: "count",
					LimitItemDetail: proxyv1alpha1.LimitItemDetail{
						MaxRequestsInflight: &proxyv1alpha1.MaxRequestsInflightFlowControlSchema{Max: op.Used},
					},
				})
			}
			out, err := rig.rl.UpdateRateLimitConditionStatus(u, cond)
			st.Res = classifyLimErr(err)
			if err == nil {
				for _, it := range out.Spec.LimitItemConfigurations {
					if it.Name == "alloc" && it.MaxRequestsInflight != nil {
						st.Q = it.MaxRequestsInflight.Max
						quota[[2]string{u, i}] = st.Q
					}
				}
			}
		case "acquire":
			reqID++
			acq := &proxyv1alpha1.RateLimitAcquire{
				Spec: proxyv1alpha1.RateLimitAcquireSpec{
					Instance:  i,
					RequestID: reqID,
					Requests: []proxyv1alpha1.RateLimitAcquireRequest{
						{FlowControl: "count", Tokens: op.N}, {FlowControl: "count2", Tokens: op.N}},
				},
			}
			out, err := rig.rl.DoAcquire(u, acq)
			st.Res = "acc"
			if err != nil {
				st.Res = classifyLimErr(err)
			}
			if err == nil && len(out.Status.Results) > 0 {
				st.Acc = out.Status.Results[0].Accept
			}
		case "ticktimeout":
			base := runtime.NumGoroutine()
			rig.v.CleanupTimeoutClient()
			if time.Since(passStart) > clockMargin {
				overrun = true
			}
			// the pass deletes in spawned goroutines: wait until they are gone
			deadline := time.Now().Add(120 * time.Second)
			for runtime.NumGoroutine() > base {
				if time.Now().After(deadline) {
					panic("goroutines of the timeout pass did not finish")
				}
				time.Sleep(200 * time.Microsecond)
			}
		case "tickunknown":
			rig.v.CleanupUnknownCondition()
		default:
			panic("unknown op " + op.Op)
		}
		// whatever the operation wrote into the client cache carries the virtual time of the operation
		for cl, t := range rig.v.Clients() {
			if bt, ok := before[cl]; !ok || !bt.Equal(t) {
				hbM[cl] = nowM
			}
		}
		// ---- observation
		cls := []string{}
		for cl := range rig.v.Clients() {
			cls = append(cls, cl)
		}
		sort.Strings(cls)
		st.Clients = []B{}
		for _, x := range cls {
			st.Clients = append(st.Clients, toB(x))
		}
		conds, _ := rig.v.StoreConditions(0)
		st.Conds = []c18Cond{}
		st.Sums = []c18Sum{}
		st.SumC = []c18Sum{}
		for _, cd := range conds {
			if cd.Name == cd.Spec.UpstreamCluster+".state" && cd.Spec.Instance == "" {
				sum := int32(0)
				for _, it := range cd.Status.LimitItemStatuses {
					if it.Name == "alloc" && it.MaxRequestsInflight != nil {
						sum = it.MaxRequestsInflight.Max
					}
					if it.Name == "count" && it.MaxRequestsInflight != nil {
						st.SumC = append(st.SumC, c18Sum{toB(cd.Spec.UpstreamCluster), it.MaxRequestsInflight.Max})
					}
				}
				st.Sums = append(st.Sums, c18Sum{toB(cd.Spec.UpstreamCluster), sum})
				continue
			}
			cc := c18Cond{U: toB(cd.Spec.UpstreamCluster), I: toB(cd.Spec.Instance), Q: -1}
			for _, it := range cd.Spec.LimitItemConfigurations {
				if it.Name == "alloc" && it.MaxRequestsInflight != nil {
					cc.Q = it.MaxRequestsInflight.Max
				}
				if it.Name == "count" && it.MaxRequestsInflight != nil {
					cc.Qc, cc.HasQc = it.MaxRequestsInflight.Max, true
				}
			}
			lab, has := cd.Labels[limiter.RateLimitConditionInstanceLabel]
			cc.Lab, cc.HasLab = toB(lab), has
			st.Conds = append(st.Conds, cc)
		}
		sort.Slice(st.Conds, func(a, b int) bool {
			if st.Conds[a].U.S() != st.Conds[b].U.S() {
				return st.Conds[a].U.S() < st.Conds[b].U.S()
			}
			return st.Conds[a].I.S() < st.Conds[b].I.S()
		})
		sort.Slice(st.Sums, func(a, b int) bool { return st.Sums[a].U.S() < st.Sums[b].U.S() })
		sort.Slice(st.SumC, func(a, b int) bool { return st.SumC[a].U.S() < st.SumC[b].U.S() })
		sort.Strings(ups)
		st.Pers = []c18Cond{}
		plist, perr := rig.gwfake.ProxyV1alpha1().RateLimitConditions().List(context.Background(), metav1.ListOptions{})
		must(perr)
		for k := range plist.Items {
			cd := &plist.Items[k]
			if cd.Name == cd.Spec.UpstreamCluster+".state" && cd.Spec.Instance == "" {
				continue
			}
			cc := c18Cond{U: toB(cd.Spec.UpstreamCluster), I: toB(cd.Spec.Instance), Q: -1}
			for _, it := range cd.Spec.LimitItemConfigurations {
				if it.Name == "alloc" && it.MaxRequestsInflight != nil {
					cc.Q = it.MaxRequestsInflight.Max
				}
			}
			lab, has := cd.Labels[limiter.RateLimitConditionInstanceLabel]
			cc.Lab, cc.HasLab = toB(lab), has
			st.Pers = append(st.Pers, cc)
		}
		sort.Slice(st.Pers, func(a, b int) bool {
			if st.Pers[a].U.S() != st.Pers[b].U.S() {
				return st.Pers[a].U.S() < st.Pers[b].U.S()
			}
			return st.Pers[a].I.S() < st.Pers[b].I.S()
		})
		st.Cnts, st.Cnts2 = []c18Cnt{}, []c18Cnt{}
		store := rig.v.Stores()[0]
		for _, un := range ups {
			if store == nil {
				break
			}
			for _, schema := range []string{"count", "count2", "alloc", "tb1", "tb2"} {
				fc, err := store.GetFlowControl(un, schema)
				if err != nil {
					continue
				}
				m, total, ok := flowcontrol.VerifMaxInflightState(fc)
				if !ok {
					continue
				}
				if schema == "alloc" {
					st.Other += len(m)
					continue
				}
				cn := c18Cnt{U: toB(un), Entries: []c18En{}, Total: total}
				names := []string{}
				for k := range m {
					names = append(names, k)
				}
				sort.Strings(names)
				for _, k := range names {
					cn.Entries = append(cn.Entries, c18En{toB(k), m[k]})
				}
				if schema == "count" {
					st.Cnts = append(st.Cnts, cn)
				} else {
					st.Cnts2 = append(st.Cnts2, cn)
				}
			}
		}
		steps = append(steps, st)
	}
	return map[string]interface{}{"steps": steps}, overrun
}

func main() { runCases(runC18) }
