//go:build verif

package main

// Leaf-field cases: the spec difference between the stored and the submitted object ranges over EVERY real
// leaf of the served kinds' Spec types. The leaves are enumerated reflectively from the Go types (so a new
// field is covered without touching this file); a case names leaves by index (mod the number of leaves) and
// values by index (mod the number of variants of that leaf's type). Whether the two specs differ is decided
// independently of the code under test: by comparing their wire form (JSON of the Spec member).

import (
	"encoding/json"
	"fmt"
	"reflect"

	"k8s.io/apimachinery/pkg/runtime"

	proxyv1alpha1 "github.com/kubewharf/kubegateway/pkg/apis/proxy/v1alpha1"
)

type c20Edit [2]int // leaf index, variant index

type c20Leaf struct {
	Populate bool      `json:"populate"` // start from a spec in which every slice / pointer member has one element
	Old      []c20Edit `json:"old"`
	New      []c20Edit `json:"new"`
}

type leafStep struct {
	field int  // struct field index
	elem  bool // then step into element 0 of the slice / the pointee
}

type leafInfo struct {
	path     string
	steps    []leafStep
	typ      reflect.Type
	variants int
}

var leafCache = map[reflect.Type][]leafInfo{}

// documented values of the string-typed enums: "equivalent-looking" pairs are "" vs the default
func stringVariants(t reflect.Type) []string {
	switch t.Name() {
	case "LimitStrategy":
		return []string{"", "local", "globalCount", "globalAllocate", "x"}
	case "Strategy":
		return []string{"", "RoundRobin", "x"}
	case "LogMode":
		return []string{"", "off", "on", "x"}
	}
	return []string{"", "a", "b", "A", "a "}
}

func variantCount(t reflect.Type) int {
	switch t.Kind() {
	case reflect.String:
		return len(stringVariants(t))
	case reflect.Bool:
		return 2
	case reflect.Int32, reflect.Int64, reflect.Int:
		return 4
	case reflect.Slice:
		return 5 // nil, empty, one, two, other one
	case reflect.Ptr:
		return 3 // nil, zero value, non-zero value
	}
	panic("leaf of unsupported kind " + t.String())
}

func enumLeaves(t reflect.Type, path string, steps []leafStep, out *[]leafInfo) {
	for i := 0; i < t.NumField(); i++ {
		f := t.Field(i)
		p := path + "." + f.Name
		st := append(append([]leafStep{}, steps...), leafStep{field: i})
		ft := f.Type
		switch ft.Kind() {
		case reflect.Struct:
			enumLeaves(ft, p, st, out)
		case reflect.Slice, reflect.Ptr:
			*out = append(*out, leafInfo{path: p, steps: st, typ: ft, variants: variantCount(ft)}) // the member itself
			if ft.Elem().Kind() == reflect.Struct {
				in := append(append([]leafStep{}, steps...), leafStep{field: i, elem: true})
				enumLeaves(ft.Elem(), p+"[0]", in, out)
			}
		default:
			*out = append(*out, leafInfo{path: p, steps: st, typ: ft, variants: variantCount(ft)})
		}
	}
}

func leavesOf(t reflect.Type) []leafInfo {
	if l, ok := leafCache[t]; ok {
		return l
	}
	out := []leafInfo{}
	enumLeaves(t, "spec", nil, &out)
	leafCache[t] = out
	return out
}

// locate walks to the leaf, allocating one element / the pointee where the path goes through a container
func locate(v reflect.Value, steps []leafStep) reflect.Value {
	for _, s := range steps {
		v = v.Field(s.field)
		if s.elem {
			switch v.Kind() {
			case reflect.Slice:
				if v.Len() == 0 {
					v.Set(reflect.MakeSlice(v.Type(), 1, 1))
				}
				v = v.Index(0)
			case reflect.Ptr:
				if v.IsNil() {
					v.Set(reflect.New(v.Type().Elem()))
				}
				v = v.Elem()
			}
		}
	}
	return v
}

func scalar(t reflect.Type, k int) reflect.Value {
	v := reflect.New(t).Elem()
	switch t.Kind() {
	case reflect.String:
		sv := stringVariants(t)
		v.SetString(sv[k%len(sv)])
	case reflect.Bool:
		v.SetBool(k%2 == 1)
	case reflect.Int32, reflect.Int64, reflect.Int:
		v.SetInt([]int64{0, 1, 2, -1}[k%4])
	case reflect.Uint8:
		v.SetUint(uint64('x' + k%2))
	case reflect.Struct:
		// a struct element: make it non-zero in its first settable scalar when k is odd
		if k%2 == 1 {
			for i := 0; i < t.NumField(); i++ {
				ft := t.Field(i).Type
				if ft.Kind() == reflect.String || ft.Kind() == reflect.Int32 || ft.Kind() == reflect.Bool {
					v.Field(i).Set(scalar(ft, 1))
					break
				}
			}
		}
	case reflect.Ptr, reflect.Slice:
		// nested container inside an element: leave nil
	default:
		panic("scalar of unsupported kind " + t.String())
	}
	return v
}

func setVariant(v reflect.Value, k int) {
	t := v.Type()
	k = k % variantCount(t)
	switch t.Kind() {
	case reflect.Slice:
		switch k {
		case 0:
			v.Set(reflect.Zero(t))
		case 1:
			v.Set(reflect.MakeSlice(t, 0, 0))
		case 2, 4:
			s := reflect.MakeSlice(t, 1, 1)
			s.Index(0).Set(scalar(t.Elem(), k/2))
			v.Set(s)
		case 3:
			s := reflect.MakeSlice(t, 2, 2)
			s.Index(0).Set(scalar(t.Elem(), 1))
			s.Index(1).Set(scalar(t.Elem(), 2))
			v.Set(s)
		}
	case reflect.Ptr:
		switch k {
		case 0:
			v.Set(reflect.Zero(t))
		case 1:
			v.Set(reflect.New(t.Elem()))
		case 2:
			p := reflect.New(t.Elem())
			p.Elem().Set(scalar(t.Elem(), 1))
			v.Set(p)
		}
	default:
		v.Set(scalar(t, k))
	}
}

func populate(v reflect.Value) {
	switch v.Kind() {
	case reflect.Struct:
		for i := 0; i < v.NumField(); i++ {
			populate(v.Field(i))
		}
	case reflect.Slice:
		if v.Type().Elem().Kind() == reflect.Struct {
			v.Set(reflect.MakeSlice(v.Type(), 1, 1))
			populate(v.Index(0))
		}
	case reflect.Ptr:
		if v.Type().Elem().Kind() == reflect.Struct {
			v.Set(reflect.New(v.Type().Elem()))
			populate(v.Elem())
		}
	}
}

func specOf(obj runtime.Object) reflect.Value {
	return reflect.ValueOf(obj).Elem().FieldByName("Spec")
}

func applyLeafEdits(obj runtime.Object, pop bool, edits []c20Edit) []string {
	spec := specOf(obj)
	if pop {
		populate(spec)
	}
	ls := leavesOf(spec.Type())
	paths := []string{}
	for _, e := range edits {
		l := ls[((e[0]%len(ls))+len(ls))%len(ls)]
		setVariant(locate(spec, l.steps), ((e[1]%l.variants)+l.variants)%l.variants)
		paths = append(paths, fmt.Sprintf("%s=%d", l.path, e[1]%l.variants))
	}
	return paths
}

// wire form of the spec: what a client reads back
func specWire(obj runtime.Object) string {
	b, err := json.Marshal(specOf(obj).Interface())
	must(err)
	return string(b)
}

func leafCount(kind string) int {
	switch kind {
	case "uc":
		return len(leavesOf(reflect.TypeOf(proxyv1alpha1.UpstreamClusterSpec{})))
	case "rlc":
		return len(leavesOf(reflect.TypeOf(proxyv1alpha1.RateLimitSpec{})))
	}
	return 0
}
