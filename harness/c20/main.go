//go:build verif

package main

// C20 harness: the strategies that the control plane REGISTERS for
// UpstreamCluster (main resource + status subresource) and RateLimitCondition
// are taken from the real wiring
//   proxyrest.NewRESTStorageProviderOrDie -> registry.NewRESTStorageProvider
//   -> provider.NewRESTStorage -> registry.NewResourceREST
// (only the etcd storage itself is stubbed by a decorator that returns no
// storage), and every case is pushed through k8s.io/apiserver's
// rest.BeforeCreate / rest.BeforeUpdate exactly as genericregistry.Store does.

import (
	"context"
	"encoding/json"
	"fmt"
	"sort"
	"strconv"
	"strings"

	metav1 "k8s.io/apimachinery/pkg/apis/meta/v1"
	"k8s.io/apimachinery/pkg/runtime"
	"k8s.io/apimachinery/pkg/types"
	"k8s.io/apiserver/pkg/registry/generic"
	"k8s.io/apiserver/pkg/registry/rest"
	serverstorage "k8s.io/apiserver/pkg/server/storage"
	"k8s.io/apiserver/pkg/storage"
	"k8s.io/apiserver/pkg/storage/storagebackend"
	"k8s.io/apiserver/pkg/storage/storagebackend/factory"
	"k8s.io/client-go/tools/cache"

	"github.com/kubewharf/apiserver-runtime/pkg/registry"
	"github.com/kubewharf/apiserver-runtime/pkg/scheme"
	rtstorage "github.com/kubewharf/apiserver-runtime/pkg/server/storage"

	proxyv1alpha1 "github.com/kubewharf/kubegateway/pkg/apis/proxy/v1alpha1"
	controlplane "github.com/kubewharf/kubegateway/pkg/gateway/controlplane"
	proxyrest "github.com/kubewharf/kubegateway/pkg/gateway/controlplane/registry/proxy/rest"
)

type c20Payload struct {
	S int64    `json:"s"`
	C *[]int64 `json:"c"`
}

type c20Desc struct {
	Gen    int64       `json:"gen"`
	Labels *[][2]int64 `json:"labels"`
	Ann    *[][2]int64 `json:"ann"`
	Fin    *[]int64    `json:"fin"`
	Spec   c20Payload  `json:"spec"`
	Status c20Payload  `json:"status"`
}

type c20Case struct {
	Kind string   `json:"kind"` // "uc" | "rlc"
	Op   string   `json:"op"`   // "create" | "update" | "status"
	Raw  bool     `json:"raw"`  // objects are produced by the real JSON decoder from a rendered document
	Old  c20Desc  `json:"old"`
	New  c20Desc  `json:"new"`
	Leaf *c20Leaf `json:"leaf"` // optional: edits of real leaf fields of the Spec, applied on top of old / new
}

type c20Obs struct {
	Res string   `json:"res"` // ok | err | noendpoint
	Sub bool     `json:"sub"` // a status subresource is served for this kind
	Obj *c20Desc `json:"obj,omitempty"`
	Old *c20Desc `json:"old,omitempty"` // the stored object after the call (BeforeUpdate must not change what we compare against)
	// leaf cases: decided on the wire form (JSON of the Spec member), independently of the code under test
	SpecDiffers *bool    `json:"spec_differs,omitempty"` // stored and submitted spec have different wire forms
	SpecKept    *bool    `json:"spec_kept,omitempty"`    // the object to be stored carries the submitted spec
	OldKept     *bool    `json:"old_kept,omitempty"`     // the stored object's spec was not touched
	Paths       []string `json:"paths,omitempty"`
	Leaves      int      `json:"leaves,omitempty"`
}

// ---------------------------------------------------------------- real wiring

type c20Stores struct {
	create map[string]rest.RESTCreateStrategy
	update map[string]rest.RESTUpdateStrategy
	status map[string]rest.RESTUpdateStrategy
}

func stubDecorator(
	config *storagebackend.Config,
	resourcePrefix string,
	keyFunc func(obj runtime.Object) (string, error),
	newFunc func() runtime.Object,
	newListFunc func() runtime.Object,
	getAttrsFunc storage.AttrFunc,
	trigger storage.IndexerFuncs,
	indexers *cache.Indexers) (storage.Interface, factory.DestroyFunc, error) {
	return nil, func() {}, nil
}

func buildStores() *c20Stores {
	resourceConfig := controlplane.DefaultAPIResourceConfigSource()
	enc := serverstorage.NewDefaultResourceEncodingConfig(scheme.Scheme)
	sf := serverstorage.NewDefaultStorageFactory(storagebackend.Config{Prefix: "/registry"}, "application/json",
		scheme.Codecs, enc, resourceConfig, nil)
	f := registry.NewRESTStorageOptionsFactory(&rtstorage.DefaultStorageFactory{DefaultStorageFactory: sf, ResourceEncodingConfig: enc})
	provider := proxyrest.NewRESTStorageProviderOrDie(scheme.Scheme, f)
	getter := generic.RESTOptions{
		StorageConfig:           &storagebackend.Config{Prefix: "/registry"},
		Decorator:               stubDecorator,
		DeleteCollectionWorkers: 1,
		ResourcePrefix:          "verif",
	}
	info, ok, err := provider.NewRESTStorage(resourceConfig, getter)
	must(err)
	if !ok {
		panic("proxy API group not enabled")
	}
	m := info.VersionedResourcesStorageMap[proxyv1alpha1.SchemeGroupVersion.Version]
	st := &c20Stores{create: map[string]rest.RESTCreateStrategy{}, update: map[string]rest.RESTUpdateStrategy{},
		status: map[string]rest.RESTUpdateStrategy{}}
	for kind, res := range map[string]string{"uc": "upstreamclusters", "rlc": "ratelimitconditions"} {
		main, ok := m[res].(*registry.ObjectREST)
		if !ok {
			panic(fmt.Sprintf("no ObjectREST for %s: %T", res, m[res]))
		}
		st.create[kind] = main.Store.CreateStrategy
		st.update[kind] = main.Store.UpdateStrategy
		if s, ok := m[res+"/status"]; ok {
			st.status[kind] = s.(*registry.StatusREST).Store.UpdateStrategy
		}
	}
	return st
}

// ---------------------------------------------------------------- descriptors <-> objects

// keys: small integers stand for key names; some of them are WELL-KNOWN keys that other components (kubectl
// apply, the deployment controller, the gateway itself) write and that code may be tempted to treat specially
var wellKnownKeys = map[int64]string{
	7: "kubectl.kubernetes.io/last-applied-configuration",
	8: "deployment.kubernetes.io/revision",
	9: "proxy.kubegateway.io/feature-gates",
}

func keyName(k int64) string {
	if n, ok := wellKnownKeys[k]; ok {
		return n
	}
	return fmt.Sprintf("verif.io/k%d", k)
}

func keyOf(name string) int64 {
	for k, n := range wellKnownKeys {
		if n == name {
			return k
		}
	}
	a, err := strconv.ParseInt(strings.TrimPrefix(name, "verif.io/k"), 10, 64)
	must(err)
	return a
}

func kv(p *[][2]int64) map[string]string {
	if p == nil {
		return nil
	}
	m := map[string]string{}
	for _, e := range *p {
		if e[1] == 0 {
			// value 0 stands for the empty string (marker annotations / labels)
			m[keyName(e[0])] = ""
			continue
		}
		m[keyName(e[0])] = fmt.Sprintf("v%d", e[1])
	}
	return m
}

func unkv(m map[string]string) *[][2]int64 {
	if m == nil {
		return nil
	}
	out := [][2]int64{}
	for k, v := range m {
		a := keyOf(k)
		var b int64
		if v != "" {
			var err error
			b, err = strconv.ParseInt(strings.TrimPrefix(v, "v"), 10, 64)
			must(err)
		}
		out = append(out, [2]int64{a, b})
	}
	sort.Slice(out, func(i, j int) bool { return out[i][0] < out[j][0] })
	return &out
}

func fins(p *[]int64) []string {
	if p == nil {
		return nil
	}
	out := []string{}
	for _, k := range *p {
		out = append(out, fmt.Sprintf("verif.io/f%d", k))
	}
	return out
}

func unfins(l []string) *[]int64 {
	if l == nil {
		return nil
	}
	out := []int64{}
	for _, s := range l {
		k, err := strconv.ParseInt(strings.TrimPrefix(s, "verif.io/f"), 10, 64)
		must(err)
		out = append(out, k)
	}
	return &out
}

func objMeta(d c20Desc) metav1.ObjectMeta {
	return metav1.ObjectMeta{
		Name:            "obj",
		UID:             types.UID("uid-1"),
		ResourceVersion: "7",
		Generation:      d.Gen,
		Labels:          kv(d.Labels),
		Annotations:     kv(d.Ann),
		Finalizers:      fins(d.Fin),
	}
}

func descMeta(m metav1.ObjectMeta, d *c20Desc) {
	d.Gen = m.Generation
	d.Labels = unkv(m.Labels)
	d.Ann = unkv(m.Annotations)
	d.Fin = unfins(m.Finalizers)
}

func build(kind string, d c20Desc) runtime.Object {
	switch kind {
	case "uc":
		if d.Status.S != 0 || d.Status.C != nil {
			panic("UpstreamClusterStatus has no fields: the status payload must be {0,nil}")
		}
		o := &proxyv1alpha1.UpstreamCluster{ObjectMeta: objMeta(d)}
		o.Spec.ClientConfig.QPS = int32(d.Spec.S)
		if d.Spec.C != nil {
			o.Spec.Servers = []proxyv1alpha1.UpstreamClusterServer{}
			for _, k := range *d.Spec.C {
				o.Spec.Servers = append(o.Spec.Servers, proxyv1alpha1.UpstreamClusterServer{Endpoint: fmt.Sprintf("https://s%d:6443", k)})
			}
		}
		return o
	case "rlc":
		o := &proxyv1alpha1.RateLimitCondition{ObjectMeta: objMeta(d)}
		o.Spec.Instance = fmt.Sprintf("i%d", d.Spec.S)
		if d.Spec.C != nil {
			o.Spec.LimitItemConfigurations = []proxyv1alpha1.RateLimitItemConfiguration{}
			for _, k := range *d.Spec.C {
				o.Spec.LimitItemConfigurations = append(o.Spec.LimitItemConfigurations, proxyv1alpha1.RateLimitItemConfiguration{
					Name: fmt.Sprintf("n%d", k), Strategy: proxyv1alpha1.GlobalCountLimit,
					LimitItemDetail: proxyv1alpha1.LimitItemDetail{MaxRequestsInflight: &proxyv1alpha1.MaxRequestsInflightFlowControlSchema{Max: int32(k)}},
				})
			}
		}
		if d.Status.S != 0 {
			panic("RateLimitStatus has no scalar field: status.s must be 0")
		}
		if d.Status.C != nil {
			o.Status.LimitItemStatuses = []proxyv1alpha1.RateLimitItemStatus{}
			for _, k := range *d.Status.C {
				o.Status.LimitItemStatuses = append(o.Status.LimitItemStatuses, proxyv1alpha1.RateLimitItemStatus{
					Name: fmt.Sprintf("n%d", k), RequestLevel: int32(k)})
			}
		}
		return o
	}
	panic("unknown kind " + kind)
}

func project(obj runtime.Object) *c20Desc {
	d := &c20Desc{}
	switch o := obj.(type) {
	case *proxyv1alpha1.UpstreamCluster:
		descMeta(o.ObjectMeta, d)
		d.Spec.S = int64(o.Spec.ClientConfig.QPS)
		if o.Spec.Servers != nil {
			l := []int64{}
			for _, s := range o.Spec.Servers {
				k, err := strconv.ParseInt(strings.TrimSuffix(strings.TrimPrefix(s.Endpoint, "https://s"), ":6443"), 10, 64)
				must(err)
				l = append(l, k)
			}
			d.Spec.C = &l
		}
	case *proxyv1alpha1.RateLimitCondition:
		descMeta(o.ObjectMeta, d)
		s, err := strconv.ParseInt(strings.TrimPrefix(o.Spec.Instance, "i"), 10, 64)
		must(err)
		d.Spec.S = s
		if o.Spec.LimitItemConfigurations != nil {
			l := []int64{}
			for _, it := range o.Spec.LimitItemConfigurations {
				l = append(l, int64(it.MaxRequestsInflight.Max))
			}
			d.Spec.C = &l
		}
		if o.Status.LimitItemStatuses != nil {
			l := []int64{}
			for _, it := range o.Status.LimitItemStatuses {
				l = append(l, int64(it.RequestLevel))
			}
			d.Status.C = &l
		}
	default:
		panic(fmt.Sprintf("unexpected type %T", obj))
	}
	return d
}

// rawDoc renders the descriptor as the JSON document a client would send
// (nil = member absent, empty = {} / []), and decodes it with the real codec.
func viaCodec(kind string, d c20Desc) runtime.Object {
	md := map[string]interface{}{"name": "obj", "uid": "uid-1", "resourceVersion": "7", "generation": d.Gen}
	if d.Labels != nil {
		md["labels"] = kv(d.Labels)
	}
	if d.Ann != nil {
		md["annotations"] = kv(d.Ann)
	}
	if d.Fin != nil {
		md["finalizers"] = fins(d.Fin)
	}
	doc := map[string]interface{}{"apiVersion": "proxy.kubegateway.io/v1alpha1", "metadata": md}
	spec := map[string]interface{}{}
	status := map[string]interface{}{}
	switch kind {
	case "uc":
		doc["kind"] = "UpstreamCluster"
		spec["clientConfig"] = map[string]interface{}{"qps": d.Spec.S}
		if d.Spec.C != nil {
			l := []interface{}{}
			for _, k := range *d.Spec.C {
				l = append(l, map[string]interface{}{"endpoint": fmt.Sprintf("https://s%d:6443", k)})
			}
			spec["servers"] = l
		}
	case "rlc":
		doc["kind"] = "RateLimitCondition"
		spec["instance"] = fmt.Sprintf("i%d", d.Spec.S)
		if d.Spec.C != nil {
			l := []interface{}{}
			for _, k := range *d.Spec.C {
				l = append(l, map[string]interface{}{"name": fmt.Sprintf("n%d", k), "strategy": "globalCount",
					"maxRequestsInflight": map[string]interface{}{"max": k}})
			}
			spec["limitItemConfigurations"] = l
		}
		if d.Status.C != nil {
			l := []interface{}{}
			for _, k := range *d.Status.C {
				l = append(l, map[string]interface{}{"name": fmt.Sprintf("n%d", k), "requestLevel": k})
			}
			status["limitItemStatuses"] = l
		}
	}
	doc["spec"] = spec
	doc["status"] = status
	data, err := json.Marshal(doc)
	must(err)
	obj, _, err := scheme.Codecs.UniversalDeserializer().Decode(data, nil, nil)
	must(err)
	return obj
}

// projectLeaf: metadata and status only (the spec of a leaf case is judged on its wire form)
func projectLeaf(obj runtime.Object) *c20Desc {
	d := &c20Desc{}
	switch o := obj.(type) {
	case *proxyv1alpha1.UpstreamCluster:
		descMeta(o.ObjectMeta, d)
	case *proxyv1alpha1.RateLimitCondition:
		descMeta(o.ObjectMeta, d)
		if o.Status.LimitItemStatuses != nil {
			l := []int64{}
			for _, it := range o.Status.LimitItemStatuses {
				l = append(l, int64(it.RequestLevel))
			}
			d.Status.C = &l
		}
	}
	return d
}

var stores *c20Stores

func runC20(raw json.RawMessage) interface{} {
	var c c20Case
	must(json.Unmarshal(raw, &c))
	mk := build
	if c.Raw {
		mk = viaCodec
	}
	// kind "ucx": the strategies REGISTERED FOR UpstreamCluster (main + status endpoint) applied to an
	// object whose Status has members (UpstreamClusterStatus itself is an empty struct, so on the real
	// type the status clauses cannot be exercised). The strategies are type-generic (reflect).
	stratKind, objKind := c.Kind, c.Kind
	if c.Kind == "ucx" {
		stratKind, objKind = "uc", "rlc"
	}
	_, sub := stores.status[stratKind]
	ctx := context.TODO()
	obj := mk(objKind, c.New)
	switch c.Op {
	case "create":
		if err := rest.BeforeCreate(stores.create[stratKind], ctx, obj); err != nil {
			return c20Obs{Res: "err", Sub: sub}
		}
		return c20Obs{Res: "ok", Sub: sub, Obj: project(obj)}
	case "update", "status":
		strat := stores.update[stratKind]
		if c.Op == "status" {
			if !sub {
				return c20Obs{Res: "noendpoint", Sub: sub}
			}
			strat = stores.status[stratKind]
		}
		old := mk(objKind, c.Old)
		if c.Leaf != nil {
			paths := applyLeafEdits(old, c.Leaf.Populate, c.Leaf.Old)
			paths = append(paths, "->")
			paths = append(paths, applyLeafEdits(obj, c.Leaf.Populate, c.Leaf.New)...)
			wOld, wNew := specWire(old), specWire(obj)
			differs := wOld != wNew
			o := c20Obs{Res: "err", Sub: sub, SpecDiffers: &differs, Paths: paths, Leaves: leafCount(objKind)}
			if err := rest.BeforeUpdate(strat, ctx, obj, old); err != nil {
				return o
			}
			kept, oldKept := specWire(obj) == wNew, specWire(old) == wOld
			o.Res, o.SpecKept, o.OldKept = "ok", &kept, &oldKept
			o.Obj, o.Old = projectLeaf(obj), projectLeaf(old)
			return o
		}
		if err := rest.BeforeUpdate(strat, ctx, obj, old); err != nil {
			return c20Obs{Res: "err", Sub: sub}
		}
		return c20Obs{Res: "ok", Sub: sub, Obj: project(obj), Old: project(old)}
	}
	panic("unknown op " + c.Op)
}

func main() {
	quietLogs()
	stores = buildStores()
	runCases(runC20)
}
