//go:build verif

package main

// C16 harness: every generated UpstreamCluster object goes, each step under
// recover, through
//   - validation.ValidateUpstreamCluster                         (field errors / panic)
//   - the real admission plugin's Validate (public constructor, started informer on a fake clientset)
//   - clusters.CreateClusterInfo (+ Sync)                         (gateway apply)
//   - the real UpstreamClusterController.syncUpstreamCluster      (gateway apply through the controller)
//   - the real rateLimiter.UpstreamConditionHandler               (limiter apply, local store, leader)
// and the library-dependent facts of the object (url.Parse, tls.X509KeyPair,
// ParseCertsPEM, featuregate.Set, client-go host acceptance, metadata name
// validation) are computed with the real functions and returned as oracle
// inputs of the model.

import (
	"context"
	"crypto/ecdsa"
	"crypto/elliptic"
	"crypto/rand"
	"crypto/tls"
	"crypto/x509"
	"crypto/x509/pkix"
	"encoding/json"
	"encoding/pem"
	"fmt"
	"math/big"
	"net/url"
	"os"
	"runtime/debug"
	"strings"
	"time"

	apimachineryvalidation "k8s.io/apimachinery/pkg/api/validation"
	metav1 "k8s.io/apimachinery/pkg/apis/meta/v1"
	utilerrors "k8s.io/apimachinery/pkg/util/errors"
	"k8s.io/apimachinery/pkg/util/validation/field"
	"k8s.io/apiserver/pkg/admission"
	"k8s.io/apiserver/pkg/authentication/user"
	"k8s.io/apiserver/pkg/authorization/authorizer"
	"k8s.io/client-go/kubernetes"
	"k8s.io/client-go/rest"
	"k8s.io/client-go/tools/cache"
	certutil "k8s.io/client-go/util/cert"
	apivalidation "k8s.io/kubernetes/pkg/apis/core/validation"

	proxyv1alpha1 "github.com/kubewharf/kubegateway/pkg/apis/proxy/v1alpha1"
	"github.com/kubewharf/kubegateway/pkg/apis/proxy/v1alpha1/validation"
	gatewayinformers "github.com/kubewharf/kubegateway/pkg/client/informers"
	gatewayfake "github.com/kubewharf/kubegateway/pkg/client/kubernetes/fake"
	"github.com/kubewharf/kubegateway/pkg/clusters"
	"github.com/kubewharf/kubegateway/pkg/clusters/features"
	"github.com/kubewharf/kubegateway/pkg/flowcontrols"
	"github.com/kubewharf/kubegateway/pkg/flowcontrols/flowcontrol"
	"github.com/kubewharf/kubegateway/pkg/flowcontrols/remote"
	"github.com/kubewharf/kubegateway/pkg/gateway/controllers"
	"github.com/kubewharf/kubegateway/pkg/gateway/controlplane/admission/initializer"
	proxyoptions "github.com/kubewharf/kubegateway/pkg/gateway/proxy/options"
	"github.com/kubewharf/kubegateway/pkg/ratelimiter/clientsets"
	upstreamclusteradmission "github.com/kubewharf/kubegateway/plugin/admission/upstreamcluster"
)

// ---------------------------------------------------------------- case format

type c16Server struct {
	Ep       string `json:"ep"`
	Disabled *bool  `json:"disabled"`
}

type c16CC struct {
	Insecure bool   `json:"insecure"`
	Token    string `json:"token"` // none | empty | set
	Key      string `json:"key"`   // material id, see material()
	Cert     string `json:"cert"`
	CA       string `json:"ca"`
	QPS      int32  `json:"qps"`
	Burst    int32  `json:"burst"`
	Div      int32  `json:"div"`
	SNI      string `json:"sni"`
}

type c16SS struct {
	Key   string   `json:"key"`
	Cert  string   `json:"cert"`
	CA    string   `json:"ca"`
	Names []string `json:"names"`
}

type c16Schema struct {
	Name     string    `json:"name"`
	Strategy string    `json:"strategy"`
	Exempt   bool      `json:"exempt"`
	MRI      *int32    `json:"mri"`
	TB       *[2]int32 `json:"tb"`
	GMRI     *int32    `json:"gmri"`
	GTB      *[2]int32 `json:"gtb"`
}

type c16Policy struct {
	Strategy string   `json:"strategy"`
	Subset   []string `json:"subset"`
	Schema   string   `json:"schema"`
	Rules    int      `json:"rules"`
	LogMode  string   `json:"logmode"`
}

type c16Case struct {
	Name     string      `json:"name"`
	Gate     *string     `json:"gate"` // nil = no annotations at all
	Servers  []c16Server `json:"servers"`
	CC       c16CC       `json:"cc"`
	SS       c16SS       `json:"ss"`
	Schemas  []c16Schema `json:"schemas"`
	Logging  string      `json:"logging"`
	Policies []c16Policy `json:"policies"`
	V2       *c16Case    `json:"v2"` // optional: the next version of the same object
}

// ---------------------------------------------------------------- observations

type c16EpFacts struct {
	Prefix      string `json:"prefix"` // none | http | https  (strings.HasPrefix, as validation does)
	Parses      bool   `json:"parses"` // url.Parse err == nil
	SchemeHTTPS bool   `json:"scheme_https"`
	Host        bool   `json:"host"`      // len(u.Host) > 0
	ClientOK    bool   `json:"client_ok"` // kubernetes.NewForConfig(&rest.Config{Host: ep}) err == nil
}

type c16Facts struct {
	NameOK   bool         `json:"name_ok"`    // ValidateObjectMeta of the object has no error
	NameLow  bool         `json:"name_lower"` // strings.ToLower(name) == name
	Gate     string       `json:"gate"`       // absent | ok | bad   (featuregate.Set on a copy of the defaults)
	Eps      []c16EpFacts `json:"eps"`
	CCPairOK bool         `json:"cc_pair_ok"` // tls.X509KeyPair(cert, key) err == nil
	CCCAOK   bool         `json:"cc_ca_ok"`   // certutil.ParseCertsPEM(ca) err == nil
	SSPairOK bool         `json:"ss_pair_ok"`
	SSCAOK   bool         `json:"ss_ca_ok"`
}

type c16Err struct {
	Type   string `json:"type"`
	Field  string `json:"field"`
	Detail string `json:"detail"`
}

// what a request that only policy j's rules match gets from the real ClusterInfo.MatchAttributes
type c16Pol struct {
	Matched   bool `json:"matched"`    // the picker returned belongs to a policy (ErrNoRouterRuleMatches otherwise)
	Known     int  `json:"known"`      // how many of the picker's upstreams are endpoints the ClusterInfo knows (Endpoints.Load)
	FCDefault bool `json:"fc_default"` // the picker's flow control is the system default
}

type c16Obs struct {
	Facts    c16Facts `json:"facts"`
	Validate string   `json:"validate"` // ok (returned a list) | panic
	Errs     []c16Err `json:"errs"`
	Admit    string   `json:"admit"` // ok | err | panic
	AdmitN   int      `json:"admit_n"`
	AdmitGat bool     `json:"admit_gate_err"`
	Create   string   `json:"create"` // ok | err | panic
	Pols     []c16Pol `json:"pols"`   // per dispatch policy, on the ClusterInfo that was created (nil if none)
	Ctrl     string   `json:"ctrl"`   // ok | err | panic
	Lim      string   `json:"lim"`    // ok | err | panic
}

// ---------------------------------------------------------------- PEM material (once per process)

var pemMat = map[string][]byte{}

func genPair(cn string, isCA bool) (certPEM, keyPEM []byte) {
	key, err := ecdsa.GenerateKey(elliptic.P256(), rand.Reader)
	must(err)
	tmpl := &x509.Certificate{
		SerialNumber:          big.NewInt(time.Now().UnixNano()),
		Subject:               pkix.Name{CommonName: cn},
		NotBefore:             time.Now().Add(-time.Hour),
		NotAfter:              time.Now().Add(24 * time.Hour),
		KeyUsage:              x509.KeyUsageDigitalSignature | x509.KeyUsageCertSign,
		ExtKeyUsage:           []x509.ExtKeyUsage{x509.ExtKeyUsageServerAuth, x509.ExtKeyUsageClientAuth},
		BasicConstraintsValid: true,
		IsCA:                  isCA,
		DNSNames:              []string{cn},
	}
	der, err := x509.CreateCertificate(rand.Reader, tmpl, tmpl, &key.PublicKey, key)
	must(err)
	kb, err := x509.MarshalECPrivateKey(key)
	must(err)
	return pem.EncodeToMemory(&pem.Block{Type: "CERTIFICATE", Bytes: der}),
		pem.EncodeToMemory(&pem.Block{Type: "EC PRIVATE KEY", Bytes: kb})
}

func initMaterial() {
	certA, keyA := genPair("verif-a", false)
	certB, keyB := genPair("verif-b", false)
	ca, caKey := genPair("verif-ca", true)
	pemMat["certA"], pemMat["keyA"] = certA, keyA
	pemMat["certB"], pemMat["keyB"] = certB, keyB
	pemMat["ca"] = ca
	pemMat["ca2"] = append(append([]byte{}, ca...), certA...) // bundle of two certificates
	pemMat["cakey"] = caKey                                   // PEM, but no certificate in it
	pemMat["garbage"] = []byte("not pem at all \x00\xff")
	corrupt := func(p []byte) []byte { // valid PEM armour, damaged DER
		b, _ := pem.Decode(p)
		d := append([]byte{}, b.Bytes...)
		for i := 8; i < len(d) && i < 40; i++ {
			d[i] ^= 0x5a
		}
		return pem.EncodeToMemory(&pem.Block{Type: b.Type, Bytes: d})
	}
	pemMat["certBad"] = corrupt(certA)
	pemMat["keyBad"] = corrupt(keyA)
	pemMat["caBad"] = corrupt(ca)
	pemMat["trunc"] = certA[:len(certA)/2]
	// MIXED bundles: a lenient loader (CertPool.AppendCertsFromPEM) and a strict one (cert.ParseCertsPEM,
	// tls.X509KeyPair) disagree on some of these
	cat := func(parts ...[]byte) []byte {
		out := []byte{}
		for _, p := range parts {
			out = append(out, p...)
		}
		return out
	}
	pemMat["caGoodBad"] = cat(ca, pemMat["caBad"])                  // good CA + CERTIFICATE block of unparsable DER
	pemMat["caBadGood"] = cat(pemMat["caBad"], ca)                  // the other order
	pemMat["caGoodKey"] = cat(ca, caKey)                            // good CA + a block that is not a certificate
	pemMat["caGoodGarbage"] = cat(ca, []byte("trailing garbage\n")) // good CA + trailing non-PEM bytes
	pemMat["caGarbageGood"] = cat([]byte("leading garbage\n"), ca)
	pemMat["caGoodTrunc"] = cat(ca, certA[:len(certA)/2])  // good CA + a block cut in the middle
	pemMat["certAChain"] = cat(certA, ca)                  // leaf + issuer: two good certificates
	pemMat["certAGoodBad"] = cat(certA, pemMat["certBad"]) // good leaf + damaged block
	pemMat["certBadGood"] = cat(pemMat["certBad"], certA)  // damaged block first
	pemMat["certAGarbage"] = cat(certA, []byte("trailing garbage\n"))
	pemMat["certKeyA"] = cat(keyA, certA) // key and certificate in one bundle
	pemMat["keyAGarbage"] = cat(keyA, []byte("trailing garbage\n"))
	pemMat["keyBadGood"] = cat(pemMat["keyBad"], keyA)
	pemMat["empty"] = []byte{}
}

func material(id string) []byte {
	if id == "" || id == "none" {
		return nil
	}
	m, ok := pemMat[id]
	if !ok {
		panic("unknown material " + id)
	}
	return append([]byte{}, m...)
}

// ---------------------------------------------------------------- object construction

func buildObject(c *c16Case) *proxyv1alpha1.UpstreamCluster {
	o := &proxyv1alpha1.UpstreamCluster{ObjectMeta: metav1.ObjectMeta{Name: c.Name}}
	if c.Gate != nil {
		o.Annotations = map[string]string{features.FeatureGateAnnotationKey: *c.Gate}
	}
	for _, s := range c.Servers {
		o.Spec.Servers = append(o.Spec.Servers, proxyv1alpha1.UpstreamClusterServer{Endpoint: s.Ep, Disabled: s.Disabled})
	}
	cc := &o.Spec.ClientConfig
	cc.Insecure = c.CC.Insecure
	switch c.CC.Token {
	case "empty":
		cc.BearerToken = []byte{}
	case "set":
		cc.BearerToken = []byte("token-1")
	}
	cc.KeyData, cc.CertData, cc.CAData = material(c.CC.Key), material(c.CC.Cert), material(c.CC.CA)
	cc.QPS, cc.Burst, cc.QPSDivisor, cc.ServerName = c.CC.QPS, c.CC.Burst, c.CC.Div, c.CC.SNI
	ss := &o.Spec.SecureServing
	ss.KeyData, ss.CertData, ss.ClientCAData = material(c.SS.Key), material(c.SS.Cert), material(c.SS.CA)
	ss.ServerNames = c.SS.Names
	for _, s := range c.Schemas {
		fs := proxyv1alpha1.FlowControlSchema{Name: s.Name, Strategy: proxyv1alpha1.LimitStrategy(s.Strategy)}
		if s.Exempt {
			fs.Exempt = &proxyv1alpha1.ExemptFlowControlSchema{}
		}
		if s.MRI != nil {
			fs.MaxRequestsInflight = &proxyv1alpha1.MaxRequestsInflightFlowControlSchema{Max: *s.MRI}
		}
		if s.TB != nil {
			fs.TokenBucket = &proxyv1alpha1.TokenBucketFlowControlSchema{QPS: s.TB[0], Burst: s.TB[1]}
		}
		if s.GMRI != nil {
			fs.GlobalMaxRequestsInflight = &proxyv1alpha1.MaxRequestsInflightFlowControlSchema{Max: *s.GMRI}
		}
		if s.GTB != nil {
			fs.GlobalTokenBucket = &proxyv1alpha1.TokenBucketFlowControlSchema{QPS: s.GTB[0], Burst: s.GTB[1]}
		}
		o.Spec.FlowControl.Schemas = append(o.Spec.FlowControl.Schemas, fs)
	}
	o.Spec.Logging.Mode = proxyv1alpha1.LogMode(c.Logging)
	for j, p := range c.Policies {
		dp := proxyv1alpha1.DispatchPolicy{
			Strategy:              proxyv1alpha1.Strategy(p.Strategy),
			UpstreamSubset:        p.Subset,
			FlowControlSchemaName: p.Schema,
			LogMode:               proxyv1alpha1.LogMode(p.LogMode),
		}
		for i := 0; i < p.Rules; i++ {
			dp.Rules = append(dp.Rules, proxyv1alpha1.DispatchPolicyRule{
				Verbs: []string{"*"}, APIGroups: []string{"*"}, Resources: []string{fmt.Sprintf("r%d", j)}})
		}
		o.Spec.DispatchPolicies = append(o.Spec.DispatchPolicies, dp)
	}
	return o
}

// ---------------------------------------------------------------- oracles

func oracle(o *proxyv1alpha1.UpstreamCluster) c16Facts {
	f := c16Facts{Gate: "absent", Eps: []c16EpFacts{}}
	f.NameOK = len(apivalidation.ValidateObjectMeta(&o.ObjectMeta, false, apimachineryvalidation.NameIsDNSSubdomain, field.NewPath("metadata"))) == 0
	f.NameLow = strings.ToLower(o.Name) == o.Name
	if g := o.Annotations[features.FeatureGateAnnotationKey]; len(g) > 0 {
		f.Gate = "ok"
		if err := features.DefaultMutableFeatureGate.DeepCopy().Set(g); err != nil {
			f.Gate = "bad"
		}
	}
	for _, s := range o.Spec.Servers {
		e := c16EpFacts{Prefix: "none"}
		if strings.HasPrefix(s.Endpoint, "http://") {
			e.Prefix = "http"
		} else if strings.HasPrefix(s.Endpoint, "https://") {
			e.Prefix = "https"
		}
		if u, err := url.Parse(s.Endpoint); err == nil {
			e.Parses, e.SchemeHTTPS, e.Host = true, u.Scheme == "https", len(u.Host) > 0
		}
		_, err := kubernetes.NewForConfig(&rest.Config{Host: s.Endpoint})
		e.ClientOK = err == nil
		f.Eps = append(f.Eps, e)
	}
	cc, ss := o.Spec.ClientConfig, o.Spec.SecureServing
	_, err := tls.X509KeyPair(cc.CertData, cc.KeyData)
	f.CCPairOK = err == nil
	_, err = certutil.ParseCertsPEM(cc.CAData)
	f.CCCAOK = err == nil
	_, err = tls.X509KeyPair(ss.CertData, ss.KeyData)
	f.SSPairOK = err == nil
	_, err = certutil.ParseCertsPEM(ss.ClientCAData)
	f.SSCAOK = err == nil
	return f
}

// ---------------------------------------------------------------- rigs

var (
	plugin admission.ValidationInterface
	lim    *limRig
)

func initRigs() {
	gw := gatewayfake.NewSimpleClientset()
	factory := gatewayinformers.NewSharedInformerFactory(gw, 0)
	p := upstreamclusteradmission.NewUpstreamClusterPlugin()
	p.(initializer.WantsGatewayResourceInformerFactory).SetGatewayResourceInformerFactory(factory)
	stop := make(chan struct{})
	factory.Start(stop)
	factory.WaitForCacheSync(stop)
	plugin = p.(admission.ValidationInterface)

	lim = newLimRig("me", 1, "local")
	lim.startLeading(0)
}

var stepTimes = map[string]time.Duration{}
var stepName string

func outcome(f func() error) (res string) {
	t0 := time.Now()
	defer func(n string) { stepTimes[n] += time.Since(t0) }(stepName)
	defer func() {
		if r := recover(); r != nil {
			res = "panic"
			if os.Getenv("VERIF_C16_TRACE") != "" {
				fmt.Fprintf(os.Stderr, "PANIC in step %s: %v\n%s\n", stepName, r, debug.Stack())
			}
		}
	}()
	if err := f(); err != nil {
		return "err"
	}
	return "ok"
}

func projErrs(l field.ErrorList) []c16Err {
	out := []c16Err{}
	for _, e := range l {
		d := e.Detail
		if len(d) > 120 {
			d = d[:120]
		}
		out = append(out, c16Err{Type: string(e.Type), Field: e.Field, Detail: strings.ToValidUTF8(d, "?")})
	}
	return out
}

// the five single-object steps of the original check
func single(obj *proxyv1alpha1.UpstreamCluster) c16Obs {
	obs := c16Obs{Facts: oracle(obj.DeepCopy()), Errs: []c16Err{}}

	stepName = "validate"
	// 1. validation proper
	obs.Validate = outcome(func() error {
		obs.Errs = projErrs(validation.ValidateUpstreamCluster(obj.DeepCopy()))
		return nil
	})

	stepName = "admit"
	// 2. admission plugin
	obs.Admit = outcome(func() error {
		o := obj.DeepCopy()
		attrs := admission.NewAttributesRecord(o, nil, proxyv1alpha1.SchemeGroupVersion.WithKind("UpstreamCluster"), "", o.Name,
			proxyv1alpha1.SchemeGroupVersion.WithResource("upstreamclusters"), "", admission.Create, &metav1.CreateOptions{}, false, nil)
		err := plugin.Validate(context.TODO(), attrs, nil)
		if agg, ok := err.(utilerrors.Aggregate); ok {
			obs.AdmitN = len(agg.Errors())
			for _, e := range agg.Errors() {
				if fe, ok := e.(*field.Error); ok && strings.Contains(fe.Field, features.FeatureGateAnnotationKey) {
					obs.AdmitGat = true
				}
			}
		}
		return err
	})

	stepName = "create"
	// 3. gateway: CreateClusterInfo (= buildClusterRESTConfig + NewEmptyClusterInfo + Sync)
	obs.Create = outcome(func() error {
		info, err := clusters.CreateClusterInfo(obj.DeepCopy(), nil, "", nil)
		if info != nil {
			defer func() {
				clusters.VerifC16StopFlowControls(info)
				info.Stop()
			}()
			obs.Pols = []c16Pol{}
			for j := range obj.Spec.DispatchPolicies {
				pv := c16Pol{}
				attrs := authorizer.AttributesRecord{User: &user.DefaultInfo{Name: "someone"}, Verb: "get", APIGroup: "",
					APIVersion: "v1", Resource: fmt.Sprintf("r%d", j), ResourceRequest: true, Path: "/api/v1/r"}
				if picker, perr := info.MatchAttributes(attrs); perr == nil {
					pv.Matched = true
					for _, u := range clusters.VerifPickerUpstreams(picker) {
						if _, ok := info.Endpoints.Load(u); ok {
							pv.Known++
						}
					}
					pv.FCDefault = picker.FlowControl() == flowcontrol.DefaultFlowControl
				}
				obs.Pols = append(obs.Pols, pv)
			}
		}
		return err
	})

	stepName = "ctrl"
	// 4. gateway: the controller's sync handler on a fresh controller whose lister knows the object
	obs.Ctrl = outcome(func() error {
		ctrl, idx := newController()
		o := obj.DeepCopy()
		must(idx.Add(o))
		defer stopController(ctrl, o.Name)
		return ctrlSync(ctrl, o)
	})

	stepName = "lim"
	// 5. limiter: UpstreamConditionHandler as leader of the (single) shard, local store
	obs.Lim = outcome(func() error {
		o := obj.DeepCopy()
		lim.setCluster(o)
		defer func() {
			lim.delCluster(o)
			_ = lim.v.Handler(o)
		}()
		return lim.v.Handler(o)
	})
	return obs
}

func newController() (*controllers.UpstreamClusterController, cache.Indexer) {
	gw := gatewayfake.NewSimpleClientset()
	inf := gatewayinformers.NewSharedInformerFactory(gw, 0).Proxy().V1alpha1().UpstreamClusters()
	ctrl := controllers.NewUpstreamClusterController(inf, proxyoptions.NewRateLimiterOptions())
	return ctrl, inf.Informer().GetIndexer()
}

func stopController(ctrl *controllers.UpstreamClusterController, name string) {
	if info, ok := ctrl.Get(strings.ToLower(name)); ok {
		clusters.VerifC16StopFlowControls(info)
	}
	ctrl.DeleteAll()
}

func ctrlSync(ctrl *controllers.UpstreamClusterController, o *proxyv1alpha1.UpstreamCluster) error {
	requeue, err := ctrl.VerifC16Sync(o)
	if err != nil {
		return err
	}
	if requeue {
		return fmt.Errorf("requeued")
	}
	if _, ok := ctrl.Get(strings.ToLower(o.Name)); !ok {
		return fmt.Errorf("cluster not registered")
	}
	return nil
}

// ---------------------------------------------------------------- updates v1 -> v2

type c16Upd struct {
	Info string `json:"info"` // ClusterInfo.Sync(v2) on the info created from v1: ok | err | panic | nocreate
	Ctrl string `json:"ctrl"` // second controller sync (v2) after the first (v1): ok | err | panic
	Lim  string `json:"lim"`  // second UpstreamConditionHandler (v2) after the first (v1): ok | err | panic
}

func update(v1, v2 *proxyv1alpha1.UpstreamCluster) c16Upd {
	u := c16Upd{Info: "nocreate"}
	stepName = "upd_info"
	var info *clusters.ClusterInfo
	_ = outcome(func() error {
		var err error
		info, err = clusters.CreateClusterInfo(v1.DeepCopy(), nil, "", nil)
		return err
	})
	if info != nil {
		u.Info = outcome(func() error { return info.Sync(v2.DeepCopy()) })
		clusters.VerifC16StopFlowControls(info)
		info.Stop()
	}

	stepName = "upd_ctrl"
	ctrl, idx := newController()
	a, b := v1.DeepCopy(), v2.DeepCopy()
	must(idx.Add(a))
	_ = outcome(func() error { return ctrlSync(ctrl, a) })
	must(idx.Update(b))
	u.Ctrl = outcome(func() error { return ctrlSync(ctrl, b) })
	stopController(ctrl, b.Name)

	stepName = "upd_lim"
	lim.setCluster(a)
	_ = outcome(func() error { return lim.v.Handler(a) })
	lim.setCluster(b) // Add on an existing key replaces the object
	u.Lim = outcome(func() error { return lim.v.Handler(b) })
	lim.delCluster(b)
	_ = outcome(func() error { return lim.v.Handler(b) })
	return u
}

// ---------------------------------------------------------------- remote rate limiter path

// One reconcile round of the gateway's remote limiter for the flow-control spec of v, played step by
// step against the real limiter server object: upstreamLimiter.Sync, the limiter's handler, the
// global-count pass, the allocate round trip (buildLimitConditions -> UpdateRateLimitConditionStatus ->
// updateFlowControls) and Load of every schema.
type c16Round struct {
	Sync  string `json:"sync"`  // ok | panic
	Count string `json:"count"` // ok | panic | skip
	Alloc string `json:"alloc"` // ok | err | panic | skip
	Load  string `json:"load"`  // ok | panic | skip
}

type c16Gateway struct {
	ul     flowcontrols.UpstreamLimiter
	rec    remote.Reconcile
	cancel context.CancelFunc
	dead   bool
}

func newGateway(cluster, id string) *c16Gateway {
	ctx, cancel := context.WithCancel(context.Background())
	cs := clientsets.VerifC16ClientSets(1, id)
	clientsets.VerifSetLeader(cs, 0, "127.0.0.1:1", true)
	ul := flowcontrols.NewUpstreamLimiter(ctx, cluster, flowcontrol.RemoteFlowControls, cs)
	return &c16Gateway{ul: ul, rec: flowcontrols.VerifReconcile(ul), cancel: cancel}
}

func (g *c16Gateway) stop() {
	for _, fc := range g.ul.AllFlowControls() {
		f := fc
		_ = outcome(func() error { f.Stop(); return nil })
	}
	g.cancel()
}

func (g *c16Gateway) round(o *proxyv1alpha1.UpstreamCluster) c16Round {
	r := c16Round{Sync: "skip", Count: "skip", Alloc: "skip", Load: "skip"}
	if !g.dead {
		stepName = "rem_sync"
		r.Sync = outcome(func() error { g.ul.Sync(o.Spec.FlowControl); return nil })
		g.dead = r.Sync == "panic"
	}
	if !g.dead {
		stepName = "rem_count"
		r.Count = outcome(func() error { remote.VerifUpdateGlobalCount(g.rec); return nil })
		g.dead = r.Count == "panic"
	}
	if !g.dead {
		stepName = "rem_alloc"
		r.Alloc = outcome(func() error {
			cond := remote.VerifC16BuildConditions(g.rec)
			ret, err := lim.rl.UpdateRateLimitConditionStatus(o.Name, cond)
			if err != nil {
				return err
			}
			remote.VerifUpdateFlowControls(g.rec, ret)
			return nil
		})
		g.dead = r.Alloc == "panic"
	}
	if !g.dead {
		stepName = "rem_load"
		r.Load = outcome(func() error {
			for _, s := range o.Spec.FlowControl.Schemas {
				g.ul.GetOrDefault(s.Name)
			}
			return nil
		})
		g.dead = r.Load == "panic"
	}
	return r
}

// rounds (the limiter's handler sees a version before any round on it): gateway A on object 1; for a pair,
// a second gateway replica B that never saw object 1 does its first round on object 2, then A does.
func remoteRounds(objs []*proxyv1alpha1.UpstreamCluster) []c16Round {
	cluster := strings.ToLower(objs[0].Name)
	a := newGateway(cluster, "gw-a")
	defer a.stop()
	out := []c16Round{}
	var last *proxyv1alpha1.UpstreamCluster
	for i, v := range objs {
		o := v.DeepCopy()
		last = o
		lim.setCluster(o)
		_ = outcome(func() error { return lim.v.Handler(o) })
		if i > 0 && i == len(objs)-1 {
			b := newGateway(cluster, "gw-b")
			defer b.stop()
			out = append(out, b.round(o))
		}
		out = append(out, a.round(o))
	}
	lim.delCluster(last)
	_ = outcome(func() error { return lim.v.Handler(last) })
	return out
}

type c16Full struct {
	c16Obs
	V2  *c16Obs    `json:"v2,omitempty"`
	Upd *c16Upd    `json:"upd,omitempty"`
	Rem []c16Round `json:"rem"`
}

func runC16(raw json.RawMessage) interface{} {
	var c c16Case
	must(json.Unmarshal(raw, &c))
	obj := buildObject(&c)
	full := c16Full{c16Obs: single(obj)}
	objs := []*proxyv1alpha1.UpstreamCluster{obj}
	if c.V2 != nil {
		c.V2.Name = c.Name // an update keeps the name
		obj2 := buildObject(c.V2)
		o2 := single(obj2)
		full.V2 = &o2
		u := update(obj, obj2)
		full.Upd = &u
		objs = append(objs, obj2)
	}
	full.Rem = remoteRounds(objs)
	return full
}

func main() {
	quietLogs()
	initMaterial()
	initRigs()
	runCases(runC16)
	if os.Getenv("VERIF_C16_TIMES") != "" {
		fmt.Fprintln(os.Stderr, stepTimes)
	}
}
