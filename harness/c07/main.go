//go:build verif

package main

// C07 harness: (1) the real calculateNextQuota on numeric tuples, (2) histories of
// honest reports / limit changes / instance removals against a real rateLimiter
// that leads shard 0 with the local store.  Reports of one batch are issued from
// concurrent goroutines.

import (
	"encoding/json"
	"fmt"
	"runtime"
	"sort"
	"sync"
	"sync/atomic"

	metav1 "k8s.io/apimachinery/pkg/apis/meta/v1"

	proxyv1alpha1 "github.com/kubewharf/kubegateway/pkg/apis/proxy/v1alpha1"
	"github.com/kubewharf/kubegateway/pkg/ratelimiter/limiter"
)

type c07Report struct {
	I     int   `json:"i"`
	Used  int32 `json:"used"`
	Level int32 `json:"level"`
}

type c07Step struct {
	Op    string      `json:"op"` // reports | setlimit | remove
	Rs    []c07Report `json:"rs"`
	Limit int32       `json:"limit"`
	Burst int32       `json:"burst"`
	I     int         `json:"i"`
}

type c07Case struct {
	Kind string `json:"kind"` // calc | hist
	Typ  string `json:"typ"`  // max | bucket
	// calc
	Count     bool  `json:"count"`
	Total     int32 `json:"total"`
	GBurst    int32 `json:"gburst"`
	Allocated int32 `json:"allocated"`
	UpLevel   int32 `json:"uplevel"`
	Current   int32 `json:"current"`
	Used      int32 `json:"used"`
	Level     int32 `json:"level"`
	Clients   int64 `json:"clients"`
	// hist
	Limit int32     `json:"limit"`
	Burst int32     `json:"burst"`
	Extra int       `json:"extra"`
	Steps []c07Step `json:"steps"`
}

type c07Ans struct {
	Ok bool  `json:"ok"`
	Q  int64 `json:"q"`
	B  int64 `json:"b"`
}

type c07Quota struct {
	I int   `json:"i"`
	Q int64 `json:"q"`
	B int64 `json:"b"`
}

type c07StepObs struct {
	UpLevel int64      `json:"uplevel"` // upstream RequestLevel on record before the step
	Cur     []int64    `json:"cur"`
	Ans     []c07Ans   `json:"ans"`
	Quotas  []c07Quota `json:"quotas"`
	Rec     int64      `json:"rec"`
}

const schemaName = "s"
const upstreamName = "up"

func detail(typ string, v, burst int32) proxyv1alpha1.LimitItemDetail {
	if typ == "bucket" {
		return proxyv1alpha1.LimitItemDetail{TokenBucket: &proxyv1alpha1.TokenBucketFlowControlSchema{QPS: v, Burst: burst}}
	}
	return proxyv1alpha1.LimitItemDetail{MaxRequestsInflight: &proxyv1alpha1.MaxRequestsInflightFlowControlSchema{Max: v}}
}

// project the (quota, burst) of an answered item by the upstream's type
func project(typ string, d proxyv1alpha1.LimitItemDetail) (int64, int64, bool) {
	if typ == "bucket" {
		if d.TokenBucket == nil {
			return 0, 0, false
		}
		return int64(d.TokenBucket.QPS), int64(d.TokenBucket.Burst), true
	}
	if d.MaxRequestsInflight == nil {
		return 0, 0, false
	}
	b := int64(0)
	if d.TokenBucket != nil {
		b = int64(d.TokenBucket.Burst)
	}
	return int64(d.MaxRequestsInflight.Max), b, true
}

func runCalc(c c07Case) (res interface{}) {
	defer func() {
		if r := recover(); r != nil {
			res = c07Ans{Ok: false}
		}
	}()
	strategy := proxyv1alpha1.GlobalAllocateLimit
	if c.Count {
		strategy = proxyv1alpha1.GlobalCountLimit
	}
	total := proxyv1alpha1.RateLimitItemConfiguration{Name: schemaName, LimitItemDetail: detail(c.Typ, c.Total, c.GBurst)}
	usedUp := proxyv1alpha1.RateLimitItemStatus{Name: schemaName, LimitItemDetail: detail(c.Typ, c.Allocated, 0), RequestLevel: c.UpLevel}
	cfg := proxyv1alpha1.RateLimitItemConfiguration{Name: schemaName, Strategy: strategy, LimitItemDetail: detail(c.Typ, c.Current, 7)}
	st := proxyv1alpha1.RateLimitItemStatus{Name: schemaName, LimitItemDetail: detail(c.Typ, c.Used, 0), RequestLevel: c.Level}
	cond := &proxyv1alpha1.RateLimitCondition{ObjectMeta: metav1.ObjectMeta{Name: "c"}}
	out := limiter.VerifCalculateNextQuota(total, usedUp, cfg, st, int(c.Clients), cond)
	q, b, ok := project(c.Typ, out.LimitItemDetail)
	if !ok {
		panic("answer lost its limit item")
	}
	return c07Ans{Ok: true, Q: q, B: b}
}

func cluster(typ string, limit, burst int32) *proxyv1alpha1.UpstreamCluster {
	cfg := proxyv1alpha1.FlowControlSchemaConfiguration{}
	if typ == "bucket" {
		cfg.GlobalTokenBucket = &proxyv1alpha1.TokenBucketFlowControlSchema{QPS: limit, Burst: burst}
	} else {
		cfg.GlobalMaxRequestsInflight = &proxyv1alpha1.MaxRequestsInflightFlowControlSchema{Max: limit}
	}
	return &proxyv1alpha1.UpstreamCluster{
		ObjectMeta: metav1.ObjectMeta{Name: upstreamName},
		Spec: proxyv1alpha1.UpstreamClusterSpec{
			FlowControl: proxyv1alpha1.FlowControl{
				Schemas: []proxyv1alpha1.FlowControlSchema{{Name: schemaName, FlowControlSchemaConfiguration: cfg}},
			},
		},
	}
}

func instName(i int) string { return fmt.Sprintf("gw%d", i) }
func condName(i int) string { return upstreamName + "." + instName(i) }

func runHist(c c07Case) interface{} {
	rig := newLimRig("me", 1, "local")
	rig.startLeading(0)
	cl := cluster(c.Typ, c.Limit, c.Burst)
	rig.setCluster(cl)
	must(rig.v.Handler(cl))
	for k := 0; k < c.Extra; k++ {
		must(rig.rl.Heartbeat(fmt.Sprintf("idle%d", k)))
	}
	// what each honest instance holds: the last answer it received
	type held struct{ q, b int32 }
	holds := map[int]held{}

	steps := []c07StepObs{}
	for _, st := range c.Steps {
		ob := c07StepObs{Cur: []int64{}, Ans: []c07Ans{}, Quotas: []c07Quota{}}
		if up, err := rig.rl.GetUpstreamStatus(upstreamName); err == nil {
			for _, s := range up.Status.LimitItemStatuses {
				if s.Name == schemaName {
					ob.UpLevel = int64(s.RequestLevel)
				}
			}
		}
		switch st.Op {
		case "reports":
			ob.Ans = make([]c07Ans, len(st.Rs))
			newHolds := make([]*held, len(st.Rs))
			// overlapping reports: every goroutine spins on a barrier and all are released at
			// once, so that they pass the lock-free prefix of UpdateRateLimitConditionStatus together
			var wg, ready sync.WaitGroup
			var release int32
			for _, r := range st.Rs {
				must(rig.rl.Heartbeat(instName(r.I)))
			}
			for k, r := range st.Rs {
				h := holds[r.I]
				ob.Cur = append(ob.Cur, int64(h.q))
				cond := &proxyv1alpha1.RateLimitCondition{
					ObjectMeta: metav1.ObjectMeta{Name: condName(r.I)},
					Spec: proxyv1alpha1.RateLimitSpec{
						UpstreamCluster: upstreamName,
						Instance:        instName(r.I),
						LimitItemConfigurations: []proxyv1alpha1.RateLimitItemConfiguration{{
							Name: schemaName, Strategy: proxyv1alpha1.GlobalAllocateLimit,
							LimitItemDetail: detail(c.Typ, h.q, h.b),
						}},
					},
					Status: proxyv1alpha1.RateLimitStatus{
						LimitItemStatuses: []proxyv1alpha1.RateLimitItemStatus{{
							Name: schemaName, LimitItemDetail: detail(c.Typ, r.Used, 0), RequestLevel: r.Level,
						}},
					},
				}
				wg.Add(1)
				ready.Add(1)
				go func(k int, cond *proxyv1alpha1.RateLimitCondition) {
					defer wg.Done()
					ready.Done()
					for atomic.LoadInt32(&release) == 0 {
						if len(st.Rs) >= runtime.GOMAXPROCS(0) {
							runtime.Gosched()
						}
					}
					defer func() {
						if rec := recover(); rec != nil {
							ob.Ans[k] = c07Ans{Ok: false}
						}
					}()
					out, err := rig.rl.UpdateRateLimitConditionStatus(upstreamName, cond)
					if err != nil || out == nil || len(out.Spec.LimitItemConfigurations) != 1 {
						ob.Ans[k] = c07Ans{Ok: false}
						return
					}
					q, b, ok := project(c.Typ, out.Spec.LimitItemConfigurations[0].LimitItemDetail)
					if !ok {
						ob.Ans[k] = c07Ans{Ok: false}
						return
					}
					ob.Ans[k] = c07Ans{Ok: true, Q: q, B: b}
					newHolds[k] = &held{int32(q), int32(b)}
				}(k, cond)
			}
			ready.Wait()
			atomic.StoreInt32(&release, 1)
			wg.Wait()
			for k, r := range st.Rs {
				if newHolds[k] != nil {
					holds[r.I] = *newHolds[k]
				}
			}
		case "setlimit":
			cl = cluster(c.Typ, st.Limit, st.Burst)
			rig.setCluster(cl)
			must(rig.v.Handler(cl))
		case "remove":
			rig.v.ForgetClient(instName(st.I))
			rig.v.CleanupUnknownCondition()
			delete(holds, st.I)
		default:
			panic("unknown op " + st.Op)
		}
		// what the server has on record now
		conds, _ := rig.v.StoreConditions(0)
		for _, cd := range conds {
			if cd.Spec.UpstreamCluster != upstreamName || cd.Name == upstreamName+".state" {
				continue
			}
			var id int
			if _, err := fmt.Sscanf(cd.Spec.Instance, "gw%d", &id); err != nil {
				panic("unexpected condition " + cd.Name)
			}
			for _, it := range cd.Spec.LimitItemConfigurations {
				if it.Name != schemaName {
					continue
				}
				q, b, ok := project(c.Typ, it.LimitItemDetail)
				if !ok {
					panic("stored item without limit")
				}
				ob.Quotas = append(ob.Quotas, c07Quota{I: id, Q: q, B: b})
			}
		}
		sort.Slice(ob.Quotas, func(a, b int) bool { return ob.Quotas[a].I < ob.Quotas[b].I })
		up, err := rig.rl.GetUpstreamStatus(upstreamName)
		must(err)
		for _, s := range up.Status.LimitItemStatuses {
			if s.Name == schemaName {
				q, _, ok := project(c.Typ, s.LimitItemDetail)
				if ok {
					ob.Rec = q
				}
			}
		}
		steps = append(steps, ob)
	}
	return map[string]interface{}{"steps": steps}
}

func runC07(raw json.RawMessage) interface{} {
	var c c07Case
	must(json.Unmarshal(raw, &c))
	if c.Kind == "calc" {
		return runCalc(c)
	}
	return runHist(c)
}

func main() { runCases(runC07) }
