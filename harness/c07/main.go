//go:build verif

package main

// C07 harness: (1) the real calculateNextQuota on numeric tuples, (2) histories of
// honest reports / limit changes / instance removals against a real rateLimiter
// that leads shard 0 with the local store.  Reports of one batch are issued from
// concurrent goroutines.

import (
	"encoding/json"
	"fmt"
	"runtime"
	"sort"
	"sync"
	"sync/atomic"

	metav1 "k8s.io/apimachinery/pkg/apis/meta/v1"

	proxyv1alpha1 "github.com/kubewharf/kubegateway/pkg/apis/proxy/v1alpha1"
	"github.com/kubewharf/kubegateway/pkg/ratelimiter/limiter"
	_interface "github.com/kubewharf/kubegateway/pkg/ratelimiter/store/interface"
)

type c07Item struct {
	S     int    `json:"s"`   // schema id
	Typ   string `json:"typ"` // max | bucket | none (item without a limit member)
	Count bool   `json:"count"`
	Used  int32  `json:"used"`
	Level int32  `json:"level"`
}

type c07Report struct {
	I     int       `json:"i"`
	Items []c07Item `json:"items"`
}

type c07Schema struct {
	S     int    `json:"s"`
	Typ   string `json:"typ"`
	Limit int32  `json:"limit"`
	Burst int32  `json:"burst"`
}

type c07Step struct {
	Op string      `json:"op"` // reports | setschema | remove | overlap (rs[0] parked while the schema change is handled)
	Rs []c07Report `json:"rs"`
	c07Schema
	I int `json:"i"`
}

type c07Case struct {
	Kind string `json:"kind"` // calc | hist
	Typ  string `json:"typ"`  // max | bucket
	// calc
	Count     bool  `json:"count"`
	Total     int32 `json:"total"`
	GBurst    int32 `json:"gburst"`
	Allocated int32 `json:"allocated"`
	UpLevel   int32 `json:"uplevel"`
	Current   int32 `json:"current"`
	Used      int32 `json:"used"`
	Level     int32 `json:"level"`
	Clients   int64 `json:"clients"`
	// hist
	Extra   int         `json:"extra"`
	Schemas []c07Schema `json:"schemas"`
	Steps   []c07Step   `json:"steps"`
}

type c07Ans struct {
	Ok bool  `json:"ok"`
	Q  int64 `json:"q"`
	B  int64 `json:"b"`
}

type c07Quota struct {
	I int   `json:"i"`
	Q int64 `json:"q"`
	B int64 `json:"b"`
}

// what one report came back with
type c07Res struct {
	Res string   `json:"res"` // ok | err | panic
	Cur []int64  `json:"cur"` // the current quota each item carried
	Ans []c07Ans `json:"ans"` // per item of the report (ok only)
}

// what the server has on record for one schema after a step
type c07SchemaObs struct {
	S       int        `json:"s"`
	UpLevel int64      `json:"uplevel"` // upstream RequestLevel on record BEFORE the step
	Max     []c07Quota `json:"max"`     // recorded items with a max-in-flight member
	Bucket  []c07Quota `json:"bucket"`  // recorded items with a token-bucket member
	RecMax  int64      `json:"rec_max"`
	RecQPS  int64      `json:"rec_qps"`
}

type c07StepObs struct {
	Reports []c07Res       `json:"reports"`
	Schemas []c07SchemaObs `json:"schemas"`
}

const upstreamName = "up"

func schemaName(id int) string { return fmt.Sprintf("s%d", id) }

func detail(typ string, v, burst int32) proxyv1alpha1.LimitItemDetail {
	switch typ {
	case "bucket":
		return proxyv1alpha1.LimitItemDetail{TokenBucket: &proxyv1alpha1.TokenBucketFlowControlSchema{QPS: v, Burst: burst}}
	case "max":
		return proxyv1alpha1.LimitItemDetail{MaxRequestsInflight: &proxyv1alpha1.MaxRequestsInflightFlowControlSchema{Max: v}}
	}
	return proxyv1alpha1.LimitItemDetail{}
}

// project the (quota, burst) of an item by the given type
func project(typ string, d proxyv1alpha1.LimitItemDetail) (int64, int64, bool) {
	if typ == "bucket" {
		if d.TokenBucket == nil {
			return 0, 0, false
		}
		return int64(d.TokenBucket.QPS), int64(d.TokenBucket.Burst), true
	}
	if d.MaxRequestsInflight == nil {
		return 0, 0, false
	}
	return int64(d.MaxRequestsInflight.Max), 0, true
}

func runCalc(c c07Case) (res interface{}) {
	defer func() {
		if r := recover(); r != nil {
			res = c07Ans{Ok: false}
		}
	}()
	strategy := proxyv1alpha1.GlobalAllocateLimit
	if c.Count {
		strategy = proxyv1alpha1.GlobalCountLimit
	}
	total := proxyv1alpha1.RateLimitItemConfiguration{Name: "s", LimitItemDetail: detail(c.Typ, c.Total, c.GBurst)}
	usedUp := proxyv1alpha1.RateLimitItemStatus{Name: "s", LimitItemDetail: detail(c.Typ, c.Allocated, 0), RequestLevel: c.UpLevel}
	cfg := proxyv1alpha1.RateLimitItemConfiguration{Name: "s", Strategy: strategy, LimitItemDetail: detail(c.Typ, c.Current, 7)}
	st := proxyv1alpha1.RateLimitItemStatus{Name: "s", LimitItemDetail: detail(c.Typ, c.Used, 0), RequestLevel: c.Level}
	cond := &proxyv1alpha1.RateLimitCondition{ObjectMeta: metav1.ObjectMeta{Name: "c"}}
	out := limiter.VerifCalculateNextQuota(total, usedUp, cfg, st, int(c.Clients), cond)
	q, b, ok := project(c.Typ, out.LimitItemDetail)
	if !ok {
		panic("answer lost its limit item")
	}
	return c07Ans{Ok: true, Q: q, B: b}
}

func cluster(schemas []c07Schema) *proxyv1alpha1.UpstreamCluster {
	var list []proxyv1alpha1.FlowControlSchema
	for _, sc := range schemas {
		cfg := proxyv1alpha1.FlowControlSchemaConfiguration{}
		if sc.Typ == "bucket" {
			cfg.GlobalTokenBucket = &proxyv1alpha1.TokenBucketFlowControlSchema{QPS: sc.Limit, Burst: sc.Burst}
		} else {
			cfg.GlobalMaxRequestsInflight = &proxyv1alpha1.MaxRequestsInflightFlowControlSchema{Max: sc.Limit}
		}
		list = append(list, proxyv1alpha1.FlowControlSchema{Name: schemaName(sc.S), FlowControlSchemaConfiguration: cfg})
	}
	return &proxyv1alpha1.UpstreamCluster{
		ObjectMeta: metav1.ObjectMeta{Name: upstreamName},
		Spec:       proxyv1alpha1.UpstreamClusterSpec{FlowControl: proxyv1alpha1.FlowControl{Schemas: list}},
	}
}

func instName(i int) string { return fmt.Sprintf("gw%d", i) }
func condName(i int) string { return upstreamName + "." + instName(i) }

type held struct {
	typ  string
	q, b int32
}
type holdKey struct{ i, s int }

// parkStore is the real store; it can hold ONE lookup of the upstream state condition right after
// it was served, i.e. deschedule the caller between that lookup and its next statement.
type parkStore struct {
	_interface.LimitStore
	armed   int32
	reached chan struct{}
	resume  chan struct{}
}

func (s *parkStore) Get(cluster, name string) (*proxyv1alpha1.RateLimitCondition, error) {
	cond, err := s.LimitStore.Get(cluster, name)
	if name == cluster+".state" && atomic.CompareAndSwapInt32(&s.armed, 1, 0) {
		close(s.reached)
		<-s.resume
	}
	return cond, err
}

func runHist(c c07Case) interface{} {
	rig := newLimRig("me", 1, "local")
	rig.startLeading(0)
	park := &parkStore{}
	rig.v.WrapStore(0, func(s _interface.LimitStore) _interface.LimitStore { park.LimitStore = s; return park })
	schemas := append([]c07Schema{}, c.Schemas...)
	cl := cluster(schemas)
	rig.setCluster(cl)
	must(rig.v.Handler(cl))
	for k := 0; k < c.Extra; k++ {
		must(rig.rl.Heartbeat(fmt.Sprintf("idle%d", k)))
	}
	// what each honest instance holds per schema: the last answer it received, with its item type
	holds := map[holdKey]held{}

	levels := func() map[int]int64 {
		out := map[int]int64{}
		if up, err := rig.rl.GetUpstreamStatus(upstreamName); err == nil {
			for _, s := range up.Status.LimitItemStatuses {
				var id int
				if _, err := fmt.Sscanf(s.Name, "s%d", &id); err == nil {
					out[id] = int64(s.RequestLevel)
				}
			}
		}
		return out
	}

	steps := []c07StepObs{}
	for _, st := range c.Steps {
		ob := c07StepObs{Reports: []c07Res{}, Schemas: []c07SchemaObs{}}
		before := levels()
		switch st.Op {
		case "reports", "overlap":
			overlap := st.Op == "overlap"
			if overlap && len(st.Rs) != 1 {
				panic("overlap takes one report")
			}
			if overlap {
				// the report will be parked right after its lookup of the upstream state
				park.reached, park.resume = make(chan struct{}), make(chan struct{})
				atomic.StoreInt32(&park.armed, 1)
			}
			ob.Reports = make([]c07Res, len(st.Rs))
			newHolds := make([]map[holdKey]held, len(st.Rs))
			// overlapping reports: every goroutine spins on a barrier and all are released at
			// once, so that they pass the lock-free prefix of UpdateRateLimitConditionStatus together
			var wg, ready sync.WaitGroup
			var release int32
			for _, r := range st.Rs {
				must(rig.rl.Heartbeat(instName(r.I)))
			}
			nrs := len(st.Rs)
			for k, r := range st.Rs {
				res := c07Res{Res: "panic", Cur: []int64{}, Ans: []c07Ans{}}
				cond := &proxyv1alpha1.RateLimitCondition{
					ObjectMeta: metav1.ObjectMeta{Name: condName(r.I)},
					Spec:       proxyv1alpha1.RateLimitSpec{UpstreamCluster: upstreamName, Instance: instName(r.I)},
				}
				types := []string{}
				for _, it := range r.Items {
					h := holds[holdKey{r.I, it.S}]
					var q, b int32
					if h.typ == it.Typ { // an honest instance reports what it holds of that item type
						q, b = h.q, h.b
					}
					res.Cur = append(res.Cur, int64(q))
					strategy := proxyv1alpha1.GlobalAllocateLimit
					if it.Count {
						strategy = proxyv1alpha1.GlobalCountLimit
					}
					cond.Spec.LimitItemConfigurations = append(cond.Spec.LimitItemConfigurations,
						proxyv1alpha1.RateLimitItemConfiguration{Name: schemaName(it.S), Strategy: strategy, LimitItemDetail: detail(it.Typ, q, b)})
					cond.Status.LimitItemStatuses = append(cond.Status.LimitItemStatuses,
						proxyv1alpha1.RateLimitItemStatus{Name: schemaName(it.S), LimitItemDetail: detail(it.Typ, it.Used, 0), RequestLevel: it.Level})
					// the type the answer will carry: the upstream's
					ut := ""
					for _, sc := range schemas {
						if sc.S == it.S {
							ut = sc.Typ
						}
					}
					types = append(types, ut)
				}
				ob.Reports[k] = res
				wg.Add(1)
				ready.Add(1)
				go func(k int, r c07Report, cond *proxyv1alpha1.RateLimitCondition, types []string) {
					defer wg.Done()
					ready.Done()
					for atomic.LoadInt32(&release) == 0 {
						if nrs >= runtime.GOMAXPROCS(0) {
							runtime.Gosched()
						}
					}
					defer func() {
						if rec := recover(); rec != nil {
							ob.Reports[k].Res = "panic"
							ob.Reports[k].Ans = []c07Ans{}
						}
					}()
					out, err := rig.rl.UpdateRateLimitConditionStatus(upstreamName, cond)
					if err != nil || out == nil {
						ob.Reports[k].Res = "err"
						return
					}
					if len(out.Spec.LimitItemConfigurations) != len(r.Items) {
						panic("answer with another number of items")
					}
					nh := map[holdKey]held{}
					for j, it := range out.Spec.LimitItemConfigurations {
						if it.Name != schemaName(r.Items[j].S) {
							panic("answer items out of order")
						}
						tj := types[j]
						if overlap && r.Items[j].S == st.S {
							// answered under the new item type if the change was served first
							if _, _, ok := project(st.Typ, it.LimitItemDetail); ok {
								tj = st.Typ
							}
						}
						q, b, ok := project(tj, it.LimitItemDetail)
						if !ok {
							panic("answer item without the upstream's limit member")
						}
						ob.Reports[k].Ans = append(ob.Reports[k].Ans, c07Ans{Ok: true, Q: q, B: b})
						nh[holdKey{r.I, r.Items[j].S}] = held{tj, int32(q), int32(b)}
					}
					ob.Reports[k].Res = "ok"
					newHolds[k] = nh
				}(k, r, cond, types)
			}
			ready.Wait()
			atomic.StoreInt32(&release, 1)
			if overlap {
				done := make(chan struct{})
				go func() { wg.Wait(); close(done) }()
				select {
				case <-park.reached:
					// ... while the schema change is handled completely ...
					for k := range schemas {
						if schemas[k].S == st.S {
							schemas[k] = st.c07Schema
						}
					}
					cl = cluster(schemas)
					rig.setCluster(cl)
					must(rig.v.Handler(cl))
					// ... and then goes on
					close(park.resume)
				case <-done:
					// the report never looked the state up (refused earlier): plain sequence report; change
					atomic.StoreInt32(&park.armed, 0)
					for k := range schemas {
						if schemas[k].S == st.S {
							schemas[k] = st.c07Schema
						}
					}
					cl = cluster(schemas)
					rig.setCluster(cl)
					must(rig.v.Handler(cl))
				}
			}
			wg.Wait()
			for k, r := range st.Rs {
				if newHolds[k] != nil {
					// the instance now holds exactly what it was answered
					for key := range holds {
						if key.i == r.I {
							delete(holds, key)
						}
					}
					for key, h := range newHolds[k] {
						holds[key] = h
					}
				}
			}
		case "setschema":
			for k := range schemas {
				if schemas[k].S == st.S {
					schemas[k] = st.c07Schema
				}
			}
			cl = cluster(schemas)
			rig.setCluster(cl)
			must(rig.v.Handler(cl))
		case "remove":
			rig.v.ForgetClient(instName(st.I))
			rig.v.CleanupUnknownCondition()
			for key := range holds {
				if key.i == st.I {
					delete(holds, key)
				}
			}
		default:
			panic("unknown op " + st.Op)
		}
		// what the server has on record now, per schema
		conds, _ := rig.v.StoreConditions(0)
		up, err := rig.rl.GetUpstreamStatus(upstreamName)
		must(err)
		for _, sc := range schemas {
			so := c07SchemaObs{S: sc.S, UpLevel: before[sc.S], Max: []c07Quota{}, Bucket: []c07Quota{}}
			for _, cd := range conds {
				if cd.Spec.UpstreamCluster != upstreamName || cd.Name == upstreamName+".state" {
					continue
				}
				var id int
				if _, err := fmt.Sscanf(cd.Spec.Instance, "gw%d", &id); err != nil {
					panic("unexpected condition " + cd.Name)
				}
				for _, it := range cd.Spec.LimitItemConfigurations {
					if it.Name != schemaName(sc.S) {
						continue
					}
					if it.MaxRequestsInflight != nil {
						so.Max = append(so.Max, c07Quota{I: id, Q: int64(it.MaxRequestsInflight.Max)})
					}
					if it.TokenBucket != nil {
						so.Bucket = append(so.Bucket, c07Quota{I: id, Q: int64(it.TokenBucket.QPS), B: int64(it.TokenBucket.Burst)})
					}
				}
			}
			sort.Slice(so.Max, func(a, b int) bool { return so.Max[a].I < so.Max[b].I })
			sort.Slice(so.Bucket, func(a, b int) bool { return so.Bucket[a].I < so.Bucket[b].I })
			for _, s := range up.Status.LimitItemStatuses {
				if s.Name == schemaName(sc.S) {
					if s.MaxRequestsInflight != nil {
						so.RecMax = int64(s.MaxRequestsInflight.Max)
					}
					if s.TokenBucket != nil {
						so.RecQPS = int64(s.TokenBucket.QPS)
					}
				}
			}
			ob.Schemas = append(ob.Schemas, so)
		}
		steps = append(steps, ob)
	}
	return map[string]interface{}{"steps": steps}
}

func runC07(raw json.RawMessage) interface{} {
	var c c07Case
	must(json.Unmarshal(raw, &c))
	if c.Kind == "calc" {
		return runCalc(c)
	}
	return runHist(c)
}

func main() { runCases(runC07) }
