//go:build verif

package main

// C01 correspondence harness: runs the REAL routing code on generated
// (attributes, dispatch policies) pairs:
//   - clusters.MatchPolicies(attrs, policies)            -> index of the returned policy
//   - (*ClusterInfo).MatchAttributes(attrs) on a ClusterInfo created for the case
//   - the same question to one long-lived ClusterInfo that has been through the
//     syncs, matches and picks of every earlier case plus a decoy sync
// and reports projected observations only.

import (
	"encoding/json"
	"sort"

	metav1 "k8s.io/apimachinery/pkg/apis/meta/v1"
	"k8s.io/apiserver/pkg/authentication/user"
	"k8s.io/apiserver/pkg/authorization/authorizer"

	proxyv1alpha1 "github.com/kubewharf/kubegateway/pkg/apis/proxy/v1alpha1"
	"github.com/kubewharf/kubegateway/pkg/clusters"
)

type c01SA struct {
	NS   B `json:"ns"`
	Name B `json:"name"`
}

type c01Rule struct {
	Verbs     []B     `json:"verbs"`
	Groups    []B     `json:"groups"`
	Resources []B     `json:"resources"`
	Names     []B     `json:"names"`
	Users     []B     `json:"users"`
	SAs       []c01SA `json:"sas"`
	UGroups   []B     `json:"ugroups"`
	URLs      []B     `json:"urls"`
}

type c01Policy struct {
	Rules  []c01Rule `json:"rules"`
	Flow   B         `json:"flow"`
	Subset []B       `json:"subset"`
}

type c01Attrs struct {
	Verb     B    `json:"verb"`
	Group    B    `json:"group"`
	Resource B    `json:"resource"`
	Sub      B    `json:"sub"`
	Name     B    `json:"name"`
	Path     B    `json:"path"`
	User     B    `json:"user"`
	Groups   []B  `json:"groups"`
	IsRes    bool `json:"isres"`
}

type c01Case struct {
	Kind     string      `json:"kind"` // "" = route, "overlap" = match with a Sync fired from inside the attribute getters
	Attrs    c01Attrs    `json:"attrs"`
	Policies []c01Policy `json:"policies"`
	Servers  []string    `json:"servers"`
	New      []c01Policy `json:"new"` // overlap: the list synced during the match
	K        int         `json:"k"`   // overlap: 0 = Sync right before the call, k>=1 = inside the k-th getter call
}

type c01OverlapObs struct {
	Fired  bool  `json:"fired"`
	During c01MA `json:"during"`
	After  c01MA `json:"after"`
}

// hookedAttrs is an ordinary attribute record whose k-th getter call (counted over all
// getters of authorizer.Attributes) first runs a hook: "the controller applies a new version
// of the UpstreamCluster right now", in the goroutine that is matching the request.
type hookedAttrs struct {
	rec   authorizer.AttributesRecord
	left  int
	hook  func()
	fired bool
}

func (h *hookedAttrs) tick() {
	if h.fired || h.hook == nil {
		return
	}
	h.left--
	if h.left <= 0 {
		h.fired = true
		h.hook()
	}
}
func (h *hookedAttrs) GetUser() user.Info      { h.tick(); return h.rec.GetUser() }
func (h *hookedAttrs) GetVerb() string         { h.tick(); return h.rec.GetVerb() }
func (h *hookedAttrs) IsReadOnly() bool        { h.tick(); return h.rec.IsReadOnly() }
func (h *hookedAttrs) GetNamespace() string    { h.tick(); return h.rec.GetNamespace() }
func (h *hookedAttrs) GetResource() string     { h.tick(); return h.rec.GetResource() }
func (h *hookedAttrs) GetSubresource() string  { h.tick(); return h.rec.GetSubresource() }
func (h *hookedAttrs) GetName() string         { h.tick(); return h.rec.GetName() }
func (h *hookedAttrs) GetAPIGroup() string     { h.tick(); return h.rec.GetAPIGroup() }
func (h *hookedAttrs) GetAPIVersion() string   { h.tick(); return h.rec.GetAPIVersion() }
func (h *hookedAttrs) IsResourceRequest() bool { h.tick(); return h.rec.IsResourceRequest() }
func (h *hookedAttrs) GetPath() string         { h.tick(); return h.rec.GetPath() }

var _ authorizer.Attributes = &hookedAttrs{}

// runOverlap: real ClusterInfo synced with the old list; MatchAttributes with attributes whose
// k-th getter call runs the real Sync(new list); then a plain MatchAttributes.
func runOverlap(c c01Case) interface{} {
	rec := toAttrs(c.Attrs).(authorizer.AttributesRecord)
	ci, err := clusters.CreateClusterInfo(c01ClusterObj(c.Servers, toPolicies(c.Policies)), stubHealthCheck, "", nil)
	must(err)
	defer ci.Stop()
	newObj := c01ClusterObj(c.Servers, toPolicies(c.New))
	obs := c01OverlapObs{}
	h := &hookedAttrs{rec: rec, left: c.K, hook: func() { must(ci.Sync(newObj)) }}
	if c.K <= 0 {
		h.fired = true
		h.hook()
	}
	obs.During = ask(ci, h)
	obs.Fired = h.fired
	obs.After = ask(ci, rec)
	return obs
}

type c01MA struct {
	NoMatch bool   `json:"nomatch"`
	Picker  bool   `json:"picker"`
	Flow    B      `json:"flow"`
	Ups     []B    `json:"ups"`
	Err     string `json:"err"` // "", "nomatch", "other"
}

type c01Obs struct {
	Idx   int   `json:"idx"` // -1 = nil
	Fresh c01MA `json:"fresh"`
	Aged  c01MA `json:"aged"`
}

const c01Cluster = "c01.cluster"

var c01Aged *clusters.ClusterInfo

func strs(bs []B) []string {
	if bs == nil {
		return nil
	}
	out := make([]string, len(bs))
	for i, b := range bs {
		out[i] = b.S()
	}
	return out
}

func toRule(r c01Rule) proxyv1alpha1.DispatchPolicyRule {
	var sas []proxyv1alpha1.ServiceAccountRef
	for _, s := range r.SAs {
		sas = append(sas, proxyv1alpha1.ServiceAccountRef{Namespace: s.NS.S(), Name: s.Name.S()})
	}
	return proxyv1alpha1.DispatchPolicyRule{
		Verbs:           strs(r.Verbs),
		APIGroups:       strs(r.Groups),
		Resources:       strs(r.Resources),
		ResourceNames:   strs(r.Names),
		Users:           strs(r.Users),
		ServiceAccounts: sas,
		UserGroups:      strs(r.UGroups),
		NonResourceURLs: strs(r.URLs),
	}
}

func toPolicies(ps []c01Policy) []proxyv1alpha1.DispatchPolicy {
	out := make([]proxyv1alpha1.DispatchPolicy, 0, len(ps))
	for _, p := range ps {
		dp := proxyv1alpha1.DispatchPolicy{
			FlowControlSchemaName: p.Flow.S(),
			UpstreamSubset:        strs(p.Subset),
		}
		for _, r := range p.Rules {
			dp.Rules = append(dp.Rules, toRule(r))
		}
		out = append(out, dp)
	}
	return out
}

func toAttrs(a c01Attrs) authorizer.Attributes {
	return authorizer.AttributesRecord{
		User:            &user.DefaultInfo{Name: a.User.S(), Groups: strs(a.Groups)},
		Verb:            a.Verb.S(),
		APIGroup:        a.Group.S(),
		Resource:        a.Resource.S(),
		Subresource:     a.Sub.S(),
		Name:            a.Name.S(),
		Path:            a.Path.S(),
		ResourceRequest: a.IsRes,
	}
}

func c01ClusterObj(servers []string, policies []proxyv1alpha1.DispatchPolicy) *proxyv1alpha1.UpstreamCluster {
	c := &proxyv1alpha1.UpstreamCluster{
		ObjectMeta: metav1.ObjectMeta{Name: c01Cluster},
		Spec: proxyv1alpha1.UpstreamClusterSpec{
			ClientConfig:     proxyv1alpha1.ClientConfig{Insecure: true, BearerToken: []byte("t")},
			DispatchPolicies: policies,
		},
	}
	for _, s := range servers {
		c.Spec.Servers = append(c.Spec.Servers, proxyv1alpha1.UpstreamClusterServer{Endpoint: s})
	}
	return c
}

func stubHealthCheck(e *clusters.EndpointInfo) (done bool) {
	if !e.IsReady() {
		e.UpdateStatus(true, "", "")
	}
	return false
}

func ask(ci *clusters.ClusterInfo, attrs authorizer.Attributes) c01MA {
	picker, err := ci.MatchAttributes(attrs)
	o := c01MA{Flow: B{}, Ups: []B{}}
	if err != nil {
		if err == clusters.ErrNoRouterRuleMatches {
			o.NoMatch = true
			o.Err = "nomatch"
		} else {
			o.Err = "other"
		}
	}
	if picker != nil {
		o.Picker = true
		o.Flow = toB(picker.FlowControlName())
		ups, ok := clusters.VerifPickerUpstreams(picker)
		if !ok {
			o.Err = "other"
		}
		sort.Strings(ups)
		for _, u := range ups {
			o.Ups = append(o.Ups, toB(u))
		}
	}
	return o
}

func runC01(raw json.RawMessage) interface{} {
	var c c01Case
	must(json.Unmarshal(raw, &c))
	if c.Kind == "overlap" {
		return runOverlap(c)
	}
	attrs := toAttrs(c.Attrs)
	policies := toPolicies(c.Policies)

	obs := c01Obs{Idx: -1}
	// (a) the pure matcher
	if p := clusters.MatchPolicies(attrs, policies); p != nil {
		obs.Idx = -2 // returned something that is not an element of the list
		for i := range policies {
			if p == &policies[i] {
				obs.Idx = i
			}
		}
	}

	// (b) a ClusterInfo created for this case
	fresh, err := clusters.CreateClusterInfo(c01ClusterObj(c.Servers, toPolicies(c.Policies)), stubHealthCheck, "", nil)
	must(err)
	obs.Fresh = ask(fresh, attrs)
	fresh.Stop()

	// (c) the long-lived ClusterInfo: first an unrelated configuration (policies reversed plus a
	// catch-all, other servers), a match and a pick under it, then the configuration of this case
	decoy := toPolicies(c.Policies)
	for i, j := 0, len(decoy)-1; i < j; i, j = i+1, j-1 {
		decoy[i], decoy[j] = decoy[j], decoy[i]
	}
	decoy = append(decoy, proxyv1alpha1.DispatchPolicy{
		FlowControlSchemaName: "decoy",
		Rules: []proxyv1alpha1.DispatchPolicyRule{{
			Verbs: []string{"*"}, APIGroups: []string{"*"}, Resources: []string{"*"}, NonResourceURLs: []string{"*"}}},
	})
	decoyServers := []string{"https://10.9.9.9:6443"}
	if len(c.Servers) > 1 {
		decoyServers = append(decoyServers, c.Servers[len(c.Servers)-1])
	}
	if c01Aged == nil {
		c01Aged, err = clusters.CreateClusterInfo(c01ClusterObj(decoyServers, decoy), stubHealthCheck, "", nil)
		must(err)
	} else {
		must(c01Aged.Sync(c01ClusterObj(decoyServers, decoy)))
	}
	if picker, err := c01Aged.MatchAttributes(attrs); err == nil && picker != nil {
		_, _ = picker.Pop()
	}
	must(c01Aged.Sync(c01ClusterObj(c.Servers, toPolicies(c.Policies))))
	obs.Aged = ask(c01Aged, attrs)
	return obs
}

func main() {
	runCases(runC01)
}
