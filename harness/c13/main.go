//go:build verif

package main

import (
	"encoding/json"
	"strings"
	"time"

	metav1 "k8s.io/apimachinery/pkg/apis/meta/v1"

	proxyv1alpha1 "github.com/kubewharf/kubegateway/pkg/apis/proxy/v1alpha1"
	"github.com/kubewharf/kubegateway/pkg/ratelimiter/clientsets"
	"github.com/kubewharf/kubegateway/pkg/ratelimiter/limiter/elector"
	limitutil "github.com/kubewharf/kubegateway/pkg/ratelimiter/util"
)

type c13Op struct {
	Op    string `json:"op"`
	Shard int    `json:"shard"`
	ID    B      `json:"id"`
	U     B      `json:"u"`
	I     B      `json:"i"`
}

type c13Case struct {
	Kind string  `json:"kind"` // "hash" | "hist" | "gw"
	Gw   []gwOp  `json:"gw"`
	Name B       `json:"name"`
	N    int64   `json:"n"`
	ID   B       `json:"id"`
	Ops  []c13Op `json:"ops"`
	// Store: "" or "local" = in-memory store; "k8s" = API-backed store in periodic mode over the fake clientset
	Store string `json:"store"`
}

// racingElector delegates to the real elector; a one-shot hook runs right after GetLeaders()
// has taken its snapshot (the place where a lease loss races with rateLimiter.leaderCheck).
type racingElector struct {
	elector.LeaderElector
	afterSnapshot func()
}

func (e *racingElector) GetLeaders() map[int]proxyv1alpha1.EndpointInfo {
	m := e.LeaderElector.GetLeaders()
	if h := e.afterSnapshot; h != nil {
		e.afterSnapshot = nil
		h()
	}
	return m
}

type c13Step struct {
	LeaderBefore bool        `json:"leader_before"`
	Res          string      `json:"res"`
	NamesLeader  bool        `json:"names_leader"`
	Snap         []snapShard `json:"snap"`
	Led          []int       `json:"led"`
}

func hashSide(f func() int) (res *int64) {
	defer func() {
		if r := recover(); r != nil {
			res = nil
		}
	}()
	v := int64(f())
	return &v
}

func runC13(raw json.RawMessage) interface{} {
	var c c13Case
	must(json.Unmarshal(raw, &c))
	if c.Kind == "hash" {
		name := c.Name.S()
		srv := hashSide(func() int { return limitutil.GetShardID(name, int(c.N)) })
		gw := hashSide(func() int {
			cs := clientsets.VerifClientSets(int(c.N))
			v, err := cs.ShardIDFor(name)
			if err != nil {
				panic(err)
			}
			return v
		})
		return map[string]interface{}{"srv": srv, "gw": gw}
	}
	if c.Kind == "gw" {
		return runGw(c.Gw)
	}
	var rig *limRig
	if c.Store == "k8s" {
		rig = newLimRigWith(c.ID.S(), int(c.N), "k8s", time.Hour)
	} else {
		rig = newLimRig(c.ID.S(), int(c.N), "local")
	}
	steps := []c13Step{}
	for _, op := range c.Ops {
		st := c13Step{Res: "nil", NamesLeader: true}
		u := op.U.S()
		if op.Op == "set" || op.Op == "del" || op.Op == "update" || op.Op == "acquire" {
			sh := limitutil.GetShardID(u, rig.n)
			st.LeaderBefore = rig.v.Elector().IsLeader(sh)
		}
		var err error
		switch op.Op {
		case "newleader":
			rig.newLeader(op.Shard, op.ID.S())
		case "start":
			rig.startLeading(op.Shard)
		case "stop":
			rig.stopLeading(op.Shard)
		case "stopflaky":
			// leadership is lost during a short API outage: the first flush of the
			// shard store fails, the limiter's own retry (2 s later) succeeds
			rig.setFailWrites(true)
			go func() {
				time.Sleep(300 * time.Millisecond)
				rig.setFailWrites(false)
			}()
			rig.stopLeading(op.Shard)
		case "check":
			rig.v.LeaderCheck()
		case "checkrace":
			// leaderCheck takes its snapshot of the leader records, then the lease of op.Shard is
			// lost (record deleted, OnStoppedLeading discards the store), then leaderCheck goes on
			real := rig.v.Elector()
			sh := op.Shard
			rig.v.SetElector(&racingElector{LeaderElector: real, afterSnapshot: func() { elector.VerifStopLeading(real, sh) }})
			rig.v.LeaderCheck()
			rig.v.SetElector(real)
		case "set":
			cl := globalMaxInflightCluster(u, "s", 100)
			rig.setCluster(cl)
			err = rig.v.Handler(cl)
			if err != nil {
				st.Res = classifyLimErr(err)
			}
		case "del":
			cl := globalMaxInflightCluster(u, "s", 100)
			rig.delCluster(cl)
			err = rig.v.Handler(cl)
			if err != nil {
				st.Res = classifyLimErr(err)
			}
		case "update":
			inst := op.I.S()
			must(rig.rl.Heartbeat(inst))
			cond := &proxyv1alpha1.RateLimitCondition{
				ObjectMeta: metav1.ObjectMeta{Name: u + "." + inst},
				Spec: proxyv1alpha1.RateLimitSpec{
					UpstreamCluster: u,
					Instance:        inst,
					LimitItemConfigurations: []proxyv1alpha1.RateLimitItemConfiguration{{
						Name:     "s",
						Strategy: proxyv1alpha1.GlobalAllocateLimit,
						LimitItemDetail: proxyv1alpha1.LimitItemDetail{
							MaxRequestsInflight: &proxyv1alpha1.MaxRequestsInflightFlowControlSchema{Max: 1},
						},
					}},
				},
			}
			_, err = rig.rl.UpdateRateLimitConditionStatus(u, cond)
			st.Res = classifyLimErr(err)
		case "acquire":
			acq := &proxyv1alpha1.RateLimitAcquire{
				Spec: proxyv1alpha1.RateLimitAcquireSpec{
					Instance:  op.I.S(),
					RequestID: 1,
					Requests:  []proxyv1alpha1.RateLimitAcquireRequest{{FlowControl: "s", Tokens: 1}},
				},
			}
			_, err = rig.rl.DoAcquire(u, acq)
			st.Res = classifyLimErr(err)
		default:
			panic("unknown op " + op.Op)
		}
		if st.Res == "notleader" {
			sh := limitutil.GetShardID(u, rig.n)
			leader := rig.v.Elector().GetLeaders()[sh].Leader
			st.NamesLeader = strings.Contains(err.Error(), "leader is "+leader)
		}
		st.Snap = rig.snapshot()
		st.Led = rig.ledShards()
		steps = append(steps, st)
	}
	return map[string]interface{}{"steps": steps}
}

func main() { runCases(runC13) }
