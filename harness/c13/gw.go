//go:build verif

package main

import (
	"encoding/json"
	"net/http"
	"net/http/httptest"
	"sync"

	proxyv1alpha1 "github.com/kubewharf/kubegateway/pkg/apis/proxy/v1alpha1"
	"github.com/kubewharf/kubegateway/pkg/ratelimiter/clientsets"
)

// gateway side of C13: the real clientSets.sync is fed scripted server-info answers by an
// httptest limiter server; after every step ClientFor tells which server would be addressed.

type gwEp struct {
	Shard  int32 `json:"shard"`
	Leader B     `json:"leader"`
}

type gwOp struct {
	Op  string `json:"op"` // "sync" | "syncfail" | "client"
	N   int32  `json:"n"`
	Eps []gwEp `json:"eps"`
	U   B      `json:"u"`
}

type gwStep struct {
	Res    string `json:"res"` // "nil" | "err" | "to"
	Server B      `json:"server"`
}

func runGw(ops []gwOp) interface{} {
	var mu sync.Mutex
	var answer *proxyv1alpha1.RateLimitServerInfo
	srv := httptest.NewServer(http.HandlerFunc(func(w http.ResponseWriter, r *http.Request) {
		mu.Lock()
		a := answer
		mu.Unlock()
		if r.URL.Path != clientsets.ServerInfoUrl || a == nil {
			http.Error(w, "unavailable", http.StatusInternalServerError)
			return
		}
		w.Header().Set("Content-Type", "application/json")
		_ = json.NewEncoder(w).Encode(a)
	}))
	defer srv.Close()
	cs := clientsets.VerifClientSetsWithLookup(func() []string { return []string{srv.URL} })
	steps := []gwStep{}
	for _, op := range ops {
		st := gwStep{Res: "nil"}
		switch op.Op {
		case "sync":
			info := &proxyv1alpha1.RateLimitServerInfo{Server: srv.URL, ShardCount: op.N}
			for _, e := range op.Eps {
				info.Endpoints = append(info.Endpoints, proxyv1alpha1.EndpointInfo{ShardID: e.Shard, Leader: e.Leader.S()})
			}
			mu.Lock()
			answer = info
			mu.Unlock()
			clientsets.VerifSync(cs)
		case "syncfail":
			mu.Lock()
			answer = nil
			mu.Unlock()
			clientsets.VerifSync(cs)
		case "client":
			server, err := clientsets.VerifClientServer(cs, op.U.S())
			if err != nil {
				st.Res = "err"
			} else {
				st.Res = "to"
				st.Server = toB(server)
			}
		default:
			panic("unknown gw op " + op.Op)
		}
		steps = append(steps, st)
	}
	return map[string]interface{}{"steps": steps}
}
