//go:build verif

package main

// C19 harness: the real k8s cache store (pkg/ratelimiter/store/k8s) over the fake
// gateway clientset.  Faults are injected per object name (a queue of outcomes per
// name, consumed by successive API calls on that name); the fault itself is produced
// by a reactor prepended to the fake clientset, so the store sees exactly what the
// generated fake client returns on an error.  "crash" = the call never happens: the
// wrapper panics, the harness drops the store; a later "restart" builds a new store
// over the SAME fake clientset (same object tracker).

import (
	goruntime "runtime"

	"context"
	"encoding/json"
	"fmt"
	"sort"
	"strconv"
	"strings"
	"time"

	apierrors "k8s.io/apimachinery/pkg/api/errors"
	metav1 "k8s.io/apimachinery/pkg/apis/meta/v1"
	"k8s.io/apimachinery/pkg/labels"
	"k8s.io/apimachinery/pkg/runtime"
	clienttesting "k8s.io/client-go/testing"

	proxyv1alpha1 "github.com/kubewharf/kubegateway/pkg/apis/proxy/v1alpha1"
	gatewayclientset "github.com/kubewharf/kubegateway/pkg/client/kubernetes"
	gatewayfake "github.com/kubewharf/kubegateway/pkg/client/kubernetes/fake"
	typedv1alpha1 "github.com/kubewharf/kubegateway/pkg/client/kubernetes/typed/proxy/v1alpha1"
	"github.com/kubewharf/kubegateway/pkg/ratelimiter/limiter"
	_interface "github.com/kubewharf/kubegateway/pkg/ratelimiter/store/interface"
	k8sstore "github.com/kubewharf/kubegateway/pkg/ratelimiter/store/k8s"
)

type jCond struct {
	Name B     `json:"name"`
	Up   B     `json:"up"`
	Sv   int32 `json:"sv"`
	Tv   int32 `json:"tv"`
	Lab  int   `json:"lab"`
}

type jPlan struct {
	Name B        `json:"name"`
	Q    []string `json:"q"`
}

type jFop struct {
	Op   string `json:"op"` // save | delete | delup
	C    *jCond `json:"c,omitempty"`
	Cl   B      `json:"cl"`
	Name B      `json:"name"`
}

type jInter struct {
	Up   B      `json:"up"`
	Name B      `json:"name"`
	Ops  []jFop `json:"ops"`
}

type jOp struct {
	Op    string   `json:"op"` // save | delete | delup | flush | stop | load | restart
	C     *jCond   `json:"c,omitempty"`
	Cl    B        `json:"cl"`
	Name  B        `json:"name"`
	Plan  []jPlan  `json:"plan"`
	Inter []jInter `json:"inter"`
	O     string   `json:"o"`
	Shard int      `json:"shard"`
	WT    bool     `json:"wt"`
}

type jCase struct {
	N    int     `json:"n"`
	Init []jCond `json:"init"`
	Ops  []jOp   `json:"ops"`
}

type jKey struct {
	Up   B `json:"up"`
	Name B `json:"name"`
}

type jInterObs struct {
	Ord []B    `json:"ord"` // delete order of a delup operation
	Res string `json:"res"` // "" = never issued
}

type jAtt struct {
	Ord []jKey `json:"ord"`
	Res string `json:"res"`
}

type jStep struct {
	Atts  []jAtt        `json:"atts"` // graceful stop through the limiter: one entry per Stop() attempt
	Res   string        `json:"res"`
	IRes  []string      `json:"ires"`           // results of interleaved operations, in execution order
	Ord   []jKey        `json:"ord"`            // flush / stop: order in which items were written
	DOrd  []B           `json:"dord"`           // delup: order of the deletes
	IObs  [][]jInterObs `json:"iobs,omitempty"` // per inter entry, per op
	Api   []jCond       `json:"api"`
	Loc   []jCond       `json:"loc"`
	Calls int           `json:"calls"`
}

type crashSentinel struct{}

func toObj(c jCond) *proxyv1alpha1.RateLimitCondition {
	return &proxyv1alpha1.RateLimitCondition{
		ObjectMeta: metav1.ObjectMeta{Name: c.Name.S(), Labels: map[string]string{"l": strconv.Itoa(c.Lab)}},
		Spec: proxyv1alpha1.RateLimitSpec{
			UpstreamCluster: c.Up.S(),
			LimitItemConfigurations: []proxyv1alpha1.RateLimitItemConfiguration{{
				Name: "s",
				LimitItemDetail: proxyv1alpha1.LimitItemDetail{
					MaxRequestsInflight: &proxyv1alpha1.MaxRequestsInflightFlowControlSchema{Max: c.Sv},
				},
			}},
		},
		Status: proxyv1alpha1.RateLimitStatus{
			LimitItemStatuses: []proxyv1alpha1.RateLimitItemStatus{{Name: "s", RequestLevel: c.Tv}},
		},
	}
}

func fromObj(o *proxyv1alpha1.RateLimitCondition) jCond {
	c := jCond{Name: toB(o.Name), Up: toB(o.Spec.UpstreamCluster), Sv: -1, Tv: -1, Lab: -1}
	if len(o.Spec.LimitItemConfigurations) > 0 && o.Spec.LimitItemConfigurations[0].MaxRequestsInflight != nil {
		c.Sv = o.Spec.LimitItemConfigurations[0].MaxRequestsInflight.Max
	}
	if len(o.Status.LimitItemStatuses) > 0 {
		c.Tv = o.Status.LimitItemStatuses[0].RequestLevel
	}
	if v, ok := o.Labels["l"]; ok {
		if n, err := strconv.Atoi(v); err == nil {
			c.Lab = n
		}
	}
	return c
}

// ---------------------------------------------------------------- clientset wrapper

type rig struct {
	fake    *gatewayfake.Clientset
	n       int
	store   _interface.LimitStore
	plan    map[string][]string
	pending string // fault the reactor has to produce for the call being made
	calls   int

	inFlush   bool
	flushGoid uint64 // the goroutine that runs the flush: only its Update calls define the flush order
	crashed   bool   // a crash was injected: calls of other goroutines must not reach the API any more
	seen    map[[2]string]bool
	ord     [][2]string
	inter   map[[2]string]int // key -> index into curInter
	curOp   *jOp
	ires    []string
	iobs    [][]jInterObs
	delRec  *[]string
	waiting []chan string // interleaved operations still blocked
}

type wrapClient struct {
	gatewayclientset.Interface
	r *rig
}
type wrapProxy struct {
	typedv1alpha1.ProxyV1alpha1Interface
	r *rig
}
type wrapConds struct {
	typedv1alpha1.RateLimitConditionInterface
	r *rig
}

func (w wrapClient) ProxyV1alpha1() typedv1alpha1.ProxyV1alpha1Interface {
	return wrapProxy{w.Interface.ProxyV1alpha1(), w.r}
}
func (w wrapProxy) RateLimitConditions() typedv1alpha1.RateLimitConditionInterface {
	return wrapConds{w.ProxyV1alpha1Interface.RateLimitConditions(), w.r}
}

// goid returns the id of the calling goroutine (parsed from its stack header).
func goid() uint64 {
	buf := make([]byte, 64)
	buf = buf[:goruntime.Stack(buf, false)]
	// "goroutine 123 [running]:"
	var id uint64
	for _, c := range buf[len("goroutine "):] {
		if c < '0' || c > '9' {
			break
		}
		id = id*10 + uint64(c-'0')
	}
	return id
}

// parkedOnMutex reports whether goroutine gid is blocked in sync.Mutex.Lock (its wait reason in the
// runtime's goroutine dump).  While a flush runs, the only mutex anybody holds is the store mutex.
func parkedOnMutex(gid uint64) bool {
	buf := make([]byte, 1<<16)
	for {
		n := goruntime.Stack(buf, true)
		if n < len(buf) {
			buf = buf[:n]
			break
		}
		buf = make([]byte, 2*len(buf))
	}
	head := fmt.Sprintf("goroutine %d [", gid)
	i := strings.Index(string(buf), head)
	if i < 0 {
		return false
	}
	rest := string(buf[i+len(head):])
	return strings.HasPrefix(rest, "sync.Mutex.Lock")
}

// arm pops the next outcome for name and prepares the reactor; panics on "crash".
func (r *rig) arm(name string) {
	if r.crashed {
		// the process is dead: an operation that was waiting for the mutex never gets to the API
		panic(crashSentinel{})
	}
	r.calls++
	o := "ok"
	if q := r.plan[name]; len(q) > 0 {
		o = q[0]
		r.plan[name] = q[1:]
	}
	if o == "crash" {
		r.crashed = true
		panic(crashSentinel{})
	}
	if o == "ok" {
		r.pending = ""
	} else {
		r.pending = o
	}
}

func (w wrapConds) Update(ctx context.Context, c *proxyv1alpha1.RateLimitCondition, opts metav1.UpdateOptions) (*proxyv1alpha1.RateLimitCondition, error) {
	if c == nil {
		// Update(nil) after a failed Create: never reaches the API server
		return w.RateLimitConditionInterface.Update(ctx, c, opts)
	}
	r := w.r
	if r.inFlush && goid() == r.flushGoid {
		k := [2]string{c.Spec.UpstreamCluster, c.Name}
		if !r.seen[k] {
			r.seen[k] = true
			r.ord = append(r.ord, k)
			if idx, ok := r.inter[k]; ok {
				r.runInter(idx)
			}
		}
	}
	r.arm(c.Name)
	return w.RateLimitConditionInterface.Update(ctx, c, opts)
}
func (w wrapConds) Create(ctx context.Context, c *proxyv1alpha1.RateLimitCondition, opts metav1.CreateOptions) (*proxyv1alpha1.RateLimitCondition, error) {
	w.r.arm(c.Name)
	return w.RateLimitConditionInterface.Create(ctx, c, opts)
}
func (w wrapConds) Get(ctx context.Context, name string, opts metav1.GetOptions) (*proxyv1alpha1.RateLimitCondition, error) {
	w.r.arm(name)
	return w.RateLimitConditionInterface.Get(ctx, name, opts)
}
func (w wrapConds) Delete(ctx context.Context, name string, opts metav1.DeleteOptions) error {
	if w.r.delRec != nil {
		found := false
		for _, x := range *w.r.delRec {
			if x == name {
				found = true
			}
		}
		if !found {
			*w.r.delRec = append(*w.r.delRec, name)
		}
	}
	w.r.arm(name)
	return w.RateLimitConditionInterface.Delete(ctx, name, opts)
}
func (w wrapConds) List(ctx context.Context, opts metav1.ListOptions) (*proxyv1alpha1.RateLimitConditionList, error) {
	w.r.arm("")
	return w.RateLimitConditionInterface.List(ctx, opts)
}

func (r *rig) reactor(action clienttesting.Action) (bool, runtime.Object, error) {
	if r.pending == "" {
		return false, nil, nil
	}
	o := r.pending
	r.pending = ""
	gr := proxyv1alpha1.Resource("ratelimitconditions")
	switch o {
	case "notfound":
		if da, ok := action.(clienttesting.DeleteActionImpl); ok {
			// "somebody else deleted it first": the object is gone and the API says NotFound
			_ = r.fake.Tracker().Delete(da.GetResource(), da.GetNamespace(), da.GetName())
		}
		return true, nil, apierrors.NewNotFound(gr, "injected")
	case "conflict":
		return true, nil, apierrors.NewConflict(gr, "injected", fmt.Errorf("injected conflict"))
	case "exists":
		return true, nil, apierrors.NewAlreadyExists(gr, "injected")
	default:
		return true, nil, apierrors.NewServiceUnavailable("injected transient failure")
	}
}

// stopProxy is handed to the limiter's stopLimitStoreWithRetry instead of the store itself: it
// delegates Stop to the real store and notes, per attempt, the flush order and the outcome.
type stopProxy struct {
	_interface.LimitStore
	r    *rig
	atts []jAtt
}

func (p *stopProxy) Stop() error {
	r := p.r
	r.inFlush = true
	r.flushGoid = goid()
	r.seen = map[[2]string]bool{}
	r.ord = nil
	r.inter = map[[2]string]int{}
	err := p.LimitStore.Stop()
	r.inFlush = false
	a := jAtt{Ord: []jKey{}, Res: classify(err)}
	for _, k := range r.ord {
		a.Ord = append(a.Ord, jKey{toB(k[0]), toB(k[1])})
	}
	p.atts = append(p.atts, a)
	return err
}

// ---------------------------------------------------------------- operations

func classify(err error) string {
	if err == nil {
		return "ok"
	}
	if strings.Contains(err.Error(), "should be managed by shard") {
		return "refused"
	}
	return "err"
}

// guarded runs f and maps the crash sentinel to "crash".
func guarded(f func() error) (res string) {
	defer func() {
		if p := recover(); p != nil {
			if _, ok := p.(crashSentinel); ok {
				res = "crash"
				return
			}
			panic(p)
		}
	}()
	return classify(f())
}

func (r *rig) doFop(f jFop, rec *[]string) string {
	switch f.Op {
	case "save":
		obj := toObj(*f.C)
		return guarded(func() error { return r.store.Save(obj.Spec.UpstreamCluster, obj) })
	case "rmw":
		// read-modify-write through the store, as the limiter does with the upstream state condition:
		// Get hands out the stored object itself, it is changed in place and that same object is saved
		obj, err := r.store.Get(f.C.Up.S(), f.C.Name.S())
		if err != nil {
			obj = toObj(*f.C)
		} else {
			obj.Spec.LimitItemConfigurations[0].MaxRequestsInflight.Max = f.C.Sv
			obj.Status.LimitItemStatuses[0].RequestLevel = f.C.Tv
		}
		return guarded(func() error { return r.store.Save(obj.Spec.UpstreamCluster, obj) })
	case "delete":
		r.delRec = nil
		return guarded(func() error { return r.store.Delete(f.Cl.S(), f.Name.S()) })
	case "delup":
		r.delRec = rec
		return guarded(func() error { return r.store.DeleteUpstream(f.Cl.S()) })
	}
	panic("unknown fop " + f.Op)
}

// runInter: the operations another goroutine issues while the flush is about to write item idx.
// Each one runs in its own goroutine; the flush goroutine waits until that goroutine has either
// finished or is parked on the store mutex (observed in the runtime's goroutine dump, no timers).
func (r *rig) runInter(idx int) {
	ops := r.curOp.Inter[idx].Ops
	for j, f := range ops {
		done := make(chan string, 1)
		gidCh := make(chan uint64, 1)
		rec := &[]string{}
		f := f
		jj := j
		go func() {
			gidCh <- goid()
			res := r.doFop(f, rec)
			if f.Op == "delup" {
				names := []B{}
				for _, x := range *rec {
					names = append(names, toB(x))
				}
				r.iobs[idx][jj].Ord = names
			}
			r.iobs[idx][jj].Res = res
			done <- res
		}()
		gid := <-gidCh
		deadline := time.Now().Add(120 * time.Second)
	wait:
		for {
			select {
			case res := <-done:
				r.ires = append(r.ires, res)
				if res == "crash" {
					panic(crashSentinel{})
				}
				break wait
			default:
			}
			if parkedOnMutex(gid) {
				// blocked on the store mutex: it will run once the flush has returned
				r.waiting = append(r.waiting, done)
				break wait
			}
			if time.Now().After(deadline) {
				panic("interleaved operation neither finished nor parked")
			}
			time.Sleep(50 * time.Microsecond)
		}
	}
}

func (r *rig) flushLike(op *jOp, call func() error) (string, []string) {
	r.inFlush = true
	r.flushGoid = goid()
	r.seen = map[[2]string]bool{}
	r.ord = nil
	r.inter = map[[2]string]int{}
	r.curOp = op
	r.ires = []string{}
	r.iobs = make([][]jInterObs, len(op.Inter))
	r.waiting = nil
	for i, it := range op.Inter {
		r.inter[[2]string{it.Up.S(), it.Name.S()}] = i
		r.iobs[i] = make([]jInterObs, len(it.Ops))
		for j := range r.iobs[i] {
			r.iobs[i][j].Ord = []B{}
		}
	}
	res := guarded(call)
	r.inFlush = false
	// operations that waited for the mutex run now (after a crash they find the process dead)
	for _, ch := range r.waiting {
		x := <-ch
		if res != "crash" {
			r.ires = append(r.ires, x)
			if x == "crash" {
				res = "crash"
			}
		}
	}
	return res, r.ires
}

func (r *rig) apiSnapshot() []jCond {
	r.pending = ""
	l, err := r.fake.ProxyV1alpha1().RateLimitConditions().List(context.Background(), metav1.ListOptions{})
	must(err)
	out := []jCond{}
	for i := range l.Items {
		out = append(out, fromObj(&l.Items[i]))
	}
	sort.Slice(out, func(i, j int) bool { return out[i].Name.S() < out[j].Name.S() })
	return out
}

func (r *rig) locSnapshot() []jCond {
	out := []jCond{}
	if r.store == nil {
		return out
	}
	for _, c := range r.store.List(labels.Everything()) {
		out = append(out, fromObj(c))
	}
	sort.Slice(out, func(i, j int) bool {
		if out[i].Up.S() != out[j].Up.S() {
			return out[i].Up.S() < out[j].Up.S()
		}
		return out[i].Name.S() < out[j].Name.S()
	})
	return out
}

func runC19(raw json.RawMessage) interface{} {
	var c jCase
	must(json.Unmarshal(raw, &c))
	r := &rig{fake: gatewayfake.NewSimpleClientset(), n: c.N}
	r.fake.PrependReactor("*", "ratelimitconditions", r.reactor)
	for _, ic := range c.Init {
		_, err := r.fake.ProxyV1alpha1().RateLimitConditions().Create(context.Background(), toObj(ic), metav1.CreateOptions{})
		must(err)
	}
	client := wrapClient{r.fake, r}
	steps := []jStep{}
	for i := range c.Ops {
		op := &c.Ops[i]
		st := jStep{Res: "ok", IRes: []string{}, Ord: []jKey{}, DOrd: []B{}}
		r.plan = map[string][]string{}
		for _, p := range op.Plan {
			r.plan[p.Name.S()] = append([]string{}, p.Q...)
		}
		r.calls = 0
		r.crashed = false
		r.ord = nil
		r.pending = ""
		r.delRec = nil
		r.inFlush = false
		switch {
		case op.Op == "restart":
			period := time.Duration(0)
			if !op.WT {
				period = time.Hour
			}
			r.store = k8sstore.VerifNewStore(client, period, op.Shard, c.N)
		case r.store == nil:
			st.Res = "dead"
		case op.Op == "save" || op.Op == "rmw" || op.Op == "delete" || op.Op == "delup":
			rec := []string{}
			st.Res = r.doFop(jFop{Op: op.Op, C: op.C, Cl: op.Cl, Name: op.Name}, &rec)
			for _, x := range rec {
				st.DOrd = append(st.DOrd, toB(x))
			}
		case op.Op == "flush":
			st.Res, st.IRes = r.flushLike(op, func() error { return r.store.Flush() })
			st.IObs = r.iobs
		case op.Op == "gstop":
			// graceful stop the way the limiter does it when it loses the shard
			px := &stopProxy{LimitStore: r.store, r: r}
			limiter.VerifStopLimitStoreWithRetry(px, op.Shard)
			st.Atts = px.atts
			st.Res = "err"
			if n := len(px.atts); n > 0 && px.atts[n-1].Res == "ok" {
				st.Res = "ok"
			}
			r.ord = nil
		case op.Op == "stop":
			st.Res, st.IRes = r.flushLike(op, func() error { return r.store.Stop() })
		case op.Op == "load":
			if op.O != "" && op.O != "ok" {
				r.plan[""] = []string{op.O}
			}
			st.Res = guarded(func() error { return r.store.Load() })
		default:
			panic("unknown op " + op.Op)
		}
		if op.Op == "flush" || op.Op == "stop" {
			for _, k := range r.ord {
				st.Ord = append(st.Ord, jKey{toB(k[0]), toB(k[1])})
			}
		}
		if st.Res == "crash" {
			r.store = nil
		}
		st.Calls = r.calls
		st.Api = r.apiSnapshot()
		st.Loc = r.locSnapshot()
		steps = append(steps, st)
	}
	return map[string]interface{}{"steps": steps}
}

func main() { runCases(runC19) }
