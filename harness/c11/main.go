//go:build verif

package main

// C11 — hot reload converges.  The history runner and the fresh gateway live in
// harness/c10/rig.go (one rig for C10 and C11).

func main() { runCases(runHistory) }
