//go:build verif

package main

// C08 harness: the REAL server-side flow controls of the global-count strategy.
//   mif     : ops on one flowcontrol.NewGlobalFlowControl(GlobalMaxRequestsInflight) object
//   stress  : goroutines issuing reports/removals concurrently on one such object; DebugInfo at quiescence
//   acq     : DoAcquire through a real rateLimiter (leader of its shard, local store) whose upstream has a
//             max-in-flight schema "mi" and a token-bucket schema "tb"; the token bucket's clock is the
//             VerifNow hook of the overlay copy of tokenbucket.go (generated at check time)
//   tbconc  : scripted concurrent TryAcquireN callers on one real globalTokenBucket

import (
	"encoding/json"
	"regexp"
	"sort"
	"strconv"
	"strings"
	"sync"
	"sync/atomic"
	"time"

	metav1 "k8s.io/apimachinery/pkg/apis/meta/v1"

	proxyv1alpha1 "github.com/kubewharf/kubegateway/pkg/apis/proxy/v1alpha1"
	sflow "github.com/kubewharf/kubegateway/pkg/ratelimiter/store/flowcontrol"
)

type c08Op struct {
	Op   string `json:"op"` // mif: set | resize ; acq: acqm | acqt | remove | resizem | resizet
	I    B      `json:"i"`
	Rid  int64  `json:"rid"`
	Cur  int32  `json:"cur"`
	N    int32  `json:"n"`
	T    int64  `json:"t"`
	Q    int32  `json:"q"`
	Bu   int32  `json:"b"`
	Also *c08Op `json:"also"` // acq: a second request in the same RateLimitAcquire (not used by the model)
}

type c08Case struct {
	Kind    string    `json:"kind"`
	Max     int32     `json:"max"`
	Q       int32     `json:"q"`
	B       int32     `json:"b"`
	Ops     []c08Op   `json:"ops"`
	Threads [][]c08Op `json:"threads"`
	Evs     []concEv  `json:"evs"`
}

type instCount struct {
	I B     `json:"i"`
	C int64 `json:"c"`
}

type dbg struct {
	Count int64       `json:"count"`
	Total int64       `json:"total"`
	Max   int64       `json:"max"`
	Insts []instCount `json:"insts"`
}

type c08Step struct {
	Accept bool  `json:"accept"`
	Latest int64 `json:"latest"` // SetState's latest / DoAcquire's limit
	Err    bool  `json:"err"`
	Dbg    dbg   `json:"dbg"`
}

var dbgRe = regexp.MustCompile(`max=(-?\d+) count=(-?\d+) total=(-?\d+) details=(.*)$`)
var instRe = regexp.MustCompile(`\[([^\]]*): (-?\d+)\]`)

func parseDbg(s string) dbg {
	m := dbgRe.FindStringSubmatch(s)
	if m == nil {
		panic("cannot parse DebugInfo: " + s)
	}
	d := dbg{Insts: []instCount{}}
	d.Max, _ = strconv.ParseInt(m[1], 10, 64)
	d.Count, _ = strconv.ParseInt(m[2], 10, 64)
	d.Total, _ = strconv.ParseInt(m[3], 10, 64)
	for _, im := range instRe.FindAllStringSubmatch(m[4], -1) {
		c, _ := strconv.ParseInt(im[2], 10, 64)
		d.Insts = append(d.Insts, instCount{toB(im[1]), c})
	}
	sort.Slice(d.Insts, func(i, j int) bool { return d.Insts[i].I.S() < d.Insts[j].I.S() })
	return d
}

func mifSchema(max int32) proxyv1alpha1.FlowControlSchema {
	return proxyv1alpha1.FlowControlSchema{
		Name:     "mi",
		Strategy: proxyv1alpha1.GlobalCountLimit,
		FlowControlSchemaConfiguration: proxyv1alpha1.FlowControlSchemaConfiguration{
			GlobalMaxRequestsInflight: &proxyv1alpha1.MaxRequestsInflightFlowControlSchema{Max: max},
		},
	}
}

func gtbSchema(q, b int32) proxyv1alpha1.FlowControlSchema {
	return proxyv1alpha1.FlowControlSchema{
		Name:     "tb",
		Strategy: proxyv1alpha1.GlobalCountLimit,
		FlowControlSchemaConfiguration: proxyv1alpha1.FlowControlSchemaConfiguration{
			GlobalTokenBucket: &proxyv1alpha1.TokenBucketFlowControlSchema{QPS: q, Burst: b},
		},
	}
}

var vnow8 int64

func runC08(raw json.RawMessage) interface{} {
	var c c08Case
	must(json.Unmarshal(raw, &c))
	switch c.Kind {
	case "mif":
		fc := sflow.NewGlobalFlowControl(mifSchema(c.Max))
		steps := make([]c08Step, 0, len(c.Ops))
		for _, op := range c.Ops {
			var st c08Step
			switch op.Op {
			case "set":
				acc, latest, err := fc.SetState(op.I.S(), op.Rid, op.Cur)
				st.Accept, st.Latest = acc, int64(latest)
				if err != nil {
					if err != sflow.RequestIDTooOld {
						panic(err)
					}
					st.Err = true
				}
			case "resize":
				// the path the store takes on a changed schema
				before := fc.String()
				sflow.ResizeGlobalFlowControl(fc, mifSchema(op.N), "u")
				st.Accept = fc.String() != before
			default:
				panic("unknown op " + op.Op)
			}
			st.Dbg = parseDbg(fc.DebugInfo())
			steps = append(steps, st)
		}
		return map[string]interface{}{"steps": steps}
	case "stress":
		fc := sflow.NewGlobalFlowControl(mifSchema(c.Max))
		var wg sync.WaitGroup
		start := make(chan struct{})
		for _, th := range c.Threads {
			wg.Add(1)
			go func(ops []c08Op) {
				defer wg.Done()
				<-start
				for _, op := range ops {
					_, _, _ = fc.SetState(op.I.S(), op.Rid, op.Cur)
				}
			}(th)
		}
		close(start)
		wg.Wait()
		return map[string]interface{}{"dbg": parseDbg(fc.DebugInfo())}
	case "acq":
		return runAcq(c)
	case "tbconc":
		fc := sflow.NewGlobalFlowControl(gtbSchema(c.Q, c.B))
		out := runScripted(c.Evs, func(h func() time.Time) { sflow.VerifNow = h },
			func(n int32) bool { return fc.TryAcquireN("gw", n) })
		return map[string]interface{}{"calls": out}
	}
	panic("unknown kind " + c.Kind)
}

func acqCluster(max, q, b int32) *proxyv1alpha1.UpstreamCluster {
	return &proxyv1alpha1.UpstreamCluster{
		ObjectMeta: metav1.ObjectMeta{Name: "u"},
		Spec: proxyv1alpha1.UpstreamClusterSpec{
			FlowControl: proxyv1alpha1.FlowControl{Schemas: []proxyv1alpha1.FlowControlSchema{mifSchema(max), gtbSchema(q, b)}},
		},
	}
}

func runAcq(c c08Case) interface{} {
	sflow.VerifNow = func() time.Time { return time.Unix(0, atomic.LoadInt64(&vnow8)) }
	defer func() { sflow.VerifNow = nil }()
	rig := newLimRig("me", 1, "local")
	rig.startLeading(0)
	max, q, b := c.Max, c.Q, c.B
	cl := acqCluster(max, q, b)
	rig.setCluster(cl)
	must(rig.v.Handler(cl))
	store := rig.v.Stores()[0]
	steps := make([]c08Step, 0, len(c.Ops))
	for _, op := range c.Ops {
		var st c08Step
		switch op.Op {
		case "acqm", "acqt":
			name, tokens := "mi", op.N
			if op.Op == "acqt" {
				name = "tb"
				atomic.StoreInt64(&vnow8, op.T)
			}
			acq := &proxyv1alpha1.RateLimitAcquire{
				Spec: proxyv1alpha1.RateLimitAcquireSpec{
					Instance:  op.I.S(),
					RequestID: op.Rid,
					Requests:  []proxyv1alpha1.RateLimitAcquireRequest{{FlowControl: name, Tokens: tokens}},
				},
			}
			res, err := rig.rl.DoAcquire("u", acq)
			must(err)
			if len(res.Status.Results) != 1 {
				panic("DoAcquire: one result expected")
			}
			r := res.Status.Results[0]
			st.Accept, st.Latest = r.Accept, int64(r.Limit)
			if r.Error != "" {
				if r.Error != "RequestIDTooOld" && !strings.Contains(r.Error, "tokens cannot be negative") {
					panic("unexpected DoAcquire error: " + r.Error)
				}
				st.Err = true
			}
		case "remove":
			store.DeleteInstanceState(op.I.S())
		case "resizem":
			max = op.N
			cl = acqCluster(max, q, b)
			rig.setCluster(cl)
			must(rig.v.Handler(cl))
		case "resizet":
			q, b = op.Q, op.Bu
			cl = acqCluster(max, q, b)
			rig.setCluster(cl)
			must(rig.v.Handler(cl))
		default:
			panic("unknown op " + op.Op)
		}
		fc, err := store.GetFlowControl("u", "mi")
		must(err)
		st.Dbg = parseDbg(fc.DebugInfo())
		steps = append(steps, st)
	}
	return map[string]interface{}{"steps": steps}
}

func main() { runCases(runC08) }
