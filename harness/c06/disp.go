//go:build verif

package main

// "disp" cases: the requests go through the REAL dispatcher (pkg/gateway/proxy/dispatcher)
// of a real ClusterInfo whose dispatch policy points at a token-bucket schema; an httptest
// upstream counts what is forwarded.  Observed per request: reached the upstream?, HTTP status.

import (
	"net/http"
	"net/http/httptest"
	"sync/atomic"

	metav1 "k8s.io/apimachinery/pkg/apis/meta/v1"
	"k8s.io/apiserver/pkg/authentication/user"
	genericapirequest "k8s.io/apiserver/pkg/endpoints/request"

	proxyv1alpha1 "github.com/kubewharf/kubegateway/pkg/apis/proxy/v1alpha1"
	"github.com/kubewharf/kubegateway/pkg/clusters"
	"github.com/kubewharf/kubegateway/pkg/gateway/endpoints/request"
	"github.com/kubewharf/kubegateway/pkg/gateway/proxy/dispatcher"
)

type dispStep struct {
	Reached bool `json:"reached"`
	Status  int  `json:"status"`
}

func runDisp(c c06Case) interface{} {
	virtualClock(true)
	defer virtualClock(false)
	var hits int64
	up := httptest.NewServer(http.HandlerFunc(func(w http.ResponseWriter, r *http.Request) {
		atomic.AddInt64(&hits, 1)
		w.Header().Set("Content-Type", "application/json")
		w.WriteHeader(200)
		_, _ = w.Write([]byte(`{"kind":"PodList","apiVersion":"v1","items":[]}`))
	}))
	defer up.Close()
	const host = "c06.example.com"
	cl := &proxyv1alpha1.UpstreamCluster{
		ObjectMeta: metav1.ObjectMeta{Name: host},
		Spec: proxyv1alpha1.UpstreamClusterSpec{
			Servers:     []proxyv1alpha1.UpstreamClusterServer{{Endpoint: up.URL}},
			FlowControl: proxyv1alpha1.FlowControl{Schemas: []proxyv1alpha1.FlowControlSchema{tbSchema(c.Q, c.B)}},
			DispatchPolicies: []proxyv1alpha1.DispatchPolicy{{
				Strategy:              proxyv1alpha1.RoundRobin,
				FlowControlSchemaName: "tb",
				Rules: []proxyv1alpha1.DispatchPolicyRule{{
					Verbs: []string{"*"}, APIGroups: []string{"*"}, Resources: []string{"*"},
				}},
			}},
		},
	}
	info, err := clusters.CreateClusterInfo(cl, nil, "", nil)
	must(err)
	defer info.Stop()
	ep, ok := info.Endpoints.Load(up.URL)
	if !ok {
		panic("endpoint not registered")
	}
	ep.UpdateStatus(true, "", "")
	mgr := clusters.NewManager()
	mgr.Add(info)
	h := dispatcher.NewDispatcher(mgr, false)

	steps := make([]dispStep, 0, len(c.Ops))
	for _, op := range c.Ops {
		atomic.StoreInt64(&vnow, op.T)
		req := httptest.NewRequest("GET", "http://"+host+"/api/v1/namespaces/default/pods", nil)
		ctx := genericapirequest.WithUser(req.Context(), &user.DefaultInfo{Name: "u", Groups: []string{"system:authenticated"}})
		ctx = genericapirequest.WithRequestInfo(ctx, &genericapirequest.RequestInfo{
			IsResourceRequest: true, Path: "/api/v1/namespaces/default/pods", Verb: "list",
			APIPrefix: "api", APIVersion: "v1", Namespace: "default", Resource: "pods",
			Parts: []string{"pods"},
		})
		ctx = request.WithExtraRequestInfo(ctx, &request.ExtraRequestInfo{
			Scheme: "http", Hostname: host, UpstreamCluster: info, IsProxyRequest: true,
		})
		ctx = request.WithProxyInfo(ctx, request.NewProxyInfo())
		rec := httptest.NewRecorder()
		before := atomic.LoadInt64(&hits)
		h.ServeHTTP(rec, req.WithContext(ctx))
		steps = append(steps, dispStep{Reached: atomic.LoadInt64(&hits) > before, Status: rec.Code})
	}
	return map[string]interface{}{"steps": steps}
}
