//go:build verif

package main

// "disp" cases: the requests go through the REAL dispatcher (pkg/gateway/proxy/dispatcher) of a real
// ClusterInfo whose dispatch policy points at the token-bucket schema "tb"; the cluster has sibling
// schemas of both types and its whole spec is re-synced (ClusterInfo.Sync) in the middle of the run;
// an httptest upstream counts what is forwarded.  The limiter is looked up per request by the
// dispatcher itself (MatchAttributes -> GetFlowSchema -> GetOrDefault).
// "ulim" cases: the same on the bare upstreamLimiter (pkg/flowcontrols): Sync(spec), and
// GetOrDefault("tb").TryAcquire() per request.
// Observed per op: reached the upstream / admitted?, HTTP status, and what the lookup of "tb" returns
// afterwards (token-bucket limiter? qps / burst as printed by String()).

import (
	"context"
	"net/http"
	"net/http/httptest"
	"regexp"
	"strconv"
	"sync/atomic"

	"github.com/kubewharf/apiserver-runtime/pkg/server"
	metav1 "k8s.io/apimachinery/pkg/apis/meta/v1"
	"k8s.io/apimachinery/pkg/util/sets"
	"k8s.io/apiserver/pkg/authentication/user"
	genericapirequest "k8s.io/apiserver/pkg/endpoints/request"

	proxyv1alpha1 "github.com/kubewharf/kubegateway/pkg/apis/proxy/v1alpha1"
	"github.com/kubewharf/kubegateway/pkg/clusters"
	"github.com/kubewharf/kubegateway/pkg/flowcontrols"
	gwflow "github.com/kubewharf/kubegateway/pkg/flowcontrols/flowcontrol"
	"github.com/kubewharf/kubegateway/pkg/gateway/endpoints/request"
	"github.com/kubewharf/kubegateway/pkg/gateway/proxy/dispatcher"
)

type lookupObs struct {
	Tb bool  `json:"tb"`
	Q  int64 `json:"q"`
	B  int64 `json:"b"`
}

type dispStep struct {
	LongRunning bool      `json:"longrunning"`
	Reached     bool      `json:"reached"`
	Status      int       `json:"status"`
	Lk          lookupObs `json:"lk"`
}

var qbRe = regexp.MustCompile(`qps=(\d+),burst=(\d+)`)

func observeLookup(fc gwflow.FlowControl) lookupObs {
	o := lookupObs{}
	if fc == nil || fc.Type() != proxyv1alpha1.TokenBucket {
		return o
	}
	m := qbRe.FindStringSubmatch(fc.String())
	if m == nil {
		return o
	}
	o.Tb = true
	o.Q, _ = strconv.ParseInt(m[1], 10, 64)
	o.B, _ = strconv.ParseInt(m[2], 10, 64)
	return o
}

func fcSpec(schemas []c06Schema) proxyv1alpha1.FlowControl {
	out := proxyv1alpha1.FlowControl{}
	for _, sc := range schemas {
		s := proxyv1alpha1.FlowControlSchema{Name: sc.Name}
		switch sc.Typ {
		case "tb":
			s.TokenBucket = &proxyv1alpha1.TokenBucketFlowControlSchema{QPS: sc.Q, Burst: sc.B}
		case "mi":
			s.MaxRequestsInflight = &proxyv1alpha1.MaxRequestsInflightFlowControlSchema{Max: sc.Max}
		case "ex":
			s.Exempt = &proxyv1alpha1.ExemptFlowControlSchema{}
		default:
			panic("unknown schema type " + sc.Typ)
		}
		out.Schemas = append(out.Schemas, s)
	}
	return out
}

func runUlim(c c06Case) interface{} {
	virtualClock(true)
	defer virtualClock(false)
	ctx, cancel := context.WithCancel(context.Background())
	defer cancel()
	lim := flowcontrols.NewUpstreamLimiter(ctx, "c06.example.com", "", nil)
	lim.Sync(fcSpec(c.Spec))
	steps := make([]dispStep, 0, len(c.Ops))
	var held []gwflow.FlowControl
	defer func() {
		for _, fc := range held {
			fc.Release()
		}
	}()
	for _, op := range c.Ops {
		st := dispStep{}
		switch op.Op {
		case "try":
			atomic.StoreInt64(&vnow, op.T)
			fc := gwflow.Pin(lim.GetOrDefault("tb")) // what the dispatcher does per request
			if fc.TryAcquire() {
				st.Reached, st.Status = true, 200
				if op.Hold {
					held = append(held, fc) // overlapping requests: still in flight while the next ones arrive
				} else {
					fc.Release()
				}
			} else {
				st.Status = 429
			}
		case "sync":
			lim.Sync(fcSpec(op.Spec))
		default:
			panic("unknown op " + op.Op)
		}
		st.Lk = observeLookup(lim.GetOrDefault("tb"))
		steps = append(steps, st)
	}
	return map[string]interface{}{"steps": steps}
}

var reqInfoFactory = &genericapirequest.RequestInfoFactory{
	APIPrefixes:          sets.NewString("api", "apis"),
	GrouplessAPIPrefixes: sets.NewString("api"),
}

// requestOfKind: one request of every kind the dispatcher sees under a policy; the last four are what
// the server's long-running check (watch/proxy verbs; attach, exec, proxy, log, portforward) flags.
func requestOfKind(kind string) (string, string) {
	const pods = "/api/v1/namespaces/default/pods"
	switch kind {
	case "", "list":
		return "GET", pods
	case "get":
		return "GET", pods + "/p"
	case "create":
		return "POST", pods
	case "update":
		return "PUT", pods + "/p"
	case "delete":
		return "DELETE", pods + "/p"
	case "watch":
		return "GET", pods + "?watch=true"
	case "log":
		return "GET", pods + "/p/log"
	case "exec":
		return "POST", pods + "/p/exec?command=ls"
	case "proxy":
		return "GET", pods + "/p/proxy/healthz"
	}
	panic("unknown request kind " + kind)
}

func runDisp(c c06Case) interface{} {
	virtualClock(true)
	defer virtualClock(false)
	var hits int64
	up := httptest.NewServer(http.HandlerFunc(func(w http.ResponseWriter, r *http.Request) {
		atomic.AddInt64(&hits, 1)
		w.Header().Set("Content-Type", "application/json")
		w.WriteHeader(200)
		_, _ = w.Write([]byte(`{"kind":"PodList","apiVersion":"v1","items":[]}`))
	}))
	defer up.Close()
	const host = "c06.example.com"
	mkCluster := func(schemas []c06Schema) *proxyv1alpha1.UpstreamCluster {
		return &proxyv1alpha1.UpstreamCluster{
			ObjectMeta: metav1.ObjectMeta{Name: host},
			Spec: proxyv1alpha1.UpstreamClusterSpec{
				Servers:     []proxyv1alpha1.UpstreamClusterServer{{Endpoint: up.URL}},
				FlowControl: fcSpec(schemas),
				DispatchPolicies: []proxyv1alpha1.DispatchPolicy{{
					Strategy:              proxyv1alpha1.RoundRobin,
					FlowControlSchemaName: "tb",
					Rules: []proxyv1alpha1.DispatchPolicyRule{{
						Verbs: []string{"*"}, APIGroups: []string{"*"},
						Resources: []string{"*", "*/log", "*/exec", "*/proxy", "*/attach", "*/portforward", "*/status"},
					}},
				}},
			},
		}
	}
	info, err := clusters.CreateClusterInfo(mkCluster(c.Spec), nil, "", nil)
	must(err)
	defer info.Stop()
	ep, ok := info.Endpoints.Load(up.URL)
	if !ok {
		panic("endpoint not registered")
	}
	ep.UpdateStatus(true, "", "")
	mgr := clusters.NewManager()
	mgr.Add(info)
	h := dispatcher.NewDispatcher(mgr, false)

	steps := make([]dispStep, 0, len(c.Ops))
	for _, op := range c.Ops {
		st := dispStep{}
		switch op.Op {
		case "try":
			atomic.StoreInt64(&vnow, op.T)
			method, path := requestOfKind(op.Kind)
			req := httptest.NewRequest(method, "http://"+host+path, nil)
			// the context the gateway's filter chain builds: user, RequestInfo (the server's resolver),
			// ExtraRequestInfo with the server's long-running check, ProxyInfo
			ri, err := reqInfoFactory.NewRequestInfo(req)
			must(err)
			ctx := genericapirequest.WithUser(req.Context(), &user.DefaultInfo{Name: "u", Groups: []string{"system:authenticated"}})
			ctx = genericapirequest.WithRequestInfo(ctx, ri)
			extra, err := (&request.ExtraRequestInfoFactory{LongRunningFunc: server.DefaultLongRunningFunc}).NewExtraRequestInfo(req.WithContext(ctx))
			must(err)
			extra.IsProxyRequest = true
			extra.UpstreamCluster = info
			st.LongRunning = extra.IsLongRunningRequest
			ctx = request.WithExtraRequestInfo(ctx, extra)
			ctx = request.WithProxyInfo(ctx, request.NewProxyInfo())
			rec := httptest.NewRecorder()
			before := atomic.LoadInt64(&hits)
			h.ServeHTTP(rec, req.WithContext(ctx))
			st.Reached, st.Status = atomic.LoadInt64(&hits) > before, rec.Code
		case "sync":
			must(info.Sync(mkCluster(op.Spec)))
			if e, ok := info.Endpoints.Load(up.URL); ok {
				e.UpdateStatus(true, "", "")
			}
		default:
			panic("unknown op " + op.Op)
		}
		st.Lk = observeLookup(info.GetFlowSchema("tb"))
		steps = append(steps, st)
	}
	return map[string]interface{}{"steps": steps}
}
