//go:build verif

package main

// "conc" cases: scripted concurrent callers (harness/common/scripted.go) of TryAcquire on one real
// gateway-side token bucket; the clock hook is VerifNow of the overlay copy of client-go's throttle.go.

import (
	"time"

	cgflow "k8s.io/client-go/util/flowcontrol"

	gwflow "github.com/kubewharf/kubegateway/pkg/flowcontrols/flowcontrol"
)

func runConc(c c06Case) interface{} {
	fc := gwflow.NewFlowControl(tbSchema(c.Q, c.B))
	out := runScripted(c.Evs, func(h func() time.Time) { cgflow.VerifNow = h },
		func(int32) bool { return fc.TryAcquire() })
	return map[string]interface{}{"calls": out}
}
