//go:build verif

package main

// C06 harness: drives the REAL gateway-side token bucket
// (pkg/flowcontrols/flowcontrol.NewFlowControl -> resizeableTokenBucket ->
// client-go tokenBucketRateLimiter -> x/time/rate) under a virtual clock.
// The clock hook VerifNow lives in the overlay-replaced client-go throttle.go
// (generated at check time from the module-cache file, see lib/props/c06.py).

import (
	"encoding/json"
	"sync"
	"sync/atomic"
	"time"

	cgflow "k8s.io/client-go/util/flowcontrol"

	proxyv1alpha1 "github.com/kubewharf/kubegateway/pkg/apis/proxy/v1alpha1"
	gwflow "github.com/kubewharf/kubegateway/pkg/flowcontrols/flowcontrol"
)

type c06Schema struct {
	Name string `json:"name"`
	Typ  string `json:"typ"` // "tb" | "mi" | "ex"
	Q    int32  `json:"q"`
	B    int32  `json:"b"`
	Max  int32  `json:"max"`
}

type c06Op struct {
	Op   string      `json:"op"`   // "try" | "resize" | "sync"
	Hold bool        `json:"hold"` // ulim: the request stays in flight (released at the end of the case)
	Kind string      `json:"rk"`   // disp: kind of the request (get, list, create, update, delete, watch, log, exec, proxy)
	Spec []c06Schema `json:"spec"`
	T    int64       `json:"t"` // absolute Unix ns of the clock reading of this call
	Q    int32       `json:"q"`
	B    int32       `json:"b"`
}

type c06Case struct {
	Kind  string      `json:"kind"` // "trace" | "rt" | "rtconc" | "disp" | "ulim" | "conc"
	Spec  []c06Schema `json:"spec"`
	Q     int32       `json:"q"`
	B     int32       `json:"b"`
	Ops   []c06Op     `json:"ops"`
	Calls int         `json:"calls"`
	Evs   []concEv    `json:"evs"`
	G     int         `json:"g"`
	DurMs int         `json:"dur_ms"`
}

var vnow int64 // virtual clock, Unix ns

func tbSchema(q, b int32) proxyv1alpha1.FlowControlSchema {
	return proxyv1alpha1.FlowControlSchema{
		Name: "tb",
		FlowControlSchemaConfiguration: proxyv1alpha1.FlowControlSchemaConfiguration{
			TokenBucket: &proxyv1alpha1.TokenBucketFlowControlSchema{QPS: q, Burst: b},
		},
	}
}

func virtualClock(on bool) {
	if on {
		cgflow.VerifNow = func() time.Time { return time.Unix(0, atomic.LoadInt64(&vnow)) }
	} else {
		cgflow.VerifNow = nil
	}
}

func runC06(raw json.RawMessage) interface{} {
	var c c06Case
	must(json.Unmarshal(raw, &c))
	switch c.Kind {
	case "trace":
		virtualClock(true)
		defer virtualClock(false)
		fc := gwflow.NewFlowControl(tbSchema(c.Q, c.B))
		res := make([]bool, 0, len(c.Ops))
		for _, op := range c.Ops {
			switch op.Op {
			case "try":
				atomic.StoreInt64(&vnow, op.T)
				res = append(res, fc.TryAcquire())
			case "resize":
				res = append(res, fc.Resize(uint32(op.Q), uint32(op.B)))
			default:
				panic("unknown op " + op.Op)
			}
		}
		return map[string]interface{}{"res": res}
	case "disp":
		return runDisp(c)
	case "ulim":
		return runUlim(c)
	case "conc":
		return runConc(c)
	case "rt":
		// real clock, sequential back-to-back calls on a fresh bucket
		virtualClock(false)
		fc := gwflow.NewFlowControl(tbSchema(c.Q, c.B))
		t0 := time.Now()
		adm := 0
		for i := 0; i < c.Calls; i++ {
			if fc.TryAcquire() {
				adm++
			}
		}
		el := time.Since(t0)
		return map[string]interface{}{"admitted": adm, "elapsed_ns": int64(el)}
	case "rtconc":
		// real clock, G goroutines hammering one fresh bucket for about DurMs
		virtualClock(false)
		fc := gwflow.NewFlowControl(tbSchema(c.Q, c.B))
		var adm, calls int64
		var wg sync.WaitGroup
		t0 := time.Now()
		deadline := t0.Add(time.Duration(c.DurMs) * time.Millisecond)
		for g := 0; g < c.G; g++ {
			wg.Add(1)
			go func() {
				defer wg.Done()
				for time.Now().Before(deadline) {
					atomic.AddInt64(&calls, 1)
					if fc.TryAcquire() {
						atomic.AddInt64(&adm, 1)
					}
				}
			}()
		}
		wg.Wait()
		el := time.Since(t0)
		return map[string]interface{}{"admitted": adm, "elapsed_ns": int64(el), "many_calls": calls > int64(c.B)}
	}
	panic("unknown kind " + c.Kind)
}

func main() { runCases(runC06) }
