//go:build verif

package main

// C15 harness: removal scenarios on the real controller (delete path / endpoint removal through the
// sync handler), real manager, real proxy handler chain, stub upstreams that answer slowly.
// One scenario = clusters with endpoints, requests brought to a chosen phase of their life
// (resolved but not yet picked / waiting for the upstream's answer / streaming), one removal,
// then observation of every request, every context, probes and new requests.

import (
	"bufio"
	"context"
	"encoding/json"
	"fmt"
	"net/http"
	"os"
	"strings"
	"sync"
	"sync/atomic"
	"time"

	proxyv1alpha1 "github.com/kubewharf/kubegateway/pkg/apis/proxy/v1alpha1"
	"github.com/kubewharf/kubegateway/pkg/clusters"
)

type c15Cluster struct {
	Name    string   `json:"name"`
	Aliases []string `json:"aliases"`
	Eps     int      `json:"eps"` // number of endpoints (1..3)
	// server lists synced before the requests start: per sync the state of endpoints 0..eps-1
	// (0 = not listed, 1 = enabled, 2 = disabled:true); afterwards everything is listed enabled
	Pre [][]int `json:"pre"`
}

type c15Req struct {
	Cl    int    `json:"cl"`
	Ep    int    `json:"ep"`    // endpoint index within the cluster (policy with subset {ep}); -1: catch-all policy
	Phase string `json:"phase"` // before | connecting | streaming
	Via   int    `json:"via"`   // 0: cluster name, k>0: alias k-1
}

type c15Action struct {
	Kind string `json:"kind"` // delete | remove | none | ghost (delete ghost object number cl)
	Cl   int    `json:"cl"`
	Eps  []int  `json:"eps"` // remove: endpoints taken out of the server list
	// "drain, then remove": before the removal (requests already in flight) the endpoints of Unhealthy
	// start failing their probes, then one sync marks the endpoints of Drain disabled:true
	// remove: the new server list also contains a server whose URL cannot be turned into a client
	// ("first" / "last" position): the sync handler fails on it; the removal must happen all the same
	Bad       string `json:"bad"`
	Drain     []int `json:"drain"`
	Unhealthy []int `json:"unhealthy"`
}

// an UpstreamCluster object whose name or server names collide with an admitted cluster: the sync
// handler must reject it, and deleting it must not touch the owner of the name
type c15Ghost struct {
	Name    string   `json:"name"`
	Aliases []string `json:"aliases"`
}

type c15Case struct {
	Clusters []c15Cluster `json:"clusters"`
	Ghosts   []c15Ghost   `json:"ghosts"`
	Reqs     []c15Req     `json:"reqs"`
	Action   c15Action    `json:"action"`
	After    []c15Req     `json:"after"`
}

type reqObs struct {
	Reached  bool   `json:"reached"`  // was in the intended phase when the removal started
	Code     int    `json:"code"`     // HTTP status seen by the client (-1: transport error before a status)
	Complete bool   `json:"complete"` // status 200 and the whole body arrived
	Chunks   int    `json:"chunks"`
	EndMs    int    `json:"end_ms"`  // client side: ms between the removal and the end of the request
	Hang     bool   `json:"hang"`    // still running when the scenario gave up
	Stub     int    `json:"stub"`    // global endpoint number that answered (-1 none)
	UpSeen   bool   `json:"up_seen"` // an upstream received the request
	UpStub   int    `json:"up_stub"` // global endpoint number of the upstream that received it (-1 none)
	UpEnded  string `json:"up_ended"`
	UpMs     int    `json:"up_ms"` // upstream side: ms between the removal and the disconnect/completion
}

type epObs15 struct {
	InMap     bool `json:"inmap"`      // still in the Endpoints map of the cluster object it belonged to
	CtxDone   bool `json:"ctxdone"`    // EndpointInfo.Context() is done
	HitsDelta int  `json:"hits_delta"` // GET /healthz received after the removal although ticks fired
}

type clObs15 struct {
	Resolves []bool    `json:"resolves"` // manager.Get(name), manager.Get(alias...) still give the object of before
	CtxDone  bool      `json:"ctxdone"`  // ClusterInfo.Context() is done
	Eps      []epObs15 `json:"eps"`
	// after every sync before the scenario proper, per endpoint: [in the endpoint map,
	// context of the EndpointInfo that was in the map before that sync is done]
	Pre [][][2]bool `json:"pre"`
}

type c15Obs struct {
	Reqs     []reqObs  `json:"reqs"`
	After    []reqObs  `json:"after"`
	Clusters []clObs15 `json:"clusters"`
	ActionMs int       `json:"action_ms"`
}

var scenSeq int64

const streamChunks = 5 // chunks still sent after the harness lets a stream finish

type liveReq struct {
	spec   c15Req
	key    string
	mu     sync.Mutex
	obs    reqObs
	chunks int
	done   chan struct{}
	endAt  time.Time
}

func (c *c15Case) host(r c15Req) string {
	cl := c.Clusters[r.Cl]
	if r.Via > 0 && r.Via-1 < len(cl.Aliases) {
		return cl.Aliases[r.Via-1]
	}
	return cl.Name
}

func resFor(ep int) string {
	if ep >= 0 && ep < len(resNames) {
		return resNames[ep]
	}
	return "configmaps"
}

func runScenario(c c15Case) interface{} {
	seq := atomic.AddInt64(&scenSeq, 1)
	// upstreams: one stub per endpoint
	var all []*stubUp
	eps := make([][]*stubUp, len(c.Clusters))
	for ci, cl := range c.Clusters {
		for e := 0; e < cl.Eps; e++ {
			s := newStub(len(all))
			all = append(all, s)
			eps[ci] = append(eps[ci], s)
		}
	}
	defer func() {
		for _, s := range all {
			s.srv.CloseClientConnections()
			s.srv.Close()
		}
	}()
	g := newGwRig()
	defer g.close()
	defer g.cleanup(all, false)

	object := func(ci int, skip map[int]bool, disabled map[int]bool) *proxyv1alpha1.UpstreamCluster {
		var servers []serverSpec
		subsets := [][]string{}
		for e, s := range eps[ci] {
			if !skip[e] {
				servers = append(servers, serverSpec{URL: s.url, Disabled: disabled[e]})
			}
			subsets = append(subsets, []string{s.url})
		}
		o := clusterObject(c.Clusters[ci].Name, servers, subsets)
		o.Spec.SecureServing.ServerNames = c.Clusters[ci].Aliases
		return o
	}
	preObs := make([][][][2]bool, len(c.Clusters))
	for ci, cl := range c.Clusters {
		prevObj := make([]*clusters.EndpointInfo, len(eps[ci]))
		observe := func() {
			info, ok := g.ctrl.Manager.Get(cl.Name)
			row := make([][2]bool, len(eps[ci]))
			for e, s := range eps[ci] {
				var cur *clusters.EndpointInfo
				if ok {
					cur, _ = info.Endpoints.Load(s.url)
				}
				row[e] = [2]bool{cur != nil, prevObj[e] != nil && prevObj[e].Context().Err() != nil}
				prevObj[e] = cur
			}
			preObs[ci] = append(preObs[ci], row)
		}
		for _, states := range cl.Pre {
			var servers []serverSpec
			subsets := [][]string{}
			for e, s := range eps[ci] {
				st := 1
				if e < len(states) {
					st = states[e]
				}
				if st != 0 {
					servers = append(servers, serverSpec{URL: s.url, Disabled: st == 2})
				}
				subsets = append(subsets, []string{s.url})
			}
			o := clusterObject(cl.Name, servers, subsets)
			o.Spec.SecureServing.ServerNames = cl.Aliases
			must(g.apply(o))
			// let the probe loops that this sync started do their first probe
			info, ok := g.ctrl.Manager.Get(cl.Name)
			if !ok {
				panic("cluster not created: " + cl.Name)
			}
			waitFor(60*time.Second, "pre-history probes", func() bool {
				for e, s := range eps[ci] {
					st := 1
					if e < len(states) {
						st = states[e]
					}
					if st == 1 {
						if x, ok := info.Endpoints.Load(s.url); !ok || !x.IsReady() {
							return false
						}
					}
				}
				return true
			})
			observe()
		}
		must(g.apply(object(ci, nil, nil)))
		observe()
	}
	// ghost objects arrive after the clusters they collide with (each with an upstream of its own)
	var ghostStubs []*stubUp
	for _, gh := range c.Ghosts {
		s := newStub(1000 + len(ghostStubs))
		ghostStubs = append(ghostStubs, s)
		o := clusterObject(gh.Name, []serverSpec{{URL: s.url}}, [][]string{{s.url}})
		o.Spec.SecureServing.ServerNames = gh.Aliases
		_ = g.apply(o)
	}
	defer func() {
		g.cleanup(ghostStubs, false)
		for _, s := range ghostStubs {
			s.srv.CloseClientConnections()
			s.srv.Close()
		}
	}()
	// the objects of before the removal, and readiness
	infos := make([]*clusters.ClusterInfo, len(c.Clusters))
	einfos := make([][]*clusters.EndpointInfo, len(c.Clusters))
	for ci, cl := range c.Clusters {
		info, ok := g.ctrl.Manager.Get(cl.Name)
		if !ok {
			panic("cluster not created: " + cl.Name)
		}
		infos[ci] = info
		for _, s := range eps[ci] {
			e, ok := info.Endpoints.Load(s.url)
			if !ok {
				panic("endpoint not created")
			}
			einfos[ci] = append(einfos[ci], e)
		}
	}
	waitFor(60*time.Second, "endpoints ready", func() bool {
		for ci := range einfos {
			for _, e := range einfos[ci] {
				if !e.IsReady() {
					return false
				}
			}
		}
		return true
	})

	start := func(i int, r c15Req, after bool) *liveReq {
		lr := &liveReq{spec: r, key: fmt.Sprintf("s%d-%v-%d", seq, after, i), done: make(chan struct{})}
		lr.obs.Stub, lr.obs.Code, lr.obs.UpStub = -1, -1, -1
		path := "/api/v1/namespaces/default/" + resFor(r.Ep)
		switch r.Phase {
		case "connecting":
			path += "?gate=" + lr.key + "&sid=" + lr.key
		case "streaming":
			path += fmt.Sprintf("?watch=true&chunks=%d&sgate=%s&sid=%s", streamChunks, lr.key, lr.key)
		default:
			path += "?sid=" + lr.key
		}
		go func() {
			defer close(lr.done)
			req, err := http.NewRequestWithContext(context.Background(), "GET", g.srv.URL+path, nil)
			must(err)
			req.Host = c.host(r)
			if r.Phase == "before" {
				req.Header.Set("X-Verif-Hold", lr.key)
			}
			resp, err := g.cli.Do(req)
			if err != nil {
				lr.mu.Lock()
				lr.endAt = time.Now()
				lr.mu.Unlock()
				return
			}
			defer resp.Body.Close()
			lr.mu.Lock()
			lr.obs.Code = resp.StatusCode
			if v := resp.Header.Get("X-Stub"); v != "" {
				fmt.Sscanf(v, "%d", &lr.obs.Stub)
			}
			lr.mu.Unlock()
			sc := bufio.NewReader(resp.Body)
			n, clean, sawEnd := 0, false, false
			for {
				line, err := sc.ReadString('\n')
				if strings.HasPrefix(line, "{\"type\":\"END\"") {
					sawEnd = true
				} else if strings.HasPrefix(line, "{\"type\"") && strings.HasSuffix(line, "\n") {
					n++
					lr.mu.Lock()
					lr.chunks = n
					lr.mu.Unlock()
				}
				if err != nil {
					clean = err.Error() == "EOF"
					break
				}
			}
			lr.mu.Lock()
			lr.endAt = time.Now()
			lr.obs.Chunks = n
			if resp.StatusCode == 200 && clean {
				if r.Phase == "streaming" {
					lr.obs.Complete = sawEnd
				} else {
					lr.obs.Complete = true
				}
			}
			lr.mu.Unlock()
		}()
		return lr
	}

	// bring every request to its phase
	reqs := make([]*liveReq, len(c.Reqs))
	for i, r := range c.Reqs {
		reqs[i] = start(i, r, false)
	}
	reached := func(lr *liveReq) bool {
		switch lr.spec.Phase {
		case "before":
			return holdArrived(lr.key)
		case "connecting":
			return holdArrived("up:" + lr.key)
		default:
			lr.mu.Lock()
			defer lr.mu.Unlock()
			return lr.chunks >= 2
		}
	}
	deadline := time.Now().Add(60 * time.Second)
	for time.Now().Before(deadline) {
		ok := true
		for _, lr := range reqs {
			if !reached(lr) {
				ok = false
			}
		}
		if ok {
			break
		}
		time.Sleep(2 * time.Millisecond)
	}
	for _, lr := range reqs {
		lr.obs.Reached = reached(lr)
		select {
		case <-lr.done: // ended before the removal: it was never in the phase
			lr.obs.Reached = lr.obs.Reached && false
		default:
		}
	}

	// the removal, through the controller's sync handler
	hits0 := make([]int, len(all))
	for i, s := range all {
		hits0[i], _, _ = s.counts()
	}
	// drain: first the endpoints that shall be unhealthy fail a probe, then one sync disables the drained ones
	drainMap := map[int]bool{}
	if c.Action.Kind == "delete" || c.Action.Kind == "remove" {
		ci := c.Action.Cl
		for _, e := range c.Action.Unhealthy {
			s := eps[ci][e]
			s.mu.Lock()
			s.autoCode = 500
			s.mu.Unlock()
			for _, t := range g.tickersOf(s.url) {
				if !t.Stopped() {
					t.Fire()
				}
			}
			x := einfos[ci][e]
			waitFor(60*time.Second, "endpoint unhealthy", func() bool {
				_, healthy, _, _ := clusters.VerifEndpointFlags(x)
				return !healthy
			})
		}
		for _, e := range c.Action.Drain {
			drainMap[e] = true
		}
		if len(drainMap) > 0 {
			must(g.apply(object(ci, nil, drainMap)))
		}
	}
	for i, s := range all {
		hits0[i], _, _ = s.counts()
	}
	tA := time.Now()
	switch c.Action.Kind {
	case "delete":
		must(g.remove(c.Clusters[c.Action.Cl].Name))
	case "ghost":
		must(g.remove(c.Ghosts[c.Action.Cl].Name))
	case "remove":
		skip := map[int]bool{}
		for _, e := range c.Action.Eps {
			skip[e] = true
		}
		o := object(c.Action.Cl, skip, drainMap)
		bad := proxyv1alpha1.UpstreamClusterServer{Endpoint: "http://[::1"}
		switch c.Action.Bad {
		case "first":
			o.Spec.Servers = append([]proxyv1alpha1.UpstreamClusterServer{bad}, o.Spec.Servers...)
		case "last":
			o.Spec.Servers = append(o.Spec.Servers, bad)
		}
		_ = g.apply(o)
	}
	t0 := time.Now()
	obs := c15Obs{ActionMs: int(t0.Sub(tA) / time.Millisecond)}

	// contexts and name resolution right after the removal returned
	for ci, cl := range c.Clusters {
		co := clObs15{CtxDone: infos[ci].Context().Err() != nil}
		for _, n := range append([]string{cl.Name}, cl.Aliases...) {
			cur, ok := g.ctrl.Manager.Get(n)
			co.Resolves = append(co.Resolves, ok && cur == infos[ci])
		}
		for e, s := range eps[ci] {
			cur, ok := infos[ci].Endpoints.Load(s.url)
			co.Eps = append(co.Eps, epObs15{InMap: ok && cur == einfos[ci][e], CtxDone: einfos[ci][e].Context().Err() != nil})
		}
		co.Pre = preObs[ci]
		obs.Clusters = append(obs.Clusters, co)
	}

	// give the cancellation its (generous) time, then let held requests and silent upstreams go on
	stubOf := func(lr *liveReq) int {
		for si, s := range all {
			if _, ok := s.stream(lr.key); ok {
				return si
			}
		}
		return -1
	}
	flat := []*clusters.EndpointInfo{}
	for ci := range einfos {
		flat = append(flat, einfos[ci]...)
	}
	for time.Since(t0) < 20*time.Second {
		waiting := false
		for _, lr := range reqs {
			if si := stubOf(lr); si >= 0 && flat[si].Context().Err() != nil {
				select {
				case <-lr.done:
				default:
					waiting = true // forwarded to an endpoint whose context is done, and still running
				}
			}
		}
		if !waiting && time.Since(t0) >= 50*time.Millisecond {
			break
		}
		time.Sleep(time.Millisecond)
	}
	for _, lr := range reqs {
		holdRelease(lr.key)
		select {
		case <-lr.done:
			// already over for the client: its upstream must notice the disconnect by itself
		default:
			holdRelease("up:" + lr.key)
		}
	}
	defer func() {
		for _, lr := range reqs {
			holdRelease("up:" + lr.key)
		}
	}()
	// new requests after the removal
	after := make([]*liveReq, len(c.After))
	for i, r := range c.After {
		r.Phase = "plain"
		after[i] = start(i, r, true)
	}
	// ticks: surviving endpoints keep being probed, removed ones are not probed any more
	for i, s := range all {
		hits0[i], _, _ = s.counts()
	}
	for _, s := range all {
		for _, t := range g.tickersOf(s.url) {
			if !t.Stopped() {
				t.Fire()
			}
		}
	}
	// wait (generously) until every endpoint whose context is still alive has been probed; endpoints
	// whose context is done get at least 200 ms to show a probe that must not come
	tickStart := time.Now()
	for time.Since(tickStart) < 30*time.Second {
		pending := false
		k := 0
		for ci := range einfos {
			for _, e := range einfos[ci] {
				if h, _, _ := all[k].counts(); h <= hits0[k] && e.Context().Err() == nil && !e.IstDisabled() {
					pending = true
				}
				k++
			}
		}
		if !pending && time.Since(tickStart) >= 200*time.Millisecond {
			break
		}
		time.Sleep(2 * time.Millisecond)
	}
	k := 0
	for ci := range c.Clusters {
		for e := range eps[ci] {
			h, _, _ := all[k].counts()
			obs.Clusters[ci].Eps[e].HitsDelta = h - hits0[k]
			k++
		}
	}

	// wait for the end of every request (streams last 1 s; everything beyond 60 s is a hang)
	finish := func(list []*liveReq) []reqObs {
		out := []reqObs{}
		for _, lr := range list {
			select {
			case <-lr.done:
			case <-time.After(time.Until(t0.Add(60 * time.Second))):
				lr.mu.Lock()
				lr.obs.Hang = true
				lr.mu.Unlock()
			}
			lr.mu.Lock()
			o := lr.obs
			if !lr.endAt.IsZero() {
				o.EndMs = int(lr.endAt.Sub(t0) / time.Millisecond)
			}
			o.Chunks = lr.chunks
			lr.mu.Unlock()
			for si, s := range all {
				rec, ok := s.stream(lr.key)
				// the upstream notices a disconnect asynchronously (its connection reader): give it the same bound
				for w := time.Now().Add(20 * time.Second); ok && rec.ended == "" && time.Now().Before(w); {
					time.Sleep(time.Millisecond)
					rec, ok = s.stream(lr.key)
				}
				if ok {
					o.UpSeen = true
					o.UpStub = si
					o.UpEnded = rec.ended
					if !rec.endedAt.IsZero() {
						o.UpMs = int(rec.endedAt.Sub(t0) / time.Millisecond)
					}
				}
			}
			out = append(out, o)
		}
		return out
	}
	obs.Reqs = finish(reqs)
	obs.After = finish(after)
	return obs
}

func waitFor(d time.Duration, what string, f func() bool) {
	deadline := time.Now().Add(d)
	for !f() {
		if time.Now().After(deadline) {
			panic("timeout waiting for " + what)
		}
		time.Sleep(2 * time.Millisecond)
	}
}

func main() {
	_ = os.Setenv("no_proxy", "*")
	quietLogs()
	var in input
	dec := json.NewDecoder(os.Stdin)
	if err := dec.Decode(&in); err != nil {
		fmt.Fprintln(os.Stderr, "decode stdin:", err)
		os.Exit(2)
	}
	out := make([]interface{}, len(in.Cases))
	sem := make(chan struct{}, 12)
	var wg sync.WaitGroup
	for i, raw := range in.Cases {
		wg.Add(1)
		sem <- struct{}{}
		go func(i int, raw json.RawMessage) {
			defer wg.Done()
			defer func() { <-sem }()
			out[i] = safely(func(raw json.RawMessage) interface{} {
				var c c15Case
				must(json.Unmarshal(raw, &c))
				return runScenario(c)
			}, raw)
		}(i, raw)
	}
	wg.Wait()
	if err := json.NewEncoder(os.Stdout).Encode(map[string]interface{}{"obs": out}); err != nil {
		fmt.Fprintln(os.Stderr, "encode:", err)
		os.Exit(2)
	}
}
