//go:build verif

package main

// C17 correspondence harness: for a list of dispatch rules (one dispatch policy
// per rule) and a list of requests it runs the REAL code:
//   - normalizeRules (exported by name) once and twice on every rule,
//   - the admission plugin's Admit() on an UpstreamCluster carrying the rules
//     (once, and once more on the admitted object),
//   - clusters.RuleMatches / clusters.MatchPolicies for every request against the
//     submitted and the admitted rules.

import (
	"context"
	"encoding/json"

	metav1 "k8s.io/apimachinery/pkg/apis/meta/v1"
	"k8s.io/apimachinery/pkg/runtime"
	"k8s.io/apiserver/pkg/admission"
	"k8s.io/apiserver/pkg/authentication/user"
	"k8s.io/apiserver/pkg/authorization/authorizer"

	proxyv1alpha1 "github.com/kubewharf/kubegateway/pkg/apis/proxy/v1alpha1"
	"github.com/kubewharf/kubegateway/pkg/clusters"
	upstreamclusteradmission "github.com/kubewharf/kubegateway/plugin/admission/upstreamcluster"
)

type c17SA struct {
	NS   B `json:"ns"`
	Name B `json:"name"`
}

type c17Rule struct {
	Verbs     []B     `json:"verbs"`
	Groups    []B     `json:"groups"`
	Resources []B     `json:"resources"`
	Names     []B     `json:"names"`
	Users     []B     `json:"users"`
	SAs       []c17SA `json:"sas"`
	UGroups   []B     `json:"ugroups"`
	URLs      []B     `json:"urls"`
}

type c17Attrs struct {
	Verb     B    `json:"verb"`
	Group    B    `json:"group"`
	Resource B    `json:"resource"`
	Sub      B    `json:"sub"`
	Name     B    `json:"name"`
	Path     B    `json:"path"`
	User     B    `json:"user"`
	Groups   []B  `json:"groups"`
	IsRes    bool `json:"isres"`
}

type c17Case struct {
	Rules    []c17Rule  `json:"rules"`
	Requests []c17Attrs `json:"requests"`
}

type c17Obs struct {
	Norm        []c17Rule `json:"norm"`
	Norm2       []c17Rule `json:"norm2"`
	Admit       []c17Rule `json:"admit"`
	Admit2      []c17Rule `json:"admit2"`
	Before      [][]bool  `json:"before"`
	After       [][]bool  `json:"after"`
	FirstBefore []int     `json:"first_before"` // -1 = nil
	FirstAfter  []int     `json:"first_after"`
	DeepEqual   bool      `json:"deep_equal"` // reflect-level: admitted twice == admitted once (nil vs empty included)
}

func strs(bs []B) []string {
	if bs == nil {
		return nil
	}
	out := make([]string, len(bs))
	for i, b := range bs {
		out[i] = b.S()
	}
	return out
}

func bsl(ss []string) []B {
	out := make([]B, 0, len(ss))
	for _, s := range ss {
		out = append(out, toB(s))
	}
	return out
}

func toRule(r c17Rule) proxyv1alpha1.DispatchPolicyRule {
	var sas []proxyv1alpha1.ServiceAccountRef
	for _, s := range r.SAs {
		sas = append(sas, proxyv1alpha1.ServiceAccountRef{Namespace: s.NS.S(), Name: s.Name.S()})
	}
	return proxyv1alpha1.DispatchPolicyRule{
		Verbs:           strs(r.Verbs),
		APIGroups:       strs(r.Groups),
		Resources:       strs(r.Resources),
		ResourceNames:   strs(r.Names),
		Users:           strs(r.Users),
		ServiceAccounts: sas,
		UserGroups:      strs(r.UGroups),
		NonResourceURLs: strs(r.URLs),
	}
}

func fromRule(r proxyv1alpha1.DispatchPolicyRule) c17Rule {
	sas := []c17SA{}
	for _, s := range r.ServiceAccounts {
		sas = append(sas, c17SA{NS: toB(s.Namespace), Name: toB(s.Name)})
	}
	return c17Rule{
		Verbs: bsl(r.Verbs), Groups: bsl(r.APIGroups), Resources: bsl(r.Resources), Names: bsl(r.ResourceNames),
		Users: bsl(r.Users), SAs: sas, UGroups: bsl(r.UserGroups), URLs: bsl(r.NonResourceURLs),
	}
}

func toAttrs(a c17Attrs) authorizer.Attributes {
	return authorizer.AttributesRecord{
		User:            &user.DefaultInfo{Name: a.User.S(), Groups: strs(a.Groups)},
		Verb:            a.Verb.S(),
		APIGroup:        a.Group.S(),
		Resource:        a.Resource.S(),
		Subresource:     a.Sub.S(),
		Name:            a.Name.S(),
		Path:            a.Path.S(),
		ResourceRequest: a.IsRes,
	}
}

var (
	c17Scheme = runtime.NewScheme()
	c17Plugin admission.MutationInterface
	c17Ifaces admission.ObjectInterfaces
)

func c17Init() {
	must(proxyv1alpha1.AddToScheme(c17Scheme))
	p, ok := upstreamclusteradmission.NewUpstreamClusterPlugin().(admission.MutationInterface)
	if !ok {
		panic("upstream cluster plugin is not a mutating admission plugin")
	}
	c17Plugin = p
	c17Ifaces = admission.NewObjectInterfacesFromScheme(c17Scheme)
}

func admit(obj *proxyv1alpha1.UpstreamCluster) {
	gvk := proxyv1alpha1.SchemeGroupVersion.WithKind("UpstreamCluster")
	gvr := proxyv1alpha1.SchemeGroupVersion.WithResource("upstreamclusters")
	attrs := admission.NewAttributesRecord(obj, nil, gvk, "", obj.Name, gvr, "", admission.Create,
		&metav1.CreateOptions{}, false, &user.DefaultInfo{Name: "admin"})
	must(c17Plugin.Admit(context.Background(), attrs, c17Ifaces))
}

func clusterOf(rules []proxyv1alpha1.DispatchPolicyRule) *proxyv1alpha1.UpstreamCluster {
	c := &proxyv1alpha1.UpstreamCluster{ObjectMeta: metav1.ObjectMeta{Name: "c17.cluster"}}
	for _, r := range rules {
		c.Spec.DispatchPolicies = append(c.Spec.DispatchPolicies,
			proxyv1alpha1.DispatchPolicy{Rules: []proxyv1alpha1.DispatchPolicyRule{r}})
	}
	return c
}

func firstIdx(attrs authorizer.Attributes, ps []proxyv1alpha1.DispatchPolicy) int {
	p := clusters.MatchPolicies(attrs, ps)
	if p == nil {
		return -1
	}
	for i := range ps {
		if p == &ps[i] {
			return i
		}
	}
	return -2
}

func runC17(raw json.RawMessage) interface{} {
	var c c17Case
	must(json.Unmarshal(raw, &c))
	obs := c17Obs{Norm: []c17Rule{}, Norm2: []c17Rule{}, Admit: []c17Rule{}, Admit2: []c17Rule{},
		Before: [][]bool{}, After: [][]bool{}, FirstBefore: []int{}, FirstAfter: []int{}}

	submitted := make([]proxyv1alpha1.DispatchPolicyRule, 0, len(c.Rules))
	fresh := func() []proxyv1alpha1.DispatchPolicyRule { // a private copy: normalisation may alias slices
		out := make([]proxyv1alpha1.DispatchPolicyRule, 0, len(c.Rules))
		for _, r := range c.Rules {
			out = append(out, toRule(r))
		}
		return out
	}
	submitted = fresh()
	for _, r := range fresh() {
		n1 := upstreamclusteradmission.VerifNormalizeRules(r)
		obs.Norm = append(obs.Norm, fromRule(n1))
		obs.Norm2 = append(obs.Norm2, fromRule(upstreamclusteradmission.VerifNormalizeRules(n1)))
	}

	// through the plugin
	obj := clusterOf(fresh())
	admit(obj)
	once := obj.DeepCopy()
	for _, p := range obj.Spec.DispatchPolicies {
		for _, r := range p.Rules {
			obs.Admit = append(obs.Admit, fromRule(r))
		}
	}
	again := obj.DeepCopy()
	admit(again)
	for _, p := range again.Spec.DispatchPolicies {
		for _, r := range p.Rules {
			obs.Admit2 = append(obs.Admit2, fromRule(r))
		}
	}
	obs.DeepEqual = jsonEqual(once.Spec.DispatchPolicies, again.Spec.DispatchPolicies)

	subPolicies := clusterOf(submitted).Spec.DispatchPolicies
	reqs := make([]authorizer.Attributes, 0, len(c.Requests))
	for _, a := range c.Requests {
		reqs = append(reqs, toAttrs(a))
	}
	for i := range submitted {
		row := []bool{}
		for _, a := range reqs {
			row = append(row, clusters.RuleMatches(a, &submitted[i]))
		}
		obs.Before = append(obs.Before, row)
	}
	for i := range obj.Spec.DispatchPolicies {
		for j := range obj.Spec.DispatchPolicies[i].Rules {
			row := []bool{}
			for _, a := range reqs {
				row = append(row, clusters.RuleMatches(a, &obj.Spec.DispatchPolicies[i].Rules[j]))
			}
			obs.After = append(obs.After, row)
		}
	}
	for _, a := range reqs {
		obs.FirstBefore = append(obs.FirstBefore, firstIdx(a, subPolicies))
		obs.FirstAfter = append(obs.FirstAfter, firstIdx(a, obj.Spec.DispatchPolicies))
	}
	return obs
}

// what a client would read back: the serialised form of the policies
func jsonEqual(a, b []proxyv1alpha1.DispatchPolicy) bool {
	x, err := json.Marshal(a)
	must(err)
	y, err := json.Marshal(b)
	must(err)
	return string(x) == string(y)
}

func main() {
	c17Init()
	runCases(runC17)
}
