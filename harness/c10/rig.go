//go:build verif

package main

// Rig shared by the C10 and C11 harness binaries: the REAL UpstreamClusterController
// (real clusters.Manager, real ClusterInfo.Sync, real admission plugin, real
// WithUpstreamInfo filter, real WrapGetConfigForClient / SNIVerifyOptions) driven by
// an API-level history.  One indexer plays the API store: it backs both the
// admission plugin's lister and the controller's lister.
//
//   apply obj   : admission (Validate) against the store; if admitted (or forced):
//                 store the object and deliver it to syncUpstreamCluster
//   delete name : remove from the store and deliver the last stored object
//   retry k     : deliver again the object that op k delivered (requeue / stale retry)
//
// After every op the resolution of every probe host is observed; at the end the
// per-cluster views, and the views of a second FRESH controller that only ever
// received the latest objects.

import (
	"bytes"
	"context"
	"crypto/ecdsa"
	"crypto/elliptic"
	"crypto/rand"
	"crypto/tls"
	"crypto/x509"
	"crypto/x509/pkix"
	"encoding/json"
	"encoding/pem"
	"fmt"
	"math/big"
	"net/http"
	"net/http/httptest"
	"sort"
	"sync"
	"strconv"
	"strings"
	"time"

	metav1 "k8s.io/apimachinery/pkg/apis/meta/v1"
	"k8s.io/apiserver/pkg/admission"
	"k8s.io/apiserver/pkg/authentication/user"
	"k8s.io/apiserver/pkg/authorization/authorizer"
	apirequest "k8s.io/apiserver/pkg/endpoints/request"
	"k8s.io/client-go/tools/cache"
	"k8s.io/component-base/featuregate"

	proxyv1alpha1 "github.com/kubewharf/kubegateway/pkg/apis/proxy/v1alpha1"
	clientscheme "github.com/kubewharf/kubegateway/pkg/client/kubernetes/scheme"
	proxylisters "github.com/kubewharf/kubegateway/pkg/client/listers/proxy/v1alpha1"
	"github.com/kubewharf/kubegateway/pkg/clusters"
	"github.com/kubewharf/kubegateway/pkg/clusters/features"
	"github.com/kubewharf/kubegateway/pkg/gateway/controllers"
	"github.com/kubewharf/kubegateway/pkg/gateway/endpoints/filters"
	gwflowcontrol "github.com/kubewharf/kubegateway/pkg/flowcontrols/flowcontrol"
	"github.com/kubewharf/kubegateway/pkg/flowcontrols/remote"
	proxyoptions "github.com/kubewharf/kubegateway/pkg/gateway/proxy/options"
	"github.com/kubewharf/kubegateway/pkg/syncqueue"
	gwrequest "github.com/kubewharf/kubegateway/pkg/gateway/endpoints/request"
	upstreamclusteradmission "github.com/kubewharf/kubegateway/plugin/admission/upstreamcluster"
)

// ------------------------------------------------------------------ TLS material (once per process)

const nMat = 3

type material struct {
	certPEM, keyPEM [][]byte // index 1..nMat
	certDER         [][]byte
	caPEM           [][]byte
	caSubject       [][]byte
}

var mat *material

func genCert(cn string, isCA bool) (certPEM, keyPEM, der, subj []byte) {
	key, err := ecdsa.GenerateKey(elliptic.P256(), rand.Reader)
	must(err)
	tmpl := &x509.Certificate{
		SerialNumber:          big.NewInt(int64(len(cn)) + 7),
		Subject:               pkix.Name{CommonName: cn},
		NotBefore:             time.Unix(1600000000, 0),
		NotAfter:              time.Unix(4000000000, 0),
		KeyUsage:              x509.KeyUsageDigitalSignature | x509.KeyUsageCertSign,
		BasicConstraintsValid: true,
		IsCA:                  isCA,
		DNSNames:              []string{cn},
	}
	der, err = x509.CreateCertificate(rand.Reader, tmpl, tmpl, &key.PublicKey, key)
	must(err)
	kb, err := x509.MarshalECPrivateKey(key)
	must(err)
	c, err := x509.ParseCertificate(der)
	must(err)
	return pem.EncodeToMemory(&pem.Block{Type: "CERTIFICATE", Bytes: der}),
		pem.EncodeToMemory(&pem.Block{Type: "EC PRIVATE KEY", Bytes: kb}), der, c.RawSubject
}

func initMaterial() {
	if mat != nil {
		return
	}
	m := &material{certPEM: make([][]byte, nMat+1), keyPEM: make([][]byte, nMat+1), certDER: make([][]byte, nMat+1),
		caPEM: make([][]byte, nMat+1), caSubject: make([][]byte, nMat+1)}
	for i := 1; i <= nMat; i++ {
		m.certPEM[i], m.keyPEM[i], m.certDER[i], _ = genCert(fmt.Sprintf("cert-%d", i), false)
		m.caPEM[i], _, _, m.caSubject[i] = genCert(fmt.Sprintf("ca-%d", i), true)
	}
	mat = m
}

func certID(cs []tls.Certificate) int {
	if len(cs) == 0 {
		return 0
	}
	if len(cs) > 1 || len(cs[0].Certificate) == 0 {
		return -2
	}
	for i := 1; i <= nMat; i++ {
		if bytes.Equal(cs[0].Certificate[0], mat.certDER[i]) {
			return i
		}
	}
	return -1
}

func poolID(p *x509.CertPool) int {
	if p == nil {
		return 0
	}
	subs := p.Subjects() //nolint:staticcheck // pools built from PEM only
	if len(subs) != 1 {
		return -2
	}
	for i := 1; i <= nMat; i++ {
		if bytes.Equal(subs[0], mat.caSubject[i]) {
			return i
		}
	}
	return -1
}

// ------------------------------------------------------------------ case format

type jSchema struct {
	Name   B   `json:"name"`
	Kind   int `json:"kind"` // 0 exempt, 1 max-in-flight, 2 token bucket
	A      int `json:"a"`    // max | qps
	Bb     int `json:"b"`    // burst
	Strat  int `json:"strat"`
	Global int `json:"global"` // 0 none; >0: global counterpart with limit a+global (valid)
}

type jEP struct {
	E   int `json:"e"`   // index into the endpoint universe; <0: an endpoint the data plane cannot create
	Dis int `json:"dis"` // 0 nil, 1 false, 2 true
}

type jPolicy struct {
	Verbs  []string `json:"verbs"`
	FC     B        `json:"fc"`
	Subset []int    `json:"subset"`
	Log    int      `json:"log"` // 0 "", 1 on, 2 off
}

type jObj struct {
	Name   B         `json:"name"`
	Ann    int       `json:"ann"`   // how "no gates" is spelt: 0 nil map, 1 empty map, 2 other key only, 3 empty value
	Gates  [][2]int  `json:"gates"` // (gate index 0..3 | 4 = unknown gate, 0/1)
	FC     []jSchema `json:"fc"`
	SN     []B       `json:"sn"`
	Cert   int       `json:"cert"`
	Key    int       `json:"key"`
	CA     int       `json:"ca"` // 0 none, 1..3, -1 garbage PEM
	EPs    []jEP     `json:"eps"`
	Pol    []jPolicy `json:"pol"`
	Log    int       `json:"log"`
	Client int       `json:"client"` // 0 insecure+token; 1 insecure+token+CA (passes validation? rejected by client-go); 2 token+CA
}

type jOp struct {
	Op    string `json:"op"` // apply | delete | retry
	Force bool   `json:"force"`
	Obj   *jObj  `json:"obj"`
	Name  B      `json:"name"`
	K     int    `json:"k"`
	Tomb  bool   `json:"tomb"` // delete: the event is a cache.DeletedFinalStateUnknown tombstone
}

type jCase struct {
	Hosts    []B   `json:"hosts"`
	Ops      []jOp `json:"ops"`
	Clusters []B   `json:"clusters"` // names whose views are reported
	Schemas  []B   `json:"schemas"`  // schema-name universe for the views
	Fresh    []int `json:"fresh"`    // order in which the fresh gateway receives the latest objects (permutation prefix)
	Views    bool  `json:"views"`
	NoSteps  bool  `json:"nosteps"` // C11: no per-step host probes
	XP       [][2]B `json:"xp"`     // C10: requests with Host = [0] arriving on a TLS connection whose SNI was [1]
	Via      int    `json:"via"`    // 0: events call syncUpstreamCluster directly; 1: through the real event handler + queue
	Mid      bool   `json:"mid"`    // C10: probe all hosts after every single manager mutation of a delivery
	Burst    []jObj `json:"burst"`  // C10: these objects are stored and enqueued AT ONCE while the real Run() is running
}

var gateNames = []string{"CloseConnectionWhenIdle", "DenyAllRequests", "GlobalRateLimiter", "Tracing", "NoSuchGate"}
var gateKeys = []string{string(features.CloseConnectionWhenIdle), string(features.DenyAllRequests),
	string(features.GlobalRateLimiter), string(features.Tracing)}
var logModes = []proxyv1alpha1.LogMode{"", proxyv1alpha1.LogOn, proxyv1alpha1.LogOff}
var strategies = []proxyv1alpha1.LimitStrategy{"", proxyv1alpha1.LocalLimit, proxyv1alpha1.GlobalAllocateLimit, proxyv1alpha1.GlobalCountLimit}
var probeVerbs = []string{"get", "list", "create", "delete"}

func endpointURL(e int) string {
	if e < 0 {
		return "https://%zz"
	}
	return "https://127.0.0.1:" + strconv.Itoa(e+1)
}

func endpointIndex(u string) int {
	if !strings.HasPrefix(u, "https://127.0.0.1:") {
		return -1
	}
	n, err := strconv.Atoi(strings.TrimPrefix(u, "https://127.0.0.1:"))
	if err != nil {
		return -1
	}
	return n - 1
}

func buildObj(o *jObj) *proxyv1alpha1.UpstreamCluster {
	initMaterial()
	c := &proxyv1alpha1.UpstreamCluster{ObjectMeta: metav1.ObjectMeta{Name: o.Name.S()}}
	if len(o.Gates) > 0 {
		parts := []string{}
		for _, g := range o.Gates {
			parts = append(parts, gateNames[g[0]]+"="+strconv.FormatBool(g[1] != 0))
		}
		c.Annotations = map[string]string{features.FeatureGateAnnotationKey: strings.Join(parts, ",")}
	} else {
		switch o.Ann {
		case 1:
			c.Annotations = map[string]string{}
		case 2:
			c.Annotations = map[string]string{"other": "x"}
		case 3:
			c.Annotations = map[string]string{features.FeatureGateAnnotationKey: ""}
		}
	}
	for _, s := range o.FC {
		fs := proxyv1alpha1.FlowControlSchema{Name: s.Name.S(), Strategy: strategies[s.Strat]}
		switch s.Kind {
		case 0:
			fs.Exempt = &proxyv1alpha1.ExemptFlowControlSchema{}
		case 1:
			fs.MaxRequestsInflight = &proxyv1alpha1.MaxRequestsInflightFlowControlSchema{Max: int32(s.A)}
			if s.Global > 0 {
				fs.GlobalMaxRequestsInflight = &proxyv1alpha1.MaxRequestsInflightFlowControlSchema{Max: int32(s.A + s.Global)}
			}
		case 2:
			fs.TokenBucket = &proxyv1alpha1.TokenBucketFlowControlSchema{QPS: int32(s.A), Burst: int32(s.Bb)}
			if s.Global > 0 {
				fs.GlobalTokenBucket = &proxyv1alpha1.TokenBucketFlowControlSchema{QPS: int32(s.A + s.Global), Burst: int32(s.Bb + s.Global)}
			}
		}
		c.Spec.FlowControl.Schemas = append(c.Spec.FlowControl.Schemas, fs)
	}
	for _, n := range o.SN {
		c.Spec.SecureServing.ServerNames = append(c.Spec.SecureServing.ServerNames, n.S())
	}
	if o.Cert > 0 {
		c.Spec.SecureServing.CertData = mat.certPEM[o.Cert]
	}
	if o.Key > 0 {
		c.Spec.SecureServing.KeyData = mat.keyPEM[o.Key]
	}
	if o.CA > 0 {
		c.Spec.SecureServing.ClientCAData = mat.caPEM[o.CA]
	} else if o.CA < 0 {
		c.Spec.SecureServing.ClientCAData = []byte("-----BEGIN CERTIFICATE-----\nAAAA\n-----END CERTIFICATE-----\n")
	}
	for _, e := range o.EPs {
		s := proxyv1alpha1.UpstreamClusterServer{Endpoint: endpointURL(e.E)}
		if e.Dis > 0 {
			b := e.Dis == 2
			s.Disabled = &b
		}
		c.Spec.Servers = append(c.Spec.Servers, s)
	}
	for _, p := range o.Pol {
		dp := proxyv1alpha1.DispatchPolicy{Strategy: proxyv1alpha1.RoundRobin, FlowControlSchemaName: p.FC.S(), LogMode: logModes[p.Log]}
		for _, e := range p.Subset {
			dp.UpstreamSubset = append(dp.UpstreamSubset, endpointURL(e))
		}
		dp.Rules = []proxyv1alpha1.DispatchPolicyRule{{
			Verbs: p.Verbs, APIGroups: []string{"*"}, Resources: []string{"*"}, NonResourceURLs: []string{"*"},
		}}
		c.Spec.DispatchPolicies = append(c.Spec.DispatchPolicies, dp)
	}
	c.Spec.Logging.Mode = logModes[o.Log]
	c.Spec.ClientConfig = proxyv1alpha1.ClientConfig{Insecure: true, BearerToken: []byte("t")}
	switch o.Client {
	case 1:
		c.Spec.ClientConfig.CAData = mat.caPEM[1]
	case 2:
		c.Spec.ClientConfig.Insecure = false
		c.Spec.ClientConfig.CAData = mat.caPEM[1]
	}
	return c
}

// ------------------------------------------------------------------ gateway under test

// fakeInformer gives the REAL constructor NewUpstreamClusterController what it asks of an informer: it keeps the
// event handler the constructor registers (the real queue.ResourceEventHandler), reports "synced", and is
// backed by the indexer that plays the API store.
type fakeInformer struct {
	cache.SharedIndexInformer
	handlers []cache.ResourceEventHandler
	idx      cache.Indexer
}

func (f *fakeInformer) AddEventHandler(h cache.ResourceEventHandler) { f.handlers = append(f.handlers, h) }
func (f *fakeInformer) HasSynced() bool                               { return true }
func (f *fakeInformer) GetIndexer() cache.Indexer                     { return f.idx }
func (f *fakeInformer) GetStore() cache.Store                         { return f.idx }

type fakeUCInformer struct {
	inf *fakeInformer
	l   proxylisters.UpstreamClusterLister
}

func (f *fakeUCInformer) Informer() cache.SharedIndexInformer          { return f.inf }
func (f *fakeUCInformer) Lister() proxylisters.UpstreamClusterLister { return f.l }

// probingManager wraps the controller's real clusters.Manager: after every single mutation of the manager
// (inside one syncUpstreamCluster call) it lets the harness run its resolution probes.
type probingManager struct {
	clusters.Manager
	after func()
}

func (p *probingManager) Add(c *clusters.ClusterInfo)                   { p.Manager.Add(c); p.after() }
func (p *probingManager) AddWithKey(k string, c *clusters.ClusterInfo) { p.Manager.AddWithKey(k, c); p.after() }
func (p *probingManager) Delete(k string)                              { p.Manager.Delete(k); p.after() }
func (p *probingManager) DeleteWithStop(k string)                      { p.Manager.DeleteWithStop(k); p.after() }
func (p *probingManager) DeleteAll()                                   { p.Manager.DeleteAll(); p.after() }

type syncCall struct {
	obj interface{}
	res string
}

type gateway struct {
	indexer cache.Indexer
	lister  proxylisters.UpstreamClusterLister
	ctl     *controllers.UpstreamClusterController
	queue   *syncqueue.SyncQueue
	handler cache.ResourceEventHandler // what the real constructor registered on the informer
	plugin  admission.ValidationInterface
	fplugin admission.ValidationInterface // same real plugin over an EMPTY store: field validation only
	calls   []syncCall                    // results of the sync handler, as the queue saw them
	midOn   bool
	midHosts []B
	mid     [][]hostObs
}

func resString(res syncqueue.Result, err error) string {
	switch {
	case err != nil:
		return "err"
	case res.RequeueAfter > 0 || res.Requeue:
		return "requeue"
	}
	return "ok"
}

func newGateway() *gateway {
	idx := cache.NewIndexer(cache.MetaNamespaceKeyFunc, cache.Indexers{cache.NamespaceIndex: cache.MetaNamespaceIndexFunc})
	l := proxylisters.NewUpstreamClusterLister(idx)
	inf := &fakeInformer{idx: idx}
	g := &gateway{indexer: idx, lister: l,
		plugin: upstreamclusteradmission.VerifNewPlugin(l),
		fplugin: upstreamclusteradmission.VerifNewPlugin(proxylisters.NewUpstreamClusterLister(
			cache.NewIndexer(cache.MetaNamespaceKeyFunc, cache.Indexers{cache.NamespaceIndex: cache.MetaNamespaceIndexFunc})))}
	// the REAL constructor: real queue, real event handler registration, real manager
	g.ctl = controllers.NewUpstreamClusterController(&fakeUCInformer{inf: inf, l: l}, &proxyoptions.RateLimiterOptions{})
	if len(inf.handlers) != 1 {
		panic(fmt.Sprintf("constructor registered %d event handlers", len(inf.handlers)))
	}
	g.handler = inf.handlers[0]
	g.ctl.Manager = &probingManager{Manager: g.ctl.Manager, after: func() {
		if g.midOn {
			obs := []hostObs{}
			for _, h := range g.midHosts {
				obs = append(obs, g.resolve(h.S()))
			}
			g.mid = append(g.mid, obs)
		}
	}}
	g.queue = g.ctl.VerifQueue()
	g.queue.VerifWrapHandler(func(h syncqueue.SyncHandler) syncqueue.SyncHandler {
		return func(obj interface{}) (syncqueue.Result, error) {
			res, err := h(obj)
			g.calls = append(g.calls, syncCall{obj: obj, res: resString(res, err)})
			return res, err
		}
	})
	return g
}

func (g *gateway) stop() {
	g.midOn = false
	g.ctl.DeleteAll()
	g.queue.ShutDown()
}

func (g *gateway) admit(obj *proxyv1alpha1.UpstreamCluster) bool {
	op := admission.Create
	if _, exists, _ := g.indexer.GetByKey(obj.Name); exists {
		op = admission.Update
	}
	attrs := admission.NewAttributesRecord(obj, nil, proxyv1alpha1.SchemeGroupVersion.WithKind("UpstreamCluster"), "", obj.Name,
		proxyv1alpha1.SchemeGroupVersion.WithResource("upstreamclusters"), "", op, &metav1.CreateOptions{}, false, nil)
	return g.plugin.Validate(context.TODO(), attrs, nil) == nil
}

// fieldValid: the verdict of the real admission plugin when no other object is stored
func (g *gateway) fieldValid(obj *proxyv1alpha1.UpstreamCluster) bool {
	attrs := admission.NewAttributesRecord(obj, nil, proxyv1alpha1.SchemeGroupVersion.WithKind("UpstreamCluster"), "", obj.Name,
		proxyv1alpha1.SchemeGroupVersion.WithResource("upstreamclusters"), "", admission.Create, &metav1.CreateOptions{}, false, nil)
	return g.fplugin.Validate(context.TODO(), attrs, nil) == nil
}

// deliver hands one event to the gateway.  via == 0: syncUpstreamCluster is called directly.  via == 1: the event
// goes to the REAL event handler the constructor registered (queue.ResourceEventHandler), then the real worker
// step runs until the queue is empty; "none" = the handler did not enqueue anything (the event was dropped).
//   kind: add | update | delete | tomb (deletion seen by a relist: cache.DeletedFinalStateUnknown) | retry
func (g *gateway) deliver(obj, old *proxyv1alpha1.UpstreamCluster, kind string, via int) string {
	if via == 0 {
		res, err := g.ctl.VerifSync(obj)
		return resString(res, err)
	}
	g.calls = nil
	switch kind {
	case "add":
		g.handler.OnAdd(obj)
	case "update":
		g.handler.OnUpdate(old, obj)
	case "delete":
		g.handler.OnDelete(obj)
	case "tomb":
		g.handler.OnDelete(cache.DeletedFinalStateUnknown{Key: obj.Name, Obj: obj})
	case "retry":
		g.queue.Enqueue(obj) // what a requeue / resync does: the same object is put on the queue again
	}
	for g.queue.Queue().Len() > 0 {
		g.queue.VerifProcessNext()
	}
	res := "none"
	for _, c := range g.calls {
		if c.obj == interface{}(obj) {
			res = c.res
		}
	}
	return res
}

type hostObs struct {
	C       string `json:"c"`       // lower-case cluster name serving the request, "" if none
	Stopped bool   `json:"stopped"` // that ClusterInfo was already stopped
	Code    int    `json:"code"`    // 0 handler reached, else the status written by the filter
	TC      string `json:"tc"`      // cluster the manager returns for the SNI host
	Cert    int    `json:"cert"`    // TLS handshake: serving certificate id (0 = gateway default)
	CA      int    `json:"ca"`      // TLS handshake: client CA pool id (0 = gateway default)
	ReqCert bool   `json:"reqcert"` // ClientAuth == RequestClientCert
	VOK     bool   `json:"vok"`     // SNIVerifyOptions found options
	VCA     int    `json:"vca"`     // their root pool id
}

var longRunning = func(r *http.Request, ri *apirequest.RequestInfo) bool { return false }

// request path: real ExtraRequestInfoFactory + real WithUpstreamInfo filter; tlsState (may be nil) is the
// connection state of the TLS connection the request arrived on
func (g *gateway) request(host string, tlsState *tls.ConnectionState) (c string, stopped bool, code int) {
	req := httptest.NewRequest("GET", "/api/v1/pods", nil)
	req.Host = host
	req.TLS = tlsState
	req = req.WithContext(apirequest.WithRequestInfo(req.Context(), &apirequest.RequestInfo{IsResourceRequest: true, Verb: "get", Resource: "pods", Path: "/api/v1/pods"}))
	info, err := (&gwrequest.ExtraRequestInfoFactory{LongRunningFunc: longRunning}).NewExtraRequestInfo(req)
	must(err)
	req = req.WithContext(gwrequest.WithExtraRequestInfo(req.Context(), info))
	reached := false
	h := filters.WithUpstreamInfo(http.HandlerFunc(func(w http.ResponseWriter, r *http.Request) { reached = true }), g.ctl, clientscheme.Codecs)
	rec := httptest.NewRecorder()
	h.ServeHTTP(rec, req)
	if !reached {
		code = rec.Code
	}
	if info.UpstreamCluster != nil {
		c = info.UpstreamCluster.Cluster
		stopped = info.UpstreamCluster.Context().Err() != nil
	}
	return
}

func (g *gateway) resolve(host string) hostObs {
	o := hostObs{}
	o.C, o.Stopped, o.Code = g.request(host, nil)
	// the handshake path: SNI carries the host without port
	sni := host
	if i := strings.LastIndex(sni, ":"); i >= 0 && !strings.Contains(sni, "]") {
		sni = sni[:i]
	}
	if len(sni) > 0 {
		base := &tls.Config{}
		get := g.ctl.WrapGetConfigForClient(func(*tls.ClientHelloInfo) (*tls.Config, error) { return base, nil })
		cfg, err := get(&tls.ClientHelloInfo{ServerName: sni})
		must(err)
		o.Cert = certID(cfg.Certificates)
		o.CA = poolID(cfg.ClientCAs)
		o.ReqCert = cfg.ClientAuth == tls.RequestClientCert
		if ci, ok := g.ctl.Get(sni); ok {
			o.TC = ci.Cluster
		}
	}
	vo, ok := g.ctl.SNIVerifyOptions(host)
	o.VOK = ok
	if ok {
		o.VCA = poolID(vo.Roots)
	}
	return o
}

// ------------------------------------------------------------------ views (C11)

type epObs struct {
	E        int  `json:"e"`
	Disabled bool `json:"disabled"`
	Ready    bool `json:"ready"`
}

type fcObs struct {
	Name B   `json:"name"`
	Kind int `json:"kind"` // 0 exempt, 1 max-in-flight, 2 token bucket, -1 unparsed
	A    int `json:"a"`
	Bb   int `json:"b"`
}

type probeObs struct {
	OK     bool  `json:"ok"`
	FCName B     `json:"fcname"`
	FC     fcObs `json:"fc"`
	Ups    []int `json:"ups"`
	Log    bool  `json:"log"`
}

type viewObs struct {
	Present bool       `json:"present"`
	Stopped bool       `json:"stopped"`
	EPs     []epObs    `json:"eps"`
	FCs     []fcObs    `json:"fcs"`
	Enf     []fcObs    `json:"enf"` // per schema name: what the limiter ENFORCES (not what it reports)
	Gates   []bool     `json:"gates"`
	Probes  []probeObs `json:"probes"`
	Names   []B        `json:"names"`
	TLSOK   bool       `json:"tlsok"`
	Cert    int        `json:"cert"`
	CA      int        `json:"ca"`
	VOK     bool       `json:"vok"`
	VCA     int        `json:"vca"`
	Keys    []B        `json:"keys"` // probe hosts (as given) that the manager maps to this very ClusterInfo
}

func parseFC(s string) fcObs {
	// name=%v,type=%v,size=%v | name=%v,type=%v,qps=%v,burst=%v
	o := fcObs{Kind: -1}
	kv := map[string]string{}
	for _, p := range strings.Split(s, ",") {
		a := strings.SplitN(p, "=", 2)
		if len(a) == 2 {
			kv[a[0]] = a[1]
		}
	}
	o.Name = toB(kv["name"])
	switch kv["type"] {
	case string(proxyv1alpha1.Exempt):
		o.Kind = 0
		o.A, _ = strconv.Atoi(kv["size"])
	case string(proxyv1alpha1.MaxRequestsInflight):
		o.Kind = 1
		o.A, _ = strconv.Atoi(kv["size"])
	case string(proxyv1alpha1.TokenBucket):
		o.Kind = 2
		o.A, _ = strconv.Atoi(kv["qps"])
		o.Bb, _ = strconv.Atoi(kv["burst"])
	}
	return o
}

func (g *gateway) view(name string, schemas []B, hosts []B) viewObs {
	v := viewObs{EPs: []epObs{}, FCs: []fcObs{}, Gates: []bool{}, Probes: []probeObs{}, Names: []B{}, Keys: []B{}}
	ci, ok := g.ctl.Get(name)
	if !ok {
		return v
	}
	v.Present = true
	v.Stopped = ci.Context().Err() != nil
	for _, e := range ci.AllEndpoints() {
		info, ok := ci.Endpoints.Load(e)
		if !ok {
			continue
		}
		v.EPs = append(v.EPs, epObs{E: endpointIndex(e), Disabled: info.IstDisabled(), Ready: info.IsReady()})
	}
	sort.Slice(v.EPs, func(i, j int) bool { return v.EPs[i].E < v.EPs[j].E })
	v.Enf = []fcObs{}
	for _, s := range schemas {
		fc := ci.GetFlowSchema(s.S())
		v.FCs = append(v.FCs, parseFC(fc.String()))
		k, a, b := gwflowcontrol.VerifEnforced(remote.VerifC11Inner(fc))
		v.Enf = append(v.Enf, fcObs{Name: s, Kind: k, A: int(a), Bb: int(b)})
	}
	for _, k := range gateKeys {
		v.Gates = append(v.Gates, ci.FeatureEnabled(featuregate.Feature(k)))
	}
	for _, verb := range probeVerbs {
		attr := authorizer.AttributesRecord{User: &user.DefaultInfo{Name: "u", Groups: []string{"g"}}, Verb: verb,
			Resource: "pods", ResourceRequest: true, Path: "/api/v1/pods"}
		p := probeObs{Ups: []int{}}
		picker, err := ci.MatchAttributes(attr)
		if err == nil {
			p.OK = true
			p.FCName = toB(picker.FlowControlName())
			p.FC = parseFC(picker.FlowControl().String())
			p.Log = picker.EnableLog()
			for _, u := range clusters.VerifPickerUpstreams(picker) {
				p.Ups = append(p.Ups, endpointIndex(u))
			}
			sort.Ints(p.Ups)
		}
		v.Probes = append(v.Probes, p)
	}
	for _, n := range ci.LoadServerNames() {
		v.Names = append(v.Names, toB(n))
	}
	if cfg, ok := ci.LoadTLSConfig(); ok {
		v.TLSOK = true
		v.Cert = certID(cfg.Certificates)
		v.CA = poolID(cfg.ClientCAs)
	}
	if vo, ok := ci.LoadVerifyOptions(); ok {
		v.VOK = true
		v.VCA = poolID(vo.Roots)
	}
	for _, h := range hosts {
		if c2, ok := g.ctl.Get(h.S()); ok && c2 == ci {
			v.Keys = append(v.Keys, h)
		}
	}
	return v
}

// ------------------------------------------------------------------ running a history

type xObs struct {
	C    string `json:"c"`    // cluster that served the request ("" = none)
	Code int    `json:"code"` // 0 handler reached, else the status written by the filter
}

type stepObs struct {
	Valid     bool      `json:"valid"`     // apply: the real admission plugin accepted the object
	FValid    bool      `json:"fvalid"`    // apply: it would accept the object if nothing else were stored
	Delivered bool      `json:"delivered"` // an event reached syncUpstreamCluster
	Res       string    `json:"res"`       // ok | requeue | err | none
	Hosts     []hostObs `json:"hosts"`
	X         []xObs    `json:"x"`
	Mid       [][]hostObs `json:"mid"` // probes after every manager mutation during the delivery
}

type histObs struct {
	Steps    []stepObs `json:"steps"`
	Hot      []viewObs `json:"hot"`
	Fresh    []viewObs `json:"fresh"`
	FreshRes []string  `json:"fresh_res"` // per latest object, in the order given to the fresh gateway
	Latest   []B       `json:"latest"`    // names in the store at the end, in fresh delivery order
}

// burstObs: what happened when several events were in the queue at once under the REAL Run()
type burstObs struct {
	MaxC    int       `json:"maxc"`    // largest number of sync handler executions in progress at the same time
	Order   []B       `json:"order"`   // names in the order the handler executions started
	Res     []string  `json:"res"`     // their results, same order
	Handled int       `json:"handled"` // executions that finished
	Hosts   []hostObs `json:"hosts"`   // resolution probes afterwards
}

// runBurst starts the real controller's Run (real constructor, real queue, real worker start), stores all objects,
// hands all their add events to the real event handler at once, and holds the first sync handler execution at a
// gate for up to 300 ms to see whether a second one starts meanwhile.  A late second start can only make this
// observation miss concurrency, never invent it.
func runBurst(c jCase) interface{} {
	g := newGateway()
	var mu sync.Mutex
	inProg, maxC, handled := 0, 0, 0
	order := []B{}
	results := map[int]string{}
	gate := make(chan struct{})
	g.queue.VerifWrapHandler(func(h syncqueue.SyncHandler) syncqueue.SyncHandler {
		return func(obj interface{}) (syncqueue.Result, error) {
			mu.Lock()
			inProg++
			if inProg > maxC {
				maxC = inProg
			}
			idx := len(order)
			name := ""
			if uc, ok := obj.(*proxyv1alpha1.UpstreamCluster); ok {
				name = uc.Name
			}
			order = append(order, toB(name))
			mu.Unlock()
			<-gate
			res, err := h(obj)
			mu.Lock()
			results[idx] = resString(res, err)
			inProg--
			handled++
			mu.Unlock()
			return res, err
		}
	})
	objs := []*proxyv1alpha1.UpstreamCluster{}
	for i := range c.Burst {
		o := buildObj(&c.Burst[i])
		objs = append(objs, o)
		must(g.indexer.Add(o))
	}
	stopCh := make(chan struct{})
	done := make(chan struct{})
	go func() { g.ctl.Run(stopCh); close(done) }()
	for _, o := range objs {
		g.handler.OnAdd(o)
	}
	deadline := time.Now().Add(300 * time.Millisecond)
	for time.Now().Before(deadline) {
		mu.Lock()
		m := maxC
		mu.Unlock()
		if m >= 2 {
			break
		}
		time.Sleep(2 * time.Millisecond)
	}
	close(gate)
	finish := time.Now().Add(10 * time.Second)
	for time.Now().Before(finish) {
		mu.Lock()
		n := handled
		mu.Unlock()
		if n >= len(objs) {
			break
		}
		time.Sleep(2 * time.Millisecond)
	}
	close(stopCh) // Run shuts the queue down itself
	<-done
	out := burstObs{Order: order, Res: []string{}, Hosts: []hostObs{}}
	mu.Lock()
	out.MaxC, out.Handled = maxC, handled
	for i := range order {
		out.Res = append(out.Res, results[i])
	}
	mu.Unlock()
	for _, h := range c.Hosts {
		out.Hosts = append(out.Hosts, g.resolve(h.S()))
	}
	g.midOn = false
	g.ctl.DeleteAll()
	return out
}

func runHistory(raw json.RawMessage) interface{} {
	var c jCase
	must(json.Unmarshal(raw, &c))
	initMaterial()
	if len(c.Burst) > 0 {
		return runBurst(c)
	}
	g := newGateway()
	defer g.stop()
	out := histObs{Steps: []stepObs{}, Hot: []viewObs{}, Fresh: []viewObs{}, FreshRes: []string{}, Latest: []B{}}
	delivered := make([]*proxyv1alpha1.UpstreamCluster, len(c.Ops))
	for i, op := range c.Ops {
		st := stepObs{Res: "none", Hosts: []hostObs{}, X: []xObs{}, Mid: [][]hostObs{}}
		g.mid = nil
		g.midHosts = c.Hosts
		g.midOn = c.Mid && !c.NoSteps
		switch op.Op {
		case "apply":
			obj := buildObj(op.Obj)
			st.Valid = g.admit(obj)
			st.FValid = g.fieldValid(obj)
			if st.Valid || op.Force {
				var old *proxyv1alpha1.UpstreamCluster
				kind := "add"
				if item, exists, _ := g.indexer.GetByKey(obj.Name); exists {
					old = item.(*proxyv1alpha1.UpstreamCluster)
					kind = "update"
				}
				must(g.indexer.Add(obj))
				delivered[i] = obj
				st.Delivered = true
				st.Res = g.deliver(obj, old, kind, c.Via)
			}
		case "delete":
			item, exists, err := g.indexer.GetByKey(op.Name.S())
			must(err)
			if exists {
				obj := item.(*proxyv1alpha1.UpstreamCluster)
				must(g.indexer.Delete(obj))
				delivered[i] = obj
				st.Delivered = true
				kind := "delete"
				if op.Tomb {
					kind = "tomb"
				}
				st.Res = g.deliver(obj, nil, kind, c.Via)
			}
		case "retry":
			if op.K >= 0 && op.K < i && delivered[op.K] != nil {
				delivered[i] = delivered[op.K]
				st.Delivered = true
				st.Res = g.deliver(delivered[op.K], nil, "retry", c.Via)
			}
		default:
			panic("unknown op " + op.Op)
		}
		g.midOn = false
		if g.mid != nil {
			st.Mid = g.mid
		}
		if !c.NoSteps {
			for _, h := range c.Hosts {
				st.Hosts = append(st.Hosts, g.resolve(h.S()))
			}
			for _, x := range c.XP {
				cl, _, code := g.request(x[0].S(), &tls.ConnectionState{ServerName: x[1].S(), HandshakeComplete: true})
				st.X = append(st.X, xObs{C: cl, Code: code})
			}
		}
		out.Steps = append(out.Steps, st)
	}
	if c.Views {
		for _, n := range c.Clusters {
			out.Hot = append(out.Hot, g.view(n.S(), c.Schemas, c.Hosts))
		}
		// fresh gateway: only the latest objects, in the requested order
		latest := g.indexer.List()
		sort.Slice(latest, func(i, j int) bool {
			return latest[i].(*proxyv1alpha1.UpstreamCluster).Name < latest[j].(*proxyv1alpha1.UpstreamCluster).Name
		})
		ordered := []interface{}{}
		for _, k := range c.Fresh {
			if len(latest) == 0 {
				break
			}
			k = k % len(latest)
			ordered = append(ordered, latest[k])
			latest = append(latest[:k:k], latest[k+1:]...)
		}
		ordered = append(ordered, latest...)
		f := newGateway()
		defer f.stop()
		for _, it := range ordered {
			must(f.indexer.Add(it))
		}
		for _, it := range ordered {
			obj := it.(*proxyv1alpha1.UpstreamCluster)
			out.Latest = append(out.Latest, toB(obj.Name))
			out.FreshRes = append(out.FreshRes, f.deliver(obj, nil, "add", c.Via))
		}
		for _, n := range c.Clusters {
			out.Fresh = append(out.Fresh, f.view(n.S(), c.Schemas, c.Hosts))
		}
	}
	return out
}
