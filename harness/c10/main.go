//go:build verif

package main

// C10 — tenant resolution.  See rig.go for the history runner.

func main() { runCases(runHistory) }
