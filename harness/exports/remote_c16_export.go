//go:build verif

package remote

// Add-only export for the C16 correspondence harness: the middle step of
// reconcile.reconcile() (the other two are named by the C09 export file).

import proxyv1alpha1 "github.com/kubewharf/kubegateway/pkg/apis/proxy/v1alpha1"

func VerifC16BuildConditions(r Reconcile) *proxyv1alpha1.RateLimitCondition {
	return r.(*reconcile).buildLimitConditions()
}
