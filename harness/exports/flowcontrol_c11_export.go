//go:build verif

package flowcontrol

// Add-only export for the C11 correspondence harness: what a limiter ENFORCES, as opposed to
// what it reports (String / QPS / Burst / MaxInflight read bookkeeping fields).
//   token bucket : rate and burst of the client-go limiter that TryAcquire really consults
//                  (tokenBucketRateLimiter.limiter is a *rate.Limiter; read, never modified)
//   max-in-flight: the number of TryAcquire the idle bucket admits before it refuses
//                  (all slots are released again)
//   exempt       : nothing is enforced

import (
	"reflect"
	"unsafe"

	"golang.org/x/time/rate"

	proxyv1alpha1 "github.com/kubewharf/kubegateway/pkg/apis/proxy/v1alpha1"
)

// VerifEnforced returns (kind, a, b): kind 0 exempt, 1 max-in-flight (a = slots), 2 token bucket
// (a = qps, b = burst), -1 unknown.
func VerifEnforced(fc FlowControl) (int, int64, int64) {
	switch f := fc.(type) {
	case *resizeableTokenBucket:
		f.mu.Lock()
		defer f.mu.Unlock()
		qps := int64(f.rateLimiter.QPS())
		v := reflect.ValueOf(f.rateLimiter)
		if v.Kind() == reflect.Ptr && v.Elem().Kind() == reflect.Struct {
			lf := v.Elem().FieldByName("limiter")
			if lf.IsValid() && lf.Kind() == reflect.Ptr && !lf.IsNil() {
				l := (*rate.Limiter)(unsafe.Pointer(lf.Pointer()))
				return 2, int64(l.Limit()), int64(l.Burst())
			}
		}
		return 2, qps, -1
	case *flowControl:
		if f.typ != proxyv1alpha1.MaxRequestsInflight {
			return 0, 0, 0
		}
		n := int64(0)
		for n < 100000 && f.TokenBucket.TryAcquire() {
			n++
		}
		for i := int64(0); i < n; i++ {
			f.TokenBucket.Release()
		}
		return 1, n, 0
	}
	return -1, 0, 0
}
