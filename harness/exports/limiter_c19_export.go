//go:build verif

package limiter

import _interface "github.com/kubewharf/kubegateway/pkg/ratelimiter/store/interface"

// VerifStopLimitStoreWithRetry is the shut-down path of stopLeading (and of the error path of
// startLeading): the store has been taken out of limitStoreMap and is stopped with the limiter's retry.
func VerifStopLimitStoreWithRetry(s _interface.LimitStore, shard int) { stopLimitStoreWithRetry(s, shard) }
