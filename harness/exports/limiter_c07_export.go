//go:build verif

package limiter

import _interface "github.com/kubewharf/kubegateway/pkg/ratelimiter/store/interface"

// Add-only accessor for the C07 harness: forget an instance in the client cache
// (what cleanupTimeoutClient does when a heartbeat times out), so that the real
// cleanupUnknownCondition removes its conditions synchronously.
func (v VerifLimiter) ForgetClient(instance string) { v.R.clientCache.Delete(instance) }

// WrapStore puts a wrapper around the limit store of a shard (the harness uses it to hold one
// lookup of the upstream state condition, i.e. to park a report between that lookup and the
// per-upstream mutex; every call is passed on to the real store).
func (v VerifLimiter) WrapStore(shard int, wrap func(_interface.LimitStore) _interface.LimitStore) {
	v.R.limitStoreLock.Lock()
	defer v.R.limitStoreLock.Unlock()
	if s, ok := v.R.limitStoreMap[shard]; ok {
		v.R.limitStoreMap[shard] = wrap(s)
	}
}
