//go:build verif

package limiter

// Add-only accessor for the C07 harness: forget an instance in the client cache
// (what cleanupTimeoutClient does when a heartbeat times out), so that the real
// cleanupUnknownCondition removes its conditions synchronously.
func (v VerifLimiter) ForgetClient(instance string) { v.R.clientCache.Delete(instance) }
