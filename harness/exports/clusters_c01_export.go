//go:build verif

package clusters

// Add-only export for the C01 correspondence harness: names the unexported
// upstream list of the picker returned by ClusterInfo.MatchAttributes.

// VerifPickerUpstreams returns the endpoint names the picker chooses from
// (policy.UpstreamSubset or all endpoints of the cluster), ok=false when the
// picker is not the package's own strategy type.
func VerifPickerUpstreams(p EndpointPicker) ([]string, bool) {
	s, ok := p.(*endpointPickStrategy)
	if !ok || s == nil {
		return nil, false
	}
	out := make([]string, len(s.upstreams))
	copy(out, s.upstreams)
	return out, true
}
