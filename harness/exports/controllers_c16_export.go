//go:build verif

package controllers

// Add-only export for the C16 correspondence harness: names the unexported
// sync handler of the real UpstreamClusterController (built with the public
// NewUpstreamClusterController) and projects its result.

func (m *UpstreamClusterController) VerifC16Sync(obj interface{}) (requeue bool, err error) {
	res, err := m.syncUpstreamCluster(obj)
	return res.RequeueAfter != 0 || res.Requeue, err
}
