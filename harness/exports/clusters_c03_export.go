//go:build verif

package clusters

// Add-only names for C03/C15: read-only views of unexported endpoint state and
// the ticker seam.  The seam is the only instrumentation: the check regenerates
// pkg/clusters/endpoint.go from the CURRENT file with the single textual change
// `time.NewTicker(interval)` -> `verifNewTicker(e, interval)`, so that the
// harness decides when a health-check tick fires.  Everything else in that file
// is the code under test, unchanged.

import (
	"runtime"
	"strconv"
	"strings"
	"sync/atomic"
	"time"
)

// VerifTicker stands in for *time.Ticker inside startGatewayHealthCheck: a
// channel of capacity 1 (as time.Ticker has) and Stop().
type VerifTicker struct {
	C       chan time.Time
	E       *EndpointInfo
	Gid     int64 // id of the ticker goroutine (the one that called NewTicker)
	stopped int32
}

func (t *VerifTicker) Stop()         { atomic.StoreInt32(&t.stopped, 1) }
func (t *VerifTicker) Stopped() bool { return atomic.LoadInt32(&t.stopped) == 1 }

// Fire is what the runtime timer does: a non-blocking send on the 1-buffered channel.
func (t *VerifTicker) Fire() bool {
	select {
	case t.C <- time.Time{}:
		return true
	default:
		return false
	}
}

// VerifTickerHook is called (from the ticker goroutine) for every ticker created.
var VerifTickerHook func(t *VerifTicker)

func verifGoroutineID() int64 {
	buf := make([]byte, 64)
	n := runtime.Stack(buf, false)
	f := strings.Fields(string(buf[:n]))
	if len(f) >= 2 {
		if v, err := strconv.ParseInt(f[1], 10, 64); err == nil {
			return v
		}
	}
	return -1
}

func verifNewTicker(e *EndpointInfo, _ time.Duration) *VerifTicker {
	t := &VerifTicker{C: make(chan time.Time, 1), E: e, Gid: verifGoroutineID()}
	if VerifTickerHook != nil {
		VerifTickerHook(t)
	}
	return t
}

// VerifHealthChanLen = len(e.healthCheckCh) (0 when the channel was never made).
func VerifHealthChanLen(e *EndpointInfo) int {
	if e.healthCheckCh == nil {
		return 0
	}
	return len(e.healthCheckCh)
}

// VerifEndpointFlags reads the status fields and whether a probe context is installed.
func VerifEndpointFlags(e *EndpointInfo) (disabled, healthy bool, unhealthyCount int, probing bool) {
	e.status.mux.RLock()
	disabled, healthy, unhealthyCount = e.status.Disabled, e.status.Healthy, e.status.UnhealthyCount
	e.status.mux.RUnlock()
	e.Lock()
	probing = e.cancelHealthCheck != nil
	e.Unlock()
	return
}

// VerifDrainHealthChan empties the trigger channel (harness clean-up between cases only).
func VerifDrainHealthChan(e *EndpointInfo) {
	if e.healthCheckCh == nil {
		return
	}
	for {
		select {
		case <-e.healthCheckCh:
		default:
			return
		}
	}
}
