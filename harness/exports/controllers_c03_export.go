//go:build verif

package controllers

import (
	"context"

	proxylisters "github.com/kubewharf/kubegateway/pkg/client/listers/proxy/v1alpha1"
	"github.com/kubewharf/kubegateway/pkg/clusters"
)

// VerifC03NewController builds the controller around an injected lister (no
// informer, no queue, local rate limiter); the harness plays the informer.
func VerifC03NewController(lister proxylisters.UpstreamClusterLister) *UpstreamClusterController {
	ctx, cancel := context.WithCancel(context.Background())
	return &UpstreamClusterController{ctx: ctx, cancel: cancel, lister: lister, Manager: clusters.NewManager()}
}

// VerifC03Sync names the unexported sync handler (create / update / delete path).
func VerifC03Sync(m *UpstreamClusterController, obj interface{}) error {
	_, err := m.syncUpstreamCluster(obj)
	return err
}
