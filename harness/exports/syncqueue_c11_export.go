//go:build verif

package syncqueue

// Add-only export for the C10/C11 correspondence harness: the harness hands events to the
// real ResourceEventHandler and then lets the real worker step process them one at a time
// (no worker goroutine), observing what the sync handler answered.

// VerifProcessNext runs one real worker step (blocks if the queue is empty).
func (sq *SyncQueue) VerifProcessNext() bool { return sq.processNextWorkItem() }

// VerifWrapHandler wraps the queue's sync handler (to record its results).
func (sq *SyncQueue) VerifWrapHandler(wrap func(SyncHandler) SyncHandler) { sq.syncHandler = wrap(sq.syncHandler) }
