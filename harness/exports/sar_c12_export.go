//go:build verif

package subjectaccessreview

// Add-only accessors for the C12 harness.

import (
	"encoding/json"
	"sort"

	"k8s.io/apimachinery/pkg/util/cache"
	"k8s.io/apiserver/pkg/authorization/authorizer"
)

// VerifCacheHosts lists the hosts that currently own a SAR cache.
func VerifCacheHosts(z authorizer.Authorizer) []string {
	a := z.(*MultiClusterSubjectAccessReviewAuthorizer)
	out := []string{}
	a.caches.Range(func(k, _ interface{}) bool {
		out = append(out, k.(string))
		return true
	})
	sort.Strings(out)
	return out
}

// VerifEvict removes the entry of these attributes from one host's LRU cache
// (what LRU eviction may do at any time).
func VerifEvict(z authorizer.Authorizer, host string, attr authorizer.Attributes) bool {
	a := z.(*MultiClusterSubjectAccessReviewAuthorizer)
	c, ok := a.caches.Load(host)
	if !ok {
		return false
	}
	r := a.subjectAccessReviewFromAttributes(attr)
	key, err := json.Marshal(r.Spec)
	if err != nil {
		return false
	}
	c.(*cache.LRUExpireCache).Remove(string(key))
	return true
}
