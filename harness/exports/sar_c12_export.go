//go:build verif

package subjectaccessreview

// Add-only accessors for the C12 harness.

import (
	"encoding/json"
	"reflect"
	"sort"

	"k8s.io/apimachinery/pkg/util/cache"
	"k8s.io/apiserver/pkg/authorization/authorizer"
)

// VerifCacheHosts lists the hosts that currently own a SAR cache.
func VerifCacheHosts(z authorizer.Authorizer) []string {
	a := z.(*MultiClusterSubjectAccessReviewAuthorizer)
	out := []string{}
	a.caches.Range(func(k, _ interface{}) bool {
		out = append(out, verifKeyHost(k))
		return true
	})
	sort.Strings(out)
	uniq := out[:0]
	for i, h := range out {
		if i == 0 || h != out[i-1] {
			uniq = append(uniq, h)
		}
	}
	return uniq
}

// verifKeyHost: the host of a caches key, whether the key is the host itself
// or a struct with a host field (the accessors must compile against both).
func verifKeyHost(k interface{}) string {
	if s, ok := k.(string); ok {
		return s
	}
	v := reflect.ValueOf(k)
	if v.Kind() == reflect.Struct {
		if f := v.FieldByName("host"); f.IsValid() && f.Kind() == reflect.String {
			return f.String()
		}
	}
	return "?"
}

// VerifEvict removes the entry of these attributes from one host's LRU cache
// (what LRU eviction may do at any time).
func VerifEvict(z authorizer.Authorizer, host string, attr authorizer.Attributes) bool {
	a := z.(*MultiClusterSubjectAccessReviewAuthorizer)
	r := a.subjectAccessReviewFromAttributes(attr)
	key, err := json.Marshal(r.Spec)
	if err != nil {
		return false
	}
	found := false
	a.caches.Range(func(k, c interface{}) bool {
		if verifKeyHost(k) == host {
			c.(*cache.LRUExpireCache).Remove(string(key))
			found = true
		}
		return true
	})
	return found
}

// VerifCacheKey: one key of the caches map — its host and, when the key carries
// one (struct key with a cluster field), the identity of the ClusterInfo.
type VerifCacheKey struct {
	Host    string
	Cluster uintptr // 0: the key does not name a cluster
}

func verifKeyCluster(k interface{}) uintptr {
	v := reflect.ValueOf(k)
	if v.Kind() == reflect.Struct {
		if f := v.FieldByName("cluster"); f.IsValid() && f.Kind() == reflect.Ptr {
			return f.Pointer()
		}
	}
	return 0
}

// VerifCacheKeys lists the keys of the SAR caches map.
func VerifCacheKeys(z authorizer.Authorizer) []VerifCacheKey {
	a := z.(*MultiClusterSubjectAccessReviewAuthorizer)
	out := []VerifCacheKey{}
	a.caches.Range(func(k, _ interface{}) bool {
		out = append(out, VerifCacheKey{Host: verifKeyHost(k), Cluster: verifKeyCluster(k)})
		return true
	})
	return out
}
