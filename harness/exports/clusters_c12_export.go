//go:build verif

package clusters

// Add-only hook for the C12 harness: give an endpoint of a real ClusterInfo a
// scripted (fake) clientset instead of the one built from its rest config.

import "k8s.io/client-go/kubernetes"

func VerifSetClientset(e *EndpointInfo, cs kubernetes.Interface) { e.clientset = cs }
