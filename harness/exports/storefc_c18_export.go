//go:build verif

package flowcontrol

import "sync/atomic"

// VerifMaxInflightState returns a copy of the per-instance counts and the running
// total of a global max-in-flight flow control (ok = false for other kinds).
func VerifMaxInflightState(fc GlobalFlowControl) (map[string]int32, int32, bool) {
	f, ok := fc.(*globalMaxInflight)
	if !ok {
		return nil, 0, false
	}
	f.lock.RLock()
	defer f.lock.RUnlock()
	out := map[string]int32{}
	for k, v := range f.instanceStates {
		if v != nil {
			out[k] = atomic.LoadInt32(&v.count)
		}
	}
	return out, atomic.LoadInt32(&f.count), true
}
