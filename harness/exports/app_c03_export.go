//go:build verif

package app

import (
	"net/http"

	genericapiserver "k8s.io/apiserver/pkg/server"

	"github.com/kubewharf/kubegateway/pkg/clusters"
)

// VerifC03BuildProxyHandlerChain names the unexported builder of the proxy
// handler chain (all filters + dispatcher), default options.
func VerifC03BuildProxyHandlerChain(cm clusters.Manager) func(http.Handler, *genericapiserver.Config) http.Handler {
	return buildProxyHandlerChainFunc(&proxyHandlerOptions{clusterManager: cm})
}
