//go:build verif

package webhook

// Add-only accessors for the C12 harness.

import (
	"reflect"
	"sort"

	"k8s.io/apiserver/pkg/authentication/authenticator"
	tokencache "k8s.io/apiserver/pkg/authentication/token/cache"
)

// VerifCacheHosts lists the hosts that currently own a token cache.
func VerifCacheHosts(t authenticator.Token) []string {
	a := t.(*multiClusterTokenReviewAuthenticator)
	out := []string{}
	a.caches.Range(func(k, _ interface{}) bool {
		out = append(out, verifKeyHost(k))
		return true
	})
	sort.Strings(out)
	uniq := out[:0]
	for i, h := range out {
		if i == 0 || h != out[i-1] {
			uniq = append(uniq, h)
		}
	}
	return uniq
}

// verifKeyHost: the host of a caches key, whether the key is the host itself
// or a struct with a host field (the accessors must compile against both).
func verifKeyHost(k interface{}) string {
	if s, ok := k.(string); ok {
		return s
	}
	v := reflect.ValueOf(k)
	if v.Kind() == reflect.Struct {
		if f := v.FieldByName("host"); f.IsValid() && f.Kind() == reflect.String {
			return f.String()
		}
	}
	return "?"
}

// VerifEvict removes one token's record from one host's cache (what the
// cache's own garbage collection may do at any time).
func VerifEvict(t authenticator.Token, host, token string) bool {
	a := t.(*multiClusterTokenReviewAuthenticator)
	found := false
	a.caches.Range(func(k, c interface{}) bool {
		if verifKeyHost(k) == host {
			tokencache.VerifRemove(c.(authenticator.Token), token)
			found = true
		}
		return true
	})
	return found
}

// VerifCacheKey: one key of the caches map — its host and, when the key carries
// one (struct key with a cluster field), the identity of the ClusterInfo.
type VerifCacheKey struct {
	Host    string
	Cluster uintptr // 0: the key does not name a cluster
}

func verifKeyCluster(k interface{}) uintptr {
	v := reflect.ValueOf(k)
	if v.Kind() == reflect.Struct {
		if f := v.FieldByName("cluster"); f.IsValid() && f.Kind() == reflect.Ptr {
			return f.Pointer()
		}
	}
	return 0
}

// VerifCacheKeys lists the keys of the token caches map.
func VerifCacheKeys(t authenticator.Token) []VerifCacheKey {
	a := t.(*multiClusterTokenReviewAuthenticator)
	out := []VerifCacheKey{}
	a.caches.Range(func(k, _ interface{}) bool {
		out = append(out, VerifCacheKey{Host: verifKeyHost(k), Cluster: verifKeyCluster(k)})
		return true
	})
	return out
}
