//go:build verif

package webhook

// Add-only accessors for the C12 harness.

import (
	"sort"

	"k8s.io/apiserver/pkg/authentication/authenticator"
	tokencache "k8s.io/apiserver/pkg/authentication/token/cache"
)

// VerifCacheHosts lists the hosts that currently own a token cache.
func VerifCacheHosts(t authenticator.Token) []string {
	a := t.(*multiClusterTokenReviewAuthenticator)
	out := []string{}
	a.caches.Range(func(k, _ interface{}) bool {
		out = append(out, k.(string))
		return true
	})
	sort.Strings(out)
	return out
}

// VerifEvict removes one token's record from one host's cache (what the
// cache's own garbage collection may do at any time).
func VerifEvict(t authenticator.Token, host, token string) bool {
	a := t.(*multiClusterTokenReviewAuthenticator)
	c, ok := a.caches.Load(host)
	if !ok {
		return false
	}
	tokencache.VerifRemove(c.(authenticator.Token), token)
	return true
}
